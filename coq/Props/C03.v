(** C03 - relative branches and jumps reach exactly the target that was named.
    Property theorems only; proofs are in Proofs/Enc*.v. *)
From Coq Require Import List ZArith NArith String.
Import ListNotations.
Require Import AvraV.Model.Base AvraV.Model.Ast AvraV.Model.Device AvraV.Model.Eval AvraV.Model.Encode.
Require Import AvraV.Spec.Isa AvraV.Proofs.EncCheck AvraV.Proofs.EncProofs AvraV.Gen.Devices.
Local Open Scope string_scope.
Local Open Scope Z_scope.

(** the relative spellings: rjmp, rcall, brbs, brbc and the 18 br<cond> aliases *)
Definition relative_spelling (s : spelling) : Prop := In s spellings /\ rel_op (op_of (sp_name s)) = true.

(** Reachable target: for every relative spelling, every instruction address [pc], every target [t]
    whose displacement d = t - (pc+1) fits the field (and every status bit for brbs/brbc, carried by
    [pre]), the encoder emits the instruction, and the independent decoder reads back the statement
    with exactly the displacement d: target = address of the instruction + 1 + d. *)
Theorem C03_reachable :
  forall (c : core) (s : spelling) (fuel : nat) (cx : ctx) (args : list iop) (pre : list warg) (t pc : Z),
  relative_spelling s -> is_avr8l (dev cx) = isred c -> 0 <= pc ->
  fits (sp_ops s) (pre ++ [WExp (t - (pc + 1))])%list = true ->
  map (view_of fuel cx) args = map wview (pre ++ [WExp t])%list ->
  exists words, process fuel cx (op_of (sp_name s)) args (Z.to_N pc) = Ok (bytes_of words) /\
    decode c words = canon_norm (sp_name s) (pre ++ [WExp (t - (pc + 1))])%list.
Proof. exact branch_reachable. Qed.
Print Assumptions C03_reachable.

(** Unreachable target: whatever precedes the target operand, a displacement outside -64..63
    (branches) / -2048..2047 (rjmp, rcall) never yields machine code - no wrapping, no truncation. *)
Theorem C03_unreachable :
  forall (a : bool) (op : operation) (vs0 : list view) (t pc : Z),
  rel_op op = true -> 0 <= pc ->
  ~ (- 2 ^ (rel_bits op - 1) <= t - (pc + 1) < 2 ^ (rel_bits op - 1)) ->
  is_ok (process_v a op (vs0 ++ [wview (WExp t)])%list (Z.to_N pc)) = false.
Proof. exact rel_reject. Qed.
Print Assumptions C03_unreachable.

(** PROGRAM LEVEL.  In every program that passes 1 and 2 accept (any interleaving of segments, .org gaps,
    data, other instructions before and after), a relative instruction standing anywhere in a code segment
    is found in the flash image as  before ++ bs ++ after  with |before| = 2 * a, where a is ALSO the
    address the encoder computed the displacement from (the symbol pc reads a as well), and the operands
    are evaluated over the labels, .equ and #define tables exactly as pass 1 left them (positions of labels:
    C02_label).  Hence, whatever target value t the operand denotes: the word at byte 2a of the image decodes
    to the statement with displacement t - (a + 1) - the jump lands on t - whenever that displacement fits;
    and ([C03_never_out_of_reach]) an image never contains a relative instruction whose displacement does not. *)
Require Import AvraV.Model.Parse AvraV.Model.Passes AvraV.Proofs.LayoutProofs AvraV.Proofs.BranchProofs.
Local Open Scope N_scope.
Theorem C03_in_program : forall (k : core) (s : spelling) fuel c segs r1 r2,
  pass1 c segs = Ok r1 -> pass2 fuel (p1_ctx r1) (p1_segs r1) = Ok r2 -> Forall plain_seg segs ->
  2 * flash_size (dev c) < lim31 -> eeprom_size (dev c) < lim31 ->
  relative_spelling s -> is_avr8l (dev c) = isred k ->
  forall pre sg post ipre cp args ipost,
    segs = (pre ++ sg :: post)%list -> seg_t sg = SCode ->
    items sg = (ipre ++ (cp, IInstr (op_of (sp_name s)) args) :: ipost)%list ->
  exists a cx before bs after,
    p2_code r2 = (before ++ bs ++ after)%list /\ N.of_nat (length before) = 2 * a /\
    labels cx = labels (p1_ctx r1) /\ equs cx = equs (p1_ctx r1) /\ defines cx = defines (p1_ctx r1) /\ dev cx = dev c /\
    get_special cx (lit "pc") = Some (EConst (Z.of_N a)) /\
    forall (pre_w : list warg) (t : Z),
      map (view_of fuel cx) args = map wview (pre_w ++ [WExp t])%list ->
      fits (sp_ops s) (pre_w ++ [WExp (t - (Z.of_N a + 1))%Z])%list = true ->
      exists words, bs = bytes_of words /\
        decode k words = canon_norm (sp_name s) (pre_w ++ [WExp (t - (Z.of_N a + 1))%Z])%list.
Proof. exact branch_in_program. Qed.
Print Assumptions C03_in_program.
Theorem C03_never_out_of_reach : forall fuel c segs r1 r2,
  pass1 c segs = Ok r1 -> pass2 fuel (p1_ctx r1) (p1_segs r1) = Ok r2 -> Forall plain_seg segs ->
  2 * flash_size (dev c) < lim31 -> eeprom_size (dev c) < lim31 ->
  forall pre sg post ipre cp op args ipost,
    segs = (pre ++ sg :: post)%list -> seg_t sg = SCode -> rel_op op = true ->
    items sg = (ipre ++ (cp, IInstr op args) :: ipost)%list ->
  exists a cx before bs after,
    p2_code r2 = (before ++ bs ++ after)%list /\ N.of_nat (length before) = 2 * a /\ labels cx = labels (p1_ctx r1) /\
    forall (vs0 : list view) (t : Z),
      map (view_of fuel cx) args = (vs0 ++ [wview (WExp t)])%list ->
      (- 2 ^ (rel_bits op - 1) <= t - (Z.of_N a + 1) < 2 ^ (rel_bits op - 1))%Z.
Proof. exact branch_fits_in_program. Qed.
Print Assumptions C03_never_out_of_reach.
(** a name that is bound only as a label denotes, as an operand, the label's position *)
Theorem C03_label_operand : forall fuel cx L seg t,
  get_define cx L = None -> get_equ cx L = None -> get_set cx L = None -> get_special cx L = None -> get_def cx L = None ->
  lookup (lower L) (labels cx) = Some (seg, t) ->
  view_of (S fuel) cx (OE (EIdent L)) = wview (WExp (Z.of_N t)).
Proof. exact label_reference. Qed.
Local Open Scope Z_scope.

Example C03_examples :
  relative_spelling {| sp_name := "brne"; sp_core := CAny; sp_ops := [PExp k_ (KRel 7)] |} /\
  rel_bits (OBr BrNe) = 7 /\ rel_bits ORjmp = 12 /\
  process 3 (ctx_new default_device) (OBr BrNe) [OE (EConst 37)] 100 = Ok [0x01; 0xF6]%N /\
  decode Full [0xF601] = Some ("brbc", [WExp 1; WExp (-64)]) /\
  is_ok (process 3 (ctx_new default_device) (OBr BrNe) [OE (EConst 36)] 100) = false /\
  is_ok (process 3 (ctx_new default_device) ORjmp [OE (EConst 2149)] 100) = false /\
  is_ok (process 3 (ctx_new default_device) ORjmp [OE (EConst 2148)] 100) = true.
Proof. vm_compute. repeat split; try reflexivity. repeat (first [left; reflexivity | right]). Qed.

(** whole pipeline: the label stands at word 1; the branches at words 16, 17 (after an .org gap and a data
    segment in between) decode to displacements 1-(16+1), 1-(17+1); `rcall pc` calls itself *)
Definition word_at (img : list N) (a : nat) : list Z :=
  match skipn (2 * a) img with lo :: hi :: _ => [Z.of_N (lo + 256 * hi)%N] | _ => [] end.
Definition nl := String (Ascii.ascii_of_N 10) EmptyString.
Example C03_program_example :
  let prog := " nop" ++ nl ++ "target: nop" ++ nl ++ ".dseg" ++ nl ++ " .byte 3" ++ nl ++ ".cseg" ++ nl ++ ".org 0x10" ++ nl ++
              " brne target" ++ nl ++ " rjmp target" ++ nl ++ " rcall pc" ++ nl in
  match build_str 200 (list_ascii_of_string prog) with
  | Ok b => Some (decode Full (word_at (b_code b) 16), decode Full (word_at (b_code b) 17), decode Full (word_at (b_code b) 18))
  | _ => None
  end = Some (Some ("brbc", [WExp 1; WExp (-16)]), Some ("rjmp", [WExp (-17)]), Some ("rcall", [WExp (-1)])).
Proof. vm_compute. reflexivity. Qed.
