(** C06 - data directives emit exactly the bytes written, little-endian, exact width.
    Property theorems only; proofs are in Proofs/DataProofs.v. *)
From Coq Require Import List ZArith NArith String.
Import ListNotations.
Require Import AvraV.Model.Base AvraV.Model.Ast AvraV.Model.Eval AvraV.Model.Parse AvraV.Model.Passes.
Require Import AvraV.Spec.DataSpec AvraV.Proofs.DataProofs.

(** For every data directive and every operand list (any length, any mix of expressions and
    strings), reading the value of each expression off the evaluator ([val]): the bytes pass 2
    emits are exactly the operands in source order as 1/2/4/8-byte little-endian two's complement
    values and strings as their bytes (Spec/DataSpec.spec_data); the directive fails exactly when
    a value does not fit its width, has no value, or a string appears in .dw/.dd/.dq. *)
Theorem C06_data : forall fuel c k (val : expr -> option Z) l,
  (forall e, In (PE e) l -> run fuel c e = match val e with Some v => Ok v | None => Err None end) ->
  data_bytes fuel c k l = to_resl (spec_data val k l).
Proof. intros; apply data_spec; assumption. Qed.
Check C06_data : forall fuel c k (val : expr -> option Z) l,
  (forall e, In (PE e) l -> run fuel c e = match val e with Some v => Ok v | None => Err None end) ->
  data_bytes fuel c k l = to_resl (spec_data val k l).
Print Assumptions C06_data.

(** Segments: in flash a .db line of odd length is padded by appending one zero element (pass 1), in
    EEPROM nothing is added; data directives in the data segment and .byte in the code segment are
    errors naming the line; .byte n in EEPROM emits n zero bytes. *)
Theorem C06_flash_padding : forall c cur out cp l,
  let l' := if (actual_len l mod 2 =? 1)%N then l ++ [PE (EConst 0)] else l in
  pass1_item SCode (c, cur, out) (cp, IData Db l) =
    (do x <- advance (fst cp) cur (actual_len l' / 2)%N; Ok (c, x, out ++ [(cp, IData Db l')])).
Proof. intros. subst l'. unfold pass1_item. cbn [fst]. destruct (actual_len l mod 2 =? 1)%N; reflexivity. Qed.
Theorem C06_eeprom_no_padding : forall c cur out cp l,
  pass1_item SEeprom (c, cur, out) (cp, IData Db l) = (do x <- advance (fst cp) cur (actual_len l); Ok (c, x, out ++ [(cp, IData Db l)])).
Proof. reflexivity. Qed.
Theorem C06_wrong_segment : forall c cur out cp k l n,
  pass1_item SData (c, cur, out) (cp, IData k l) = Err (Some (fst cp)) /\
  pass1_item SCode (c, cur, out) (cp, IReserve n) = Err (Some (fst cp)).
Proof. intros. split; [destruct k|]; reflexivity. Qed.
Theorem C06_reserve_eeprom : forall fuel c cur out cp n x,
  add32 cur (as_u32 n) = Ok x ->
  pass2_item fuel SEeprom (c, cur, out) (cp, IReserve n) = Ok (ctx_set_pc c cur, x, out ++ repeat 0%N (Z.to_nat n)).
Proof. intros. unfold pass2_item. rewrite H. reflexivity. Qed.
Print Assumptions C06_reserve_eeprom.

Definition images (src : string) : option (list N * list N) :=
  match build_str 200 (list_ascii_of_string src) with Ok b => Some (b_code b, b_eeprom b) | _ => None end.
Definition nl := String (Ascii.ascii_of_N 10) EmptyString.
Example C06_examples :
  images (".db 1, ""ab""" ++ nl ++ ".dw -2" ++ nl) = Some ([1; 97; 98; 0; 254; 255], [])%N /\
  images (".eseg" ++ nl ++ ".db 1" ++ nl ++ ".byte 2" ++ nl ++ ".dd 0x01020304" ++ nl) = Some ([], [1; 0; 0; 4; 3; 2; 1])%N /\
  images (".db 256" ++ nl) = None /\ images (".dw ""ab""" ++ nl) = None /\ images (".dseg" ++ nl ++ ".db 1" ++ nl) = None /\
  spec_data (fun _ => Some (-2)%Z) Dd [PE (EConst 0)] = Some [254; 255; 255; 255]%N /\
  spec_data (fun _ => Some 65536%Z) Dw [PE (EConst 0)] = None.
Proof. vm_compute. repeat split; reflexivity. Qed.

(** IN A PROGRAM.  Wherever a data directive stands - any segment order, .org gaps, instructions and other data around it - the
    bytes [C06_data] specifies for its operands, evaluated at the directive's own location a (the symbol pc reads a; labels are the
    ones pass 1 placed), are found in the flash image at byte 2a resp. in the EEPROM image at byte a.  In flash a .db list of odd
    length is the list with one zero byte more ([padded]). *)
Require Import AvraV.Model.Device AvraV.Model.Parse AvraV.Model.Passes AvraV.Proofs.LayoutProofs AvraV.Proofs.BranchProofs.
Open Scope N_scope.
Theorem C06_in_program : forall fuel c segs r1 r2,
  pass1 c segs = Ok r1 -> pass2 fuel (p1_ctx r1) (p1_segs r1) = Ok r2 -> Forall plain_seg segs ->
  2 * flash_size (dev c) < lim31 -> eeprom_size (dev c) < lim31 ->
  forall pre sg post ipre cp k l ipost,
    segs = (pre ++ sg :: post)%list -> seg_t sg <> SData -> items sg = (ipre ++ (cp, IData k l) :: ipost)%list ->
  exists a ca before bs after,
    (match seg_t sg with SCode => p2_code r2 | _ => p2_eeprom r2 end) = (before ++ bs ++ after)%list /\
    N.of_nat (length before) = unit_of (seg_t sg) * a /\
    labels ca = labels (p1_ctx r1) /\ dev ca = dev c /\
    data_bytes fuel (ctx_set_pc ca a) k (padded (seg_t sg) k l) = Ok bs.
Proof. exact data_lands. Qed.
Print Assumptions C06_in_program.
