(** C05 (semantic half): Expr::run as modelled computes the documented operator semantics. *)
From Coq Require Import List NArith ZArith Bool Lia ZifyBool.
Import ListNotations.
Require Import AvraV.Model.Base AvraV.Model.Ast AvraV.Model.Device AvraV.Model.Eval AvraV.Spec.ExprSpec.
Local Open Scope Z_scope.
Ltac Zify.zify_post_hook ::= Z.div_mod_to_equations.

Definition to_res (o : option Z) : res Z := match o with Some v => Ok v | None => Err None end.

Lemma checked_exact z : checked z = to_res (exact z).
Proof. unfold checked, exact, in_i64, fits64, i64_min, i64_max. destruct (_ && _); reflexivity. Qed.
Lemma wrap_signed z : wrap64 z = signed64 z.
Proof. unfold wrap64, signed64, two64, i64_max. cbv zeta.
  destruct (Z.leb_spec (z mod 18446744073709551616) 9223372036854775807);
  destruct (Z.ltb_spec (z mod 18446744073709551616) 9223372036854775808); try reflexivity; lia. Qed.

Lemma bin_spec o l r : eval_bin o l r = to_res (spec_bin o l r).
Proof.
  destruct o; cbn [eval_bin spec_bin]; rewrite ?checked_exact; try reflexivity.
  - destruct (r =? 0); reflexivity.
  - destruct (r =? 0); [reflexivity|]. unfold i64_min. destruct (_ && _); reflexivity.
  - replace ((0 <=? r) && (r <=? 63)) with (negb ((r <? 0) || (63 <? r))) by lia.
    destruct ((r <? 0) || (63 <? r)); cbn [negb to_res]; [reflexivity|]. rewrite wrap_signed. reflexivity.
  - replace ((0 <=? r) && (r <=? 63)) with (negb ((r <? 0) || (63 <? r))) by lia.
    destruct ((r <? 0) || (63 <? r)) eqn:E; cbn [negb to_res]; [reflexivity|].
    rewrite Z.shiftr_div_pow2 by lia. reflexivity.
  - unfold b2z, truth, to_res. rewrite Z.gtb_ltb. reflexivity.
  - unfold b2z, truth, to_res. rewrite Z.geb_leb. reflexivity.
Qed.

Lemma un_spec o v : eval_un o v = to_res (spec_un o v).
Proof. destruct o; cbn [eval_un spec_un]; rewrite ?checked_exact; reflexivity. Qed.

Lemma str_eqb_eq a : forall b, str_eqb a b = true -> a = b.
Proof.
  induction a as [|x a IH]; intros [|y b] H; cbn in H; try discriminate; [reflexivity|].
  apply andb_prop in H. destruct H as [H1 H2]. apply Ascii.eqb_eq in H1. rewrite (IH _ H2), H1. reflexivity.
Qed.

Lemma fn_spec name v r : spec_fn (fn_of name) v = Some r -> eval_func name v = to_res r.
Proof.
  unfold fn_of, eval_func. cbv zeta.
  set (is := fun x => str_eqb (lower name) (lit x)).
  change (str_eqb (lower name) (lit "low")) with (is "low"%string).
  change (str_eqb (lower name) (lit "high")) with (is "high"%string).
  change (str_eqb (lower name) (lit "byte2")) with (is "byte2"%string).
  change (str_eqb (lower name) (lit "byte3")) with (is "byte3"%string).
  change (str_eqb (lower name) (lit "byte4")) with (is "byte4"%string).
  change (str_eqb (lower name) (lit "lwrd")) with (is "lwrd"%string).
  change (str_eqb (lower name) (lit "hwrd")) with (is "hwrd"%string).
  change (str_eqb (lower name) (lit "exp2")) with (is "exp2"%string).
  unfold to_u64, two64.
  destruct (is "low"%string); [cbn [spec_fn]; intros [= <-]; cbn [to_res]; f_equal; lia|].
  destruct (is "high"%string); [cbn [spec_fn orb]; intros [= <-]; cbn [to_res]; f_equal; lia|].
  destruct (is "byte2"%string); [cbn [spec_fn orb]; intros [= <-]; cbn [to_res]; f_equal; lia|].
  cbn [orb].
  destruct (is "byte3"%string); [cbn [spec_fn]; intros [= <-]; cbn [to_res]; f_equal; lia|].
  destruct (is "byte4"%string); [cbn [spec_fn]; intros [= <-]; cbn [to_res]; f_equal; lia|].
  destruct (is "lwrd"%string); [cbn [spec_fn]; intros [= <-]; cbn [to_res]; f_equal; lia|].
  destruct (is "hwrd"%string); [cbn [spec_fn]; intros [= <-]; cbn [to_res]; f_equal; lia|].
  change (str_eqb (lower name) (lit "page")) with (is "page"%string).
  destruct (is "page"%string) eqn:Ep.
  { destruct (is "exp2"%string) eqn:Ee; [|cbn [spec_fn]; discriminate].
    unfold is in Ep, Ee. apply str_eqb_eq in Ep, Ee. rewrite Ep in Ee. discriminate. }
  destruct (is "exp2"%string).
  - cbn [spec_fn]. intros [= <-].
    replace ((0 <=? v) && (v <=? 63)) with (negb ((v <? 0) || (63 <? v))) by lia.
    destruct ((v <? 0) || (63 <? v)); cbn [negb to_res]; [reflexivity|]. rewrite wrap_signed. reflexivity.
  - cbn [spec_fn]. discriminate.
Qed.

(** The values of the symbols are whatever the context gives ([env]); under that reading every
    expression tree evaluates to exactly what the documented operator table defines - or fails
    exactly when the table says the build must fail.  ([spec_eval] = None means the tree uses a
    function outside the documented set; a result [OutOfFuel] is the model's artefact for an
    unbounded chain of symbol definitions and is excluded.) *)
Theorem run_n_spec (c : ctx) (d : nat) (env : str -> option Z) :
  (forall n f r, run_n f d c (EIdent n) = r -> r <> OutOfFuel -> r = to_res (env n)) ->
  forall f e r s, run_n f d c e = r -> r <> OutOfFuel -> spec_eval env e = Some s -> r = to_res s.
Proof.
  intros Henv f. induction f as [|f IH]; intros e r s Hr Hnf Hs; [cbn in Hr; congruence|].
  destruct e as [n | z | fn a | l o rr | o x].
  - cbn [spec_eval] in Hs. injection Hs as <-. eapply Henv; eauto.
  - cbn in Hr, Hs. injection Hs as <-. subst. reflexivity.
  - cbn [run_n] in Hr. destruct fn as [name | | | |]; cbn [spec_eval] in Hs.
    2-5: injection Hs as <-; subst; reflexivity.
    destruct (spec_eval env a) as [[v|]|] eqn:Ea; [| |discriminate].
    + destruct (run_n f d c a) as [v'| | |] eqn:Er.
      * assert (Ok v' = to_res (Some v)) as E by (eapply IH; eauto; congruence). cbn in E. injection E as ->.
        cbn [bind] in Hr. subst r. apply fn_spec. exact Hs.
      * assert (Err line = to_res (Some v)) as E by (eapply IH; eauto; congruence). discriminate.
      * assert (@Panic Z = to_res (Some v)) as E by (eapply IH; eauto; congruence). discriminate.
      * cbn in Hr. congruence.
    + destruct (fn_of name) eqn:Ef; try discriminate; injection Hs as <-;
        (destruct (run_n f d c a) as [v'| | |] eqn:Er;
         [ assert (Ok v' = to_res None) as E by (eapply IH; eauto; congruence); discriminate
         | assert (Err line = to_res None) as E by (eapply IH; eauto; congruence); cbn [bind] in Hr; subst r; exact E
         | assert (@Panic Z = to_res None) as E by (eapply IH; eauto; congruence); discriminate
         | cbn in Hr; congruence ]).
  - cbn [run_n] in Hr. cbn [spec_eval] in Hs.
    destruct (spec_eval env l) as [sl|] eqn:El; [|discriminate].
    destruct (run_n f d c l) as [a| | |] eqn:Ea; cbn [bind] in Hr; [| | |congruence].
    + assert (Ok a = to_res sl) as E1 by (eapply IH; eauto; congruence).
      destruct sl as [a'|]; [|discriminate]. cbn in E1. injection E1 as <-.
      destruct (spec_eval env rr) as [sr|] eqn:Er; [|discriminate].
      destruct (run_n f d c rr) as [b| | |] eqn:Eb; cbn [bind] in Hr; [| | |congruence].
      * assert (Ok b = to_res sr) as E2 by (eapply IH; eauto; congruence).
        destruct sr as [b'|]; [|discriminate]. cbn in E2. injection E2 as <-.
        injection Hs as <-. subst r. apply bin_spec.
      * assert (Err line = to_res sr) as E2 by (eapply IH; eauto; congruence).
        destruct sr; [discriminate|]. cbn in E2. injection Hs as <-. subst r. exact E2.
      * assert (@Panic Z = to_res sr) as E2 by (eapply IH; eauto; congruence). destruct sr; discriminate.
    + assert (Err line = to_res sl) as E1 by (eapply IH; eauto; congruence).
      destruct sl; [discriminate|]. cbn in E1.
      destruct (spec_eval env rr) as [sr|]; [|discriminate]. injection Hs as <-. subst r. exact E1.
    + assert (@Panic Z = to_res sl) as E1 by (eapply IH; eauto; congruence). destruct sl; discriminate.
  - cbn [run_n] in Hr. cbn [spec_eval] in Hs.
    destruct (spec_eval env x) as [sx|] eqn:Ex; [|discriminate].
    destruct (run_n f d c x) as [a| | |] eqn:Ea; cbn [bind] in Hr; [| | |congruence].
    + assert (Ok a = to_res sx) as E1 by (eapply IH; eauto; congruence).
      destruct sx as [a'|]; [|discriminate]. cbn in E1. injection E1 as <-. injection Hs as <-. subst r. apply un_spec.
    + assert (Err line = to_res sx) as E1 by (eapply IH; eauto; congruence).
      destruct sx; [discriminate|]. cbn in E1. injection Hs as <-. subst r. exact E1.
    + assert (@Panic Z = to_res sx) as E1 by (eapply IH; eauto; congruence). destruct sx; discriminate.
Qed.

Corollary run_spec (c : ctx) (env : str -> option Z) :
  (forall n f r, run f c (EIdent n) = r -> r <> OutOfFuel -> r = to_res (env n)) ->
  forall f e r s, run f c e = r -> r <> OutOfFuel -> spec_eval env e = Some s -> r = to_res s.
Proof. unfold run. apply run_n_spec. Qed.
