(** C17 - builds are deterministic and independent of each other.
    In the model a build is a FUNCTION of the source text (and of the file system it reads) and of
    nothing else: [build_str] takes no state and returns no state, the device table is a constant.
    The theorems below state that reading explicitly; their content is carried by the ties that make
    the model the code (correspondence, and the source scan of the check that certifies that the
    code has no other global state and iterates no hash map). *)
From Coq Require Import List ZArith NArith String.
Import ListNotations.
Require Import AvraV.Model.Base AvraV.Model.Ast AvraV.Model.Passes AvraV.Gen.Devices.

(** a process is the list of builds it has performed; building never changes what a later build returns *)
Fixpoint run_history (fuel : nat) (h : list str) : list (res build_result) :=
  match h with [] => [] | s :: r => build_str fuel s :: run_history fuel r end.
Theorem C17_history : forall fuel (before after : list str) (src : str),
  nth_error (run_history fuel (before ++ src :: after)) (length before) = Some (build_str fuel src).
Proof.
  intros fuel before after src. induction before as [|b before IH]; [reflexivity | exact IH].
Qed.
Print Assumptions C17_history.
Theorem C17_order_irrelevant : forall fuel (h1 h2 : list str) (src : str),
  In src h1 -> In src h2 ->
  exists i j, nth_error (run_history fuel h1) i = Some (build_str fuel src) /\ nth_error (run_history fuel h2) j = Some (build_str fuel src).
Proof.
  intros fuel h1 h2 src H1 H2.
  destruct (in_split _ _ H1) as (a1 & b1 & ->). destruct (in_split _ _ H2) as (a2 & b2 & ->).
  exists (length a1), (length a2). split; apply C17_history.
Qed.
Print Assumptions C17_order_irrelevant.
