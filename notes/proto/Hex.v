From Coq Require Import List NArith ZArith Lia Bool ZifyBool ZifyN.
Import ListNotations.
Open Scope N_scope.
Ltac Zify.zify_post_hook ::= Z.div_mod_to_equations.
Arguments N.add : simpl never. Arguments N.mul : simpl never. Arguments N.div : simpl never.
Arguments N.modulo : simpl never. Arguments N.sub : simpl never. Arguments N.ltb : simpl never.
Arguments N.eqb : simpl never. Arguments N.leb : simpl never.

(* ---------- writer model: writer.rs + ihex::format_record + "\n" -> "\r\n" ---------- *)
Definition hexd (n:N) : N := if n <? 10 then 48 + n else 55 + n.
Definition hex2 (b:N) : list N := [hexd (b / 16); hexd (b mod 16)].
Fixpoint sumN (l:list N) : N := match l with [] => 0 | x :: r => x + sumN r end.
Definition cks (body:list N) : N := (256 - sumN body mod 256) mod 256.
Definition body_of (ty off:N) (data:list N) : list N :=
  [N.of_nat (length data); off / 256; off mod 256; ty] ++ data.
Definition record (ty off:N) (data:list N) : list N :=
  58 :: concat (map hex2 (body_of ty off data ++ [cks (body_of ty off data)])) ++ [13; 10].

Fixpoint chunks (fuel:nat) (l:list N) : list (list N) :=
  match fuel with O => [] | S f =>
    match l with [] => [] | _ => firstn 16 l :: chunks f (skipn 16 l) end end.

Fixpoint data_records (a:N) (cs:list (list N)) : list N :=
  match cs with
  | [] => []
  | c :: tl =>
      (if (0 <? a) && (a mod 65536 =? 0) then record 4 0 [(a / 65536) / 256; (a / 65536) mod 256] else [])
      ++ record 0 (a mod 65536) c ++ data_records (a + 16) tl
  end.

Definition write (img:list N) : list N :=
  (match img with [] => [] | _ => record 2 0 [0; 0] ++ data_records 0 (chunks (length img) img) end)
  ++ record 1 0 [] ++ [13; 10].

(* ---------- independent reader ---------- *)
Definition unhex (c:N) : option N :=
  if (48 <=? c) && (c <=? 57) then Some (c - 48)
  else if (65 <=? c) && (c <=? 70) then Some (c - 55) else None.
Definition read_byte (s:list N) : option (N * list N) :=
  match s with
  | h :: l :: r => match unhex h, unhex l with Some a, Some b => Some (a * 16 + b, r) | _, _ => None end
  | _ => None end.
Fixpoint read_bytes (n:nat) (s:list N) : option (list N * list N) :=
  match n with O => Some ([], s) | S m =>
    match read_byte s with
    | Some (b, r) => match read_bytes m r with Some (bs, r') => Some (b :: bs, r') | None => None end
    | None => None end end.
Definition parse_record (s:list N) : option (N * N * list N * list N) :=
  match s with
  | 58 :: r0 =>
    match read_byte r0 with Some (ll, r1) =>
    match read_byte r1 with Some (ah, r2) =>
    match read_byte r2 with Some (al, r3) =>
    match read_byte r3 with Some (ty, r4) =>
    match read_bytes (N.to_nat ll) r4 with Some (data, r5) =>
    match read_byte r5 with Some (cc, r6) =>
      if (ll + ah + al + ty + sumN data + cc) mod 256 =? 0 then Some (ty, ah * 256 + al, data, r6) else None
    | None => None end | None => None end | None => None end | None => None end | None => None end | None => None end
  | _ => None end.
Fixpoint skip_eol (s:list N) : list N :=
  match s with c :: r => if (c =? 13) || (c =? 10) then skip_eol r else s | [] => [] end.
Fixpoint addrs (a:N) (bs:list N) : list (N*N) :=
  match bs with [] => [] | b :: r => (a, b) :: addrs (a + 1) r end.
Fixpoint read (fuel:nat) (base:N) (s:list N) (acc:list (N*N)) : option (list (N*N)) :=
  match fuel with O => None | S f =>
    match parse_record (skip_eol s) with
    | Some (ty, off, data, r) =>
        if ty =? 0 then read f base r (acc ++ addrs (base + off) data)
        else if ty =? 1 then match data, skip_eol r with [], [] => Some acc | _, _ => None end
        else if ty =? 2 then match data with [hi; lo] => read f ((hi * 256 + lo) * 16) r acc | _ => None end
        else if ty =? 4 then match data with [hi; lo] => read f ((hi * 256 + lo) * 65536) r acc | _ => None end
        else None
    | None => None
    end end.
Definition read_body (rd : N -> list N -> list (N*N) -> option (list (N*N))) (base:N) (s:list N) (acc:list (N*N)) :=
    match parse_record (skip_eol s) with
    | Some (ty, off, data, r) =>
        if ty =? 0 then rd base r (acc ++ addrs (base + off) data)
        else if ty =? 1 then match data, skip_eol r with [], [] => Some acc | _, _ => None end
        else if ty =? 2 then match data with [hi; lo] => rd ((hi * 256 + lo) * 16) r acc | _ => None end
        else if ty =? 4 then match data with [hi; lo] => rd ((hi * 256 + lo) * 65536) r acc | _ => None end
        else None
    | None => None
    end.
Lemma read_S f base s acc : read (S f) base s acc = read_body (read f) base s acc.
Proof. reflexivity. Qed.
Definition read_file (s:list N) : option (list (N*N)) := read (S (length s)) 0 s [].


(* ---------- proofs ---------- *)
Definition byte_ok (b:N) : Prop := b < 256.

Lemma unhex_hexd n : n < 16 -> unhex (hexd n) = Some n.
Proof.
  intros H. unfold unhex, hexd.
  destruct (N.ltb_spec n 10).
  - replace ((48 <=? 48 + n) && (48 + n <=? 57)) with true by lia. f_equal. lia.
  - replace ((48 <=? 55 + n) && (55 + n <=? 57)) with false by lia.
    replace ((65 <=? 55 + n) && (55 + n <=? 70)) with true by lia. f_equal. lia.
Qed.

Lemma read_byte_hex2 b s : b < 256 -> read_byte (hex2 b ++ s) = Some (b, s).
Proof.
  intros H. unfold hex2. cbn [app read_byte].
  rewrite !unhex_hexd by lia. f_equal. f_equal. lia.
Qed.

Lemma read_bytes_map bs s : Forall byte_ok bs ->
  read_bytes (length bs) (concat (map hex2 bs) ++ s) = Some (bs, s).
Proof.
  induction 1 as [|b bs Hb _ IH]; [reflexivity|].
  cbn [length map concat read_bytes]. rewrite <- app_assoc.
  rewrite read_byte_hex2 by exact Hb. rewrite IH. reflexivity.
Qed.

Lemma cks_ok body : (sumN body + cks body) mod 256 = 0.
Proof. unfold cks. lia. Qed.
Lemma cks_lt body : cks body < 256.
Proof. unfold cks. lia. Qed.

Lemma parse_record_ok ty off data s :
  ty < 256 -> off < 65536 -> N.of_nat (length data) < 256 -> Forall byte_ok data ->
  parse_record (record ty off data ++ s) = Some (ty, off, data, 13 :: 10 :: s).
Proof.
  intros Hty Hoff Hlen Hdata. unfold record, body_of.
  cbn [app map concat]. rewrite <- !app_assoc. cbn [app].
  unfold parse_record.
  rewrite read_byte_hex2 by exact Hlen.
  rewrite read_byte_hex2 by lia.
  rewrite read_byte_hex2 by lia.
  rewrite read_byte_hex2 by exact Hty.
  rewrite map_app, concat_app, <- app_assoc.
  rewrite Nnat.Nat2N.id. rewrite read_bytes_map by exact Hdata.
  cbn [map concat app]. rewrite <- app_assoc.
  rewrite read_byte_hex2 by apply cks_lt. cbn [app].
  set (body := N.of_nat (length data) :: off / 256 :: off mod 256 :: ty :: data).
  replace (N.of_nat (length data) + off / 256 + off mod 256 + ty + sumN data + cks body)
    with (sumN body + cks body) by (unfold body; cbn [sumN]; lia).
  rewrite cks_ok. change (0 =? 0) with true. cbv iota.
  replace (off / 256 * 256 + off mod 256) with off by lia. reflexivity.
Qed.

(* ---------- chunk-level induction ---------- *)
Lemma skip_eol_crlf s : skip_eol (13 :: 10 :: s) = skip_eol s.
Proof. reflexivity. Qed.
Lemma skip_eol_colon s : skip_eol (58 :: s) = 58 :: s.
Proof. reflexivity. Qed.
Lemma record_hd ty off data : exists t, record ty off data = 58 :: t.
Proof. unfold record. eexists. reflexivity. Qed.

Definition chunk_ok (c:list N) : Prop := (0 < length c <= 16)%nat /\ Forall byte_ok c.

Lemma addrs_app a x y : addrs a (x ++ y) = addrs a x ++ addrs (a + N.of_nat (length x)) y.
Proof.
  revert a. induction x as [|b x IH]; intros a; cbn [app addrs length].
  - f_equal. lia.
  - rewrite IH. cbn [app]. do 3 f_equal. lia.
Qed.


Inductive chunks_ok : list (list N) -> Prop :=
| co_nil : chunks_ok []
| co_last c : chunk_ok c -> chunks_ok [c]
| co_cons c c' tl : chunk_ok c -> length c = 16%nat -> chunks_ok (c' :: tl) -> chunks_ok (c :: c' :: tl).

Lemma read_crlf f base s acc : read f base (13 :: 10 :: s) acc = read f base s acc.
Proof. destruct f; reflexivity. Qed.

Lemma read_mono f : forall base s acc r, read f base s acc = Some r -> read (S f) base s acc = Some r.
Proof.
  induction f as [|f IH]; intros base s acc r H; [discriminate|].
  cbn [read] in H. cbn [read].
  destruct (parse_record (skip_eol s)) as [[[[ty off] data] rest]|]; [|discriminate].
  destruct (ty =? 0); [apply IH; exact H|].
  destruct (ty =? 1); [exact H|].
  destruct (ty =? 2); [destruct data as [|hi [|lo [|x y]]]; try exact H; apply IH; exact H|].
  destruct (ty =? 4); [destruct data as [|hi [|lo [|x y]]]; try exact H; apply IH; exact H|].
  exact H.
Qed.

Lemma read_mono_le f f' base s acc r : (f <= f')%nat -> read f base s acc = Some r -> read f' base s acc = Some r.
Proof. induction 1 as [|m _ IH]; [auto|]. intros H0. apply read_mono. auto. Qed.

Definition Inv (a base:N) : Prop :=
  if (0 <? a) && (a mod 65536 =? 0) then True else base = 65536 * (a / 65536).

Lemma chunk_len c : chunk_ok c -> N.of_nat (length c) < 256.
Proof. intros [[_ H] _]. lia. Qed.

Lemma read_step a c rest base acc f r :
  chunk_ok c -> a mod 16 = 0 -> a + 16 <= 4294967296 -> Inv a base ->
  read f (65536 * (a / 65536)) rest (acc ++ addrs a c) = Some r ->
  read (S (S f)) base
    ((if (0 <? a) && (a mod 65536 =? 0) then record 4 0 [(a / 65536) / 256; (a / 65536) mod 256] else [])
       ++ record 0 (a mod 65536) c ++ rest) acc = Some r.
Proof.
  intros Hc Ha Hb HI H. unfold Inv in HI.
  destruct ((0 <? a) && (a mod 65536 =? 0)) eqn:E.
  - (* block record first *)
    destruct (record_hd 4 0 [a / 65536 / 256; (a / 65536) mod 256]) as [t Et].
    rewrite read_S. unfold read_body. rewrite Et at 1. cbn [app]. rewrite skip_eol_colon.
    change (58 :: t ++ ?x) with ((58 :: t) ++ x). rewrite <- Et.
    rewrite parse_record_ok; [| lia | lia | cbn; lia | repeat constructor; unfold byte_ok; lia].
    change (4 =? 0) with false. change (4 =? 1) with false. change (4 =? 2) with false. change (4 =? 4) with true. cbv iota.
    rewrite read_crlf.
    replace ((a / 65536 / 256 * 256 + (a / 65536) mod 256) * 65536) with (65536 * (a / 65536)) by lia.
    destruct (record_hd 0 (a mod 65536) c) as [t' Et'].
    rewrite read_S. unfold read_body. rewrite Et' at 1. cbn [app]. rewrite skip_eol_colon.
    change (58 :: t' ++ ?x) with ((58 :: t') ++ x). rewrite <- Et'.
    rewrite parse_record_ok; [| lia | lia | apply chunk_len, Hc | apply Hc].
    change (0 =? 0) with true. cbv iota.
    rewrite read_crlf.
    replace (65536 * (a / 65536) + a mod 65536) with a by lia. exact H.
  - subst base. cbn [app].
    apply read_mono.
    destruct (record_hd 0 (a mod 65536) c) as [t' Et'].
    rewrite read_S. unfold read_body. rewrite Et' at 1. cbn [app]. rewrite skip_eol_colon.
    change (58 :: t' ++ ?x) with ((58 :: t') ++ x). rewrite <- Et'.
    rewrite parse_record_ok; [| lia | lia | apply chunk_len, Hc | apply Hc].
    change (0 =? 0) with true. cbv iota.
    rewrite read_crlf.
    replace (65536 * (a / 65536) + a mod 65536) with a by lia. exact H.
Qed.

Lemma data_records_cons a c tl : data_records a (c :: tl) =
  (if (0 <? a) && (a mod 65536 =? 0) then record 4 0 [(a / 65536) / 256; (a / 65536) mod 256] else [])
  ++ record 0 (a mod 65536) c ++ data_records (a + 16) tl.
Proof. reflexivity. Qed.

Lemma read_data cs : chunks_ok cs -> forall a base acc f r tail,
  a mod 16 = 0 -> a + 16 * N.of_nat (length cs) <= 4294967296 -> Inv a base ->
  (forall b, read f b tail (acc ++ addrs a (concat cs)) = Some r) ->
  read (f + 2 * length cs) base (data_records a cs ++ tail) acc = Some r.
Proof.
  induction 1 as [|c Hc|c c' tl Hc Hlen _ IH]; intros a base acc f r tail Ha Hb HI Ht.
  - cbn [data_records length concat app] in *. rewrite Nat.add_0_r. rewrite app_nil_r in Ht. apply Ht.
  - cbn [data_records length concat] in *. rewrite app_nil_r in Ht. rewrite app_nil_r.
    rewrite <- !app_assoc.
    replace (f + 2 * 1)%nat with (S (S f)) by lia.
    apply read_step; [exact Hc | exact Ha | lia | exact HI | apply Ht].
  - rewrite data_records_cons. rewrite <- !app_assoc.
    replace (f + 2 * length (c :: c' :: tl))%nat with (S (S (f + 2 * length (c' :: tl)))) by (cbn [length]; lia).
    apply read_step; [exact Hc | exact Ha | cbn [length] in Hb; lia | exact HI |].
    apply IH; [lia | cbn [length] in *; lia | |].
    + unfold Inv. destruct ((0 <? a + 16) && ((a + 16) mod 65536 =? 0)) eqn:E; [exact I|]. f_equal. lia.
    + intros b. rewrite <- app_assoc. cbn [concat] in Ht. rewrite addrs_app in Ht. rewrite Hlen in Ht.
      replace (a + N.of_nat 16) with (a + 16) in Ht by lia. apply Ht.
Qed.

Lemma chunks_spec : forall n l, (length l <= n)%nat -> Forall byte_ok l ->
  chunks_ok (chunks n l) /\ concat (chunks n l) = l /\ (16 * length (chunks n l) <= length l + 15)%nat.
Proof.
  induction n as [|n IH]; intros l Hn Hl.
  - destruct l; [|cbn in Hn; lia]. cbn. repeat split; try constructor; lia.
  - destruct l as [|x l']; [cbn; repeat split; try constructor; lia|].
    cbn [chunks]. set (l := x :: l') in *.
    assert (Hsk : (length (skipn 16 l) <= n)%nat) by (rewrite skipn_length; unfold l in *; cbn [length] in *; lia).
    assert (Hf : Forall byte_ok (skipn 16 l)).
    { rewrite <- (firstn_skipn 16 l) in Hl. apply Forall_app in Hl. tauto. }
    destruct (IH _ Hsk Hf) as (Hok & Hcat & Hlen).
    assert (Hc : chunk_ok (firstn 16 l)).
    { split. - rewrite firstn_length. unfold l. cbn [length]. lia.
      - rewrite <- (firstn_skipn 16 l) in Hl. apply Forall_app in Hl. tauto. }
    repeat split.
    + destruct (chunks n (skipn 16 l)) as [|c' tl] eqn:E; [constructor; exact Hc|].
      constructor; [exact Hc | | exact Hok].
      rewrite firstn_length. destruct (Nat.le_gt_cases 16 (length l)); [lia|].
      exfalso. rewrite skipn_all2 in E by lia. destruct n; discriminate.
    + cbn [concat]. rewrite Hcat. apply firstn_skipn.
    + cbn [length]. destruct (Nat.le_gt_cases 16 (length l)) as [Hge|Hlt].
      * rewrite skipn_length in Hlen. lia.
      * rewrite skipn_all2 by lia. replace (chunks n []) with (@nil (list N)) by (destruct n; reflexivity).
        unfold l. cbn [length]. lia.
Qed.

Theorem roundtrip_fuel img : Forall byte_ok img -> N.of_nat (length img) + 16 <= 4294967296 ->
  exists f, read f 0 (write img) [] = Some (addrs 0 img).
Proof.
  intros Hb Hlen. unfold write.
  assert (EOF : forall b acc, read 1 b (record 1 0 [] ++ [13; 10]) acc = Some acc).
  { intros b acc. rewrite read_S. unfold read_body.
    destruct (record_hd 1 0 []) as [t Et]. rewrite Et at 1. cbn [app]. rewrite skip_eol_colon.
    change (58 :: t ++ ?x) with ((58 :: t) ++ x). rewrite <- Et.
    rewrite parse_record_ok; [| lia | lia | cbn; lia | constructor]. reflexivity. }
  destruct img as [|x l'].
  - exists 1%nat. cbn [app]. apply EOF.
  - set (img := x :: l') in *.
    destruct (chunks_spec (length img) img (le_n _) Hb) as (Hok & Hcat & Hcl).
    exists (S (1 + 2 * length (chunks (length img) img))).
    rewrite <- !app_assoc.
    rewrite read_S. unfold read_body.
    destruct (record_hd 2 0 [0;0]) as [t Et]. rewrite Et at 1. cbn [app]. rewrite skip_eol_colon.
    change (58 :: t ++ ?x) with ((58 :: t) ++ x). rewrite <- Et.
    rewrite parse_record_ok; [| lia | lia | cbn; lia | repeat constructor; unfold byte_ok; lia].
    change (2 =? 0) with false. change (2 =? 1) with false. change (2 =? 2) with true. cbv iota.
    rewrite read_crlf. change ((0 * 256 + 0) * 16) with 0.
    apply read_data; [exact Hok | reflexivity | (unfold img in *; cbn [length] in *; lia) | reflexivity |].
    intros b. rewrite Hcat. cbn [app]. apply EOF.
Qed.
Print Assumptions roundtrip_fuel.
