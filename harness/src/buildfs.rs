//! Interface `builder::build_file` on a directory tree.  stdin one case per line:
//!   <cwd> <main> <paths: a,b|-> <dirs: a,b|-> <files: path=content,..|->
//! every path / content token is the hex of its bytes; dirs and files are absolute.  The worker creates
//! the tree, changes into <cwd>, calls build_file(main, {paths}) and prints the canonical observation
//! of build.rs (plus "NAMED"/"UNNAMED" for errors: whether the message contains the file name given last
//! on the line as <missing name hex|->).
use crate::build::render;
use crate::util::unhex;
use avra_lib::builder::build_file;
use std::collections::BTreeSet;
use std::path::PathBuf;

fn text(h: &str) -> String {
    String::from_utf8(unhex(h)).unwrap_or_default()
}

fn list(tok: &str) -> Vec<String> {
    if tok == "-" {
        vec![]
    } else {
        tok.split(',').map(|x| x.to_string()).collect()
    }
}

pub fn observe(line: &str) -> String {
    let f: Vec<&str> = line.split_whitespace().collect();
    if f.len() < 5 {
        return "BADCASE".to_string();
    }
    for d in list(f[3]) {
        let _ = std::fs::create_dir_all(text(&d));
    }
    for kv in list(f[4]) {
        let mut it = kv.splitn(2, '=');
        let path = text(it.next().unwrap_or(""));
        let content = unhex(it.next().unwrap_or(""));
        if let Some(parent) = PathBuf::from(&path).parent() {
            let _ = std::fs::create_dir_all(parent);
        }
        let _ = std::fs::write(&path, content);
    }
    if std::env::set_current_dir(text(f[0])).is_err() {
        return "BADCWD".to_string();
    }
    let main = PathBuf::from(text(f[1]));
    let paths: BTreeSet<PathBuf> = list(f[2]).iter().map(|p| PathBuf::from(text(p))).collect();
    let r = std::panic::catch_unwind(|| build_file(main, paths));
    let named = match (&r, f.get(5)) {
        (Ok(Err(e)), Some(n)) if *n != "-" => {
            if e.to_string().contains(&text(n)) {
                " NAMED"
            } else {
                " UNNAMED"
            }
        }
        _ => "",
    };
    format!("{}{}", render(r), named)
}

pub fn worker() -> i32 {
    use std::io::{BufRead, Write};
    let stdin = std::io::stdin();
    let stdout = std::io::stdout();
    for line in stdin.lock().lines() {
        let line = match line {
            Ok(l) => l,
            Err(_) => break,
        };
        let obs = observe(line.trim());
        let mut o = stdout.lock();
        let _ = writeln!(o, "{}", obs);
        let _ = o.flush();
    }
    0
}
