"""Runs directory-tree cases through builder::build_file (vh buildfs) and the extracted model (avmodel buildfs).
A case is a dict: cwd, main, paths (list), dirs (list of absolute directories), files ({absolute path: text}),
missing (file name expected in the error text, or None).  Every case lives under its own root directory, which
the caller removes afterwards (fsrun.cleanup)."""
import concurrent.futures as cf
import os
import shutil

from . import common as C


def hx(s):
    return s.encode("utf-8").hex()


def line_of(c):
    paths = ",".join(hx(p) for p in c["paths"]) or "-"
    dirs = ",".join(hx(d) for d in c["dirs"]) or "-"
    files = ",".join("%s=%s" % (hx(p), hx(t)) for p, t in c["files"].items()) or "-"
    return "%s %s %s %s %s %s" % (hx(c["cwd"]), hx(c["main"]), paths, dirs, files, hx(c["missing"]) if c.get("missing") else "-")


def work_root():
    d = os.path.join(C.BUILD, "work", "fs-%d" % os.getpid())
    os.makedirs(d, exist_ok=True)
    return d


def cleanup():
    shutil.rmtree(os.path.join(C.BUILD, "work", "fs-%d" % os.getpid()), ignore_errors=True)


def run_cases(vh, exe, cases, chunk=None, timeout=900):
    """-> list of (case, impl observation, model observation)"""
    if chunk is None:
        chunk = max(10, min(400, len(cases) // (2 * C.NCPU) + 1))
    chunks = [cases[i:i + chunk] for i in range(0, len(cases), chunk)]

    def one(ch):
        inp = "".join(line_of(c) + "\n" for c in ch)
        a = C.vh(vh, ["buildfs"], input=inp, timeout=timeout).split("\n")
        b = C.model(exe, ["buildfs"], input=inp, timeout=timeout).split("\n")
        return [(c, a[i] if i < len(a) else "MISSING", b[i] if i < len(b) else "MISSING") for i, c in enumerate(ch)]
    out = []
    with cf.ThreadPoolExecutor(max_workers=C.NCPU) as ex:
        for r in ex.map(one, chunks):
            out += r
    return out
