(** C15: every error raised while an item or a directive is processed names the line of that
    item / directive; messages are appended in order with their own line numbers. *)
From Coq Require Import List NArith ZArith Bool Lia.
Import ListNotations.
Require Import AvraV.Model.Base AvraV.Model.Ast AvraV.Model.Device AvraV.Model.Eval AvraV.Model.Encode.
Require Import AvraV.Model.Lines AvraV.Model.Parse AvraV.Model.Passes.

(** peel the outermost case distinction of the hypothesis until it is an equation between results *)
Ltac peel H :=
  repeat (match type of H with
          | context [match ?x with _ => _ end] =>
              match x with
              | context [match _ with _ => _ end] => fail 1
              | _ => destruct x eqn:?; try discriminate
              end
          | context [if ?x then _ else _] =>
              match x with
              | context [match _ with _ => _ end] => fail 1
              | context [if _ then _ else _] => fail 1
              | _ => destruct x eqn:?; try discriminate
              end
          end; cbn [bind with_line] in H).

Lemma with_line_err {A} line (r : res A) l : with_line line r = Err l -> l = Some line.
Proof. destruct r; cbn; intros H; try discriminate. congruence. Qed.

Theorem pass2_item_err fuel t st cp it l :
  pass2_item fuel t st (cp, it) = Err l -> l = Some (fst cp).
Proof.
  destruct st as [[c0 cur] out]. unfold pass2_item. intros H.
  destruct it as [n | k ops | a e | a | a e | ops | op args | lab]; cbn [fst] in H.
  - unfold add32 in H. peel H.
  - destruct (with_line (fst cp) (data_bytes fuel (ctx_set_pc c0 cur) k ops)) eqn:E; cbn [bind] in H; try discriminate.
    + unfold add32 in H. peel H.
    + apply with_line_err in E. congruence.
  - destruct e; try discriminate. peel H; congruence.
  - peel H; congruence.
  - destruct (with_line (fst cp) (run fuel (ctx_set_pc c0 cur) e)) eqn:E; cbn [bind] in H; try discriminate.
    + peel H; congruence.
    + apply with_line_err in E. congruence.
  - discriminate.
  - destruct (check_instruction _ _ _); [|congruence].
    destruct (with_line (fst cp) (process fuel (ctx_set_pc c0 cur) op args cur)) eqn:E; cbn [bind] in H; try discriminate.
    + unfold add32 in H. peel H.
    + apply with_line_err in E. congruence.
  - discriminate.
Qed.

Theorem pass1_item_err t st cp it l :
  pass1_item t st (cp, it) = Err l -> l = Some (fst cp).
Proof.
  destruct st as [[c cur] out]. unfold pass1_item, advance. intros H.
  destruct it as [n | k ops | a e | a | a e | ops | op args | lab]; cbn [fst] in H;
    try discriminate; try destruct k; try destruct t; peel H; congruence.
Qed.

(** directives: every error names the directive's line - except the "too many arguments" message of
    .byte (no location in the text) and whatever the file layer reports for an included file *)
Theorem directive_err fuel inc d ops st line l :
  (forall p s l', inc p s = Err l' -> l' = Some line) ->
  directive_parse fuel inc d ops st line = Err l ->
  l = Some line \/ (d = DByte /\ exists args, ops = OpList args /\ (1 < length args)%nat).
Proof.
  intros Hinc H. unfold directive_parse in H.
  destruct d; try (left; congruence);
    try (destruct ops as [args | a e]; cbn [first_op] in H; try (left; congruence)).
  all: try (left; peel H; congruence).
  - (* .byte *) destruct (1 <? length args)%nat eqn:E.
    + right. split; [reflexivity|]. exists args. split; [reflexivity|]. apply Nat.ltb_lt. exact E.
    + left. peel H; congruence.
  - (* .include *) left. destruct (hd_error args) as [[e|p]|]; try congruence.
    destruct (inc p st) eqn:E; cbn [bind] in H; try discriminate. apply Hinc in E. congruence.
Qed.

(** a line that does not parse is reported with its own number (indices are 0-based, lines 1-based) *)
Theorem syntax_error_line fuel inc g n l r skipped st :
  parse_line l = None -> parse_iter fuel inc (S g) ((n, l) :: r) skipped st = Err (Some (n + 1)%N).
Proof. intros H. cbn [parse_iter]. rewrite H. reflexivity. Qed.

(** .message / .warning: the text is appended to the message list with the directive's own line
    number, nothing else changes, assembly continues; .error fails the build at its line *)
Theorem message_effect fuel inc d m st line :
  (d = DMessage \/ d = DWarning) ->
  directive_parse fuel inc d (OpList [PS m]) st line =
    Ok (with_msgs st (msgs st ++ [msg_text (match d with DMessage => "info" | _ => "warning" end)%string m line]), NewLine).
Proof. intros [-> | ->]; reflexivity. Qed.
Theorem error_directive_fails fuel inc m st line :
  directive_parse fuel inc DError (OpList [PS m]) st line = Err (Some line).
Proof. reflexivity. Qed.
