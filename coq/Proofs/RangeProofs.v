(** C04, unbounded in the operand values: whatever the encoder accepts has every value operand inside the
    range of its field kind in the ISA table (Spec/Isa.v) - for all values in Z, all program counters. *)
From Coq Require Import List NArith ZArith Bool Lia ZifyBool ZifyN ZifyNat.
Import ListNotations.
Require Import AvraV.Model.Base AvraV.Model.Ast AvraV.Model.Device AvraV.Model.Eval AvraV.Model.Encode AvraV.Spec.Isa.
Require Import AvraV.Gen.OpTable AvraV.Proofs.LayoutProofs.
Local Open Scope Z_scope.

(** the range of a field kind, as Spec/Isa.v documents it *)
Definition val_ok (k : immkind) (pc : N) (v : Z) : Prop :=
  match k with
  | KImm8 => -128 <= v <= 255
  | KU b => 0 <= v < 2 ^ b
  | KRel b => - 2 ^ (b - 1) <= v - (Z.of_N pc + 1) < 2 ^ (b - 1)
  | KAddr h => 0 <= v < 2 ^ (16 + h)
  | KRAddr => 64 <= v <= 191
  end.

(** which written operands of an operation are values, and of which kind (checked against the rows of Spec/Isa.v below) *)
Definition val_kinds (avr8l : bool) (op : operation) : list (nat * immkind) :=
  match op with
  | OSubi | OSbci | OAndi | OOri | OSbr | OCbr | OCpi | OLdi => [(1%nat, KImm8)]
  | OAdiw | OSbiw => [(1%nat, KU 6)]
  | ORjmp | ORcall => [(0%nat, KRel 12)]
  | OJmp | OCall => [(0%nat, KAddr 6)]
  | OBr BrBs | OBr BrBc => [(0%nat, KU 3); (1%nat, KRel 7)]
  | OBr _ => [(0%nat, KRel 7)]
  | OLds => [(1%nat, if avr8l then KRAddr else KAddr 0)]
  | OSts => [(0%nat, if avr8l then KRAddr else KAddr 0)]
  | OIn => [(1%nat, KU 6)]
  | OOut => [(0%nat, KU 6)]
  | OSbrc | OSbrs | OBst | OBld => [(1%nat, KU 3)]
  | OSbi | OCbi | OSbis | OSbic => [(0%nat, KU 5); (1%nat, KU 3)]
  | OBset | OBclr => [(0%nat, KU 3)]
  | _ => []
  end.

Definition in_range (vs : list view) (pc : N) (ik : nat * immkind) : Prop :=
  exists a v, nth_error vs (fst ik) = Some a /\ v_val a = Ok v /\ val_ok (snd ik) pc v.
Definition range_ok (avr8l : bool) (op : operation) (vs : list view) (pc : N) : Prop :=
  Forall (in_range vs pc) (val_kinds avr8l op).

(** ---- inversion of the guards ---- *)
Lemma arg_nth vs i a : arg vs i = Ok a -> nth_error vs i = Some a.
Proof. unfold arg. destruct (nth_error vs i); [intros [= ->]; reflexivity | discriminate]. Qed.
Lemma get_byte_inv r b : get_byte r = Ok b -> exists v, r = Ok v /\ -128 <= v <= 255.
Proof.
  unfold get_byte. destruct r as [v| | |]; try discriminate. cbn [bind]. unfold byte_of.
  destruct ((255 <? v) || (v <? -128)) eqn:E; [discriminate|]. intros _. exists v. split; [reflexivity | lia].
Qed.
Lemma small_field_inv mx r b : small_field mx r = Ok b -> (mx <= 127)%N -> exists v, r = Ok v /\ 0 <= v <= Z.of_N mx.
Proof.
  unfold small_field. intros H Hm. destruct (get_byte r) as [x| | |] eqn:E; try discriminate. cbn [bind] in H.
  destruct ((127 <? x)%N || (mx <? x)%N) eqn:E2; [discriminate|].
  unfold get_byte in E. destruct r as [v| | |]; try discriminate. cbn [bind] in E. unfold byte_of in E.
  destruct ((255 <? v) || (v <? -128)) eqn:E3; [discriminate|]. cbn [bind] in E. injection E as <-.
  exists v. split; [reflexivity|]. lia.
Qed.
Lemma bit_inv r b : get_bit_index r = Ok b -> exists v, r = Ok v /\ 0 <= v <= 7.
Proof.
  unfold get_bit_index. destruct r as [v| | |]; try discriminate. cbn [bind]. unfold bit_of.
  destruct ((v <? 0) || (7 <? v)) eqn:E; [discriminate|]. intros _. exists v. split; [reflexivity | lia].
Qed.
Lemma rel_inv k pc rel : rel_of k pc = Ok rel -> rel = k - (Z.of_N pc + 1).
Proof. unfold rel_of. destruct (in_i64 _); [intros [= <-]; reflexivity | discriminate]. Qed.

(** ---- the theorem, goal-directed ---- *)
Definition ok_then {A} (r : res A) (P : Prop) : Prop := match r with Ok _ => P | _ => True end.
Lemma ok_then_bind_l {A B} (m : res A) (f : A -> res B) P : ok_then m P -> ok_then (bind m f) P.
Proof. destruct m; cbn; auto. intros H. destruct (f a); cbn; auto. Qed.
Lemma ok_then_use {A} (r : res A) P x : ok_then r P -> r = Ok x -> P.
Proof. intros H E. rewrite E in H. exact H. Qed.

Ltac rstep :=
  match goal with
  | |- ok_then (bind ?m _) _ => let E := fresh "E" in destruct m eqn:E; cbn [bind ok_then]; try exact I
  | |- ok_then (if ?x then _ else _) _ => let E := fresh "T" in destruct x eqn:E; cbn [ok_then]; try exact I
  | |- ok_then (let '(_, _) := ?x in _) _ => destruct x
  | |- ok_then (match ?x with _ => _ end) _ => let E := fresh "M" in destruct x eqn:E; cbn [ok_then]; try exact I
  end.

Ltac use_facts :=
  repeat match goal with
         | H : arg _ _ = Ok _ |- _ => apply arg_nth in H
         | H : get_byte _ = Ok _ |- _ => apply get_byte_inv in H; destruct H as (? & ? & ?)
         | H : small_field _ _ = Ok _ |- _ => apply small_field_inv in H; [destruct H as (? & ? & ?) | vm_compute; discriminate]
         | H : get_bit_index _ = Ok _ |- _ => apply bit_inv in H; destruct H as (? & ? & ?)
         | H : rel_of _ _ = Ok _ |- _ => apply rel_inv in H
         end.

Ltac solve_range :=
  unfold range_ok; cbn [val_kinds]; repeat constructor; unfold in_range; cbn [fst snd];
  (eexists _, _; split; [eassumption|]; split; [eassumption|]; cbn [val_ok]; lia).

Theorem process_v_range a op vs pc : ok_then (process_v a op vs pc) (range_ok a op vs pc).
Proof.
  unfold process_v.
  destruct (match operand_counts op with Some l => if existsb (Nat.eqb (length vs)) l then Ok tt else Err None | None => Ok tt end);
    cbn [bind ok_then]; try exact I.
  apply ok_then_bind_l.
  destruct op; try (destruct b); destruct a; cbv beta iota zeta; cbn [bind ok_then]; repeat rstep.
  all: try (unfold range_ok; cbn [val_kinds]; constructor; fail).
  all: repeat match goal with
              | H : bind _ _ = Ok _ |- _ => apply bind_ok in H; destruct H as (? & ? & H)
              | H : Ok (_, _) = Ok (_, _) |- _ => injection H as ? ?
              end; subst.
  all: use_facts; subst.
  all: try solve_range.
Qed.

(** instruction::process: for the operands as written *)
Corollary process_range fuel c op args pc bs : process fuel c op args pc = Ok bs ->
  range_ok (is_avr8l (dev c)) op (map (view_of fuel c) args) pc.
Proof. intros H. unfold process in H. exact (ok_then_use _ _ _ (process_v_range _ _ _ _) H). Qed.

(** the table [val_kinds] is the ISA table's: every value operand of every row of Spec/Isa.v has the kind listed here,
    at that position, for the operation the assembler maps the row's mnemonic to, on the core(s) the row is for *)
Require Import AvraV.Proofs.EncCheck.
Definition immkind_eqb (a b : immkind) : bool :=
  match a, b with
  | KImm8, KImm8 | KRAddr, KRAddr => true
  | KU x, KU y | KRel x, KRel y | KAddr x, KAddr y => x =? y
  | _, _ => false
  end.
Fixpoint enum_from {A} (i : nat) (l : list A) : list (nat * A) := match l with [] => [] | x :: r => (i, x) :: enum_from (S i) r end.
Definition row_matches (red : bool) (rw : row) : bool :=
  forallb (fun io => match snd io with
                     | PExp _ k => existsb (fun ik => Nat.eqb (fst ik) (fst io) && immkind_eqb (snd ik) k) (val_kinds red (op_of (r_name rw)))
                     | _ => true
                     end) (enum_from 0 (r_ops rw)).
Definition table_matches : bool :=
  forallb (fun rw => match r_core rw with
                     | CAny => row_matches false rw && row_matches true rw
                     | CFull => row_matches false rw
                     | CReduced => row_matches true rw
                     end) table.
Lemma kinds_are_the_tables : table_matches = true.
Proof. vm_compute. reflexivity. Qed.

(** the displacement of ldd/std (and of ld/st written with one): 0..63, on Y or Z only *)
Definition disp_pos (op : operation) : option nat :=
  match op with OLd | OLdd => Some 1%nat | OSt | OStd => Some 0%nat | _ => None end.
Definition disp_ok (op : operation) (vs : list view) : Prop :=
  match disp_pos op with
  | Some i => forall a r e, nth_error vs i = Some a -> v_idx a = Ok (VDisp r e) -> r <> RX /\ exists q, e = Ok q /\ 0 <= q <= 63
  | None => True
  end.
Theorem process_v_disp a op vs pc : ok_then (process_v a op vs pc) (disp_ok op vs).
Proof.
  unfold process_v.
  destruct (match operand_counts op with Some l => if existsb (Nat.eqb (length vs)) l then Ok tt else Err None | None => Ok tt end);
    cbn [bind ok_then]; try exact I.
  apply ok_then_bind_l.
  destruct op; try exact (match a with true => I | false => I end) || (unfold disp_ok; cbn [disp_pos]; try (destruct (process_v _ _ _ _); exact I)).
  all: try (match goal with |- ok_then _ True => destruct a; cbv beta iota zeta; cbn [bind ok_then]; repeat rstep; exact I end).
  all: destruct a; cbv beta iota zeta; cbn [bind ok_then]; repeat rstep.
  all: repeat match goal with
              | H : bind _ _ = Ok _ |- _ => apply bind_ok in H; destruct H as (? & ? & H)
              | H : Ok (_, _) = Ok (_, _) |- _ => injection H as ? ?
              end; subst.
  all: use_facts; subst.
  all: intros a' r' e' Hn Hi; try congruence.
  all: try (rewrite Hn in *; match goal with H : Some _ = Some _ |- _ => injection H as -> end).
  all: try (match goal with H1 : v_idx ?x = Ok _, H2 : v_idx ?x = Ok (VDisp _ _) |- _ => rewrite H2 in H1; injection H1 as <- end).
  all: try discriminate.
  all: try (match goal with H1 : v_idx ?x = Ok _, H2 : v_idx ?x = Ok (VDisp _ _) |- _ => rewrite H2 in H1; injection H1 as <- <- end).
  all: try (split; [discriminate | eexists; split; [reflexivity | lia]]).
  all: destruct r'; try discriminate.
  all: match goal with H : bind (small_field _ _) _ = Ok _ |- _ =>
         apply bind_ok in H; destruct H as (k & Hk & _);
         apply small_field_inv in Hk; [destruct Hk as (q & -> & Hq) | vm_compute; discriminate];
         (split; [discriminate | exists q; split; [reflexivity | lia]]) end.
Qed.
