//! Interfaces `document::expr` and `Expr::run`: stdin one case per line = hex of the UTF-8 text.
//! stdout per case: <S-expression | NOPARSE | PANIC> <TAB> <value | ERR | PANIC | ->
//! Evaluation context: .equ seven = 7, .equ big = 1 << 40, .equ neg = 0 - 9, label lab = 100 (code).
use crate::sexp;
use crate::util::{read_stdin, unhex};
use avra_lib::context::{CommonContext, Context};
use avra_lib::document::document;
use avra_lib::expr::Expr;
use avra_lib::parser::SegmentType;

pub fn eval_ctx() -> CommonContext {
    let c = CommonContext::new();
    c.set_equ("seven".to_string(), Expr::Const(7));
    c.set_equ("big".to_string(), Expr::Const(1 << 40));
    c.set_equ("neg".to_string(), Expr::Const(-9));
    c.set_label("lab".to_string(), (SegmentType::Code, 100));
    c
}

pub fn main() -> i32 {
    let ctx = eval_ctx();
    let mut out = String::new();
    for line in read_stdin().lines() {
        let bytes = unhex(line.trim());
        let text = match String::from_utf8(bytes) {
            Ok(t) => t,
            Err(_) => {
                out.push_str("BADUTF8\t-\n");
                continue;
            }
        };
        let parsed = std::panic::catch_unwind(|| document::expr(&text));
        match parsed {
            Err(_) => out.push_str("PANIC\t-\n"),
            Ok(Err(_)) => out.push_str("NOPARSE\t-\n"),
            Ok(Ok(e)) => {
                out.push_str(&sexp::expr(&e));
                out.push('\t');
                let v = std::panic::catch_unwind(std::panic::AssertUnwindSafe(|| e.run(&ctx as &dyn Context)));
                match v {
                    Err(_) => out.push_str("PANIC"),
                    Ok(Err(_)) => out.push_str("ERR"),
                    Ok(Ok(x)) => out.push_str(&format!("{}", x)),
                }
                out.push('\n');
            }
        }
    }
    print!("{}", out);
    0
}
