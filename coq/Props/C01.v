(** C01 - every valid instruction assembles to its exact AVR ISA machine code. *)
From Coq Require Import List ZArith String.
Import ListNotations.
Require Import AvraV.Spec.Isa.
Local Open Scope string_scope.
Local Open Scope Z_scope.

(** Non-vacuity / table sanity on documented encodings. *)
Example C01_table_examples :
  expect Full 0 "add" [WReg 17; WReg 3] = Some [0x0D13] /\
  expect Full 0 "ldi" [WReg 16; WExp 255] = Some [0xEF0F] /\
  expect Full 0 "ldd" [WReg 1; WIdxQ true 63] = Some [0xAC1F] /\
  expect Full 0 "jmp" [WExp 4194303] = Some [0x95FD; 0xFFFF] /\
  expect Full 0 "bclr" [WExp 3] = Some [0x94B8] /\
  expect Full 0 "lpm" [] = Some [0x95C8] /\
  expect Reduced 0 "lds" [WReg 18; WExp 64] = Some [0xA120] /\
  expect Full 0 "movw" [WReg 17; WReg 18] = None.
Proof. vm_compute. repeat split; reflexivity. Qed.
