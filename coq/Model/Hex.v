(** Model of src/writer.rs ([generate_hex_from_segment], [write_code_hex]/[write_eeprom_hex])
    together with the record formatter of the ihex crate ([format_record],
    [create_object_file_representation]) and the "\n" -> "\r\n" pass.
    A file is the list of its bytes. *)
Require Import AvraV.Model.Base.
Open Scope N_scope.

Definition hexd (n : N) : N := if n <? 10 then 48 + n else 55 + n.      (* upper-case hex digit *)
Definition hex2 (b : N) : list N := [hexd (b / 16); hexd (b mod 16)].
Fixpoint sumN (l : list N) : N := match l with [] => 0 | x :: r => x + sumN r end.
Definition cks (body : list N) : N := (256 - sumN body mod 256) mod 256.   (* ihex::checksum *)
Definition body_of (ty off : N) (data : list N) : list N :=
  [N.of_nat (length data); off / 256; off mod 256; ty] ++ data.
(** one record line, already terminated by CR LF *)
Definition record (ty off : N) (data : list N) : list N :=
  58 :: concat (map hex2 (body_of ty off data ++ [cks (body_of ty off data)])) ++ [13; 10].

(** [segment.chunks(16)] *)
Fixpoint chunks (fuel : nat) (l : list N) : list (list N) :=
  match fuel with O => [] | S f =>
    match l with [] => [] | _ => firstn 16 l :: chunks f (skipn 16 l) end end.

(** the loop of [generate_hex_from_segment]: chunk number i starts at address a = 16*i;
    every 64 KiB block above the first one gets an extended linear address record *)
Fixpoint data_records (a : N) (cs : list (list N)) : list N :=
  match cs with
  | [] => []
  | c :: tl =>
      (if (0 <? a) && (a mod 65536 =? 0)
       then record 4 0 [(a / 65536) / 256; (a / 65536) mod 256] else [])
      ++ record 0 (a mod 65536) c ++ data_records (a + 16) tl
  end.

Definition write (img : list N) : list N :=
  (match img with
   | [] => []
   | _ => record 2 0 [0; 0] ++ data_records 0 (chunks (length img) img)
   end)
  ++ record 1 0 [] ++ [13; 10].
