(** Common definitions of the executable model: outcomes, the [res] monad, small list helpers.
    Definitions only - no proofs live under Model/. *)
From Coq Require Export Ascii String.
From Coq Require Export List NArith ZArith Bool.
Export ListNotations.

(** Outcome of a modelled Rust computation.  [Err l] is a returned [Err(..)] whose message
    names line [l] (when it names one); [Panic] is an unwinding panic (index out of bounds,
    [unwrap] on [None]/[Err], arithmetic overflow with overflow checks on); [OutOfFuel] is the
    model's own artefact for recursion that is unbounded in Rust. *)
Inductive res (A : Type) : Type :=
| Ok (a : A)
| Err (line : option N)
| Panic
| OutOfFuel.
Arguments Ok {A} a.
Arguments Err {A} line.
Arguments Panic {A}.
Arguments OutOfFuel {A}.

Definition bind {A B} (r : res A) (f : A -> res B) : res B :=
  match r with
  | Ok a => f a
  | Err l => Err l
  | Panic => Panic
  | OutOfFuel => OutOfFuel
  end.
Notation "'do' x <- r ; k" := (bind r (fun x => k)) (at level 200, x pattern, r at level 100, k at level 200).

Definition is_ok {A} (r : res A) : bool := match r with Ok _ => true | _ => false end.
Definition is_err {A} (r : res A) : bool := match r with Err _ => true | _ => false end.

(** [nrange n a] = [a; a+1; ...; a+n-1], built without going through [nat] arithmetic on big numbers. *)
Fixpoint nrange (n : nat) (a : N) : list N :=
  match n with O => [] | S m => a :: nrange m (N.succ a) end.

Fixpoint list_eqb {A} (eqb : A -> A -> bool) (a b : list A) : bool :=
  match a, b with
  | [], [] => true
  | x :: a', y :: b' => eqb x y && list_eqb eqb a' b'
  | _, _ => false
  end.

(** Reports printed by the generated case files ([Eval vm_compute in Report ...]):
    indices of cases where model and implementation disagree, and indices of cases where the
    implementation's observed output fails the property's specification oracle. *)
Inductive report := Report (name : string) (corr_mismatch : list N) (spec_fail : list N).

Fixpoint failing_from {A} (i : N) (ok : A -> bool) (l : list A) : list N :=
  match l with
  | [] => []
  | x :: r => if ok x then failing_from (N.succ i) ok r else i :: failing_from (N.succ i) ok r
  end.
Definition failing {A} (ok : A -> bool) (l : list A) : list N := failing_from 0%N ok l.
