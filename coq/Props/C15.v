(** C15 - a failed build names the offending line (examples; theorems added with Proofs/ErrProofs.v). *)
From Coq Require Import List ZArith NArith String.
Import ListNotations.
Require Import AvraV.Model.Base AvraV.Model.Ast AvraV.Model.Passes.
Definition err_line (src : string) : option (option N) :=
  match build_str 200 (list_ascii_of_string src) with Err l => Some l | _ => None end.
Definition nl := String (Ascii.ascii_of_N 10) EmptyString.
Example C15_examples :
  err_line ("nop" ++ nl ++ " .db 256" ++ nl) = Some (Some 2%N) /\
  err_line ("nop" ++ nl ++ "nop" ++ nl ++ ".set a = b" ++ nl) = Some (Some 3%N) /\
  err_line (".if q" ++ nl ++ ".endif" ++ nl) = Some (Some 1%N) /\
  err_line ("l: nop" ++ nl ++ "l: nop" ++ nl) = Some (Some 2%N).
Proof. vm_compute. repeat split; reflexivity. Qed.
