//! S-expression rendering of the real AST enums (same format as coq/Model/Show.v).
use avra_lib::expr::Expr;

pub fn expr(e: &Expr) -> String {
    match e {
        Expr::Ident(n) => format!("(id {})", n),
        Expr::Const(c) => format!("(c {})", c),
        Expr::Func(f, a) => format!("(f {} {})", expr(f), expr(a)),
        Expr::Binary(b) => format!("(b {} {} {})", b.operator, expr(&b.left), expr(&b.right)),
        Expr::Unary(u) => format!("(u {} {})", u.operator, expr(&u.expr)),
    }
}
