"""C13 - instructions the selected device lacks are rejected; all others are unaffected.
Search oracle: the feature-flag meanings documented in src/device.rs (GateSpec below) decide, for every device row x every
instruction form, whether `.device D` + the instruction must fail; an allowed instruction must assemble to the bytes it has
with no device selected (lds/sts excepted on reduced cores)."""
from . import gen, progcheck as P, progrun

PROP = "C13"

# instruction forms: (text, set of flags each of which removes the form)
FORMS = []


def add(text, *flags):
    FORMS.append((text, set(flags)))


for m in ("mul r1, r2", "muls r16, r17", "mulsu r16, r17", "fmul r16, r17", "fmuls r16, r17", "fmulsu r16, r17"):
    add(m, "NoMul")
add("jmp 0", "NoJmp")
add("call 0", "NoJmp")
add("movw r0, r2", "NoMovw")
add("lpm", "NoLpm")
add("lpm r0, Z", "NoLpm", "NoLpmX")
add("lpm r0, Z+", "NoLpm", "NoLpmX")
add("elpm", "NoElpm")
add("elpm r0, Z", "NoElpm", "NoElpmX")
add("elpm r0, Z+", "NoElpm", "NoElpmX")
add("spm", "NoSpm")
add("break", "NoBreak")
add("eijmp", "NoEijmp")
add("eicall", "NoEicall")
add("adiw r24, 1", "Tiny1x", "Avr8l")
add("sbiw r24, 1", "Tiny1x", "Avr8l")
for m in ("ijmp", "icall", "push r0", "pop r0", "lds r16, 0x60", "sts 0x60, r16"):
    add(m, "Tiny1x")
for f in ("Y+1", "Z+1"):
    add("ldd r0, %s" % f, "Tiny1x", *(["NoYreg"] if f[0] == "Y" else []))
    add("std %s, r0" % f, "Tiny1x", *(["NoYreg"] if f[0] == "Y" else []))
for f in ("Y+1", "Z+1", "Y+63", "Z+0"):
    # LDD / STD spelled ld / st
    add("ld r0, %s" % f, "Tiny1x", *(["NoYreg"] if f[0] == "Y" else []))
    add("st %s, r0" % f, "Tiny1x", *(["NoYreg"] if f[0] == "Y" else []))
for f in ("X", "X+", "-X", "Y", "Y+", "-Y", "Z", "Z+", "-Z"):
    fl = {"X": ["NoXreg"], "Y": ["NoYreg"], "Z": []}[f.strip("+-")]
    add("ld r0, %s" % f, *fl)
    add("st %s, r0" % f, *fl)
for m in ("add r1, r2", "adc r1, r2", "sub r1, r2", "sbc r1, r2", "and r1, r2", "or r1, r2", "eor r1, r2", "cp r1, r2", "cpc r1, r2",
          "cpse r1, r2", "mov r1, r2", "subi r16, 1", "sbci r16, 1", "andi r16, 1", "ori r16, 1", "cpi r16, 1", "ldi r16, 1", "sbr r16, 1",
          "cbr r16, 1", "com r1", "neg r1", "inc r1", "dec r1", "tst r1", "clr r1", "ser r16", "lsl r1", "lsr r1", "rol r1", "ror r1", "asr r1",
          "swap r1", "rjmp 0", "rcall 0", "ret", "reti", "breq 0", "brne 0", "brcs 0", "brbs 1, 0", "brbc 1, 0", "sbrc r1, 1", "sbrs r1, 1",
          "sbic 1, 1", "sbis 1, 1", "sbi 1, 1", "cbi 1, 1", "in r1, 1", "out 1, r1", "bset 1", "bclr 1", "bst r1, 1", "bld r1, 1", "sec", "clc",
          "sei", "cli", "seh", "clt", "nop", "sleep", "wdr"):
    add(m)


UNIVERSAL = ["add r1, r2", "adc r3, r4", "sub r16, r17", "and r0, r31", "eor r5, r5", "mov r7, r8", "cp r1, r2", "cpse r1, r2", "ldi r16, low(K1)", "ldi r31, high(K2)",
             "subi r17, K1 & 0xff", "andi r20, 0x0f", "ori r21, 1 << 4", "cpi r22, 'a'", "com r1", "neg r2", "inc r3", "dec r4", "lsl r5", "lsr r6", "rol r7",
             "ror r8", "asr r9", "swap r10", "tst r11", "clr r12", "ser r18", "in r1, 0x3f", "out 0x3f, r1", "sbi 5, 1", "cbi 31, 7", "sbic 0, 0", "sbis 31, 7",
             "sbrc r1, 3", "sbrs r31, 7", "bst r1, 0", "bld r2, 7", "bset 3", "bclr 5", "sec", "clz", "sei", "cli", "nop", "sleep", "wdr", "ret", "reti",
             "ld r0, Z", "st Z, r1", "rjmp @", "rcall @", "breq @", "brne @", "brcs @", "brlt @", "brbs 3, @", "brbc 6, @", "rjmp pc", "brne pc-1",
             ".dw K1, K2", ".db 1, 2, 3", ".db \"text\"", ".dw @", ".db low(@), high(@)"]


def universal_programs(rng, n):
    """programs made only of forms every device has (no flag removes them), small enough for the smallest part: assembling
    them under ANY device must give the code of the device-less build (the device enters the encoder only through gated forms)"""
    out = []
    for _ in range(n):
        k = rng.randrange(3, 25)
        nlab = rng.randrange(1, 4)
        at = sorted(rng.randrange(0, k + 1) for _ in range(nlab))
        lines = [".equ K1 = %d" % rng.randrange(0, 65536), ".equ K2 = %d" % rng.randrange(0, 65536)]
        for i in range(k + 1):
            for j, a in enumerate(at):
                if a == i:
                    lines.append("L%d:" % j)
            if i < k:
                lines.append("  " + rng.choice(UNIVERSAL).replace("@", "L%d" % rng.randrange(nlab)))
        if rng.random() < 0.3:
            lines.insert(rng.randrange(2, len(lines)), ".org %d" % rng.choice([40, 64, 100]))
        out.append("\n".join(lines) + "\n")
    return out


def shipped_part_files(res, vh, exe, devs, rng):
    """the part-definition files the assembler ships (includes/*def.inc: .device, hundreds of .equ, #pragma lines naming
    memories and unsupported instructions): a program that starts with one of them is gated exactly as by its .device line -
    everything the part has assembles to the device-less code, each form it lacks fails the build"""
    import os
    import re
    from . import common as C, fsrun
    inc = os.path.join(C.REPO, "includes")
    flags_of = {d[0]: set(d[5]) for d in devs}
    base = fsrun.work_root()
    cases, meta = [], []
    for fn in sorted(os.listdir(inc)):
        if not fn.endswith("def.inc"):
            continue
        text = open(os.path.join(inc, fn), errors="replace").read()
        m = re.search(r"^\s*\.device\s+(\w+)", text, re.M | re.I)
        if not m or m.group(1) not in flags_of:
            continue
        opts = flags_of[m.group(1)]
        allowed = [f for f, fl in FORMS if not (fl & opts) and not f.split()[0] in ("lds", "sts")]
        lacking = [f for f, fl in FORMS if fl & opts]
        rng.shuffle(lacking)
        progs = [("all-it-has", "\n".join(" " + f for f in allowed) + "\n", None)]
        progs += [("lacks", " nop\n %s\n nop\n" % f, f) for f in lacking[:3 if res.tier == "quick" else 100]]
        for kind, body, form in progs:
            r = "%s/p%d" % (base, len(cases))
            cases.append(dict(cwd=r, main="main.asm", paths=[], dirs=[r], files={r + "/main.asm": '.include "%s"\n%s' % (fn, body), r + "/" + fn: text}, missing=None))
            meta.append((fn, m.group(1), kind, body, form))
    try:
        rows = fsrun.run_cases(vh, exe, cases)
    finally:
        fsrun.cleanup()
    plain = {b: progrun.parse_obs(o) for (b, o, _) in progrun.run_texts(vh, exe, list(dict.fromkeys(x[3] for x in meta if x[2] == "all-it-has")))}
    mism = [(c, a, b) for c, a, b in rows if not P.agree(a, b)]
    res.oblige("correspondence(extracted model): Files.build_file = builder::build_file on %d programs that start with a shipped part-definition file" % len(rows),
               not mism, "%s: impl=%s model=%s" % (list(mism[0][0]["files"])[0][-30:], mism[0][1][:80], mism[0][2][:80]) if mism else "")
    for (fn, dev, kind, body, form), (_, a, _) in zip(meta, rows):
        o = progrun.parse_obs(a.replace(" NAMED", "").replace(" UNNAMED", ""))
        res.count(("part-file", fn, kind, form), nontrivial=True)
        src = '.include "%s"   (the shipped file, .device %s)\n%s' % (fn, dev, body)
        if kind == "lacks" and o["kind"] != "ERR":
            P.fail(res, "builder::build_file", src, "a failed build: %s lacks `%s`" % (dev, form), a[:60], "part-file-gate-open")
        if kind == "all-it-has":
            w = plain[body]
            # files that the grammar cannot read at all are outside this check (the same outcome with any program behind them)
            if o["kind"] == "ERR" and o.get("line") is not None and o["line"] <= text_lines(cases[meta.index((fn, dev, kind, body, form))]["files"], fn):
                continue
            if w["kind"] == "OK" and (o["kind"] != "OK" or o["code"] != w["code"]):
                P.fail(res, "builder::build_file", src, "the code of the same instructions without a device: " + w["code"][:40], a[:60], "part-file-gate-closed")
    res.extra.setdefault("distribution", {})["programs_behind_part_files"] = len(cases)


def text_lines(files, fn):
    for p, t in files.items():
        if p.endswith("/" + fn):
            return t.count("\n") + 1
    return 0


def run(res):
    vh, exe = P.base(res, PROP)
    devs = gen.read_devices(vh)
    from . import devspec
    devspec.check(res, devs, ("feature flags",))
    texts, meta, late_meta = [], [], []
    for text, _ in FORMS:
        texts.append(text + "\n")
    import re
    for name, _, _, _, _, opts in devs[1:]:
        for text, flags in FORMS:
            t = ".device %s\n%s\n" % (name, text)
            texts.append(t)
            meta.append((t, name, text, flags, set(opts)))
            # the device is a property of the program, not of the lines after the directive: selected after the instruction
            # (directly, or behind other code) the verdict is the same
            for t3 in ("%s\n.device %s\n" % (text, name), "%s\n nop\n.org 0x20\n.device %s\n nop\n" % (text, name)):
                texts.append(t3)
                late_meta.append((t3, name, text, flags, set(opts)))
            # the same form with its first register written through a .def alias: the verdict must not depend on the spelling
            m = re.search(r"\br(\d+)\b", text)
            if m:
                al = text[:m.start()] + "Al_1" + text[m.end():]
                t2 = ".device %s\n.def al_1 = r%s\n%s\n" % (name, m.group(1), al)
                texts.append(t2)
                meta.append((t2, name, text, flags, set(opts)))
    # sequences: the verdict on an instruction must not depend on what was assembled before it - every ordered pair of forms of
    # one mnemonic, and random triples of forms, under every device
    import random
    rng = random.Random(res.seed)
    fam = {}
    for text, flags in FORMS:
        fam.setdefault(text.split()[0], []).append((text, flags))
    seqs = []
    for name, _, _, _, _, opts in devs[1:]:
        for m, forms in fam.items():
            if len(forms) > 1:
                for f1 in forms:
                    for f2 in forms:
                        if f1 is not f2:
                            seqs.append((name, set(opts), [f1, f2]))
        for _ in range(12 if res.tier == "quick" else 600):
            seqs.append((name, set(opts), [rng.choice(FORMS) for _ in range(3)]))
    seq_meta = []
    for name, opts, forms in seqs:
        kind = rng.choice([0, 0, 1, 2])
        lines = []
        for k, f in enumerate(forms):
            if k and kind == 1:
                lines.append(".org %d" % (8 * k))
            elif k and kind == 2:
                lines.append("lab%d_%d:" % (len(seq_meta), k))
            lines.append(f[0])
        t = ".device %s\n%s\n" % (name, "\n".join(lines))
        texts.append(t)
        seq_meta.append((t, name, opts, forms))
    shipped_part_files(res, vh, exe, devs, rng)
    # instructions a #pragma names as unsupported are comments for this assembler: the table decides
    for name, _, _, _, _, opts in devs[1:]:
        for text, flags in FORMS[::7]:
            mn = text.split()[0]
            t = ".device %s\n#pragma AVRPART CORE INSTRUCTIONS_NOT_SUPPORTED %s\n.pragma AVRPART CORE INSTRUCTIONS_NOT_SUPPORTED break movw mul\n%s\n" % (name, mn, text)
            texts.append(t)
            meta.append((t, name, text, flags, set(opts)))
    for name, _, _, _, _, opts in devs[1:]:
        for text, flags in FORMS[::5]:
            mn = text.split()[0]
            t = ".device %s\n.macro %s\n nop\n nop\n.endm\n%s\n" % (name, mn, text)
            texts.append(t)
            meta.append((t, name, text, flags, set(opts)))
    uni = universal_programs(rng, 30 if res.tier == "quick" else 3000)
    uni_meta = []
    for u in uni:
        texts.append(u)
        for name, _, _, _, _, opts in devs[1:]:
            t = ".device %s\n%s" % (name, u)
            texts.append(t)
            uni_meta.append((t, u, name))
    obs = P.correspond(res, vh, exe, texts, "device x instruction-form programs and sequences")
    for t, u, name in uni_meta:
        a, b = progrun.parse_obs(obs[t][0]), progrun.parse_obs(obs[u][0])
        if b["kind"] == "OK" and (a["kind"] != "OK" or a["code"] != b["code"]):
            P.fail(res, "builder::build_str", t, "the code of the same program without a device: " + obs[u][0][:80], obs[t][0][:80], "device-changes-code")
    for t, name, opts, forms in seq_meta:
        a = progrun.parse_obs(obs[t][0])
        bad = [f[0] for f in forms if f[1] & opts]
        if bad and a["kind"] != "ERR":
            P.fail(res, "builder::build_str", t, "a failed build: %s lacks %s" % (name, bad[0]), obs[t][0][:60], "gate-open-in-sequence")
        elif not bad and a["kind"] != "OK":
            P.fail(res, "builder::build_str", t, "assembles: every instruction exists on " + name, obs[t][0][:60], "gate-closed-in-sequence")
    for t, name, text, flags, opts in late_meta:
        a = progrun.parse_obs(obs[t][0])
        if bool(flags & opts) and a["kind"] != "ERR":
            P.fail(res, "builder::build_str", t, "a failed build: %s has %s (the device is selected after the instruction)" % (name, sorted(flags & opts)), obs[t][0][:60],
                   "gate-open-device-late")
        elif not (flags & opts) and a["kind"] != "OK":
            P.fail(res, "builder::build_str", t, "assembles: the instruction exists on " + name, obs[t][0][:60], "gate-closed-device-late")
    ndis = 0
    for t, name, text, flags, opts in meta:
        a = progrun.parse_obs(obs[t][0])
        base = progrun.parse_obs(obs[text + "\n"][0])
        disabled = bool(flags & opts)
        if disabled:
            ndis += 1
            if a["kind"] != "ERR":
                P.fail(res, "builder::build_str", t, "a failed build: %s has %s" % (name, sorted(flags & opts)), obs[t][0][:60], "gate-open:" + sorted(flags & opts)[0])
        else:
            avr8l_ldsts = "Avr8l" in opts and text.split()[0] in ("lds", "sts")
            if a["kind"] != "OK":
                P.fail(res, "builder::build_str", t, "assembles as with no device selected", obs[t][0][:60], "gate-closed")
            elif not avr8l_ldsts and a["code"] != base.get("code"):
                P.fail(res, "builder::build_str", t, "code " + str(base.get("code")), "code " + a["code"], "bytes-differ")
            elif avr8l_ldsts and len(a["code"]) != 4:
                P.fail(res, "builder::build_str", t, "the one-word lds/sts form", "code " + a["code"], "avr8l-length")
    res.extra["distribution"].update(devices=len(devs) - 1, forms=len(FORMS), disabled_pairs=ndis, pairs=len(meta), sequences=len(seq_meta))
    res.extra["exhaustive"] = True
    res.rule = ("every device row (regenerated from /repo) x %d instruction forms (every mnemonic, every X/Y/Z addressing form, the "
                "lpm/elpm variants); oracle: flag meanings as documented in device.rs (NoMul = six multiplies, NoJmp = jmp+call, "
                "NoXreg/NoYreg = every X/Y form, Tiny1x = adiw sbiw ijmp icall ldd std lds sts push pop, NoLpm, NoLpmX = lpm Rd,Z[+], "
                "NoElpm, NoElpmX, NoSpm, NoMovw, NoBreak, NoEicall, NoEijmp, Avr8l = adiw sbiw + one-word lds/sts); plus, per device, every ordered "
                "pair of forms of one mnemonic and random triples of forms (separated by nothing, .org or a label): the verdict on a form must "
                "not depend on what precedes it; random programs of forms no flag removes (registers, immediates, bit and port operations, "
                "relative jumps and branches to labels, data), under every device: same code as without a device" % len(FORMS))
    res.samples = [dict(source=m[0], flags=sorted(m[3] & m[4]), observed=obs[m[0]][0][:40]) for m in meta[:3]]
    res.assume = ["GateSpec (FORMS in vlib/c13.py, mirrored by Spec/GateSpec.v) is my reading of the flag comments in device.rs"]


match_known = P.match_known


def replay(path):
    return P.replay_by_rerun(PROP, path)
