(** C14 - surface syntax that carries no meaning never changes the output (examples; theorems follow). *)
From Coq Require Import List ZArith NArith String.
Import ListNotations.
Require Import AvraV.Model.Base AvraV.Model.Ast AvraV.Model.Passes.
Definition code_of (src : string) : option (list N) :=
  match build_str 200 (list_ascii_of_string src) with Ok b => Some (b_code b) | _ => None end.
Definition nl := String (Ascii.ascii_of_N 10) EmptyString.
Definition crlf := String (Ascii.ascii_of_N 13) nl.
Example C14_examples :
  code_of ("ldi r16, low(0x1F)" ++ nl) = code_of (" LDI  R16 ,LOW ( $1f ) ; c" ++ crlf ++ "// x" ++ crlf) /\
  code_of ("ldi r16, 31" ++ nl) = code_of ("ldi r16, 0b11111 /* c */" ++ nl ++ nl) /\
  code_of ("ldi r16, 31" ++ nl) = Some [15; 225]%N.
Proof. vm_compute. repeat split; reflexivity. Qed.
