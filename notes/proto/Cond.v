From Coq Require Import List Arith Lia Bool.
Import ListNotations.

Section Cond.
Variable X : Type.                     (* payload of a plain line *)
Variable St : Type.                    (* assembly state *)
Variable step : St -> X -> St.         (* assembling a plain line *)
Variable cnd : Type.
Variable ev : St -> cnd -> bool.       (* condition evaluated in the current state *)

Inductive line := LIf (c:cnd) | LElif (c:cnd) | LElse | LEndif | LPlain (x:X).

(* ---- machine: mirrors parse_iter + skip (with the planned fix: EndIfAll) ---- *)
(* skip_arm d ls : skipping an untaken arm; stops at depth 0 on else/endif (resume after) or elif (resume at it) *)
Inductive resume := RAfter (ls:list line) | RElif (c:cnd) (ls:list line) | REof.

Fixpoint skip_arm (d:nat) (ls:list line) : resume :=
  match ls with
  | [] => REof
  | LIf _ :: r => skip_arm (S d) r
  | LEndif :: r => match d with O => RAfter r | S d' => skip_arm d' r end
  | LElse :: r => match d with O => RAfter r | S _ => skip_arm d r end
  | LElif c :: r => match d with O => RElif c r | S _ => skip_arm d r end
  | LPlain _ :: r => skip_arm d r
  end.

(* skip_all d ls : an arm was taken; skip to the matching endif *)
Fixpoint skip_all (d:nat) (ls:list line) : list line :=
  match ls with
  | [] => []
  | LIf _ :: r => skip_all (S d) r
  | LEndif :: r => match d with O => r | S d' => skip_all d' r end
  | _ :: r => skip_all d r
  end.

(* the line loop, on fuel = length of input *)
Fixpoint run (f:nat) (ls:list line) (s:St) : St :=
  match f with O => s | S f' =>
  match ls with
  | [] => s
  | LPlain x :: r => run f' r (step s x)
  | LEndif :: r => run f' r s
  | LElse :: r => run f' (skip_all 0 r) s            (* reached while assembling: an arm was taken *)
  | LElif _ :: r => run f' (skip_all 0 r) s          (* idem (planned fix) *)
  | LIf c :: r => if ev s c then run f' r s else after_skip f' (skip_arm 0 r) s
  end end
with after_skip (f:nat) (k:resume) (s:St) : St :=
  match f with O => s | S f' =>
  match k with
  | REof => s
  | RAfter r => run f' r s
  | RElif c r => if ev s c then run f' r s else after_skip f' (skip_arm 0 r) s
  end end.

(* ---- relational big-step of the same machine ---- *)
Inductive Run : list line -> St -> St -> Prop :=
| R_nil s : Run [] s s
| R_plain x r s s' : Run r (step s x) s' -> Run (LPlain x :: r) s s'
| R_endif r s s' : Run r s s' -> Run (LEndif :: r) s s'
| R_else r s s' : Run (skip_all 0 r) s s' -> Run (LElse :: r) s s'
| R_elif c r s s' : Run (skip_all 0 r) s s' -> Run (LElif c :: r) s s'
| R_if_t c r s s' : ev s c = true -> Run r s s' -> Run (LIf c :: r) s s'
| R_if_f c r s s' : ev s c = false -> After (skip_arm 0 r) s s' -> Run (LIf c :: r) s s'
with After : resume -> St -> St -> Prop :=
| A_eof s : After REof s s
| A_after r s s' : Run r s s' -> After (RAfter r) s s'
| A_elif_t c r s s' : ev s c = true -> Run r s s' -> After (RElif c r) s s'
| A_elif_f c r s s' : ev s c = false -> After (skip_arm 0 r) s s' -> After (RElif c r) s s'.

(* ---- specification: block trees ---- *)
Inductive node := NPlain (x:X) | NBlock (c:cnd) (body:nodes) (tl:arms)
with nodes := Nnil | Ncons (n:node) (ns:nodes)
with arms := AEnd | AElse (body:nodes) | AElif (c:cnd) (body:nodes) (more:arms).

Scheme node_i := Induction for node Sort Prop
with nodes_i := Induction for nodes Sort Prop
with arms_i := Induction for arms Sort Prop.
Combined Scheme tree_mut from node_i, nodes_i, arms_i.

Fixpoint fl_node (n:node) : list line :=
  match n with NPlain x => [LPlain x] | NBlock c b a => LIf c :: fl_nodes b ++ fl_arms a end
with fl_nodes (ns:nodes) : list line :=
  match ns with Nnil => [] | Ncons n r => fl_node n ++ fl_nodes r end
with fl_arms (a:arms) : list line :=
  match a with AEnd => [LEndif] | AElse b => LElse :: fl_nodes b ++ [LEndif]
             | AElif c b m => LElif c :: fl_nodes b ++ fl_arms m end.

Fixpoint ex_node (s:St) (n:node) : St :=
  match n with NPlain x => step s x | NBlock c b a => if ev s c then ex_nodes s b else ex_arms s a end
with ex_nodes (s:St) (ns:nodes) : St :=
  match ns with Nnil => s | Ncons n r => ex_nodes (ex_node s n) r end
with ex_arms (s:St) (a:arms) : St :=
  match a with AEnd => s | AElse b => ex_nodes s b | AElif c b m => if ev s c then ex_nodes s b else ex_arms s m end.

(* balanced text is invisible to both skippers *)
Lemma skip_arm_bal :
  (forall n d r, skip_arm d (fl_node n ++ r) = skip_arm d r) /\
  (forall ns d r, skip_arm d (fl_nodes ns ++ r) = skip_arm d r) /\
  (forall a d r, skip_arm (S d) (fl_arms a ++ r) = skip_arm d r).
Proof.
  apply tree_mut; intros; cbn [fl_node fl_nodes fl_arms app skip_arm]; rewrite <- ?app_assoc; cbn [app skip_arm]; auto.
  - rewrite H, H0. reflexivity.
  - rewrite H, H0. reflexivity.
  - rewrite H. reflexivity.
  - rewrite H, H0. reflexivity.
Qed.

Lemma skip_all_bal :
  (forall n d r, skip_all d (fl_node n ++ r) = skip_all d r) /\
  (forall ns d r, skip_all d (fl_nodes ns ++ r) = skip_all d r) /\
  (forall a d r, skip_all (S d) (fl_arms a ++ r) = skip_all d r).
Proof.
  apply tree_mut; intros; cbn [fl_node fl_nodes fl_arms app skip_all]; rewrite <- ?app_assoc; cbn [app skip_all]; auto.
  - rewrite H, H0. reflexivity.
  - rewrite H, H0. reflexivity.
  - rewrite H. reflexivity.
  - rewrite H, H0. reflexivity.
Qed.

(* an arm was taken: the rest of the block is skipped *)
Lemma taken_tail a r s s' : Run r s s' -> Run (fl_arms a ++ r) s s'.
Proof.
  destruct skip_all_bal as (_ & Hns & Ha). intros H.
  destruct a; cbn [fl_arms app].
  - constructor. exact H.
  - apply R_else. rewrite <- app_assoc. rewrite Hns. cbn. exact H.
  - apply R_elif. rewrite <- app_assoc. rewrite Hns.
    change (Run (skip_all 0 (fl_arms a ++ r)) s s').
    (* tail of arms at depth 0: its endif closes the block *)
    clear -H Hns Ha. revert r s s' H. induction a; intros; cbn [fl_arms app skip_all].
    + exact H.
    + rewrite <- app_assoc, Hns. cbn. exact H.
    + rewrite <- app_assoc, Hns. apply IHa. exact H.
Qed.

Theorem machine_refines_spec :
  (forall n r s s', Run r (ex_node s n) s' -> Run (fl_node n ++ r) s s') /\
  (forall ns r s s', Run r (ex_nodes s ns) s' -> Run (fl_nodes ns ++ r) s s') /\
  (forall a r s s', Run r (ex_arms s a) s' -> After (skip_arm 0 (fl_arms a ++ r)) s s').
Proof.
  destruct skip_arm_bal as (_ & SAns & SAa).
  apply tree_mut.
  - intros x r s s' H. cbn. constructor. exact H.
  - intros c b IHb a IHa r s s' H. cbn [fl_node app ex_node] in *. rewrite <- app_assoc.
    destruct (ev s c) eqn:E.
    + apply R_if_t; [exact E|]. apply IHb. apply taken_tail. exact H.
    + apply R_if_f; [exact E|]. rewrite SAns. apply IHa. exact H.
  - intros r s s' H. exact H.
  - intros n IHn ns IHns r s s' H. cbn [fl_nodes ex_nodes] in *. rewrite <- app_assoc. apply IHn, IHns, H.
  - intros r s s' H. cbn. constructor. exact H.
  - intros b IHb r s s' H. cbn [fl_arms app skip_arm ex_arms] in *. rewrite <- app_assoc.
    constructor. apply IHb. cbn. constructor. exact H.
  - intros c b IHb m IHm r s s' H. cbn [fl_arms app skip_arm ex_arms] in *. rewrite <- app_assoc.
    destruct (ev s c) eqn:E.
    + apply A_elif_t; [exact E|]. apply IHb. apply taken_tail. exact H.
    + apply A_elif_f; [exact E|]. rewrite SAns. apply IHm. exact H.
Qed.

Corollary whole_program ns s : Run (fl_nodes ns) s (ex_nodes s ns).
Proof. rewrite <- (app_nil_r (fl_nodes ns)). apply machine_refines_spec. constructor. Qed.
End Cond.
Print Assumptions whole_program.
