(** The list of small spellings cut into chunks that are swept in parallel (one file each). *)
From Coq Require Import List String.
Import ListNotations.
Require Import AvraV.Spec.Isa AvraV.Proofs.EncCheck.
Definition small_spellings : list spelling := filter small_sp spellings.
Definition chunk (a b : nat) : list spelling := firstn (b - a) (skipn a small_spellings).
