(** C06: the data directives of the model emit what Spec/DataSpec.v demands. *)
From Coq Require Import List NArith ZArith Bool Lia ZifyBool.
Import ListNotations.
Require Import AvraV.Model.Base AvraV.Model.Ast AvraV.Model.Device AvraV.Model.Eval AvraV.Model.Encode.
Require Import AvraV.Model.Parse AvraV.Model.Passes AvraV.Spec.DataSpec.
Local Open Scope Z_scope.
Ltac Zify.zify_post_hook ::= Z.div_mod_to_equations.

Definition to_resl (o : option (list N)) : res (list N) := match o with Some v => Ok v | None => Err None end.

Lemma to_N_eq a b : a = b -> Z.to_N a = Z.to_N b.
Proof. congruence. Qed.
Lemma le1 v : le_bytes 1 (v mod 256) = little_endian Db v.
Proof. cbn [le_bytes little_endian]. unfold byte_at. f_equal. apply to_N_eq. change (256 ^ 0) with 1. lia. Qed.
Lemma le2 v : le_bytes 2 (v mod 65536) = little_endian Dw v.
Proof.
  cbn [le_bytes little_endian]. unfold byte_at. change (256 ^ 0) with 1. change (256 ^ 1) with 256.
  f_equal; [apply to_N_eq; lia | f_equal; apply to_N_eq; lia].
Qed.
Lemma le4 v : le_bytes 4 (v mod 4294967296) = little_endian Dd v.
Proof.
  cbn [le_bytes little_endian]. unfold byte_at. rewrite !Z.div_div by lia.
  change (256 ^ 0) with 1. change (256 ^ 1) with 256. change (256 ^ 2) with 65536. change (256 ^ 3) with 16777216.
  change (256 * 256) with 65536. change (65536 * 256) with 16777216.
  repeat (f_equal; [apply to_N_eq; lia |]). f_equal. apply to_N_eq. lia.
Qed.
Lemma le8 v : le_bytes 8 (to_u64 v) = little_endian Dq v.
Proof.
  cbn [le_bytes little_endian]. unfold byte_at, to_u64, two64. rewrite !Z.div_div by lia.
  change (256 ^ 0) with 1. change (256 ^ 1) with 256. change (256 ^ 2) with 65536. change (256 ^ 3) with 16777216.
  change (256 ^ 4) with 4294967296. change (256 ^ 5) with 1099511627776. change (256 ^ 6) with 281474976710656.
  change (256 ^ 7) with 72057594037927936.
  cbn [Z.mul Pos.mul].
  repeat (f_equal; [apply to_N_eq; lia |]). f_equal. apply to_N_eq. lia.
Qed.

Theorem operand_spec fuel c k o (val : expr -> option Z) :
  (forall e, o = PE e -> run fuel c e = match val e with Some v => Ok v | None => Err None end) ->
  operand_bytes fuel c k o = to_resl (spec_operand val k o).
Proof.
  intros Hv. destruct o as [e | t]; cbn [operand_bytes spec_operand].
  - rewrite (Hv e eq_refl). destruct (val e) as [v|]; cbn [bind]; [|reflexivity].
    destruct k; cbn [fits_width width].
    + unfold byte_of. replace ((-2 ^ (8 * 1 - 1) <=? v) && (v <? 2 ^ (8 * 1))) with (negb ((255 <? v) || (v <? -128))) by lia.
      destruct ((255 <? v) || (v <? -128)); cbn [negb bind to_resl]; [reflexivity|]. rewrite le1. reflexivity.
    + unfold word_of. replace ((-2 ^ (8 * 2 - 1) <=? v) && (v <? 2 ^ (8 * 2))) with (negb ((65535 <? v) || (v <? -32768))) by lia.
      destruct ((65535 <? v) || (v <? -32768)); cbn [negb bind to_resl]; [reflexivity|]. rewrite le2. reflexivity.
    + unfold dword_of. replace ((-2 ^ (8 * 4 - 1) <=? v) && (v <? 2 ^ (8 * 4))) with (negb ((4294967295 <? v) || (v <? -2147483648))) by lia.
      destruct ((4294967295 <? v) || (v <? -2147483648)); cbn [negb bind to_resl]; [reflexivity|]. rewrite le4. reflexivity.
    + unfold qword_of. cbn [bind to_resl]. rewrite le8. reflexivity.
  - destruct k; reflexivity.
Qed.

Theorem data_spec fuel c k (val : expr -> option Z) : forall l,
  (forall e, In (PE e) l -> run fuel c e = match val e with Some v => Ok v | None => Err None end) ->
  data_bytes fuel c k l = to_resl (spec_data val k l).
Proof.
  induction l as [|o r IH]; intros Hv; [reflexivity|].
  cbn [data_bytes spec_data].
  rewrite (operand_spec fuel c k o val) by (intros e ->; apply Hv; left; reflexivity).
  destruct (spec_operand val k o) as [a|]; cbn [to_resl bind]; [|reflexivity].
  rewrite IH by (intros e He; apply Hv; right; exact He).
  destruct (spec_data val k r); reflexivity.
Qed.

(** the number of bytes a .db operand list emits is the length pass 1 counted *)
Lemma operand_len_spec val o bs : spec_operand val Db o = Some bs -> N.of_nat (length bs) = operand_len o.
Proof.
  destruct o as [e|t]; cbn [spec_operand operand_len].
  - destruct (val e); [|discriminate]. destruct (fits_width Db z); [|discriminate]. intros [= <-]. reflexivity.
  - intros [= <-]. rewrite map_length. reflexivity.
Qed.
