"""C15 - a failed build names the offending line; messages are kept in order.
Search oracle: a valid program + exactly one injected single-line fault at a known line -> ERR naming that line;
.message/.warning lines: the result's message list = those lines in source order with their own numbers, images unchanged."""
import random

from . import common as C, fsrun, progcheck as P, proggen, progrun

PROP = "C15"

FAULTS = [
    ("syntax", ["  ldi r16,, 5", "  mov r1 r2", "  )(", "  .db 1,", "  ldi r16, 1 +", "@@@", "  nop nop", "  .db \"open"]),
    ("unknown-mnemonic-or-macro", ["  frobnicate r1", "  nosuchmacro", "  brxx there"]),
    ("operand-kind", ["  ldi 5, 5", "  mov r1, 7", "  ld r1, r2", "  inc X", "  out r1, r1"]),
    ("operand-range", ["  ldi r1, 5", "  ldi r16, 300", "  adiw r24, 64", "  sbi 32, 1", "  sbrc r1, 8", "  movw r1, r2", "  adiw r25, 1", "  in r1, 64"]),
    ("operand-count", ["  mov r1", "  nop r1", "  ldi r16", "  ret 5"]),
    ("undefined-symbol-instruction", ["  ldi r16, undefined_sym", "  rjmp undefined_label", "  lds r16, nosuch + 1", "  ldi r16, 0 && undefined_sym",
                                      "  ldi r16, 1 || undefined_sym", "  ldi r16, 0 * undefined_sym", "  ldi r16, low(0 & undefined_sym)"]),
    ("undefined-symbol-data", ["  .db undefined_sym", "  .dw 1 || nosuch", "  .dw 0 && nosuch", "  .db (1 || nosuch) + 1", "  .dw 1, undefined_sym", "  .dq nosuch", "  .dw frameequ, framevar, nosuch", "  .db low(nosuch)"]),
    ("data-range", ["  .db 256", "  .dw 65536", "  .db -129", "  .dd 4294967296", "  .dw \"str\""]),
    ("undefined-symbol-set", [".set newset = undefined_sym + 1", ".set framevar = undefined_sym", ".set FrameVar = framevar + undefined_sym",
                              ".set framevar = framevar / (framevar - framevar)", ".set framevar = low(undefined_sym)"]),
    ("undefined-symbol-if", [".if undefined_sym\n.endif", ".if 0\n.elif undefined_sym\n.endif", ".if 1 || undefined_sym\n.endif", ".if 0 && undefined_sym\n.endif"]),
    ("duplicate-label", ["main_label: nop", "main_label:", "MAIN_LABEL: nop"]),
    ("duplicate-label-other-segment", [".dseg\nmain_label: .byte 1\n.cseg", ".eseg\nmain_label: .db 1\n.cseg", ".dseg\nMain_Label:\n.cseg", ".eseg\nmain_label:\n.cseg"]),
    ("error-directive", [".error \"stop\"", ".error \"\"", ".error \" \"", ".error \"\t\"", ".error \"a;b\"", ".error \"x // y\"", "  .error \"indented\" ; why",
                         ".ERROR_NOT", "lbl_e: .error \"after a label\""]),
    ("unknown-directive", [".frobnicate 1", ".list"]),
    ("branch-range", ["  breq far_label", "  brne pc+65", "  rjmp pc+2049", "  breq pc-64", "  rcall pc-2048"]),
    ("undef-unknown", [".undef never_defined", ".undef framereg\n.undef framereg"]),
    ("def-not-register", [".def myreg = notareg"]),
    ("device-unknown", [".device NoSuchDevice"]),
    ("wrong-segment", [".byte 3"]),
]


def valid_program(rng):
    n = rng.choice([3, 6, 10, 16])
    ls = proggen.program(rng, size=n, conditionals=False, macros=False)
    # a stable frame: a label that exists once, a far label, a macro that needs an argument
    # (there is no line continuation: a comment ending in a backslash is a comment and a line like any other)
    head = ["main_label: nop ; keep \\", ".macro needsarg", "  ldi r16, @0", ".endm", ".set framevar = 1", ".def framereg = r20 // c:\\inc\\", ".equ frameequ = 3"]
    tail = [".cseg", ".org 0x400", "far_label: nop"]
    return head + [l for l in ls if not l.startswith(".org") and "seg" not in l and not l.startswith(".message") and not l.startswith(".warning")] + tail


def file_trees(res, vh, exe, rng):
    """messages and errors in included files: kept in order, errors name the line inside the file that has the fault"""
    base = fsrun.work_root()
    cases = []
    for i in range(40):
        r = "%s/m%d" % (base, i)
        msgs = []
        k = [0]

        def note(lines, where):
            k[0] += 1
            kind = rng.choice(["message", "warning"])
            lines.append('.%s "%s-%d"' % (kind, where, k[0]))
            msgs.append(("info" if kind == "message" else "warning", "%s-%d" % (where, k[0])))
        deep, inc, main = [], [], []
        fault = rng.choice([None, None, "inc", "deep", "main"])
        want_line = None
        for _ in range(rng.randrange(0, 3)):
            note(main, "main")
        main.append("  nop")
        main.append('.include "sub/f.inc"')
        # f.inc
        for _ in range(rng.randrange(0, 3)):
            note(inc, "inc")
        inc.append("  nop")
        if fault == "inc":
            inc.append("  ldi r16, undefined_in_inc")
            # the fault is found in pass 2: every message of the whole program is recorded by then; only the error matters
        inc.append('.include "g.inc"')
        for _ in range(rng.randrange(0, 2)):
            note(deep, "deep")
        if fault == "deep":
            deep.append('.error "stop in g"')
            want_line = len(deep)
        deep.append("  nop")
        # after g.inc, back in f.inc
        n_after = rng.randrange(0, 2)
        # order: main-before, inc-before, deep, inc-after, main-after
        tail_inc, tail_main = [], []
        saved = msgs[:]
        for _ in range(n_after):
            note(tail_inc, "inc")
        for _ in range(rng.randrange(0, 3)):
            note(tail_main, "main")
        if fault == "main":
            tail_main.append("  this is not assembly")
            want_line = len(main) + len(tail_main)
        files = {r + "/main.asm": "\n".join(main + tail_main) + "\n", r + "/sub/f.inc": "\n".join(inc + tail_inc) + "\n", r + "/sub/g.inc": "\n".join(deep) + "\n"}
        cases.append((dict(cwd=r, main="main.asm", paths=[], dirs=[r, r + "/sub"], files=files, missing=None), fault, want_line, list(msgs)))
    # the same directive assembled more than once is reported as many times: a file included twice in a row, a message that has the
    # same kind, text and line number in the including and in the included file
    for i, kind in enumerate(("message", "warning")):
        w = "info" if kind == "message" else "warning"
        r = "%s/r%d" % (base, i)
        cases.append((dict(cwd=r, main="main.asm", paths=[], dirs=[r], missing=None,
                           files={r + "/main.asm": ' nop\n.include "twice.inc"\n.include "twice.inc"\n nop\n.include "twice.inc"\n', r + "/twice.inc": '.%s "again"\n nop\n' % kind}),
                      None, None, [(w, "again")] * 3))
        r = "%s/s%d" % (base, i)
        cases.append((dict(cwd=r, main="main.asm", paths=[], dirs=[r], missing=None,
                           files={r + "/main.asm": '.include "a.inc"\n.%s "same"\n nop\n' % kind, r + "/a.inc": '\n.%s "same"\n' % kind}),
                      None, None, [(w, "same")] * 2))
        r = "%s/q%d" % (base, i)
        cases.append((dict(cwd=r, main="main.asm", paths=[], dirs=[r], missing=None,
                           files={r + "/main.asm": '.%s "same"\n.include "a.inc"\n nop\n' % kind, r + "/a.inc": '.%s "same"\n.%s "same"\n' % (kind, kind)}),
                      None, None, [(w, "same")] * 3))
    try:
        rows = fsrun.run_cases(vh, exe, [c[0] for c in cases])
    finally:
        fsrun.cleanup()
    mism = [(c, a, b) for c, a, b in rows if not P.agree(a, b)]
    res.oblige("correspondence(extracted model): Files.build_file = builder::build_file on %d trees with messages / faults in included files" % len(rows),
               not mism, "impl=%s model=%s" % (mism[0][1][:100], mism[0][2][:100]) if mism else "")
    for (case, fault, want_line, msgs), (_, a, _) in zip(cases, rows):
        o = progrun.parse_obs(a)
        src = "\n".join("--- %s\n%s" % (p.rsplit("/", 2)[-1], t) for p, t in case["files"].items())
        if fault is None:
            got = [(m.split(":")[0], m.split(": ", 1)[1].rsplit(" in line", 1)[0]) for m in o.get("msgs", [])] if o["kind"] == "OK" else None
            if got != msgs:
                P.fail(res, "builder::build_file", src, "messages in source order across the files: %s" % msgs, a[:200], "messages-in-includes")
        else:
            if o["kind"] != "ERR":
                P.fail(res, "builder::build_file", src, "a failed build (fault in %s)" % fault, a[:100], "fault-accepted:include")
            elif want_line is not None and o["line"] != want_line:
                P.fail(res, "builder::build_file", src, "an error naming line %d of the file that has the fault (%s)" % (want_line, fault), a[:100], "line:include")


def run(res):
    vh, exe = P.base(res, PROP)
    rng = random.Random(res.seed)
    cases = []   # (text, kind, expected line or None for "valid")
    nprog = 120 if res.tier == "quick" else 20000
    # "an otherwise valid program": keep only generated bases that build
    cands = [valid_program(rng) for _ in range(nprog * 3)]
    pre = progrun.run_texts(vh, exe, ["\n".join(b) + "\n" for b in cands])
    bases = [b for b, r in zip(cands, pre) if r[1].startswith("OK")][:nprog]
    for base in bases:
        cases.append(("\n".join(base) + "\n", "valid", None, None))
        for kind, variants in FAULTS:
            v = rng.choice(variants)
            pos = rng.randrange(7, len(base) - 2)
            ls = base[:pos] + v.split("\n") + base[pos:]
            # the line the error must name: the (first) injected line; for duplicate labels the second definition
            want = pos + 1
            if kind == "undefined-symbol-if" and "\n.elif" in v:
                want = pos + 2
            if kind == "undef-unknown" and "\n" in v:
                want = pos + 2
            if kind == "duplicate-label-other-segment":
                want = pos + 2
            cases.append(("\n".join(ls) + "\n", kind, want, v))
    # messages: valid programs with .message/.warning sprinkled in, also inside taken/untaken conditional arms
    mcases = []
    for base in bases:
        ls, expect = [], []
        for li, l in enumerate(base):
            if li >= 7 and rng.random() < 0.25:
                k = rng.choice(["message", "warning"])
                # any text is a message, the empty and the blank one included; nothing in it is interpreted
                txt = rng.choice(["t%d" % len(ls)] * 4 + ["", " ", " \t ", "a;b", "x // y", "/* z */", "50%", "in line: 7", "error: no", "é", "it's",
                                                           "  padded  ", "m" * 70, ".error", "@0", "\\", ","])
                form = rng.randrange(7)
                if form == 0:
                    ls.append('.%s "%s"' % (k, txt))
                    expect.append(("info" if k == "message" else "warning", txt, len(ls)))
                elif form == 1:
                    ls += [".if 1", '.%s "%s"' % (k, txt), ".endif"]
                    expect.append(("info" if k == "message" else "warning", txt, len(ls) - 1))
                elif form == 2:
                    ls += [".if 0", '.%s "%s"' % (k, txt), ".error \"never\"", ".endif"]
                elif form == 3:
                    ls += [".if 0", ".else", '.%s "%s"' % (k, txt), ".endif"]
                    expect.append(("info" if k == "message" else "warning", txt, len(ls) - 1))
                elif form == 4:
                    # an unselected branch that holds a COMPLETE nested conditional (with its own .else / .elif) and text behind it
                    ls += [".if 0", ".if 1", ".message \"never-a\"", rng.choice([".else", ".elif 1", ".elif 0"]), ".error \"never-b\"", ".endif",
                           '.%s "never-c"' % k, ".error \"never-d\"", "  this is not assembly", ".endif"]
                elif form == 5:
                    ls += [".if 1", '.%s "%s"' % (k, txt), ".else", ".ifdef NOPE", ".error \"never\"", ".else", ".error \"never\"", ".endif", ".message \"never\"", ".endif"]
                    expect.append(("info" if k == "message" else "warning", txt, len(ls) - 8))
                else:
                    ls += [".if 0", ".elif 0", ".if 1", ".else", ".endif", ".error \"never\"", ".else", '.%s "%s"' % (k, txt), ".endif"]
                    expect.append(("info" if k == "message" else "warning", txt, len(ls) - 1))
            ls.append(l)
        plain = [("" if (x.startswith(".message") or x.startswith(".warning")) else x) for x in ls]
        mcases.append(("\n".join(ls) + "\n", "\n".join(plain) + "\n", expect))
    # very long sources: line numbers are not limited to 16 bits (blank and comment lines cost the model nothing)
    for at in (255, 256, 65535, 65536, 65537, 65538, 70000, 131072, 131073, 200000):
        pad = [rng.choice(["", "; c", "\t", "  // x", "; c:\\avr\\", "// \\", ";\\"]) for _ in range(at - 1)]
        for kind, v in (("operand-range", "  ldi r16, 300"), ("syntax", "  this is not assembly"), ("undefined-symbol-data", "  .dw nosuch"),
                        ("error-directive", ".error \"late\""), ("duplicate-label", "main_label: nop"), ("undefined-symbol-if", ".if nosuch\n.endif")):
            if at > 70000 and kind not in ("operand-range", "error-directive"):
                continue
            head = ["main_label: nop"]
            cases.append(("\n".join(head + pad[1:] + [v]) + "\n", kind, at, v))
        ls = ["  nop"] + pad[1:] + ['.message "late %d"' % at, '.warning "later"', "  nop"]
        mcases.append(("\n".join(ls) + "\n", "\n".join(ls[:at - 1 + 1 - 1] + ["", ""] + ["  nop"]) + "\n",
                       [("info", "late %d" % at, at), ("warning", "later", at + 1)]))
    # a message directive in a macro body is assembled at every call: as many entries as calls, in call order
    rcases = []
    for kind in ("message", "warning"):
        w = "info" if kind == "message" else "warning"
        for calls in (1, 2, 3, 7):
            rcases.append(('.macro note\n.%s "again"\n.endm\n' % kind + " note\n" * calls + " nop\n", [(w, "again")] * calls))
            rcases.append(('.macro note\n.%s "again"\n.endm\n' % kind + " note\n nop\n" * calls, [(w, "again")] * calls))
            rcases.append(('.macro note\n.%s "n @0"\n.endm\n' % kind + "".join(" note %d\n" % (i % 2) for i in range(calls)), [(w, "n %d" % (i % 2)) for i in range(calls)]))
            rcases.append(('.macro inner\n.%s "deep"\n.endm\n.macro outer\n inner\n inner\n.endm\n' % kind + " outer\n" * calls, [(w, "deep")] * (2 * calls)))
    file_trees(res, vh, exe, rng)
    obs = P.correspond(res, vh, exe, [c[0] for c in cases] + [m[0] for m in mcases] + [m[1] for m in mcases] + [c[0] for c in rcases], "single-fault and message programs")
    for text, want in rcases:
        a = progrun.parse_obs(obs[text][0])
        got = [(m.split(":")[0], m.split(": ", 1)[1].rsplit(" in line", 1)[0]) for m in a.get("msgs", [])] if a["kind"] == "OK" else None
        if got != want:
            P.fail(res, "builder::build_str", text, "one entry per assembled message directive, in order: %r" % want, obs[text][0][:200], "messages-repeated")
    dist = {}
    valid_ok = {}
    for text, kind, want, v in cases:
        a = progrun.parse_obs(obs[text][0])
        dist[kind] = dist.get(kind, 0) + 1
        if kind == "valid":
            valid_ok[text] = a["kind"] == "OK"
            continue
        if a["kind"] != "ERR":
            P.fail(res, "builder::build_str", text, "a failed build naming line %d (%s: %r)" % (want, kind, v), obs[text][0][:100], "fault-accepted:" + kind)
        elif a["line"] != want:
            P.fail(res, "builder::build_str", text, "an error naming line %d (%s: %r)" % (want, kind, v), "error naming line %s" % a["line"], "line:" + kind,
                   extra=dict(want_line=want))
    for full, plain, expect in mcases:
        a, b = progrun.parse_obs(obs[full][0]), progrun.parse_obs(obs[plain][0])
        if a["kind"] != "OK" or b["kind"] != "OK":
            continue
        want = ["%s: %s in line: %d" % e for e in expect]
        if a["msgs"] != want:
            P.fail(res, "builder::build_str", full, "messages %r" % want, "messages %r" % a["msgs"], "messages-order")
        if (a["code"], a["eeprom"], a["fill"]) != (b["code"], b["eeprom"], b["fill"]):
            P.fail(res, "builder::build_str", full, "the images of the program without its .message/.warning lines", "different images", "messages-change-image")
    res.extra["distribution"].update({"fault:" + k: v for k, v in dist.items()})
    res.extra["distribution"]["valid_bases_that_build"] = sum(1 for v in valid_ok.values() if v)
    res.extra["exhaustive"] = False
    res.rule = ("valid generated programs x one injected single-line fault of each of %d kinds at a random position (the frame supplies a "
                "label, a far label and a one-parameter macro); oracle: the build fails and the first 'line: N' of the error text is the "
                "injected line.  Message programs: .message/.warning at random lines, also inside taken / untaken / else arms; oracle: the "
                "message list equals the assembled message lines in source order with their own line numbers, and images equal those of "
                "the program with the message lines blanked" % len(FAULTS))
    res.samples = [dict(source=c[0][-200:], kind=c[1], expected_line=c[2], observed=obs[c[0]][0][:60]) for c in cases[1:4]]
    res.assume = ["the line number reported for a message inside a macro body is outside the property's quantifier (DESIGN.md C15): for those only kind, text, count and order are demanded"]


match_known = P.match_known


def replay(path):
    def judge(vh, exe, i):
        rows = progrun.run_texts(vh, exe, [i["source"]])
        a = progrun.parse_obs(rows[0][1])
        want = i.get("want_line")
        if want is None:
            return None
        return None if (a["kind"] == "ERR" and a["line"] == want) else ("line %s" % want, rows[0][1])
    return P.replay_text(PROP, path, judge)
