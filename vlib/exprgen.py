"""Generators for the expression interface (document::expr, Expr::run): structured trees rendered
with the parentheses the DOCUMENTED precedence table requires (plus redundant-parenthesis and
white-space variants), the operator x boundary-operand grid, and a malformed stream."""

LEVEL = {"||": 0, "&&": 1, "|": 2, "^": 3, "&": 4, "==": 5, "!=": 5, "<": 6, "<=": 6, ">": 6, ">=": 6,
         "<<": 7, ">>": 7, "+": 8, "-": 8, "*": 9, "/": 9, "%": 9}
BINOPS = list(LEVEL)
UNOPS = ["-", "~", "!"]
UN_LEVEL = 10
FUNCS = ["low", "high", "byte2", "byte3", "byte4", "lwrd", "hwrd", "exp2", "log2", "page"]
IDS = ["seven", "big", "neg", "lab", "SEVEN", "Big", "nosuch", "_x1"]
BOUND = [0, 1, 2, 3, 7, 8, 62, 63, 64, 65, 127, 128, 255, 256, 65535, 65536, 2 ** 31 - 1, 2 ** 31, 2 ** 32 - 1, 2 ** 32,
         2 ** 62, 2 ** 63 - 1]
NEGS = [-1, -2, -63, -64, -65, -128, -2 ** 31, -2 ** 62, -2 ** 63 + 1, -2 ** 63]


def sexp(t):
    k = t[0]
    if k == "id":
        return "(id %s)" % t[1]
    if k == "c":
        return "(c %d)" % t[1]
    if k == "f":
        return "(f (id %s) %s)" % (t[1], sexp(t[2]))
    if k == "b":
        return "(b %s %s %s)" % (t[1], sexp(t[2]), sexp(t[3]))
    return "(u %s %s)" % (t[1], sexp(t[2]))


def mixcase(h, salt):
    """hex digits in lower, upper or mixed case, chosen deterministically from the value"""
    k = (salt + len(h)) % 3
    if k == 0:
        return h.lower()
    if k == 1:
        return h.upper()
    return "".join(c.upper() if i % 2 else c.lower() for i, c in enumerate(h))


def lit(v, form):
    if form == 1:
        return "$" + mixcase("%x" % v, v)
    if form == 2:
        return "0x" + mixcase("%x" % v, v + 1)
    if form == 3:
        return "0b" + bin(v)[2:]
    if form == 4 and v > 0:
        return "0" + oct(v)[2:]
    if form == 5 and 32 <= v < 127 and v != 39:
        return "'%c'" % v
    return str(v)


def render(t, ctx, rng, sp=0.0, extra=0.0):
    """minimal parentheses for the documented table; sp = probability of blanks at each space() site;
    extra = probability of a redundant pair of parentheses"""
    def blanks():
        return rng.choice(["", " ", "  ", "\t", " \t"]) if rng.random() < sp else ""
    k = t[0]
    if k == "id":
        body, need = t[1], False
    elif k == "c":
        body, need = lit(t[1], t[2] if len(t) > 2 else 0), False
    elif k == "f":
        body, need = t[1] + blanks() + "(" + blanks() + render(t[2], 0, rng, sp, extra) + blanks() + ")", False
    elif k == "b":
        lv = LEVEL[t[1]]
        body = render(t[2], lv, rng, sp, extra) + blanks() + t[1] + blanks() + render(t[3], lv + 1, rng, sp, extra)
        need = lv < ctx
    else:
        body = t[1] + render(t[2], UN_LEVEL + 1, rng, sp, extra)
        need = UN_LEVEL < ctx
    if need or rng.random() < extra:
        return "(" + blanks() + body + blanks() + ")"
    return body


def const_of(v, rng):
    """a tree denoting the integer v using only non-negative literals"""
    if v >= 0:
        return ("c", v, rng.randrange(6))
    if v == -2 ** 63:
        return ("b", "-", ("u", "-", ("c", 2 ** 63 - 1, 0)), ("c", 1, 0))
    return ("u", "-", ("c", -v, rng.randrange(3)))


def tree(rng, depth):
    r = rng.random()
    if depth == 0 or r < 0.22:
        if rng.random() < 0.3:
            return ("id", rng.choice(IDS))
        v = rng.choice(BOUND) if rng.random() < 0.5 else rng.randrange(0, 300)
        return ("c", v, rng.randrange(6))
    if r < 0.72:
        return ("b", rng.choice(BINOPS), tree(rng, depth - 1), tree(rng, depth - 1))
    if r < 0.88:
        return ("u", rng.choice(UNOPS), tree(rng, depth - 1))
    return ("f", rng.choice(FUNCS), tree(rng, depth - 1))


def structured(rng, n):
    out = []
    for i in range(n):
        t = tree(rng, rng.choice([1, 2, 2, 3, 3, 4, 5]))
        mode = i % 3
        text = render(t, 0, rng, sp=(0.0, 0.5, 0.3)[mode], extra=(0.0, 0.0, 0.3)[mode])
        out.append((text, sexp(t), ("minimal", "blanks", "redundant-parens")[mode]))
    return out


def grid(rng):
    out = []
    vals = BOUND + NEGS
    for op in BINOPS:
        for a in vals:
            for b in vals:
                t = ("b", op, const_of(a, rng), const_of(b, rng))
                out.append((render(t, 0, rng), sexp(t), "grid-binary"))
    for op in UNOPS:
        for a in vals:
            t = ("u", op, const_of(a, rng))
            out.append((render(t, 0, rng), sexp(t), "grid-unary"))
    for u1 in UNOPS:
        for u2 in UNOPS:
            for a in vals:
                t = ("u", u1, ("u", u2, const_of(a, rng)))
                out.append((render(t, 0, rng), sexp(t), "grid-unary-unary"))
                t = ("u", u1, ("u", u1, ("u", u2, const_of(a, rng))))
                out.append((render(t, 0, rng), sexp(t), "grid-unary-unary"))
    for f in FUNCS + ["LOW", "High", "nosuchfn"]:
        for a in vals:
            t = ("f", f, const_of(a, rng))
            out.append((render(t, 0, rng), sexp(t), "grid-function"))
    # every pair of binary operators in both nestings, and unary inside binary: the precedence/associativity table
    for o1 in BINOPS:
        for o2 in BINOPS:
            for shape in (0, 1):
                a, b, c = ("c", 5, 0), ("c", 3, 0), ("c", 2, 0)
                t = ("b", o1, ("b", o2, a, b), c) if shape == 0 else ("b", o1, a, ("b", o2, b, c))
                out.append((render(t, 0, rng), sexp(t), "precedence-pairs"))
        for u in UNOPS:
            t = ("b", o1, ("u", u, ("c", 5, 0)), ("c", 3, 0))
            out.append((render(t, 0, rng), sexp(t), "precedence-unary"))
            t = ("b", o1, ("c", 5, 0), ("u", u, ("c", 3, 0)))
            out.append((render(t, 0, rng), sexp(t), "precedence-unary"))
            t = ("u", u, ("b", o1, ("c", 5, 0), ("c", 3, 0)))
            out.append((render(t, 0, rng), sexp(t), "precedence-unary"))
    return out


def padded():
    """literals written with more digits than their value needs (leading zeros after the radix prefix): any number of
    them, also far beyond the 64-bit width - the value is the literal's value"""
    out = []
    for v in (0, 1, 7, 18, 255, 0x1234, 2 ** 31, 2 ** 63 - 1):
        for k in (1, 2, 7, 8, 15, 16, 17, 22, 23, 31, 32, 63, 64, 65, 66, 100, 200):
            for form, text in ((1, "$" + "0" * k + "%x" % v), (2, "0x" + "0" * k + "%X" % v), (3, "0b" + "0" * k + bin(v)[2:]),
                               (4, "0" + "0" * k + oct(v)[2:])):
                out.append((text, "(c %d)" % v, "padded-literal"))
                out.append(("1 + " + text + "*2", "(b + (c 1) (b * (c %d) (c 2)))" % v, "padded-literal"))
    return out


HOSTILE = ["", " ", "(", ")", "()", "1+", "+1", "1 2", "a b", "1++2", "--1", "-~!1", "- 1", "~ 1", "((((1))))", "1<<<2", "1<==2",
           "1&&&2", "1|||2", "0x", "$", "0b", "0b2", "08", "09", "0", "00", "007", "0x7fffffffffffffff", "0x8000000000000000",
           "9223372036854775807", "9223372036854775808", "99999999999999999999", "$FFFFFFFFFFFFFFFF", "0b" + "1" * 63, "0b" + "1" * 64,
           "0777777777777777777777", "01777777777777777777777", "'a'", "''", "'ab'", "'''", "'é'", "'€'", "'\U0001F600'",
           "low(1", "low 1)", "low()", "low (1)", "low\t(\t1\t)", "1 +\t2", "a(b(c(1)))", "1)", "(1", "x+1", "r1+1", "1e3", "1.5", "#1",
           "1 ; c", "\"s\"", "1,2", "pc", "PC", "low(pc)", "exp2(63)", "exp2(64)", "exp2(-1)", "1<<63", "1<<-1", "-1>>63", "1>>64",
           "1/0", "1%0", "0/0", "(-9223372036854775807-1)/-1", "(-9223372036854775807-1)%-1", "-(-9223372036854775807-1)",
           "9223372036854775807+1", "-9223372036854775807-2", "4294967296*4294967296", "3037000500*3037000500",
           "!0", "!5", "~0", "~-1", "5==5", "5!=5", "5!=6", "6!=5", "2<3", "3<2", "2<=2", "2>=3", "1&&0", "0||0", "2||0", "5&3", "5|3", "5^3"]


def malformed(rng, n):
    out = [(h, None, "hostile") for h in HOSTILE]
    alphabet = "0123456789abxXZ_$'()+-*/%&|^<>=!~ \t"
    for _ in range(n):
        t = tree(rng, rng.choice([1, 2, 3]))
        s = list(render(t, 0, rng, sp=0.2))
        for _ in range(rng.choice([1, 1, 2, 3])):
            k = rng.randrange(3)
            pos = rng.randrange(len(s) + 1)
            if k == 0 and s:
                del s[min(pos, len(s) - 1)]
            elif k == 1:
                s.insert(pos, rng.choice(alphabet))
            elif len(s) > 1:
                i = min(pos, len(s) - 2)
                s[i], s[i + 1] = s[i + 1], s[i]
        out.append(("".join(s), None, "mutated"))
    return out
