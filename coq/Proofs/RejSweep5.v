(** Kernel-checked sweep (vm_compute) of [sound_at] over the operand window, for every 12th
    mnemonic starting at 5, on both cores. *)
From Coq Require Import List.
Require Import AvraV.Proofs.RejCheck.
Lemma sweep : forallb check_name (every12 5 all_names) = true.
Proof. vm_compute. reflexivity. Qed.
