//! Interface `builder::build_str`: stdin one case per line = hex of the UTF-8 source text.
//! stdout per case (canonical observation, DESIGN.md section 8):
//!   OK <code hex|-> <eeprom hex|-> <flash> <eeprom size> <ram> <ram filling> <messages: hex,hex,..|->
//!   ERR <first "line: N" of the error text | ->
//!   PANIC
use crate::util::{first_line_number, hex, read_stdin, unhex};
use avra_lib::builder::build_str;

pub fn observe(text: &str) -> String {
    let r = std::panic::catch_unwind(|| build_str(text));
    render(r)
}

pub fn render<E: std::fmt::Display>(r: std::thread::Result<Result<avra_lib::builder::BuildResult, E>>) -> String {
    match r {
        Err(_) => "PANIC".to_string(),
        Ok(Err(e)) => match first_line_number(&e.to_string()) {
            Some(n) => format!("ERR {}", n),
            None => "ERR -".to_string(),
        },
        Ok(Ok(b)) => {
            let dash = |s: String| if s.is_empty() { "-".to_string() } else { s };
            let msgs: Vec<String> = b.messages.iter().map(|m| hex(m.as_bytes())).collect();
            format!(
                "OK {} {} {} {} {} {} {}",
                dash(hex(&b.code)),
                dash(hex(&b.eeprom)),
                b.flash_size,
                b.eeprom_size,
                b.ram_size,
                b.ram_filling,
                dash(msgs.join(","))
            )
        }
    }
}

/// worker: one observation per input line, flushed immediately
pub fn worker() -> i32 {
    use std::io::{BufRead, Write};
    let stdin = std::io::stdin();
    let stdout = std::io::stdout();
    for line in stdin.lock().lines() {
        let line = match line {
            Ok(l) => l,
            Err(_) => break,
        };
        let bytes = unhex(line.trim());
        let obs = match String::from_utf8(bytes) {
            Ok(t) => observe(&t),
            Err(_) => "BADUTF8".to_string(),
        };
        let mut o = stdout.lock();
        let _ = writeln!(o, "{}", obs);
        let _ = o.flush();
    }
    0
}

/// parent: every case runs in an isolated worker process (address-space limit, watchdog); a worker
/// that dies (stack overflow, abort, out of memory) yields CRASH, one that does not answer within
/// the time limit yields TIMEOUT; a fresh worker is started for the next case
pub fn main() -> i32 {
    parent("build-worker")
}

pub fn parent(worker_cmd: &str) -> i32 {
    use std::io::{BufRead, BufReader, Write};
    use std::process::{Command, Stdio};
    use std::sync::mpsc;
    use std::time::Duration;
    let exe = std::env::current_exe().unwrap();
    let limit_s: u64 = std::env::var("VH_CASE_TIMEOUT").ok().and_then(|x| x.parse().ok()).unwrap_or(10);
    let spawn = || {
        let mut child = Command::new("sh")
            .arg("-c")
            .arg(format!("ulimit -v 3000000; exec '{}' {}", exe.display(), worker_cmd))
            .stdin(Stdio::piped())
            .stdout(Stdio::piped())
            .stderr(Stdio::null())
            .spawn()
            .unwrap();
        let out = child.stdout.take().unwrap();
        let (tx, rx) = mpsc::channel::<Option<String>>();
        std::thread::spawn(move || {
            let mut r = BufReader::new(out);
            loop {
                let mut l = String::new();
                match r.read_line(&mut l) {
                    Ok(0) | Err(_) => {
                        let _ = tx.send(None);
                        break;
                    }
                    Ok(_) => {
                        if tx.send(Some(l.trim_end().to_string())).is_err() {
                            break;
                        }
                    }
                }
            }
        });
        (child, rx)
    };
    let mut out = String::new();
    let (mut child, mut rx) = spawn();
    for line in read_stdin().lines() {
        let ok = {
            let stdin = child.stdin.as_mut().unwrap();
            writeln!(stdin, "{}", line.trim()).and_then(|_| stdin.flush()).is_ok()
        };
        let answer = if ok { rx.recv_timeout(Duration::from_secs(limit_s)) } else { Ok(None) };
        match answer {
            Ok(Some(l)) => out.push_str(&l),
            Ok(None) => {
                out.push_str("CRASH");
                let _ = child.kill();
                let _ = child.wait();
                let n = spawn();
                child = n.0;
                rx = n.1;
            }
            Err(_) => {
                out.push_str("TIMEOUT");
                let _ = child.kill();
                let _ = child.wait();
                let n = spawn();
                child = n.0;
                rx = n.1;
            }
        }
        out.push('\n');
    }
    drop(child.stdin.take());
    let _ = child.wait();
    print!("{}", out);
    0
}
