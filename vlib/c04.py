"""C04 - operands the ISA cannot encode are rejected, never mis-encoded."""
from . import encgen, encrun

PROP = "C04"


def run(res):
    cs = encgen.windows("F") + encgen.windows("R") + encgen.confusions("F", 2) + encgen.confusions("R", 2)
    if res.tier != "quick":
        cs += encgen.confusions("F", 3) + encgen.legal("F")
    encrun.standard_run(
        res, PROP, cs, keep=lambda r: True, what="out-of-range/operand-confusion",
        rule=("every mnemonic x every register 0..31 in each register position x values from well below to well above each field "
              "(incl. negatives, 2^15..2^63) x every index form, on both cores (vlib/encgen.py windows()); every mnemonic x every "
              "operand list of length 0..2 (thorough: 3) over {low reg, high reg, value, X, Y+, -Z, Y+q, Z} (confusions()); oracle: "
              "Spec/Isa.expect_at = NONE -> must be an error; = words -> must be exactly those bytes; distinct = distinct case text"),
        exhaustive_note="bounded-exhaustive over the windows and the operand-kind dictionary stated in the rule",
        assume=["Props/C04.v proves soundness of acceptance on a finite, kernel-swept operand window plus unbounded range lemmas for "
                "the value guards; acceptance of values beyond the window is covered by this run's wider windows only"])


match_known = encrun.match_known


def replay(path):
    return encrun.replay(PROP, path)
