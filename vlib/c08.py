"""C08 - conditional assembly assembles exactly the selected branch.
Search oracle (metamorphic, on the implementation): build_str(flatten(tree)) == build_str(the same text with
every unselected line blanked), where selection = first arm whose condition holds, else the .else arm."""
import itertools
import random

from . import progcheck as P, progrun

PROP = "C08"
GARBAGE = ["this is not assembly !!", "ldi r16, 999", ".error \"unselected\"", ".message \"unselected\"", "dup_label: nop", ".equ leak = 1",
           "  foo bar baz", ".db 300", ".undef nothing", ".device nosuch", ".org 0x5000", "\"", ".include \"missing.inc\"", ".set leak2 = 2",
           ".define LEAK", ".macro neverdefined", ".dw undefined_symbol", ".endm", ".exit",
           # text that merely LOOKS like the end or an arm of the block: in comments, strings, longer words, other positions
           "; .endif", "// .else", "/* .endif */", "nop ; .endif", ".message \".endif\"", ".db \".else\", 0", "x.endif", "endif", "else:",
           ".dw 1 ; .elif 1", "; #endif", "/* .if 0 */ nop", "elif: nop", ". endif", ".message \"#else\""]
TAILS = ["", "", "", " ", "\t", ";x", " ;x", "; .endif", " ; .else", "//x", " // .endif", "/*x*/", " /* .else */", "\r"]


class Tree:
    """conditions are (text, truth); payload lines make every leak visible (data, symbols, messages)"""

    def __init__(self, rng):
        self.rng = rng
        self.n = 0

    def payload(self, selected):
        self.n += 1
        k = self.rng.randrange(4)
        if k == 0:
            return ".db %d, %d" % (self.n % 256, (self.n * 7) % 256)
        if k == 1:
            return ".equ sym%d = %d\n.dw sym%d" % (self.n, self.n, self.n)
        if k == 2:
            return ".message \"m%d\"" % self.n
        return "lab%d: nop" % self.n

    def cond(self, truth):
        r = self.rng
        if truth:
            # "holds" = evaluates to non-zero, negative values included
            return r.choice([".if 1", ".if 5-4", ".if one", ".ifdef YES", ".ifndef NO", ".if two == 2", ".if 3 > 2", ".if -1", ".if 1-2", ".if one - two",
                             ".if ~zero", ".if 0-255", ".ifdef SHARED", ".ifdef Hash", ".ifndef shared", ".ifndef two", ".ifndef zero", "#ifdef YES", "#ifndef NO", ".if 1 << 63", ".if 256", ".if 65536", ".if low(256) + high(256)", "#if 1", ".if !zero"])
        return r.choice([".if 0", ".if 1-1", ".if zero", ".ifdef NO", ".ifndef YES", ".if two == 3", ".if 2 > 3", ".if -0", ".if one - 1", ".ifndef SHARED", ".ifndef Hash", ".ifdef shared", ".ifdef zero", ".ifdef two", ".ifdef yes", ".if SHARED", "#ifdef NO", ".if ~(0-1)",
                         ".if low(256)", ".if 1 >> 1", "#if 0", ".if !one", ".if !(0-1)"])

    def elif_(self, truth):
        return ".elif " + (self.rng.choice(["1", "one", "two-1", "7", "-1", "one-two", "~zero", "0-7", "1<<63"]) if truth
                           else self.rng.choice(["0", "zero", "two-2", "1==2", "-0", "~(0-1)", "!one"]))

    def deco(self, line):
        """surface variants of a conditional-directive line, all accepted by the line grammar: '#' for '.', leading blanks, a
        label in front, the expression in parentheses glued to the name, a comment of any of the three kinds glued or spaced"""
        r = self.rng
        if r.random() < 0.5:
            return line
        word, _, rest = line.partition(" ")
        if rest and word[1:] in ("if", "elif") and r.random() < 0.3:
            line = "%s(%s)" % (word, rest)
        if r.random() < 0.25:
            line = ("#" if line[0] == "." else ".") + line[1:]
        line = r.choice(["", "", " ", "\t", "  "]) + line
        if r.random() < 0.15:
            self.n += 1
            line = "dl%d:%s%s" % (self.n, r.choice(["", " "]), line)
        return line + r.choice(TAILS)

    def block(self, depth, truths, has_else, live):
        """-> list of (line, selected?)"""
        out = []
        taken = False
        for i, t in enumerate(truths):
            head = self.cond(t) if i == 0 else self.elif_(t)
            # an .elif after a taken arm is not evaluated: it may even be undefined
            if i > 0 and taken and self.rng.random() < 0.3:
                head = ".elif undefined_symbol_x"
            head = self.deco(head)
            out.append((head, live))
            sel = live and t and not taken
            out += self.body(depth, sel)
            taken = taken or t
        if has_else:
            out.append((self.deco(".else"), live))
            out += self.body(depth, live and not taken)
        out.append((self.deco(".endif"), live))
        return out

    def body(self, depth, sel):
        out = []
        for _ in range(self.rng.randrange(0, 3)):
            if depth > 0 and self.rng.random() < 0.35:
                n = self.rng.randrange(1, 4)
                out += self.block(depth - 1, [self.rng.random() < 0.5 for _ in range(n)], self.rng.random() < 0.5, sel)
            elif sel:
                for ln in self.payload(True).split("\n"):
                    out.append((ln, True))
            else:
                g = self.rng.choice(GARBAGE) if self.rng.random() < 0.6 else self.payload(False)
                for ln in g.split("\n"):
                    out.append((ln, False))
        return out


# a flag may share its name with a constant (flags live in their own table and are matched as written)
PRELUDE = [".equ one = 1", ".equ zero = 0", ".equ two = 2", ".define YES", ".equ SHARED = 0", ".define SHARED", "#define Hash"]


def exhaustive(rng):
    """every chain of <= 3 arms +- else under every truth assignment, nested once inside a taken and an untaken arm"""
    out = []
    for n in (1, 2, 3):
        for truths in itertools.product([False, True], repeat=n):
            for has_else in (False, True):
                for outer in (None, True, False):
                    t = Tree(rng)
                    if outer is None:
                        lines = t.block(1, list(truths), has_else, True)
                    else:
                        inner = t.block(0, list(truths), has_else, outer)
                        lines = [(t.cond(outer), True)] + inner + [(".else", True)] + t.body(0, not outer) + [(".endif", True)]
                    out.append(lines)
                # the inner chain as the LAST thing of an assembled arm, directly followed by further arms of the outer block
                # (a nested conditional that ends by skipping must not make the outer .elif / .else live again)
                for first in (True, False):
                    t = Tree(rng)
                    inner = t.block(0, list(truths), has_else, True)
                    if first:
                        lines = [(t.cond(True), True)] + t.body(0, True) + inner
                    else:
                        lines = [(t.cond(False), True)] + t.body(0, False) + [(t.elif_(True), True)] + t.body(0, True) + inner
                    lines += [(t.elif_(True), True)] + t.body(0, False) + [(t.elif_(False), True)] + t.body(0, False)
                    lines += [(".else", True)] + t.body(0, False) + [(".endif", True)]
                    out.append(lines)
    return out


import re
# a line of the conditional structure itself, however it is spelled (label in front, '#', glued parenthesis)
STRUCTURAL = re.compile(r"^\s*(\w+:\s*)?[.#](if|ifdef|ifndef|elif|else|endif)\b")
MACRO_BREAKERS = (".endm", ".macro", ".exit", ".include")


def texts_of(lines, wrap=None):
    """wrap = None: the tree as it stands; = a list of argument texts: the tree as the body of a macro that is called with these
    arguments - selection works the same inside an expansion, and text of unselected arms is not looked at there either
    (a parameter reference @n that the call does not supply is such text)"""
    body = [l for l, _ in lines]
    blanked = [(l if s else "") for l, s in lines]
    bare = [(l if s and not STRUCTURAL.match(l) else "") for l, s in lines]
    if wrap is not None and not any(b in l for l in body for b in MACRO_BREAKERS):
        call = " tree" + ((" " + ", ".join(wrap)) if wrap else "")
        body = [".macro tree"] + body + [".endm", call]
        blanked = [".macro tree"] + blanked + [".endm", call]
        bare = [".macro tree"] + bare + [".endm", call]
    full = "\n".join(PRELUDE + body) + "\n"
    blank = "\n".join(PRELUDE + blanked) + "\n"
    return full, blank, "\n".join(PRELUDE + bare) + "\n"


def run(res):
    vh, exe = P.base(res, PROP)
    rng = random.Random(res.seed)
    trees = exhaustive(rng)
    for _ in range(600 if res.tier == "quick" else 300000):
        t = Tree(rng)
        n = rng.randrange(1, 5)
        trees.append(t.block(rng.choice([0, 1, 2, 3]), [rng.random() < 0.4 for _ in range(n)], rng.random() < 0.5, True))
    pairs = [texts_of(t) for t in trees]
    # the same trees as macro bodies, with parameter references in unselected text and fewer arguments than referenced
    for t in trees[::3]:
        import re
        structural = lambda l: re.search(r"[.#](if|ifdef|ifndef|elif|else|endif)\b", l) is not None
        refs = [(l if s or structural(l) or rng.random() < 0.5 else rng.choice([" ldi r17, @1", " .dw @3, @2", "@0", " .db @9", l + " ; @1"])) for l, s in t]
        t2 = [(r, s) for r, (l, s) in zip(refs, t)]
        pairs.append(texts_of(t2, wrap=rng.choice([[], ["1"], ["r16"]])))
    # a conditional inside a macro body is decided anew at EVERY expansion: the body changes what its own condition tests
    # (a flag defined, a constant bound), so the same call selects another arm the next time
    for calls in (2, 3, 5):
        for pre, post in (("", ""), (".org 0x20\n", ""), ("", " nop\n"), ("here: nop\n", "")):
            body = [".ifndef STAGE1", ".define STAGE1", " .dw 1", ".else", ".ifndef STAGE2", ".define STAGE2", " .dw 2", ".else", " .dw 3", ".endif", ".endif"]
            full = ".macro step\n" + "\n".join(body) + "\n.endm\n" + pre + (" step\n" + post) * calls
            hand = pre + "".join(" .dw %d\n" % min(i + 1, 3) + post for i in range(calls))
            pairs.append((full, hand, hand))
            body2 = [".ifdef SEEN", " .db 0xBB, 0xBB", ".else", " .db 0xAA, 0xAA", ".equ first_at = pc", ".define SEEN", ".endif"]
            full2 = ".macro once\n" + "\n".join(body2) + "\n.endm\n" + pre + (" once\n" + post) * calls
            hand2 = pre + "".join((" .db 0xAA, 0xAA\n" if i == 0 else " .db 0xBB, 0xBB\n") + post for i in range(calls))
            pairs.append((full2, hand2, hand2))
            # the same with an argument that is not used by the condition
            pairs.append((full.replace(" step\n", " step 1\n"), hand, hand))
    obs = P.correspond(res, vh, exe, [p[0] for p in pairs] + [p[1] for p in pairs] + [p[2] for p in pairs], "conditional-assembly programs")
    nsel = 0
    for full, blank, bare in pairs:
        a, b, c = obs[full][0], obs[blank][0], obs[bare][0]
        if a.startswith("OK"):
            nsel += 1
        if a != b:
            P.fail(res, "builder::build_str", full, "the result of the same text with every unselected line blanked: " + b[:200], a[:200], "selection",
                   extra=dict(blanked=blank))
        elif c.startswith("OK") and a != c:
            # the lines of the conditional structure themselves contribute nothing either, however they are spelled
            P.fail(res, "builder::build_str", full, "the result of the selected lines alone (every other line blanked): " + c[:200], a[:200], "selection",
                   extra=dict(blanked=bare))
    res.extra["distribution"].update(trees=len(trees), exhaustive_chains=len(exhaustive(rng)), builds_ok=nsel)
    res.extra["exhaustive"] = False
    res.rule = ("block trees: bounded-exhaustive (all chains of 1..3 arms, with/without .else, every truth assignment, alone and nested "
                "inside a taken and an untaken arm) + random trees to depth 3; conditions over literals, .equ constants, .define flags; "
                "selected arms hold data/symbol/message/label payloads, unselected arms hold payloads or text that is not valid "
                "assembly (errors, .error, duplicate labels, unterminated strings, .macro, .if without operand); an .elif after a taken "
                "arm may name an undefined symbol. Oracle: implementation(full text) == implementation(unselected lines blanked) == implementation(only the selected payload lines)")
    res.samples = [dict(source=pairs[i][0], observation=obs[pairs[i][0]][0][:120]) for i in (0, len(pairs) // 2, len(pairs) - 1)]
    res.assume = ["the truth value of each generated condition is known to the generator (literals, three .equ constants, one define)"]


match_known = P.match_known


def replay(path):
    def judge(vh, exe, i):
        # re-derive the blanked text is not possible from the flat source alone: compare model and implementation instead
        rows = progrun.run_texts(vh, exe, [i["source"], i.get("blanked", i["source"])])
        return None if rows[0][1] == rows[1][1] else ("equal", "different")
    return P.replay_text(PROP, path, judge)
