(** C13 - instructions the selected device lacks are rejected (examples; theorems follow). *)
From Coq Require Import List ZArith NArith String.
Import ListNotations.
Require Import AvraV.Model.Base AvraV.Model.Ast AvraV.Model.Passes.
Definition builds (src : string) : bool := is_ok (build_str 200 (list_ascii_of_string src)).
Definition nl := String (Ascii.ascii_of_N 10) EmptyString.
Example C13_examples :
  builds (".device ATtiny11" ++ nl ++ "ld r0, X" ++ nl) = false /\ builds (".device ATtiny11" ++ nl ++ "ld r0, Z" ++ nl) = true /\
  builds (".device ATmega8" ++ nl ++ "call 0" ++ nl) = false /\ builds (".device ATmega8" ++ nl ++ "mul r1, r2" ++ nl) = true /\
  builds (".device ATtiny13" ++ nl ++ "muls r16, r17" ++ nl) = false.
Proof. vm_compute. repeat split; reflexivity. Qed.
