From Coq Require Import List NArith ZArith Lia Bool ZifyBool ZifyN.
Import ListNotations.
Open Scope N_scope.
Arguments N.add : simpl never. Arguments N.mul : simpl never. Arguments N.sub : simpl never.
Arguments N.ltb : simpl never. Arguments N.eqb : simpl never.

Inductive segt := Code | Data | Eep.
Inductive item :=
| Lab (n:nat)                      (* label *)
| Emit (sz:N) (bs:list N)          (* pass 1 adds sz units, pass 2 emits bs *)
| Res (n:N).                       (* .byte n *)
Record seg := { st : segt; org : N; items : list item }.

Definition unit_of (t:segt) : N := match t with Code => 2 | _ => 1 end.
Definition labels := list (nat * (segt * N)).
Definition lookup (n:nat) (ls:labels) := find (fun p => Nat.eqb (fst p) n) ls.

(* ---- pass 1 (pass1.rs): running address, label table ---- *)
Fixpoint p1_items (t:segt) (cur:N) (its:list item) (ls:labels) : option (N * labels) :=
  match its with
  | [] => Some (cur, ls)
  | Lab n :: r => match lookup n ls with Some _ => None | None => p1_items t cur r ((n, (t, cur)) :: ls) end
  | Emit sz _ :: r => match t with Data => None | _ => p1_items t (cur + sz) r ls end
  | Res n :: r => match t with Code => None | _ => p1_items t (cur + n) r ls end
  end.

Record offs := { co : N; do_ : N; eo : N }.
Definition get (t:segt) (o:offs) := match t with Code => co o | Data => do_ o | Eep => eo o end.
Definition set (t:segt) (v:N) (o:offs) :=
  match t with Code => {| co := v; do_ := do_ o; eo := eo o |}
             | Data => {| co := co o; do_ := v; eo := eo o |}
             | Eep => {| co := co o; do_ := do_ o; eo := v |} end.

Definition start_of (s:seg) (o:offs) : option N :=
  if org s =? 0 then Some (get (st s) o)
  else if org s <? get (st s) o then None else Some (org s).

Fixpoint p1 (segs:list seg) (o:offs) (ls:labels) : option (list (seg * N) * offs * labels) :=
  match segs with
  | [] => Some ([], o, ls)
  | s :: r =>
      match start_of s o with None => None | Some a =>
      match p1_items (st s) a (items s) ls with None => None | Some (e, ls') =>
      match p1 r (set (st s) e o) ls' with None => None | Some (out, o', ls'') => Some ((s, a) :: out, o', ls'') end end end
  end.

(* ---- pass 2 (pass2.rs): images ---- *)
Fixpoint frag (t:segt) (its:list item) : list N :=
  match its with
  | [] => []
  | Lab _ :: r => frag t r
  | Emit _ bs :: r => bs ++ frag t r
  | Res n :: r => match t with Eep => repeat 0 (N.to_nat n) ++ frag t r | _ => frag t r end
  end.
Definition pad (img:list N) (u a:N) : list N :=       (* zero-fill up to address a, in units of u bytes *)
  img ++ repeat 0 (N.to_nat (u * a - N.of_nat (length img))).
Fixpoint p2 (segs:list (seg * N)) (code eep:list N) : list N * list N :=
  match segs with
  | [] => (code, eep)
  | (s, a) :: r =>
      match st s with
      | Code => p2 r (pad code 2 a ++ frag Code (items s)) eep
      | Eep => p2 r code (pad eep 1 a ++ frag Eep (items s))
      | Data => p2 r code eep
      end
  end.

(* ---- agreement of the two size computations, item by item ---- *)
Definition wf_item (t:segt) (it:item) : Prop :=
  match it with Emit sz bs => N.of_nat (length bs) = unit_of t * sz | _ => True end.

(* every label entered while walking [its] from address [a] points at the bytes emitted so far *)
Lemma seg_agree t : t <> Data -> forall its a ls e ls',
  Forall (wf_item t) its -> p1_items t a its ls = Some (e, ls') ->
  N.of_nat (length (frag t its)) = unit_of t * (e - a) /\ a <= e /\
  (forall n n0 t0 x, lookup n ls' = Some (n0, (t0, x)) -> lookup n ls = Some (n0, (t0, x)) \/
     exists pre post, its = pre ++ Lab n :: post /\ t0 = t /\ a <= x /\
       N.of_nat (length (frag t pre)) = unit_of t * (x - a)).
Proof.
  intros Ht. induction its as [|it r IH]; intros a ls e ls' Hwf H.
  - cbn in H. inversion H; subst. cbn. repeat split; try lia. intros n n0 t0 x Hv. left; exact Hv.
  - inversion Hwf as [|? ? Hit Hr]; subst. destruct it as [n|sz bs|n]; cbn [p1_items] in H.
    + destruct (lookup n ls) eqn:El; [discriminate|].
      destruct (IH _ _ _ _ Hr H) as (Hlen & Hle & Hlab). cbn [frag]. repeat split; auto.
      intros m n0 t0 x Hv. destruct (Hlab m n0 t0 x Hv) as [Hold|(pre & post & -> & Hv1 & Hv2 & Hv3)].
      * cbn [lookup find fst] in Hold. destruct (Nat.eqb_spec n m) as [->|Hne].
        -- right. exists [], r. inversion Hold; subst. cbn. repeat split; lia.
        -- left. exact Hold.
      * right. exists (Lab n :: pre), post. cbn [app frag]. auto.
    + assert (Hu : unit_of t = 2 \/ unit_of t = 1) by (destruct t; cbn; auto).
      assert (H' : p1_items t (a + sz) r ls = Some (e, ls')) by (destruct t; congruence).
      destruct (IH _ _ _ _ Hr H') as (Hlen & Hle & Hlab). cbn [wf_item] in Hit.
      cbn [frag]. rewrite app_length. repeat split; [destruct Hu as [Hu|Hu]; rewrite Hu in *; lia | lia |].
      intros m n0 t0 x Hv. destruct (Hlab m n0 t0 x Hv) as [Hold|(pre & post & -> & Hv1 & Hv2 & Hv3)]; [left; exact Hold|].
      right. exists (Emit sz bs :: pre), post. cbn [app frag]. rewrite app_length.
      repeat split; auto; [lia | destruct Hu as [Hu|Hu]; rewrite Hu in *; lia].
    + assert (H' : p1_items t (a + n) r ls = Some (e, ls')) by (destruct t; congruence).
      destruct (IH _ _ _ _ Hr H') as (Hlen & Hle & Hlab).
      assert (Hf : forall l, N.of_nat (length (frag t (Res n :: l))) = unit_of t * n + N.of_nat (length (frag t l))).
      { intros l. cbn [frag]. destruct t; try congruence. rewrite app_length, repeat_length. cbn. lia. }
      assert (Hu : unit_of t = 2 \/ unit_of t = 1) by (destruct t; cbn; auto).
      rewrite Hf. repeat split; [destruct Hu as [Hu|Hu]; rewrite Hu in *; lia | lia |].
      intros m n0 t0 x Hv. destruct (Hlab m n0 t0 x Hv) as [Hold|(pre & post & -> & Hv1 & Hv2 & Hv3)]; [left; exact Hold|].
      right. exists (Res n :: pre), post. cbn [app]. rewrite Hf.
      repeat split; auto; [lia | destruct Hu as [Hu|Hu]; rewrite Hu in *; lia].
Qed.

Lemma pad_len img u a : N.of_nat (length img) <= u * a -> N.of_nat (length (pad img u a)) = u * a.
Proof. intros H. unfold pad. rewrite app_length, repeat_length. lia. Qed.

Lemma frag_split t pre n post : frag t (pre ++ Lab n :: post) = frag t pre ++ frag t post.
Proof.
  induction pre as [|it r IH]; [reflexivity|]. destruct it; cbn [app frag]; rewrite ?IH; auto.
  - rewrite app_assoc. reflexivity.
  - destruct t; auto. rewrite app_assoc. reflexivity.
Qed.

Definition wf_seg (s:seg) : Prop := Forall (wf_item (st s)) (items s).

(* Where a label of the code segment points: the bytes of the items after it start at byte 2*x. *)
Definition points_code (code:list N) (x:N) (post:list item) : Prop :=
  exists P Q, code = P ++ frag Code post ++ Q /\ N.of_nat (length P) = 2 * x.

Theorem layout_code : forall segs o ls out o' ls' code eep code' eep',
  Forall wf_seg segs -> p1 segs o ls = Some (out, o', ls') ->
  N.of_nat (length code) = 2 * co o -> N.of_nat (length eep) = eo o ->
  p2 out code eep = (code', eep') ->
  N.of_nat (length code') = 2 * co o' /\ N.of_nat (length eep') = eo o' /\
  (exists Q, code' = code ++ Q) /\
  forall n n0 x, lookup n ls' = Some (n0, (Code, x)) ->
    lookup n ls = Some (n0, (Code, x)) \/
    exists s pre post, In s segs /\ st s = Code /\ items s = pre ++ Lab n :: post /\ points_code code' x post.
Proof.
  induction segs as [|s r IH]; intros o ls out o' ls' code eep code' eep' Hwf H1 Hc He H2.
  - cbn in H1. inversion H1; subst. cbn in H2. inversion H2; subst.
    repeat split; auto. exists []. rewrite app_nil_r. reflexivity.
  - inversion Hwf as [|? ? Hs Hr]; subst. cbn [p1] in H1.
    destruct (start_of s o) as [a|] eqn:Ea; [|discriminate].
    destruct (p1_items (st s) a (items s) ls) as [[e ls1]|] eqn:E1; [|discriminate].
    destruct (p1 r (set (st s) e o) ls1) as [[[out1 o1] ls2]|] eqn:E2; [|discriminate].
    inversion H1; subst; clear H1. cbn [p2] in H2.
    assert (Hstart : get (st s) o <= a).
    { unfold start_of in Ea. destruct (org s =? 0); [inversion Ea; lia|].
      destruct (N.ltb_spec (org s) (get (st s) o)); [discriminate | inversion Ea; lia]. }
    destruct (st s) eqn:Est.
    + (* code segment *)
      assert (Hne : Code <> Data) by discriminate.
      unfold wf_seg in Hs. rewrite Est in Hs.
      destruct (seg_agree Code Hne _ _ _ _ _ Hs E1) as (Hlen & Hle & Hlab).
      cbn [get] in Hstart.
      assert (Hpad : N.of_nat (length (pad code 2 a)) = 2 * a) by (apply pad_len; lia).
      specialize (IH (set Code e o) ls1 out1 o' ls' (pad code 2 a ++ frag Code (items s)) eep code' eep' Hr E2).
      destruct IH as (L1 & L2 & [Q HQ] & L4); [cbn [set co]; rewrite app_length; cbn [unit_of] in Hlen; lia | cbn [set eo]; exact He | exact H2 |].
      repeat split; auto.
      * exists (repeat 0 (N.to_nat (2 * a - N.of_nat (length code))) ++ frag Code (items s) ++ Q).
        rewrite HQ. unfold pad. rewrite <- !app_assoc. reflexivity.
      * intros n n0 x Hv. destruct (L4 n n0 x Hv) as [Hold|(s' & pre & post & Hin & Hst & Hit & Hp)].
        -- destruct (Hlab n n0 Code x Hold) as [Hold'|(pre & post & Hit & _ & Hax & Hpre)]; [left; exact Hold'|].
           right. exists s, pre, post. repeat split; auto; [left; reflexivity|].
           exists (pad code 2 a ++ frag Code pre), Q. split.
           ++ rewrite HQ, Hit, frag_split, <- !app_assoc. reflexivity.
           ++ rewrite app_length. cbn [unit_of] in Hpre. lia.
        -- right. exists s', pre, post. repeat split; auto. right; exact Hin.
    + (* data segment: nothing emitted; its labels are not Code labels *)
      specialize (IH (set Data e o) ls1 out1 o' ls' code eep code' eep' Hr E2).
      destruct IH as (L1 & L2 & L3 & L4); [cbn [set co]; exact Hc | cbn [set eo]; exact He | exact H2 |].
      repeat split; auto.
      intros n n0 x Hv. destruct (L4 n n0 x Hv) as [Hold|(s' & pre & post & Hin & Hst & Hit & Hp)].
      * left. (* a Code-typed entry of ls1 cannot have been added by a Data segment *)
        clear -Hold E1. revert a ls E1. induction (items s) as [|it its IHi]; intros a ls E1.
        -- cbn in E1. inversion E1; subst. exact Hold.
        -- destruct it; cbn [p1_items] in E1; try discriminate.
           ++ destruct (lookup n1 ls) eqn:El; [discriminate|]. specialize (IHi _ _ E1).
              cbn [lookup find fst] in IHi. destruct (Nat.eqb n1 n); [discriminate | exact IHi].
           ++ eapply IHi; eauto.
      * right. exists s', pre, post. repeat split; auto. right; exact Hin.
    + (* eeprom segment *)
      assert (Hne : Eep <> Data) by discriminate.
      unfold wf_seg in Hs. rewrite Est in Hs.
      destruct (seg_agree Eep Hne _ _ _ _ _ Hs E1) as (Hlen & Hle & Hlab).
      cbn [get] in Hstart.
      assert (Hpad : N.of_nat (length (pad eep 1 a)) = 1 * a) by (apply pad_len; lia).
      specialize (IH (set Eep e o) ls1 out1 o' ls' code (pad eep 1 a ++ frag Eep (items s)) code' eep' Hr E2).
      destruct IH as (L1 & L2 & L3 & L4); [cbn [set co]; exact Hc | cbn [set eo]; rewrite app_length; cbn [unit_of] in Hlen; lia | exact H2 |].
      repeat split; auto.
      intros n n0 x Hv. destruct (L4 n n0 x Hv) as [Hold|(s' & pre & post & Hin & Hst & Hit & Hp)].
      * destruct (Hlab n n0 Code x Hold) as [Hold'|(pre & post & Hit & Ht0 & _)]; [left; exact Hold' | discriminate].
      * right. exists s', pre, post. repeat split; auto. right; exact Hin.
Qed.
Print Assumptions layout_code.
