"""C17 - builds are deterministic and independent of each other.
Search oracle: every source built (a) alone in a fresh process, (b) in one process after all the others in the given and in
the reverse order, (c) concurrently on 8 threads that each walk the list in a different rotation - all observations equal.
The static part: the only process-global state the source declares is the immutable device table, and no hash map is
iterated (text scan of /repo/src, compared with the expected list on every run)."""
import os
import random
import re

from . import common as C, progcheck as P, proggen, progrun

PROP = "C17"

EXPECTED_STATICS = ["src/device.rs: pub static DEVICES: LazyLock<HashMap<&'static str, Device>> = LazyLock::new(|| {"]
MAPS = ["defines", "equs", "labels", "defs", "sets", "special", "macroses", "DEVICES"]


def scan_statics():
    """global / thread-local state and hash-map iteration in the non-test sources"""
    statics, iters = [], []
    for root, _, files in os.walk(os.path.join(C.REPO, "src")):
        for fn in sorted(files):
            if not fn.endswith(".rs"):
                continue
            path = os.path.join(root, fn)
            rel = os.path.relpath(path, C.REPO)
            text = open(path).read()
            cut = text.find("#[cfg(test)]")
            if cut >= 0:
                text = text[:cut]
            for ln in text.splitlines():
                s = ln.strip()
                if s.startswith("//"):
                    continue
                # state that can differ between two moments of a process: `static mut`, a static whose type can change or is filled
                # at run time, thread-locals, once-cells, atomics, unsafe code.  A plain immutable `static X: &str / [u8; N] / u32` is
                # a constant and of no interest here.
                m = re.match(r"(pub(\([^)]*\))?\s+)?static\s+(mut\s+)?\w+\s*:\s*(.*)", s)
                if m:
                    if m.group(3) or re.search(r"Mutex|RwLock|Cell|Atomic|Once|Lazy|Rc<|Arc<", m.group(4)):
                        statics.append("%s: %s" % (rel, s))
                elif re.match(r"thread_local!|lazy_static!", s) or re.search(r"\b(OnceCell|OnceLock|Atomic\w+|unsafe)\b", s):
                    statics.append("%s: %s" % (rel, s))
                for m in MAPS:
                    if re.search(r"\b%s\b[^;]*\.(iter|iter_mut|keys|values|values_mut|drain|into_iter)\(" % m, s) or re.search(r"for\s+.*\bin\s+.*\b%s\b" % m, s):
                        iters.append("%s: %s" % (rel, s))
    return statics, iters


def cli_histories(res):
    """the files a run of the tool leaves do not depend on earlier runs: a long image first, then a short one to the same names"""
    import shutil
    import subprocess
    from . import c18
    binary, env = c18.build_bin()
    work = os.path.join(C.BUILD, "work", "c17cli-%d" % os.getpid())
    shutil.rmtree(work, ignore_errors=True)
    progs = {"long": " nop\n" * 300 + ".eseg\n .db " + ", ".join(str(i % 256) for i in range(200)) + "\n", "short": " ret\n.eseg\n .db 1\n",
             "mid": " nop\n" * 20 + ".eseg\n .db 1, 2, 3, 4, 5, 6, 7, 8, 9, 10, 11, 12, 13, 14, 15, 16, 17\n"}
    n = 0
    for order in (["long", "short"], ["long", "mid", "short"], ["short", "long", "short"], ["mid", "mid"]):
        for given in (False, True):
            d = os.path.join(work, "h%d" % n)
            n += 1
            os.makedirs(d)
            for k, text in progs.items():
                open(os.path.join(d, k + ".asm"), "w").write(text)
            outs = [os.path.join(d, "o.hex"), os.path.join(d, "e.hex")]
            last = None
            for k in order:
                # with default names every program writes next to ITS source: to share the files the source is copied to one name
                shutil.copy(os.path.join(d, k + ".asm"), os.path.join(d, "cur.asm"))
                args = [binary, "-s", os.path.join(d, "cur.asm")] + (["-o", outs[0], "-e", outs[1]] if given else [])
                subprocess.run(args, cwd=d, env=env, stdout=subprocess.PIPE, stderr=subprocess.STDOUT, timeout=60)
                last = k
            got = [open(p, "rb").read() if os.path.exists(p) else None for p in (outs if given else [os.path.join(d, "cur.hex"), os.path.join(d, "cur.eep.hex")])]
            f = os.path.join(work, "fresh%d" % n)
            os.makedirs(f)
            shutil.copy(os.path.join(d, last + ".asm"), os.path.join(f, "cur.asm"))
            subprocess.run([binary, "-s", os.path.join(f, "cur.asm")], cwd=f, env=env, stdout=subprocess.PIPE, stderr=subprocess.STDOUT, timeout=60)
            want = [open(os.path.join(f, x), "rb").read() if os.path.exists(os.path.join(f, x)) else None for x in ("cur.hex", "cur.eep.hex")]
            res.count(("cli-history", tuple(order), given), nontrivial=True)
            if got != want:
                P.fail(res, "avra-rs binary, runs in a row", "programs %s to the same output names (%s)" % (order, "-o/-e" if given else "default names"),
                       "the files a run on an empty directory leaves for %r" % last, "different files (lengths %s vs %s)" % ([len(x or b"") for x in got], [len(x or b"") for x in want]),
                       "cli-history")
    shutil.rmtree(work, ignore_errors=True)


def file_builds_on_threads(res, vh):
    """builder::build_file called by several threads at overlapping moments, on ONE source path with different include
    directories (holding different versions of an included file, or none), and on different paths with the same directories:
    every call returns what the same call returns on its own"""
    import shutil
    work = os.path.join(C.BUILD, "work", "c17fs-%d" % os.getpid())
    shutil.rmtree(work, ignore_errors=True)
    os.makedirs(work)
    body = "".join(" .dw VAL + %d\n" % i for i in range(1500))
    mains = []
    for m in ("main.asm", "other.asm"):
        open(os.path.join(work, m), "w").write('.include "cfg.inc"\n' + body + (' .message "other"\n' if m == "other.asm" else ""))
        mains.append(os.path.join(work, m))
    dirs = []
    for i, cfg in enumerate((".equ VAL = 1\n", ".equ VAL = 2\n.device ATmega8\n", ".equ VAL = 3\n.message \"three\"\n", None, ".equ VAL = nosuch\n")):
        d = os.path.join(work, "inc%d" % i)
        os.makedirs(d)
        if cfg is not None:
            open(os.path.join(d, "cfg.inc"), "w").write(cfg)
        dirs.append(d)
    cfgs = [(m, [d]) for m in mains for d in dirs] + [(mains[0], [dirs[3], dirs[0]]), (mains[0], [])]
    inp = "".join("%s %s\n" % (m.encode().hex(), ",".join(d.encode().hex() for d in ds) or "-") for m, ds in cfgs)
    out = C.vh(vh, ["histfs", "8", "12"], input=inp).split("\n")
    for (m, ds), ln in zip(cfgs, out):
        f = ln.split("\t")
        alone, conc = f[0], set(f[1].split("|")) if len(f) > 1 else set()
        res.count(("file-builds-on-threads", m, tuple(ds)), nontrivial=True)
        if conc != {alone}:
            P.fail(res, "builder::build_file on 8 threads", "%s with include directories %s (cfg.inc differs per directory; 1500 data words)" %
                   (os.path.basename(m), [os.path.basename(d) for d in ds]), "the result of the same call on its own: " + alone[:80],
                   "concurrent results %r" % sorted(x[:60] for x in conc), "threads-files")
    shutil.rmtree(work, ignore_errors=True)


def run(res):
    vh, exe = P.base(res, PROP)
    cli_histories(res)
    file_builds_on_threads(res, vh)
    statics, iters = scan_statics()
    res.oblige("source scan: process-global state = the immutable DEVICES table only", statics == EXPECTED_STATICS,
               "found %r" % statics)
    res.oblige("source scan: no hash map (defines equs labels defs sets special macroses DEVICES) is iterated", iters == [], "found %r" % iters)
    rng = random.Random(res.seed)
    texts = []
    # programs that share names across builds: same labels/equ/macro names with different meanings, with/without devices
    for i in range(120 if res.tier == "quick" else 20000):
        ls = proggen.program(rng, size=rng.choice([4, 8, 14]), device=rng.choice([None, None, "ATmega8", "ATtiny13", "ATtiny20"]))
        if rng.random() < 0.4:
            ls = proggen.mutate(rng, ls)
        texts.append(proggen.text_of(ls))
    texts += [".equ shared = %d\n.dw shared\n" % i for i in range(8)] + [".device ATmega8\n.dw 1\n", ".dw 1\n", ".device ATtiny13\n.dw 1\n",
                                                                       ".macro shared\n nop\n.endm\n shared\n", " shared\n", ".set v = 1\n.dw v\n", ".dw v\n",
                                                                       ".def t = r16\n mov t, t\n", " mov t, t\n", ".define F\n.ifdef F\n.dw 1\n.endif\n", ".ifdef F\n.dw 1\n.endif\n",
                                                                       ".message \"m\"\n", "nop\n"]
    # names next to the device table's (one or two characters more or less): whatever is done with them must not depend on the
    # order in which a process happens to enumerate the table
    from . import gen
    names = sorted(d[0] for d in gen.read_devices(vh)[1:])
    near = []
    for nm in names:
        near += [nm + "P", nm + "A", nm + "8", nm + "PA", nm[:-1]]
    rng.shuffle(near)
    texts += [".device %s\n.dseg\nv: .byte 1\n.cseg\n jmp v\n" % nm for nm in near[:40 if res.tier == "quick" else 400]]
    clock = ["__SECOND__", "__MINUTE__", "__HOUR__", "__DAY__", "__MONTH__", "__YEAR__", "__CENTURY__", "__DATE__", "__TIME__", "__LINE__", "__FILE__", "__AVRASM_VERSION__"]
    clock_texts = [" .dw %s\n" % nm for nm in clock] + [" ldi r16, low(%s)\n" % nm.lower() for nm in clock[:7]] + [".if %s\n nop\n.endif\n" % clock[0]]
    texts += clock_texts
    texts = list(dict.fromkeys(texts))
    # long chains of definitions, used many times: builds that spend their time deep inside nested evaluations, spread over the
    # list so that several threads are inside one at the same moment (a nesting count is the build's own, never a shared one)
    heavy = []
    for i in range(16):
        depth = (40, 50, 60, 35)[i % 4]
        defs = [".equ h%d_0 = %d" % (i, i)] + [".equ h%d_%d = h%d_%d + 1" % (i, j, i, j - 1) for j in range(1, depth + 1)]
        if i % 2:
            defs.reverse()
        heavy.append("\n".join(defs) + "\n" + (" .dw h%d_%d\n" % (i, depth)) * 1500)
    step = max(1, len(texts) // len(heavy))
    for i, h in enumerate(heavy):
        texts.insert(i * (step + 1), h)
    obs = P.correspond(res, vh, exe, texts, "programs (each also replayed in histories and threads)")
    # the same source at different moments: a result must not depend on the clock
    import time
    first = {t: C.vh(vh, ["build-worker"], input=t.encode("utf-8").hex() + "\n").strip() for t in clock_texts}
    time.sleep(1.2)
    for t in clock_texts:
        again = C.vh(vh, ["build-worker"], input=t.encode("utf-8").hex() + "\n").strip()
        if again != first[t]:
            P.fail(res, "builder::build_str at two moments", t, "the same result 1.2 s later: " + first[t][:80], again[:80], "clock")
    # fresh process per source - three of them: two processes enumerate a hash map in different orders
    fresh = {}
    for t in texts:
        runs = [C.vh(vh, ["build-worker"], input=t.encode("utf-8").hex() + "\n").strip() for _ in range(3)]
        fresh[t] = runs[0]
        if len(set(runs)) > 1:
            P.fail(res, "builder::build_str in fresh processes", t, "the same result in every process", "results %r" % sorted(set(r[:80] for r in runs)), "processes")
    out = C.vh(vh, ["hist", "8"], input="".join(t.encode("utf-8").hex() + "\n" for t in texts)).split("\n")
    nthreadobs = 0
    for t, ln in zip(texts, out):
        f = ln.split("\t")
        conc = set(f[2].split("|")) if len(f) > 2 else set()
        nthreadobs += len(conc)
        seen = {"after-others": f[0], "before-others": f[1] if len(f) > 1 else "MISSING"}
        for k, v in seen.items():
            if v != fresh[t]:
                P.fail(res, "builder::build_str in a history", t, "the fresh-process result " + fresh[t][:100], "%s: %s" % (k, v[:100]), "history")
        if conc != {fresh[t]}:
            P.fail(res, "builder::build_str on 8 threads", t, "the fresh-process result " + fresh[t][:100], "concurrent results %r" % sorted(x[:60] for x in conc), "threads")
        if fresh[t] != obs[t][0]:
            P.fail(res, "builder::build_str", t, "the same result in every process", "%s vs %s" % (fresh[t][:60], obs[t][0][:60]), "process")
    res.extra["distribution"].update(sources=len(texts), histories=2, threads=8)
    res.extra["exhaustive"] = False
    res.rule = ("generated valid and failing programs (with and without .device, sharing symbol / macro / define names across builds) "
                "and 16 programs that use 35..60-deep chains of definitions 1500 times, each built alone in a fresh process, after and before all others in one process, and by 8 concurrent threads walking "
                "the list in different rotations; oracle: all observations of a source are equal; build_file on 8 threads x 12 rounds over one source path with five include-directory sets and a second path.  Static scan of /repo/src for "
                "static / thread_local / lazy_static / Once* / Atomic* / unsafe items and for iteration over the hash-map bindings")
    res.samples = [dict(source=texts[0], fresh=fresh[texts[0]][:80])]
    res.assume = ["thread schedules are explored, not proved; CommonContext is Rc<RefCell<..>> (!Send), so sharing a context across "
                  "threads does not compile - an argument from the type system, recorded as an assumption",
                  "the working directory and HOME are the same for all builds of a run"]


match_known = P.match_known


def replay(path):
    return P.replay_by_rerun(PROP, path)
