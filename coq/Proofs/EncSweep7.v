(** Kernel-checked exhaustive sweep (vm_compute) of spellings 94..96 of [small_spellings]: on every
    operand tuple the spelling admits, on every core it exists on, the ISA table encodes it, the
    encoder model emits exactly those bytes and the independent decoder returns the statement. *)
From Coq Require Import List.
Require Import AvraV.Proofs.EncCheck AvraV.Proofs.EncSweepDefs.
Lemma sweep : forallb check_sp (chunk 94 96) = true.
Proof. vm_compute. reflexivity. Qed.
