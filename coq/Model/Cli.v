(** src/app/main.rs: what the command-line tool does with the result of the build.
    The build itself (build_file) and the success of creating a file are inputs of this model: the
    first is Model/Passes (+ the file layer), the second an oracle of the operating system. *)
Require Import AvraV.Model.Base AvraV.Model.Ast AvraV.Model.Passes AvraV.Model.Hex.
Open Scope N_scope.

Record opt := { o_source : str; o_output : option str; o_eeprom : option str; o_verbose : bool }.

Definition slash : ascii := "/"%char.
Definition dot : ascii := "."%char.
(** the characters of [s] up to the first [c], and the rest starting at that [c] *)
Fixpoint span_not (c : ascii) (s : str) : str * str :=
  match s with
  | [] => ([], [])
  | x :: r => if Ascii.eqb x c then ([], s) else let '(a, b) := span_not c r in (x :: a, b)
  end.
(** Path::parent / file_name for a relative or absolute file path without trailing slash *)
Definition parent_and_name (p : str) : str * str :=
  let '(rname, rest) := span_not slash (rev p) in
  match rest with
  | [] => ([], p)
  | _ :: rdir => (match rdir with [] => [slash] | _ => rev rdir end, rev rname)
  end.
(** Path::file_stem: the name up to its last '.', the whole name when it has none or only a leading one *)
Definition file_stem (name : str) : str :=
  let '(_, rest) := span_not dot (rev name) in
  match rest with
  | [] => name
  | _ :: rstem => match rstem with [] => name | _ => rev rstem end
  end.
Definition join (dir name : str) : str :=
  match dir with
  | [] => name
  | _ => if match rev dir with c :: _ => Ascii.eqb c slash | [] => false end then (dir ++ name)%list else (dir ++ slash :: name)%list
  end.
Definition default_out (source : str) (ext : string) : str :=
  let '(dir, name) := parent_and_name source in join dir (file_stem name ++ lit ext)%list.
Definition code_path (o : opt) : str := match o_output o with Some p => p | None => default_out (o_source o) ".hex" end.
Definition eeprom_path (o : opt) : str := match o_eeprom o with Some p => p | None => default_out (o_source o) ".eep.hex" end.

(** the effect of main: files written (path, contents) in order, and the exit status *)
Record outcome := { files : list (str * list N); failed : bool }.
Definition cli_main (o : opt) (built : res build_result) (can_create : str -> bool) : outcome :=
  match built with
  | Ok b =>
      let w1 := match b_code b with
                | [] => ([], false)
                | img => if can_create (code_path o) then ([(code_path o, write img)], false) else ([], true)
                end in
      let w2 := match b_eeprom b with
                | [] => ([], false)
                | img => if can_create (eeprom_path o) then ([(eeprom_path o, write img)], false) else ([], true)
                end in
      {| files := (fst w1 ++ fst w2)%list; failed := snd w1 || snd w2 |}
  | _ => {| files := []; failed := true |}
  end.
