(** C04 - operands the ISA cannot encode are rejected, never mis-encoded.
    Property theorems only; proofs are in Proofs/Rej*.v and Proofs/Enc*.v. *)
From Coq Require Import List ZArith NArith String.
Import ListNotations.
Require Import AvraV.Model.Base AvraV.Model.Ast AvraV.Model.Device AvraV.Model.Eval AvraV.Model.Encode AvraV.Spec.Isa.
Require Import AvraV.Proofs.EncCheck AvraV.Proofs.EncProofs AvraV.Proofs.RejCheck AvraV.Proofs.RejProofs AvraV.Gen.Devices.
Local Open Scope string_scope.
Local Open Scope Z_scope.

(** [sound_at c name ws] (Proofs/RejCheck.v): if the encoder yields machine code for the statement
    "name ws" then the ISA table encodes exactly that statement and the bytes are that encoding;
    otherwise the result is an error value (never a panic).

    BOUNDED statement, the bound is part of the theorem: for every mnemonic of the assembler and
    every operand list of the finite window [window] - no operand; one operand; two operands with
    every register r0..r31, every index form, displacements around both ends of 0..63, and values
    around every field boundary (-129..-120, -10..70, 120..135, 185..195, 250..262 densely, the
    powers of two, the 16-, 22-, 32- and 64-bit limits); three operands from a small set - on the
    full core, and on the reduced core for lds/sts (for the other mnemonics on the reduced core:
    the sub-window [window_small], see [window_reduced]).  The sweep is exhaustive over that window and kernel-checked.
    Operand VALUES outside the window are covered by the unbounded theorem [C04_values_in_range] below. *)
Theorem C04_window_full : forall name ws,
  In name all_names -> In ws window -> sound_at Full name ws = true.
Proof. exact window_sound_full. Qed.
Print Assumptions C04_window_full.
Theorem C04_window_reduced : forall name ws,
  In name all_names -> In ws (window_reduced name) -> sound_at Reduced name ws = true.
Proof. exact window_sound_reduced. Qed.
Print Assumptions C04_window_reduced.

(** The value guards every operand passes through reject everything outside their field, for all
    of Z (unbounded): 8-bit immediates, 6-/5-bit unsigned fields read through get_byte, bit numbers. *)
Theorem C04_guards : forall (v : Z),
  ((v < -128 \/ 255 < v) -> get_byte (Ok v) = Err None) /\
  (forall mx, (mx <= 127)%N -> (v < 0 \/ Z.of_N mx < v) -> small_field mx (Ok v) = Err None) /\
  ((v < 0 \/ 7 < v) -> get_bit_index (Ok v) = Err None).
Proof. exact guards_reject. Qed.
Print Assumptions C04_guards.

(** UNBOUNDED in the operand values (Proofs/RangeProofs.v): for every operation, every operand list, every program
    counter and ALL values in Z - whatever the encoder accepts has every value operand inside the range of its field
    kind in the ISA table: 8-bit immediates -128..255, unsigned fields 0..2^bits-1 (bit numbers, I/O addresses,
    adiw/sbiw constants), relative targets within -2^(bits-1)..2^(bits-1)-1 words of the next instruction, jmp/call
    addresses 0..2^22-1, lds/sts addresses 0..65535 (0x40..0xBF on the reduced core); and a displacement written
    with ld/st/ldd/std is on Y or Z and within 0..63.  [val_kinds] is checked against every row of Spec/Isa.v
    ([C04_kinds_from_table]).  Together with the exhaustive window (all registers in every position, all kinds and
    counts of operands) nothing out of range is ever accepted; that an accepted in-range operand list gets exactly
    the table's encoding is C01. *)
Require Import AvraV.Proofs.RangeProofs.
Theorem C04_values_in_range : forall fuel c op args pc bs, process fuel c op args pc = Ok bs ->
  range_ok (is_avr8l (dev c)) op (map (view_of fuel c) args) pc.
Proof. exact process_range. Qed.
Print Assumptions C04_values_in_range.
Theorem C04_displacement_in_range : forall a op vs pc bs, process_v a op vs pc = Ok bs -> disp_ok op vs.
Proof. intros a op vs pc bs H. exact (ok_then_use _ _ _ (process_v_disp a op vs pc) H). Qed.
Theorem C04_kinds_from_table : table_matches = true.
Proof. exact kinds_are_the_tables. Qed.

(** Converse direction (from C01): everything the ISA allows is accepted with its exact encoding, so
    acceptance and legality coincide on the window. *)
Example C04_examples :
  sound_at Full "movw" [WReg 17; WReg 19] = true /\
  is_ok (process 3 (ctx_new default_device) OMovw [OR8 17; OR8 19] 0) = false /\
  is_ok (process 3 (ctx_new default_device) OFmul [OR8 24; OR8 25] 0) = false /\
  is_ok (process 3 (ctx_new default_device) OSbrc [OR8 1; OE (EConst (-1))] 0) = false /\
  is_ok (process 3 (ctx_new default_device) ONop [OR8 1; OR8 2] 0) = false /\
  is_ok (process 3 (ctx_new default_device) OMov [OR8 1] 0) = false /\
  is_ok (process 3 (ctx_new default_device) OLdi [OR8 16; OE (EConst 255)] 0) = true /\
  In "movw" all_names /\ (40000 <? N.of_nat (List.length window))%N = true.
Proof. vm_compute. repeat split; try reflexivity. repeat (first [left; reflexivity | right]). Qed.

(** IN A PROGRAM.  No error is dropped: in every build pass 2 accepts, every item of every segment - wherever the segment stands in
    the list, whatever follows it - was accepted by pass 2; in particular every instruction was passed by the device gate and
    encoded by the encoder, so [C04_values_in_range] holds of each of them: an image never contains a statement the ISA cannot encode. *)
Require Import AvraV.Model.Parse AvraV.Model.Passes AvraV.Proofs.BranchProofs.
Theorem C04_no_error_is_dropped : forall fuel c segs r2,
  pass2 fuel c segs = Ok r2 ->
  forall pre sg post ipre ci ipost, segs = (pre ++ sg :: post)%list -> items sg = (ipre ++ ci :: ipost)%list ->
  exists st st', pass2_item fuel (seg_t sg) st ci = Ok st'.
Proof. exact pass2_accepts_every_item. Qed.
Theorem C04_every_instruction_encoded : forall fuel c segs r2,
  pass2 fuel c segs = Ok r2 ->
  forall pre sg post ipre cp op args ipost, segs = (pre ++ sg :: post)%list -> items sg = (ipre ++ (cp, IInstr op args) :: ipost)%list ->
  exists cx pc bs, process fuel cx op args pc = Ok bs /\ check_instruction (dev cx) op args = true.
Proof. exact pass2_encodes_every_instruction. Qed.
Print Assumptions C04_every_instruction_encoded.
