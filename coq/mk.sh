#!/bin/sh
# Regenerate _CoqProject (file list) and the Makefile.  Cases/ holds generated, per-run files
# that are compiled individually by the check script and are not part of the project build.
cd "$(dirname "$0")"
{
  echo "-Q . AvraV"
  echo "-arg -w -arg -notation-overridden,-deprecated-hint-without-locality,-deprecated-instance-without-locality"
  find Model Spec Gen Proofs Props Extract -name '*.v' 2>/dev/null | sort
} > _CoqProject.new
if ! cmp -s _CoqProject.new _CoqProject; then mv _CoqProject.new _CoqProject; else rm _CoqProject.new; fi
if [ ! -f Makefile ] || [ _CoqProject -nt Makefile ]; then coq_makefile -f _CoqProject -o Makefile >/dev/null; fi
