"""python3 -m vlib.seedtest <seed id> <property> [more properties...]
Confirms a seeded change (seeded/<id>/patch.diff + demo.rs) in a scratch worktree - the crate still compiles, the 67 pinned
tests still pass, the demonstration passes without and fails with the change - then applies it to /repo, runs the named
checks, and reverts /repo.  Writes seeded/<id>/meta.json."""
import json
import os
import shutil
import subprocess
import sys

VERIF = os.path.dirname(os.path.dirname(os.path.abspath(__file__)))


def sh(cmd, cwd=None, timeout=1800):
    p = subprocess.run(cmd, cwd=cwd, shell=True, stdout=subprocess.PIPE, stderr=subprocess.STDOUT, text=True, timeout=timeout)
    return p.returncode, p.stdout


def main():
    import signal

    def stop(signum, frame):
        # a kill from outside (a time limit) must still run the finally blocks below: /repo is never left changed
        raise SystemExit("seedtest: signal %d" % signum)
    signal.signal(signal.SIGTERM, stop)
    signal.signal(signal.SIGHUP, stop)
    sid, props = sys.argv[1], sys.argv[2:]
    d = os.path.join(VERIF, "seeded", sid)
    patch = os.path.join(d, "patch.diff")
    wt = "/root/scratch/verify_" + sid
    sh("git -C /repo worktree remove --force %s" % wt)
    rc, out = sh("git -C /repo worktree add -q %s HEAD" % wt)
    assert rc == 0, out
    meta = dict(seed=sid, breaks=props[0], checks_run=props)
    try:
        shutil.copy(os.path.join(d, "demo.rs"), os.path.join(wt, "tests", "seed_demo.rs"))
        env = "CARGO_NET_OFFLINE=true CARGO_TARGET_DIR=/root/scratch/verify_target"
        rc, out = sh("%s cargo test --offline --test seed_demo 2>&1 | tail -15" % env, cwd=wt)
        meta["demo_passes_without_change"] = "test result: ok" in out
        rc, out = sh("git apply %s || git apply --3way %s" % (patch, patch), cwd=wt)
        meta["patch_applies"] = rc == 0
        rc, out = sh("%s cargo test --offline --lib 2>&1 | grep 'test result'" % env, cwd=wt)
        meta["pinned_tests_with_change"] = out.strip()
        rc, out = sh("%s cargo test --offline --test seed_demo 2>&1 | tail -15" % env, cwd=wt)
        import re
        meta["demo_fails_with_change"] = bool(re.search(r"test result: FAILED|[1-9][0-9]* failed|error(\[E[0-9]+\])?: ", out))
    finally:
        sh("git -C /repo worktree remove --force %s" % wt)
    # the checks against the changed /repo
    rc, out = sh("git -C /repo status --short")
    assert out.strip() == "", "/repo is not clean: " + out
    rc, out = sh("git -C /repo apply %s" % patch)
    assert rc == 0, out
    results = {}
    try:
        for p in props:
            rc, out = sh("./check %s --tier quick" % p, cwd=VERIF, timeout=3600)
            lines = [l for l in out.splitlines() if l.startswith("VIOLATION") or l.startswith("KNOWN-FINDING")]
            results[p] = dict(exit=rc, lines=[l[:300] for l in lines])
            for l in lines:
                if l.startswith("VIOLATION"):
                    rp = l.split("replay=")[1].split()[0]
                    try:
                        r = json.load(open(rp))
                        results[p]["replay"] = {k: (str(r.get(k))[:400]) for k in ("kind", "input", "expected", "observed", "obligation")}
                    except OSError:
                        pass
    finally:
        sh("git -C /repo reset -q --hard HEAD")
    meta["check_results"] = results
    meta["detected"] = any(r["exit"] == 1 for r in results.values())
    # restore evidence of the unchanged tree
    for p in props:
        sh("./check %s --tier quick" % p, cwd=VERIF, timeout=3600)
    json.dump(meta, open(os.path.join(d, "meta.json"), "w"), indent=1)
    print(json.dumps(meta, indent=1)[:3000])


if __name__ == "__main__":
    main()
