(** src/instruction/mod.rs: [process] - operand fetching, range checks and bit packing, in the
    order and with the masks and shifts of the Rust code.  Opcodes are N, fields are combined
    with [N.lor] exactly where the code uses [|=]. *)
Require Import AvraV.Model.Base AvraV.Model.Ast AvraV.Model.Device AvraV.Model.Eval.
Require Import AvraV.Gen.OpTable.
Open Scope N_scope.

(** What the accessors of InstructionOps ([get_r8], [get_expr] followed by evaluation, [get_index])
    return for one operand.  The Rust code calls them on demand; being pure, the model computes
    the three answers of every operand once ([view_of]) and lets [process_v] read the one the
    mnemonic asks for - the same values, and it makes "the encoder depends on an operand only
    through what the accessors return" true by construction. *)
Inductive vidx := VNone (r : reg16) | VPostInc (r : reg16) | VPreDec (r : reg16) | VDisp (r : reg16) (q : res Z).
Record view := { v_r8 : res N; v_val : res Z; v_idx : res vidx }.

Definition get_r8 (c : ctx) (a : iop) : res N :=
  match a with
  | OR8 n => Ok n
  | OE (EIdent name) => match get_def c name with Some r => Ok r | None => Err None end
  | _ => Err None
  end.
Definition get_val (fuel : nat) (c : ctx) (a : iop) : res Z :=
  match a with OE e => run fuel c e | _ => Err None end.
Definition get_index (fuel : nat) (c : ctx) (a : iop) : res vidx :=
  match a with
  | OIndex (INone r) => Ok (VNone r)
  | OIndex (IPostInc r) => Ok (VPostInc r)
  | OIndex (IPreDec r) => Ok (VPreDec r)
  | OIndex (IPostIncE r e) => Ok (VDisp r (run fuel c e))
  | _ => Err None
  end.
Definition view_of (fuel : nat) (c : ctx) (a : iop) : view :=
  {| v_r8 := get_r8 c a; v_val := get_val fuel c a; v_idx := get_index fuel c a |}.

Definition arg (args : list view) (i : nat) : res view :=
  match nth_error args i with Some a => Ok a | None => Panic end.

(** get_byte / get_bit_index on an already evaluated operand *)
Definition get_byte (v : res Z) : res N := do x <- v; do b <- byte_of x; Ok (Z.to_N b).
Definition get_bit_index (v : res Z) : res N := do x <- v; do b <- bit_of x; Ok (Z.to_N b).
(** [get_byte(..)? as i8] followed by [if k < 0 || k > max] *)
Definition small_field (max : N) (v : res Z) : res N :=
  do b <- get_byte v; if (127 <? b) || (max <? b) then Err None else Ok b.

(** Operation::operand_counts; None for macro calls *)
Definition operand_counts (o : operation) : option (list nat) :=
  match o with
  | OCustom _ => None
  | OLpm | OElpm => Some [0; 2]%nat
  | OBr BrBs | OBr BrBc => Some [2]%nat
  | OBr _ => Some [1]%nat
  | OIjmp | OEijmp | OIcall | OEicall | ORet | OReti | OSpm | OSe _ | OCl _ | OBreak | ONop | OSleep
  | OWdr => Some [0]%nat
  | OCom | ONeg | OInc | ODec | OTst | OClr | OSer | ORjmp | OJmp | ORcall | OCall | OPush | OPop | OLsl
  | OLsr | ORol | ORor | OAsr | OSwap | OBset | OBclr => Some [1]%nat
  | _ => Some [2]%nat
  end.

Definition reg_code (r : reg16) : N := match r with RX => 12 | RY => 8 | RZ => 0 end.

Definition u16 (z : Z) : N := Z.to_N (z mod 65536).

(** the relative displacement [k - (pc + 1)], computed on i64 *)
Definition rel_of (k : Z) (pc : N) : res Z :=
  let r := (k - (Z.of_N pc + 1))%Z in if in_i64 r then Ok r else Err None.

Definition process_v (avr8l : bool) (op : operation) (args : list view) (pc : N) : res (list N) :=
  let base := snd (op_info avr8l op) in
  do _ <- match operand_counts op with
          | Some l => if existsb (Nat.eqb (length args)) l then Ok tt else Err None
          | None => Ok tt
          end;
  do r <-
    match op with
    | OAdd | OAdc | OSub | OSbc | OAnd | OOr | OEor | OCpse | OCp | OCpc | OMov | OMul =>
        do a0 <- arg args 0; do d <- v_r8 a0;
        do a1 <- arg args 1; do r <- v_r8 a1;
        Ok (N.lor (N.lor base (N.shiftl d 4)) (N.lor (N.shiftl (N.land r 16) 5) (N.land r 15)), None)
    | OAdiw | OSbiw =>
        do a0 <- arg args 0; do d <- v_r8 a0;
        if negb ((d =? 24) || (d =? 26) || (d =? 28) || (d =? 30)) then Err None else
        do a1 <- arg args 1; do k <- small_field 63 (v_val a1);
        Ok (N.lor (N.lor base (N.shiftl ((d - 24) / 2) 4)) (N.lor (N.shiftl (N.land k 48) 2) (N.land k 15)), None)
    | OSubi | OSbci | OAndi | OOri | OSbr | OCbr | OCpi | OLdi =>
        do a0 <- arg args 0; do d <- v_r8 a0;
        if d <? 16 then Err None else
        do a1 <- arg args 1; do k0 <- get_byte (v_val a1);
        let k := match op with OCbr => 255 - k0 | _ => k0 end in
        Ok (N.lor (N.lor base (N.shiftl (N.land d 15) 4)) (N.lor (N.shiftl (N.land k 240) 4) (N.land k 15)), None)
    | OCom | ONeg | OInc | ODec | OPush | OPop | OLsr | ORor | OAsr | OSwap =>
        do a0 <- arg args 0; do r <- v_r8 a0;
        Ok (N.lor base (N.shiftl r 4), None)
    | OTst | OClr | OLsl | ORol =>
        do a0 <- arg args 0; do r <- v_r8 a0;
        Ok (N.lor (N.lor base (N.shiftl r 4)) (N.lor (N.shiftl (N.land r 16) 5) (N.land r 15)), None)
    | OSer =>
        do a0 <- arg args 0; do r <- v_r8 a0;
        if r <? 16 then Err None else Ok (N.lor base (N.shiftl (N.land r 15) 4), None)
    | OMuls =>
        do a0 <- arg args 0; do d <- v_r8 a0;
        if d <? 16 then Err None else
        do a1 <- arg args 1; do r <- v_r8 a1;
        if r <? 16 then Err None else
        Ok (N.lor (N.lor base (N.shiftl (N.land d 15) 4)) (N.land r 15), None)
    | OMulsu | OFmul | OFmuls | OFmulsu =>
        do a0 <- arg args 0; do d <- v_r8 a0;
        if (d <? 16) || (23 <? d) then Err None else
        do a1 <- arg args 1; do r <- v_r8 a1;
        if (r <? 16) || (23 <? r) then Err None else
        Ok (N.lor (N.lor base (N.shiftl (N.land d 7) 4)) (N.land r 7), None)
    | ORjmp | ORcall =>
        do a0 <- arg args 0; do k <- v_val a0;
        do rel <- rel_of k pc;
        if (rel <? -2048)%Z || (2047 <? rel)%Z then Err None else
        Ok (N.lor base (N.land (u16 rel) 4095), None)
    | OJmp | OCall =>
        do a0 <- arg args 0; do k <- v_val a0;
        if (k <? 0)%Z || (4194303 <? k)%Z then Err None else
        (* ((k & 0x3e0000) >> 13 | (k & 0x010000) >> 16, k & 0xffff), written on the two halves of k *)
        let hi := Z.to_N (k / 65536) in
        Ok (N.lor base (N.lor (N.shiftl (N.land hi 62) 3) (N.land hi 1)), Some (Z.to_N (k mod 65536)))
    | OBr b =>
        do si <- match b with
                 | BrBs | BrBc => do a0 <- arg args 0; do s <- get_bit_index (v_val a0); Ok (s, 1%nat)
                 | _ => Ok (0, 0%nat)
                 end;
        let '(sbits, idx) := si in
        do a <- arg args idx; do k <- v_val a;
        do rel <- rel_of k pc;
        if (rel <? -64)%Z || (63 <? rel)%Z then Err None else
        Ok (N.lor (N.lor (N.lor base sbits) (br_number b)) (N.shiftl (N.land (u16 rel) 127) 3), None)
    | OMovw =>
        do a0 <- arg args 0; do d <- v_r8 a0;
        if negb (d mod 2 =? 0) then Err None else
        do a1 <- arg args 1; do r <- v_r8 a1;
        if negb (r mod 2 =? 0) then Err None else
        Ok (N.lor (N.lor base (N.shiftl (d / 2) 4)) (r / 2), None)
    | OLds | OSts =>
        do a0 <- arg args 0; do a1 <- arg args 1;
        do rk <- match op with
                 | OLds => do r <- v_r8 a0; Ok (r, v_val a1)
                 | _ => do r <- v_r8 a1; Ok (r, v_val a0)
                 end;
        let '(r, e) := rk in
        do k <- e;
        if avr8l then
          if r <? 16 then Err None else
          if (k <? 64)%Z || (191 <? k)%Z then Err None else
          let k := Z.to_N k in
          Ok (N.lor (N.lor base (N.shiftl (N.land r 15) 4))
                    (N.lor (N.lor (N.shiftl (N.land k 64) 2) (N.shiftl (N.land k 48) 5)) (N.land k 15)), None)
        else
          if (k <? 0)%Z || (65535 <? k)%Z then Err None else
          Ok (N.lor base (N.shiftl r 4), Some (Z.to_N k))
    | OLd | OSt | OLdd | OStd =>
        do a0 <- arg args 0; do a1 <- arg args 1;
        do ri <- match op with
                 | OLd | OLdd => do r <- v_r8 a0; do i <- v_idx a1; Ok (r, i)
                 | _ => do r <- v_r8 a1; do i <- v_idx a0; Ok (r, i)
                 end;
        let '(r, i) := ri in
        do f <- match i with
                | VNone r16 => Ok (N.lor (match r16 with RX => 4096 | _ => 0 end) (reg_code r16))
                | VPostInc r16 => Ok (N.lor (N.lor 1 4096) (reg_code r16))
                | VPreDec r16 => Ok (N.lor (N.lor 2 4096) (reg_code r16))
                | VDisp r16 e =>
                    match r16 with
                    | RX => Err None
                    | _ => do k <- small_field 63 e;
                           Ok (N.lor (reg_code r16)
                                 (N.lor (N.lor (N.shiftl (N.land k 32) 8) (N.shiftl (N.land k 24) 7)) (N.land k 7)))
                    end
                end;
        Ok (N.lor (N.lor base (N.shiftl r 4)) f, None)
    | OLpm | OElpm =>
        match args with
        | [] => Ok (match op with OLpm => 38344 | _ => 38360 end, None)
        | _ =>
          do a0 <- arg args 0; do r <- v_r8 a0;
          do a1 <- arg args 1; do i <- v_idx a1;
          do f <- match i with VNone RZ => Ok 4 | VPostInc RZ => Ok 5 | _ => Err None end;
          Ok (N.lor (N.lor (N.lor base (N.shiftl r 4)) f) (match op with OElpm => 2 | _ => 0 end), None)
        end
    | OIn | OOut =>
        do a0 <- arg args 0; do a1 <- arg args 1;
        do rk <- match op with
                 | OIn => do r <- v_r8 a0; Ok (r, v_val a1)
                 | _ => do r <- v_r8 a1; Ok (r, v_val a0)
                 end;
        let '(r, e) := rk in
        do k <- small_field 63 e;
        Ok (N.lor (N.lor base (N.shiftl r 4)) (N.lor (N.shiftl (N.land k 48) 5) (N.land k 15)), None)
    | OSbrc | OSbrs | OBst | OBld =>
        do a0 <- arg args 0; do r <- v_r8 a0;
        do a1 <- arg args 1; do b <- get_bit_index (v_val a1);
        Ok (N.lor (N.lor base (N.shiftl r 4)) b, None)
    | OSbi | OCbi | OSbis | OSbic =>
        do a0 <- arg args 0; do k <- small_field 31 (v_val a0);
        do a1 <- arg args 1; do b <- get_bit_index (v_val a1);
        Ok (N.lor (N.lor base (N.shiftl k 3)) b, None)
    | OBset | OBclr =>
        do a0 <- arg args 0; do k <- get_bit_index (v_val a0);
        Ok (N.lor base (N.shiftl k 4), None)
    | OSe f | OCl f => Ok (N.lor base (N.shiftl (flag_number f) 4), None)
    | _ => Ok (base, None)
    end;
  let '(w, w2) := r in
  Ok ([w mod 256; w / 256] ++ match w2 with Some x => [x mod 256; x / 256] | None => [] end)%list.

(** instruction::process *)
Definition process (fuel : nat) (c : ctx) (op : operation) (args : list iop) (pc : N) : res (list N) :=
  process_v (is_avr8l (dev c)) op (map (view_of fuel c) args) pc.

(** document::operation: the identifier is lower-cased and matched in full against the mnemonic
    table (regenerated from the code); anything else is a macro call *)
Fixpoint find_op (n : str) (t : list (str * operation)) : option operation :=
  match t with [] => None | (k, o) :: r => if str_eqb n k then Some o else find_op n r end.
Definition operation_of_name (n : str) : operation :=
  match find_op (lower n) mnemonics with Some o => o | None => OCustom (lower n) end.
