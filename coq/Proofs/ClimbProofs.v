(** The round-trip theorem of the precedence-climbing parser (Model/Climb.v): for ANY operator tables,
    character classes and atom parsers meeting the stated conditions, and for ANY printer that
    parenthesises at least where the levels require it, parsing the printed text of a well-formed
    expression returns that expression and consumes everything.  Instantiated for the real tables
    (regenerated from src/document.rs) and the real printer in Proofs/ExprRoundTrip.v. *)
From Coq Require Import List Arith Lia Bool Ascii NArith.
Import ListNotations.
Require Import AvraV.Model.Climb.

Lemma strip_app tok s : strip tok (tok ++ s) = Some s.
Proof. induction tok as [|c tk IH]; cbn; [reflexivity|]. rewrite Ascii.eqb_refl. exact IH. Qed.

Section ClimbProofs.
Variable binop unop : Type.
Variable itab : list (nat * text * binop).
Variable ptab : list (nat * text * unop).
Variable is_sp idch idstart digit : ascii -> bool.
Variable id_parse : text -> option (text * text).
Variable num_parse : text -> option (N * text).
Variable num_render : N -> text.
Variable wf_id : text -> Prop.
Variable wf_num : N -> Prop.

Local Notation expr := (Climb.expr binop unop).
Local Notation pres := (Climb.pres binop unop).
Local Notation skip_sp := (Climb.skip_sp is_sp).
Local Notation try_prefix := (Climb.try_prefix binop unop).
Local Notation paren_tail := (Climb.paren_tail binop unop is_sp).
Local Notation try_func := (Climb.try_func binop unop is_sp id_parse).
Local Notation try_paren := (Climb.try_paren binop unop is_sp).
Local Notation prefix_atom := (Climb.prefix_atom binop unop ptab is_sp id_parse num_parse).
Local Notation try_infix := (Climb.try_infix binop unop is_sp).
Local Notation loop := (Climb.loop binop unop itab is_sp).
Local Notation climb := (Climb.climb binop unop itab ptab is_sp id_parse num_parse).

(* ---------------- tables as functions, renderer ---------------- *)
Variable lb : binop -> nat.  Variable tb : binop -> text.
Variable lu : unop -> nat.   Variable tu : unop -> text.
Variable symc : ascii -> bool.     (* characters operator tokens are made of *)

Definition pfirst (c:ascii) : bool :=
  existsb (fun e => match snd (fst e) with d :: _ => Ascii.eqb c d | [] => false end) ptab.
Definition starter (c:ascii) : bool := idstart c || digit c || Ascii.eqb c LP || pfirst c.
Definition bad (c:ascii) : bool := symc c && negb (pfirst c).
Definition hd_is (P:ascii->bool) (s:text) : Prop := exists c r, s = c :: r /\ P c = true.
(* what may follow an operator token: optional blanks, then the start of an operand *)
Definition after_op (s:text) : Prop := hd_is starter (skip_sp s).
Definition blanks (s:text) : Prop := forallb is_sp s = true.

Variable np : nat -> expr -> bool.       (* parenthesisation policy of the printer *)
Definition must_paren (ctx:nat) (e:expr) : bool :=
  match e with EB o _ _ => lb o <? ctx | EU u _ => lu u <? ctx | _ => false end.
Definition needs_paren (ctx:nat) (e:expr) : bool :=
  match e with EB _ _ _ | EU _ _ => np ctx e | _ => false end.
Hypothesis np_sound : forall ctx e, must_paren ctx e = true -> np ctx e = true.

Fixpoint render (ctx:nat) (e:expr) : text :=
  let b := match e with
    | EId n => n
    | ENum k => num_render k
    | EF n a => n ++ LP :: render 0 a ++ [RP]
    | EB o l r => render (lb o) l ++ tb o ++ render (S (lb o)) r
    | EU u x => tu u ++ render (S (lu u)) x
    end in
  if needs_paren ctx e then LP :: b ++ [RP] else b.

Fixpoint wf (e:expr) : Prop :=
  match e with EId n => wf_id n | ENum k => wf_num k | EF n a => wf_id n /\ wf a
             | EB _ l r => wf l /\ wf r | EU _ x => wf x end.

(* ---------------- relational semantics, successful paths ---------------- *)
Inductive Parses : nat -> text -> expr*text -> Prop :=
| P_mk minp s e0 r0 res : Pre s (e0, r0) -> LoopR minp e0 r0 res -> Parses minp s res
with Pre : text -> expr*text -> Prop :=
| Pre_un s res : TryP ptab s res -> Pre s res
| Pre_func s n r r1 res :
    (forall rec, try_prefix rec ptab s = None) -> id_parse s = Some (n, r) -> skip_sp r = LP :: r1 ->
    PT r1 res -> Pre s (EF n (fst res), snd res)
| Pre_paren s r res :
    (forall rec, try_prefix rec ptab s = None) -> (forall rec, try_func rec s = None) ->
    s = LP :: r -> PT r res -> Pre s res
| Pre_num s k r :
    (forall rec, try_prefix rec ptab s = None) -> (forall rec, try_func rec s = None) ->
    (forall rec, try_paren rec s = None) -> num_parse s = Some (k, r) -> Pre s (ENum k, r)
| Pre_id s n r :
    (forall rec, try_prefix rec ptab s = None) -> (forall rec, try_func rec s = None) ->
    (forall rec, try_paren rec s = None) -> num_parse s = None -> id_parse s = Some (n, r) -> Pre s (EId n, r)
with PT : text -> expr*text -> Prop :=
| PT_mk s e r r' : Parses 0 (skip_sp s) (e, r) -> skip_sp r = RP :: r' -> PT s (e, r')
with TryP : list (nat*text*unop) -> text -> expr*text -> Prop :=
| TP_hit lvl tok u tl s r e r' : strip tok s = Some r -> Parses (S lvl) r (e, r') -> TryP ((lvl,tok,u)::tl) s (EU u e, r')
| TP_skip lvl tok u tl s res : strip tok s = None -> TryP tl s res -> TryP ((lvl,tok,u)::tl) s res
with LoopR : nat -> expr -> text -> expr*text -> Prop :=
| L_stop minp acc s : (forall f, try_infix (climb f) minp itab (skip_sp s) = None) -> LoopR minp acc s (acc, s)
| L_step minp acc s o e r' res : TryI minp itab (skip_sp s) (o, e, r') -> LoopR minp (EB o acc e) r' res -> LoopR minp acc s res
with TryI : nat -> list (nat*text*binop) -> text -> binop*expr*text -> Prop :=
| TI_hit minp lvl tok o tl s r e r' : minp <= lvl -> strip tok s = Some r -> Parses (S lvl) (skip_sp r) (e, r') ->
    TryI minp ((lvl,tok,o)::tl) s (o, e, r')
| TI_skip_lvl minp lvl tok o tl s res : lvl < minp -> TryI minp tl s res -> TryI minp ((lvl,tok,o)::tl) s res
| TI_skip_tok minp lvl tok o tl s res : strip tok s = None -> TryI minp tl s res -> TryI minp ((lvl,tok,o)::tl) s res
| TI_skip_rhs minp lvl tok o tl s r res : strip tok s = Some r -> (forall f m, climb f m (skip_sp r) = None) ->
    TryI minp tl s res -> TryI minp ((lvl,tok,o)::tl) s res.

Scheme Parses_i := Induction for Parses Sort Prop
with Pre_i := Induction for Pre Sort Prop
with PT_i := Induction for PT Sort Prop
with TryP_i := Induction for TryP Sort Prop
with LoopR_i := Induction for LoopR Sort Prop
with TryI_i := Induction for TryI Sort Prop.
Combined Scheme sem_mut from Parses_i, Pre_i, PT_i, TryP_i, LoopR_i, TryI_i.

Theorem complete :
  (forall minp s res, Parses minp s res -> exists n, forall f, n <= f -> climb f minp s = Some res) /\
  (forall s res, Pre s res -> exists n, forall f, n <= f -> prefix_atom (climb f) s = Some res) /\
  (forall s res, PT s res -> exists n, forall f, n <= f -> paren_tail (climb f) s = Some res) /\
  (forall tbl s res, TryP tbl s res -> exists n, forall f, n <= f -> try_prefix (climb f) tbl s = Some res) /\
  (forall minp acc s res, LoopR minp acc s res -> exists n, forall f g, n <= f -> n <= g -> loop (climb f) g minp acc s = Some res) /\
  (forall minp tbl s res, TryI minp tbl s res -> exists n, forall f, n <= f -> try_infix (climb f) minp tbl s = Some res).
Proof.
  apply sem_mut.
  - intros minp s e0 r0 res _ [n1 H1] _ [n2 H2]. exists (S (n1+n2)). intros f Hf.
    destruct f as [|f']; [lia|]. cbn [Climb.climb]. rewrite H1 by lia. apply H2; lia.
  - intros s res _ [n H]. exists n. intros f Hf. unfold Climb.prefix_atom. rewrite H by lia. reflexivity.
  - intros s n r r1 res Hp Hid Hsp _ [m H]. exists m. intros f Hf. unfold Climb.prefix_atom.
    rewrite Hp. unfold Climb.try_func. rewrite Hid, Hsp. unfold LP at 1. rewrite Ascii.eqb_refl.
    rewrite H by lia. destruct res; reflexivity.
  - intros s r res Hp Hf0 -> _ [m H]. exists m. intros f Hf. unfold Climb.prefix_atom.
    rewrite Hp, Hf0. unfold Climb.try_paren. unfold LP at 1. rewrite Ascii.eqb_refl. rewrite H by lia. reflexivity.
  - intros s k r Hp Hf0 Hpa Hn. exists 0. intros f _. unfold Climb.prefix_atom. rewrite Hp, Hf0, Hpa, Hn. reflexivity.
  - intros s n r Hp Hf0 Hpa Hn Hid. exists 0. intros f _. unfold Climb.prefix_atom. rewrite Hp, Hf0, Hpa, Hn, Hid. reflexivity.
  - intros s e r r' _ [m H] Hsp. exists m. intros f Hf. unfold Climb.paren_tail. rewrite H by lia. rewrite Hsp.
    unfold RP at 1. rewrite Ascii.eqb_refl. reflexivity.
  - intros lvl tok u tl s r e r' Hs _ [m H]. exists m. intros f Hf. cbn [Climb.try_prefix]. rewrite Hs, H by lia. reflexivity.
  - intros lvl tok u tl s res Hs _ [m H]. exists m. intros f Hf. cbn [Climb.try_prefix]. rewrite Hs. apply H; lia.
  - intros minp acc s Hn. exists 1. intros f g _ Hg. destruct g as [|g']; [lia|]. cbn [Climb.loop]. rewrite Hn. reflexivity.
  - intros minp acc s o e r' res _ [n1 H1] _ [n2 H2]. exists (S (n1+n2)). intros f g Hf Hg.
    destruct g as [|g']; [lia|]. cbn [Climb.loop]. rewrite H1 by lia. apply H2; lia.
  - intros minp lvl tok o tl s r e r' Hle Hs _ [m H]. exists m. intros f Hf. cbn [Climb.try_infix].
    destruct (Nat.leb_spec minp lvl); [|lia]. rewrite Hs, H by lia. reflexivity.
  - intros minp lvl tok o tl s res Hlt _ [m H]. exists m. intros f Hf. cbn [Climb.try_infix].
    destruct (Nat.leb_spec minp lvl); [lia|]. apply H; lia.
  - intros minp lvl tok o tl s res Hs _ [m H]. exists m. intros f Hf. cbn [Climb.try_infix].
    destruct (minp <=? lvl); [rewrite Hs|]; apply H; lia.
  - intros minp lvl tok o tl s r res Hs Hfail _ [m H]. exists m. intros f Hf. cbn [Climb.try_infix].
    destruct (minp <=? lvl); [rewrite Hs, Hfail|]; apply H; lia.
Qed.

(* ---------------- hypotheses: character classes, atom parsers, table conditions ---------------- *)
Hypothesis Hsym : forall c, symc c = true ->
  idch c = false /\ idstart c = false /\ digit c = false /\ is_sp c = false /\ Ascii.eqb c LP = false /\ Ascii.eqb c RP = false.
Hypothesis Hidstart : forall c, idstart c = true -> idch c = true /\ digit c = false.
Hypothesis Hdigit : forall c, digit c = true -> idch c = true.
Hypothesis Hidch_sp : forall c, idch c = true -> is_sp c = false.
Hypothesis HLP : idch LP = false /\ idstart LP = false /\ digit LP = false /\ is_sp LP = false.
Hypothesis HRP : idch RP = false /\ idstart RP = false /\ digit RP = false /\ is_sp RP = false /\ Ascii.eqb RP LP = false.

Hypothesis H_id_ok : forall n r, wf_id n -> hd_ok (fun c => negb (idch c)) r = true -> id_parse (n ++ r) = Some (n, r).
Hypothesis H_id_fail : forall s, hd_ok (fun c => negb (idstart c)) s = true -> id_parse s = None.
Hypothesis H_id_hd : forall n, wf_id n -> hd_is idstart n.
Hypothesis H_num_ok : forall k r, wf_num k -> hd_ok (fun c => negb (idch c)) r = true -> num_parse (num_render k ++ r) = Some (k, r).
Hypothesis H_num_fail : forall c r, symc c = true \/ idstart c = true -> num_parse (c :: r) = None.
Hypothesis H_num_hd : forall k, wf_num k -> hd_is digit (num_render k).

Hypothesis HPsym : forall l t u, In (l,t,u) ptab -> hd_is symc t.
Hypothesis HIsym : forall l t o, In (l,t,o) itab -> hd_is symc t.
Hypothesis HPpos : forall u, exists pre post, ptab = pre ++ (lu u, tu u, u) :: post /\
  forall l t u', In (l,t,u') pre -> forall s, strip t (tu u ++ s) = None.
Hypothesis HIpos : forall o, exists pre post, itab = pre ++ (lb o, tb o, o) :: post /\
  forall l t o', In (l,t,o') pre -> forall s, after_op s ->
    strip t (tb o ++ s) = None \/ exists r, strip t (tb o ++ s) = Some r /\ hd_is bad r.
Hypothesis HIstop : forall o minp s l t o', lb o < minp -> after_op s -> In (l,t,o') itab -> minp <= l ->
    strip t (tb o ++ s) = None \/ exists r, strip t (tb o ++ s) = Some r /\ hd_is bad r.

(* ---------------- small facts ---------------- *)
Lemma skip_nonsp c r : is_sp c = false -> skip_sp (c :: r) = c :: r.
Proof. intros H. cbn. rewrite H. reflexivity. Qed.

Lemma pfirst_sym c : pfirst c = true -> symc c = true.
Proof.
  unfold pfirst. rewrite existsb_exists. intros [[[l t] u] [Hin Hc]]. cbn in Hc.
  destruct (HPsym _ _ _ Hin) as (d & tl & -> & Hd). apply Ascii.eqb_eq in Hc. subst. exact Hd.
Qed.

Lemma starter_nonsp c : starter c = true -> is_sp c = false.
Proof.
  unfold starter. rewrite !orb_true_iff. intros [[[H|H]|H]|H].
  - apply Hidch_sp. apply Hidstart in H. tauto.
  - apply Hidch_sp, Hdigit, H.
  - apply Ascii.eqb_eq in H. subst. tauto.
  - apply pfirst_sym in H. apply Hsym in H. tauto.
Qed.

Lemma bad_nonsp c : bad c = true -> is_sp c = false.
Proof. unfold bad. rewrite andb_true_iff. intros [H _]. apply Hsym in H. tauto. Qed.

Lemma strip_hd_ne t c r : hd_is symc t -> symc c = false -> strip t (c :: r) = None.
Proof.
  intros (d & tl & -> & Hd) Hc. cbn. destruct (Ascii.eqb_spec d c); [subst; congruence | reflexivity].
Qed.

Lemma strip_nil t : hd_is symc t -> strip t [] = None.
Proof. intros (d & tl & -> & _). reflexivity. Qed.

Lemma try_prefix_none_gen : forall tbl, (forall l t u, In (l,t,u) tbl -> hd_is symc t) ->
  forall c r rec,
  existsb (fun e : nat*text*unop => match snd (fst e) with d :: _ => Ascii.eqb c d | [] => false end) tbl = false ->
  try_prefix rec tbl (c :: r) = None.
Proof.
  induction tbl as [|[[l t] u] tl IH]; intros Hall c r rec H; [reflexivity|].
  cbn in H. apply orb_false_iff in H as [H1 H2]. cbn [Climb.try_prefix].
  destruct (Hall l t u (or_introl eq_refl)) as (d & t' & -> & _).
  cbn. rewrite Ascii.eqb_sym, H1. apply IH; [|exact H2]. intros; eapply Hall; right; eauto.
Qed.

Lemma try_prefix_none c r : pfirst c = false -> forall rec, try_prefix rec ptab (c :: r) = None.
Proof. intros H rec. apply try_prefix_none_gen; [exact HPsym | exact H]. Qed.

Lemma nonsym_pfirst c : symc c = false -> pfirst c = false.
Proof. intros H. destruct (pfirst c) eqn:E; [apply pfirst_sym in E; congruence | reflexivity]. Qed.

Lemma climb_fails_bad s : hd_is bad s -> forall f m, climb f m s = None.
Proof.
  intros (c & r & -> & Hb) f m. destruct f as [|f']; [reflexivity|]. cbn [Climb.climb].
  unfold bad in Hb. apply andb_true_iff in Hb as [Hs Hp]. apply negb_true_iff in Hp.
  destruct (Hsym _ Hs) as (H1 & H2 & H3 & H4 & H5 & H6).
  unfold Climb.prefix_atom. rewrite try_prefix_none by exact Hp.
  unfold Climb.try_func. rewrite H_id_fail by (cbn; rewrite H2; reflexivity).
  unfold Climb.try_paren. rewrite H5.
  rewrite (H_num_fail c r (or_introl Hs)). reflexivity.
Qed.

(* what may follow a rendered expression: the end, a closing parenthesis, a binary operator of the
   right level and the start of its operand - or [neutral] text: no identifier character right after,
   and the next non-blank character neither an opening parenthesis nor an operator character *)
Definition neutral (rest:text) : Prop :=
  hd_ok (fun c => negb (idch c)) rest = true /\
  match skip_sp rest with c :: _ => Ascii.eqb c LP = false /\ symc c = false | [] => True end.
Definition stop_ok (minp:nat) (rest:text) : Prop :=
  rest = [] \/ (exists sp r, rest = sp ++ RP :: r /\ blanks sp) \/
  (exists sp o r, rest = sp ++ tb o ++ r /\ blanks sp /\ lb o < minp /\ after_op r) \/ neutral rest.
Definition rest_ok (ctx:nat) (rest:text) : Prop :=
  rest = [] \/ (exists sp r, rest = sp ++ RP :: r /\ blanks sp) \/
  (exists sp o r, rest = sp ++ tb o ++ r /\ blanks sp /\ lb o <= ctx /\ after_op r) \/ neutral rest.

Lemma rest_stop ctx minp rest : rest_ok ctx rest -> ctx < minp -> stop_ok minp rest.
Proof.
  intros [H|[H|[(sp & o & r & H1 & Hb & H2 & H3)|H]]] Hlt; [left|right;left|right;right;left|right;right;right]; auto.
  exists sp, o, r. repeat split; auto; lia.
Qed.
Lemma rest_up ctx ctx' rest : rest_ok ctx rest -> ctx <= ctx' -> rest_ok ctx' rest.
Proof.
  intros [H|[H|[(sp & o & r & H1 & Hb & H2 & H3)|H]]] Hle; [left|right;left|right;right;left|right;right;right]; auto.
  exists sp, o, r. repeat split; auto; lia.
Qed.
Lemma rest_rp r : forall ctx, rest_ok ctx (RP :: r).
Proof. intros ctx. right; left. exists [], r. split; reflexivity. Qed.
Lemma stop_rp r : forall m, stop_ok m (RP :: r).
Proof. intros m. right; left. exists [], r. split; reflexivity. Qed.

Lemma in_itab o : In (lb o, tb o, o) itab.
Proof. destruct (HIpos o) as (pre & post & -> & _). apply in_or_app. right. left. reflexivity. Qed.
Lemma in_ptab u : In (lu u, tu u, u) ptab.
Proof. destruct (HPpos u) as (pre & post & -> & _). apply in_or_app. right. left. reflexivity. Qed.

Lemma tb_hd o r : exists c t, tb o ++ r = c :: t /\ symc c = true.
Proof. destruct (HIsym _ _ _ (in_itab o)) as (c & t & E & H). rewrite E. exists c, (t ++ r). split; [reflexivity|exact H]. Qed.

Lemma skip_blanks sp r : blanks sp -> skip_sp (sp ++ r) = skip_sp r.
Proof.
  unfold blanks. induction sp as [|c sp IH]; intros H; [reflexivity|]. cbn [forallb] in H. apply andb_prop in H. destruct H as (Hc & H).
  cbn [app Climb.skip_sp]. rewrite Hc. apply IH. exact H.
Qed.
Lemma blanks_hd_not_idch sp r : blanks sp -> hd_ok (fun c => negb (idch c)) r = true -> hd_ok (fun c => negb (idch c)) (sp ++ r) = true.
Proof.
  unfold blanks. destruct sp as [|c sp]; intros H Hr; [exact Hr|]. cbn [forallb] in H. apply andb_prop in H. destruct H as (Hc & _).
  cbn. destruct (idch c) eqn:E; [apply Hidch_sp in E; congruence | reflexivity].
Qed.

Lemma rest_not_idch ctx rest : rest_ok ctx rest -> hd_ok (fun c => negb (idch c)) rest = true.
Proof.
  intros [->|[(sp & r & -> & Hb)|[(sp & o & r & -> & Hb & _)|(H & _)]]]; [reflexivity | | | exact H].
  - apply blanks_hd_not_idch; [exact Hb|]. cbn. destruct HRP as [-> _]. reflexivity.
  - apply blanks_hd_not_idch; [exact Hb|]. destruct (tb_hd o r) as (c & t & -> & H). cbn. apply Hsym in H. destruct H as [-> _]. reflexivity.
Qed.

Lemma rest_not_lp ctx rest : rest_ok ctx rest ->
  match skip_sp rest with c :: _ => Ascii.eqb c LP = false | [] => True end.
Proof.
  intros [->|[(sp & r & -> & Hb)|[(sp & o & r & -> & Hb & _)|(_ & H)]]].
  - exact I.
  - rewrite skip_blanks by exact Hb. rewrite skip_nonsp by tauto. tauto.
  - rewrite skip_blanks by exact Hb. destruct (tb_hd o r) as (c & t & -> & H). pose proof (Hsym _ H) as Hs. rewrite skip_nonsp by tauto. tauto.
  - destruct (skip_sp rest); [exact I | tauto].
Qed.

Lemma stop_none minp rest : stop_ok minp rest -> forall f, try_infix (climb f) minp itab (skip_sp rest) = None.
Proof.
  intros H f.
  assert (G : forall tbl, (forall e, In e tbl -> In e itab) -> try_infix (climb f) minp tbl (skip_sp rest) = None).
  { induction tbl as [|[[l t] o'] tl IH]; intros Hsub; [reflexivity|]. cbn [Climb.try_infix].
    assert (IH' : try_infix (climb f) minp tl (skip_sp rest) = None) by (apply IH; intros e He; apply Hsub; right; exact He).
    assert (Hin : In (l,t,o') itab) by (apply Hsub; left; reflexivity).
    destruct (Nat.leb_spec minp l) as [Hle|Hgt]; [|exact IH'].
    destruct H as [->|[(sp & r & -> & Hb)|[(sp & o & r & -> & Hb & Hlt & Hst)|(_ & Hn)]]].
    - cbn [Climb.skip_sp]. rewrite strip_nil by (eapply HIsym; eauto). exact IH'.
    - rewrite skip_blanks in * by exact Hb. rewrite skip_nonsp in * by tauto. rewrite strip_hd_ne; [exact IH' | eapply HIsym; eauto |].
      destruct (symc RP) eqn:E; [apply Hsym in E; destruct E as (_&_&_&_&_&E); rewrite Ascii.eqb_refl in E; discriminate | reflexivity].
    - rewrite skip_blanks in * by exact Hb.
      destruct (tb_hd o r) as (c & t0 & E & Hc). pose proof (Hsym _ Hc) as Hs.
      assert (Esk : skip_sp (tb o ++ r) = tb o ++ r) by (rewrite E; apply skip_nonsp; tauto). rewrite Esk in *.
      destruct (HIstop o minp r l t o' Hlt Hst Hin Hle) as [->|(r' & -> & Hb')]; [exact IH'|].
      destruct Hb' as (c' & r'' & -> & Hb'). rewrite skip_nonsp by (apply bad_nonsp; exact Hb').
      rewrite climb_fails_bad by (exists c', r''; auto). exact IH'.
    - destruct (skip_sp rest) as [|c r] eqn:Es.
      + rewrite strip_nil by (eapply HIsym; eauto). exact IH'.
      + rewrite strip_hd_ne; [exact IH' | eapply HIsym; eauto | tauto]. }
  apply G. auto.
Qed.

Lemma tryI_pre minp pre entry post s res :
  (forall l t o', In (l,t,o') pre -> strip t s = None \/ exists r, strip t s = Some r /\ hd_is bad r) ->
  TryI minp (entry :: post) s res -> TryI minp (pre ++ entry :: post) s res.
Proof.
  induction pre as [|[[l t] o'] tl IH]; intros Hpre HT; [exact HT|]. cbn [app].
  destruct (Hpre l t o' (or_introl eq_refl)) as [E|(r & E & Hb)].
  - apply TI_skip_tok; [exact E|]. apply IH; [|exact HT]. intros l0 t0 o0 Hin; apply (Hpre l0 t0 o0); right; exact Hin.
  - eapply TI_skip_rhs; [exact E | |].
    + destruct Hb as (c & r' & -> & Hb). rewrite skip_nonsp by (apply bad_nonsp; exact Hb).
      apply climb_fails_bad. exists c, r'; auto.
    + apply IH; [|exact HT]. intros l0 t0 o0 Hin; apply (Hpre l0 t0 o0); right; exact Hin.
Qed.

Lemma tryP_pre pre entry post s res :
  (forall l t u', In (l,t,u') pre -> strip t s = None) ->
  TryP (entry :: post) s res -> TryP (pre ++ entry :: post) s res.
Proof.
  induction pre as [|[[l t] u'] tl IH]; intros Hpre HT; [exact HT|]. cbn [app].
  apply TP_skip; [apply (Hpre l t u'); left; reflexivity|]. apply IH; [|exact HT]. intros l0 t0 u0 Hin; apply (Hpre l0 t0 u0); right; exact Hin.
Qed.

Lemma render_starter e : wf e -> forall ctx rest, hd_is starter (render ctx e ++ rest).
Proof.
  induction e as [n|k|n a IHa|o l IHl r IHr|u x IHx]; intros Hwf ctx rest; cbn [wf] in Hwf; cbn [render needs_paren].
  - destruct (H_id_hd n Hwf) as (c & t & -> & H). exists c, (t ++ rest). split; [reflexivity|]. unfold starter. rewrite H. reflexivity.
  - destruct (H_num_hd k Hwf) as (c & t & -> & H). exists c, (t ++ rest). split; [reflexivity|]. unfold starter. rewrite H, orb_true_r. reflexivity.
  - destruct Hwf as [Hn _]. destruct (H_id_hd n Hn) as (c & t & -> & H). eexists c, _. split; [reflexivity|]. unfold starter. rewrite H. reflexivity.
  - destruct (np ctx (EB o l r)).
    + eexists LP, _. split; [reflexivity|]. unfold starter. rewrite Ascii.eqb_refl, !orb_true_r. reflexivity.
    + rewrite <- app_assoc. apply IHl. tauto.
  - destruct (np ctx (EU u x)).
    + eexists LP, _. split; [reflexivity|]. unfold starter. rewrite Ascii.eqb_refl, !orb_true_r. reflexivity.
    + destruct (HPsym _ _ _ (in_ptab u)) as (c & t & E & H). rewrite E. eexists c, _. split; [reflexivity|].
      unfold starter. replace (pfirst c) with true; [rewrite !orb_true_r; reflexivity|]. symmetry.
      unfold pfirst. apply existsb_exists. exists (lu u, tu u, u). split; [apply in_ptab|]. cbn. rewrite E. apply Ascii.eqb_refl.
Qed.

Lemma starter_skip s : hd_is starter s -> skip_sp s = s.
Proof. intros (c & r & -> & H). apply skip_nonsp, starter_nonsp, H. Qed.

(* alternatives that must fail before an atom is reached *)
Lemma idstart_prefix_none c r : idstart c = true -> forall rec, try_prefix rec ptab (c :: r) = None.
Proof. intros H. apply try_prefix_none, nonsym_pfirst. destruct (symc c) eqn:E; [apply Hsym in E; destruct E as (_ & E & _); congruence | reflexivity]. Qed.
Lemma digit_prefix_none c r : digit c = true -> forall rec, try_prefix rec ptab (c :: r) = None.
Proof. intros H. apply try_prefix_none, nonsym_pfirst. destruct (symc c) eqn:E; [apply Hsym in E; destruct E as (_ & _ & E & _); congruence | reflexivity]. Qed.
Lemma lp_prefix_none r : forall rec, try_prefix rec ptab (LP :: r) = None.
Proof. apply try_prefix_none, nonsym_pfirst. destruct (symc LP) eqn:E; [apply Hsym in E; destruct E as (_&_&_&_&E&_); rewrite Ascii.eqb_refl in E; discriminate | reflexivity]. Qed.

(* ---------------- the round-trip theorem, against the relation ---------------- *)
Theorem render_parses : forall e, wf e -> forall ctx minp rest res,
  minp <= ctx -> rest_ok ctx rest -> LoopR minp e rest res -> Parses minp (render ctx e ++ rest) res.
Proof.
  assert (PAREN : forall e b minp rest res,
      (forall rest' res', rest_ok 0 rest' -> LoopR 0 e rest' res' -> Parses 0 (b ++ rest') res') ->
      hd_is starter b -> (forall rest', hd_is starter (b ++ rest')) ->
      LoopR minp e rest res -> Parses minp ((LP :: b ++ [RP]) ++ rest) res).
  { intros e b minp rest res NP _ Hst HL. cbn [app]. rewrite <- app_assoc. cbn [app].
    econstructor; [|exact HL]. eapply Pre_paren; [apply lp_prefix_none | | reflexivity |].
    - intros rec. unfold Climb.try_func. rewrite H_id_fail; [reflexivity|]. cbn. destruct HLP as (_ & -> & _). reflexivity.
    - apply PT_mk with (r := RP :: rest); [| apply skip_nonsp; tauto].
      rewrite starter_skip by apply Hst.
      apply NP; [apply rest_rp|]. apply L_stop. apply stop_none. apply stop_rp. }
  induction e as [n|k|n a IHa|o l IHl r IHr|u x IHx]; intros Hwf ctx minp rest res Hm Hok HL; cbn [wf] in Hwf.
  - (* identifier *)
    cbn [render needs_paren]. destruct (H_id_hd n Hwf) as (c & t & En & Hc).
    assert (Hid : id_parse (n ++ rest) = Some (n, rest)) by (apply H_id_ok; [exact Hwf | eapply rest_not_idch; eauto]).
    econstructor; [|exact HL]. rewrite En in *. cbn [app] in *.
    apply Pre_id; [apply idstart_prefix_none, Hc | | | | exact Hid].
    + intros rec. unfold Climb.try_func. rewrite Hid. pose proof (rest_not_lp _ _ Hok) as Hl.
      destruct (skip_sp rest) as [|d r']; [reflexivity|]. rewrite Hl. reflexivity.
    + intros rec. unfold Climb.try_paren. destruct (Ascii.eqb_spec c LP) as [->|]; [|reflexivity].
      destruct HLP as (_ & E & _). congruence.
    + apply H_num_fail. right. exact Hc.
  - (* number *)
    cbn [render needs_paren]. destruct (H_num_hd k Hwf) as (c & t & En & Hc).
    assert (Hn : num_parse (num_render k ++ rest) = Some (k, rest)) by (apply H_num_ok; [exact Hwf | eapply rest_not_idch; eauto]).
    econstructor; [|exact HL]. rewrite En in *. cbn [app] in *.
    assert (Hns : idstart c = false).
    { destruct (idstart c) eqn:E; [apply Hidstart in E; destruct E; congruence | reflexivity]. }
    apply Pre_num; [apply digit_prefix_none, Hc | | | exact Hn].
    + intros rec. unfold Climb.try_func. rewrite H_id_fail; [reflexivity|]. cbn. rewrite Hns. reflexivity.
    + intros rec. unfold Climb.try_paren. destruct (Ascii.eqb_spec c LP) as [->|]; [|reflexivity].
      destruct HLP as (_ & _ & E & _). congruence.
  - (* function call *)
    destruct Hwf as [Hn Ha]. cbn [render needs_paren]. rewrite <- app_assoc. cbn [app]. rewrite <- app_assoc. cbn [app].
    destruct (H_id_hd n Hn) as (c & t & En & Hc).
    econstructor; [|exact HL].
    change (EF n a, rest) with (EF n (fst (a, rest)), snd (a, rest)).
    eapply Pre_func with (r := LP :: render 0 a ++ RP :: rest).
    + rewrite En. cbn [app]. apply idstart_prefix_none, Hc.
    + apply H_id_ok; [exact Hn|]. cbn. destruct HLP as [-> _]. reflexivity.
    + apply skip_nonsp. tauto.
    + apply PT_mk with (r := RP :: rest); [| apply skip_nonsp; tauto].
      rewrite starter_skip by (apply render_starter, Ha).
      apply IHa; [exact Ha | lia | apply rest_rp |]. apply L_stop, stop_none. apply stop_rp.
  - (* binary *)
    destruct Hwf as [Hl Hr].
    assert (NP : forall ctx' minp' rest' res', minp' <= ctx' -> ctx' <= lb o -> rest_ok ctx' rest' ->
               LoopR minp' (EB o l r) rest' res' ->
               Parses minp' ((render (lb o) l ++ tb o ++ render (S (lb o)) r) ++ rest') res').
    { intros ctx' minp' rest' res' Hm' Hge Hok' HL'. rewrite <- !app_assoc.
      assert (Hst : hd_is starter (render (S (lb o)) r ++ rest')) by (apply render_starter, Hr).
      apply IHl; [exact Hl | lia | right; right; left; exists [], o, (render (S (lb o)) r ++ rest'); repeat split; auto; unfold after_op; rewrite starter_skip by exact Hst; exact Hst |].
      eapply L_step; [|exact HL'].
      destruct (tb_hd o (render (S (lb o)) r ++ rest')) as (c & t & E & Hc).
      rewrite E, skip_nonsp by (apply Hsym in Hc; tauto). rewrite <- E.
      destruct (HIpos o) as (pre & post & Etab & Hpre). rewrite Etab.
      assert (Hao : after_op (render (S (lb o)) r ++ rest')) by (unfold after_op; rewrite starter_skip by exact Hst; exact Hst).
      apply tryI_pre; [intros l0 t0 o0 Hin; eapply Hpre; [exact Hin | exact Hao]|].
      eapply TI_hit; [lia | apply strip_app |]. rewrite starter_skip by exact Hst.
      assert (Hok2 : rest_ok (S (lb o)) rest').
      { eapply rest_up; [exact Hok' | lia]. }
      apply IHr; [exact Hr | lia | exact Hok2 |]. apply L_stop, stop_none.
      eapply rest_stop; [exact Hok' | lia]. }
    cbn [render needs_paren]. destruct (np ctx (EB o l r)) eqn:Enp.
    + eapply PAREN; [| apply render_starter, Hl | | exact HL].
      * intros rest' res' Hok' HL'. apply (NP 0 0); auto; lia.
      * intros rest'. rewrite <- app_assoc. apply render_starter, Hl.
    + apply (NP ctx minp); auto.
      destruct (Nat.ltb_spec (lb o) ctx) as [Hlt|Hge]; [|exact Hge].
      assert (must_paren ctx (EB o l r) = true) by (cbn; apply Nat.ltb_lt; exact Hlt).
      rewrite np_sound in Enp by assumption. discriminate.
  - (* unary *)
    assert (NP : forall ctx' minp' rest' res', ctx' <= lu u -> rest_ok ctx' rest' ->
               LoopR minp' (EU u x) rest' res' -> Parses minp' ((tu u ++ render (S (lu u)) x) ++ rest') res').
    { intros ctx' minp' rest' res' Hge Hok' HL'. rewrite <- app_assoc.
      econstructor; [|exact HL']. apply Pre_un.
      destruct (HPpos u) as (pre & post & Etab & Hpre). rewrite Etab.
      apply tryP_pre; [intros l0 t0 u0 Hin; eapply Hpre; eauto|].
      eapply TP_hit; [apply strip_app|].
      assert (Hok2 : rest_ok (S (lu u)) rest').
      { eapply rest_up; [exact Hok' | lia]. }
      apply IHx; [exact Hwf | lia | exact Hok2 |]. apply L_stop, stop_none.
      eapply rest_stop; [exact Hok' | lia]. }
    cbn [render needs_paren]. destruct (np ctx (EU u x)) eqn:Enp.
    + eapply PAREN; [| | | exact HL].
      * intros rest' res' Hok' HL'. apply (NP 0); auto; lia.
      * destruct (HPsym _ _ _ (in_ptab u)) as (c & t & E & H). rewrite E. eexists c, _. split; [reflexivity|].
        unfold starter. replace (pfirst c) with true; [rewrite !orb_true_r; reflexivity|]. symmetry.
        unfold pfirst. apply existsb_exists. exists (lu u, tu u, u). split; [apply in_ptab|]. cbn. rewrite E. apply Ascii.eqb_refl.
      * intros rest'. rewrite <- app_assoc.
        destruct (HPsym _ _ _ (in_ptab u)) as (c & t & E & H). rewrite E. eexists c, _. split; [reflexivity|].
        unfold starter. replace (pfirst c) with true; [rewrite !orb_true_r; reflexivity|]. symmetry.
        unfold pfirst. apply existsb_exists. exists (lu u, tu u, u). split; [apply in_ptab|]. cbn. rewrite E. apply Ascii.eqb_refl.
    + apply (NP ctx minp); auto.
      destruct (Nat.ltb_spec (lu u) ctx) as [Hlt|Hge]; [|exact Hge].
      assert (must_paren ctx (EU u x) = true) by (cbn; apply Nat.ltb_lt; exact Hlt).
      rewrite np_sound in Enp by assumption. discriminate.
Qed.

Corollary roundtrip e : wf e -> exists n, forall f, n <= f -> climb f 0 (render 0 e) = Some (e, []).
Proof.
  intros Hwf. destruct complete as [C _]. apply C. rewrite <- (app_nil_r (render 0 e)).
  apply render_parses; [exact Hwf | lia | left; reflexivity |]. apply L_stop, stop_none. left; reflexivity.
Qed.

(* ---------------- the fuel of the model suffices: length of the text + 2 ---------------- *)
Hypothesis H_id_len : forall s n r, id_parse s = Some (n, r) -> length r < length s.
Hypothesis H_num_len : forall s k r, num_parse s = Some (k, r) -> length r < length s.

Lemma strip_len tok : forall s r, strip tok s = Some r -> length s = length tok + length r.
Proof.
  induction tok as [|c tk IH]; intros s r H; cbn in H; [injection H as <-; reflexivity|].
  destruct s as [|d s']; [discriminate|]. destruct (Ascii.eqb c d); [|discriminate]. apply IH in H. cbn. lia.
Qed.
Lemma skip_len s : length (skip_sp s) <= length s.
Proof. induction s as [|c r IH]; cbn; [lia|]. destruct (is_sp c); cbn; lia. Qed.
Lemma tok_nonempty t : hd_is symc t -> 1 <= length t.
Proof. intros (c & r & -> & _). cbn. lia. Qed.

Definition shrinking (rec : nat -> text -> pres) : Prop := forall m s e r, rec m s = Some (e, r) -> length r < length s.

Lemma paren_tail_len rec s e r : shrinking rec -> paren_tail rec s = Some (e, r) -> length r < length s.
Proof.
  intros Hr H. unfold Climb.paren_tail in H. destruct (rec 0 (skip_sp s)) as [[e1 r1]|] eqn:E; [|discriminate].
  apply Hr in E. pose proof (skip_len s). destruct (skip_sp r1) as [|c r2] eqn:E2; [discriminate|].
  destruct (Ascii.eqb c RP); [|discriminate]. injection H as _ <-. pose proof (skip_len r1). rewrite E2 in *. cbn in *. lia.
Qed.

Lemma try_prefix_len rec : shrinking rec -> forall tbl, (forall l t u, In (l,t,u) tbl -> hd_is symc t) ->
  forall s e r, try_prefix rec tbl s = Some (e, r) -> length r < length s.
Proof.
  intros Hr. induction tbl as [|[[l t] u] tl IH]; intros Hall s e r H; cbn [Climb.try_prefix] in H; [discriminate|].
  assert (IH' : forall e r, try_prefix rec tl s = Some (e, r) -> length r < length s)
    by (intros; eapply IH; [intros; eapply Hall; right; eauto | eauto]).
  destruct (strip t s) as [r1|] eqn:Es; [|eapply IH'; eauto].
  destruct (rec (S l) r1) as [[e1 r2]|] eqn:E; [|eapply IH'; eauto].
  injection H as _ <-. apply Hr in E. apply strip_len in Es. lia.
Qed.

Lemma prefix_atom_len rec s e r : shrinking rec -> prefix_atom rec s = Some (e, r) -> length r < length s.
Proof.
  intros Hr H. unfold Climb.prefix_atom in H.
  destruct (try_prefix rec ptab s) as [[e1 r1]|] eqn:E1.
  { injection H as _ <-. eapply try_prefix_len; eauto. }
  destruct (try_func rec s) as [[e1 r1]|] eqn:E2.
  { injection H as _ <-. unfold Climb.try_func in E2. destruct (id_parse s) as [[n r0]|] eqn:Ei; [|discriminate].
    apply H_id_len in Ei. destruct (skip_sp r0) as [|c r2] eqn:Es; [discriminate|]. destruct (Ascii.eqb c LP); [|discriminate].
    destruct (paren_tail rec r2) as [[a r3]|] eqn:Ep; [|discriminate]. injection E2 as _ <-.
    apply paren_tail_len in Ep; [|exact Hr]. pose proof (skip_len r0). rewrite Es in *. cbn in *. lia. }
  destruct (try_paren rec s) as [[e1 r1]|] eqn:E3.
  { injection H as _ <-. unfold Climb.try_paren in E3. destruct s as [|c r0]; [discriminate|]. destruct (Ascii.eqb c LP); [|discriminate].
    apply paren_tail_len in E3; [|exact Hr]. cbn. lia. }
  destruct (num_parse s) as [[k r1]|] eqn:E4.
  { injection H as _ <-. eapply H_num_len; eauto. }
  destruct (id_parse s) as [[n r1]|] eqn:E5; [|discriminate]. injection H as _ <-. eapply H_id_len; eauto.
Qed.

Lemma try_infix_len rec minp : shrinking rec -> forall tbl, (forall l t o, In (l,t,o) tbl -> hd_is symc t) ->
  forall s o e r, try_infix rec minp tbl s = Some (o, e, r) -> length r < length s.
Proof.
  intros Hr. induction tbl as [|[[l t] o'] tl IH]; intros Hall s o e r H; cbn [Climb.try_infix] in H; [discriminate|].
  assert (IH' : forall o e r, try_infix rec minp tl s = Some (o, e, r) -> length r < length s)
    by (intros; eapply IH; [intros; eapply Hall; right; eauto | eauto]).
  destruct (minp <=? l); [|eapply IH'; eauto].
  destruct (strip t s) as [r1|] eqn:Es; [|eapply IH'; eauto].
  destruct (rec (S l) (skip_sp r1)) as [[e1 r2]|] eqn:E; [|eapply IH'; eauto].
  injection H as _ _ <-. apply Hr in E. apply strip_len in Es. pose proof (skip_len r1). lia.
Qed.

Lemma loop_len rec minp : shrinking rec -> forall g acc s e r, loop rec g minp acc s = Some (e, r) -> length r <= length s.
Proof.
  intros Hr. induction g as [|g IH]; intros acc s e r H; cbn [Climb.loop] in H; [discriminate|].
  destruct (try_infix rec minp itab (skip_sp s)) as [[[o e1] r1]|] eqn:E.
  - apply try_infix_len in E; [|exact Hr|exact HIsym]. apply IH in H. pose proof (skip_len s). lia.
  - injection H as _ <-. lia.
Qed.

Lemma climb_shrinking f : shrinking (climb f).
Proof.
  induction f as [|f IH]; intros m s e r H; [discriminate|]. cbn [Climb.climb] in H.
  destruct (prefix_atom (climb f) s) as [[e0 r0]|] eqn:E; [|discriminate].
  apply prefix_atom_len in E; [|exact IH]. apply loop_len in H; [|exact IH]. lia.
Qed.

(* extensionality on shorter texts *)
Definition agree (L : nat) (rec1 rec2 : nat -> text -> pres) : Prop := forall m s, length s < L -> rec1 m s = rec2 m s.

Lemma paren_tail_ext rec1 rec2 s : agree (S (length s)) rec1 rec2 -> paren_tail rec1 s = paren_tail rec2 s.
Proof. intros H. unfold Climb.paren_tail. rewrite (H 0 (skip_sp s)); [reflexivity|]. pose proof (skip_len s). lia. Qed.

Lemma try_prefix_ext rec1 rec2 s : agree (length s) rec1 rec2 -> forall tbl, (forall l t u, In (l,t,u) tbl -> hd_is symc t) ->
  try_prefix rec1 tbl s = try_prefix rec2 tbl s.
Proof.
  intros H. induction tbl as [|[[l t] u] tl IH]; intros Hall; cbn [Climb.try_prefix]; [reflexivity|].
  rewrite IH by (intros; eapply Hall; right; eauto).
  destruct (strip t s) as [r1|] eqn:Es; [|reflexivity].
  rewrite (H (S l) r1); [reflexivity|]. apply strip_len in Es. pose proof (tok_nonempty t (Hall _ _ _ (or_introl eq_refl))). lia.
Qed.

Lemma prefix_atom_ext rec1 rec2 s : agree (length s) rec1 rec2 -> prefix_atom rec1 s = prefix_atom rec2 s.
Proof.
  intros H. unfold Climb.prefix_atom. rewrite (try_prefix_ext rec1 rec2 s H ptab HPsym).
  assert (Ef : try_func rec1 s = try_func rec2 s).
  { unfold Climb.try_func. destruct (id_parse s) as [[n r0]|] eqn:Ei; [|reflexivity]. apply H_id_len in Ei.
    destruct (skip_sp r0) as [|c r2] eqn:Es; [reflexivity|]. destruct (Ascii.eqb c LP); [|reflexivity].
    rewrite (paren_tail_ext rec1 rec2 r2); [reflexivity|]. intros m x Hx. apply H. pose proof (skip_len r0). rewrite Es in *. cbn in *. lia. }
  assert (Ep : try_paren rec1 s = try_paren rec2 s).
  { unfold Climb.try_paren. destruct s as [|c r0]; [reflexivity|]. destruct (Ascii.eqb c LP); [|reflexivity].
    apply paren_tail_ext. intros m x Hx. apply H. cbn in *. lia. }
  rewrite Ef, Ep. reflexivity.
Qed.

Lemma try_infix_ext rec1 rec2 minp s : agree (length s) rec1 rec2 -> forall tbl, (forall l t o, In (l,t,o) tbl -> hd_is symc t) ->
  try_infix rec1 minp tbl s = try_infix rec2 minp tbl s.
Proof.
  intros H. induction tbl as [|[[l t] o] tl IH]; intros Hall; cbn [Climb.try_infix]; [reflexivity|].
  rewrite IH by (intros; eapply Hall; right; eauto).
  destruct (minp <=? l); [|reflexivity]. destruct (strip t s) as [r1|] eqn:Es; [|reflexivity].
  rewrite (H (S l) (skip_sp r1)); [reflexivity|]. apply strip_len in Es. pose proof (skip_len r1).
  pose proof (tok_nonempty t (Hall _ _ _ (or_introl eq_refl))). lia.
Qed.

Lemma loop_ext rec1 rec2 minp L : agree L rec1 rec2 -> shrinking rec1 ->
  forall g acc s, length s <= L -> length s < g -> loop rec1 g minp acc s = loop rec2 (S g) minp acc s.
Proof.
  intros H Hr. induction g as [|g IH]; intros acc s HL Hg; [lia|].
  change (loop rec2 (S (S g)) minp acc s) with
    (match try_infix rec2 minp itab (skip_sp s) with Some (o, e, r') => loop rec2 (S g) minp (EB o acc e) r' | None => Some (acc, s) end).
  cbn [Climb.loop].
  rewrite <- (try_infix_ext rec1 rec2 minp (skip_sp s)) by (first [exact HIsym | intros m x Hx; apply H; pose proof (skip_len s); lia]).
  destruct (try_infix rec1 minp itab (skip_sp s)) as [[[o e1] r1]|] eqn:E; [|reflexivity].
  apply try_infix_len in E; [|exact Hr|exact HIsym]. pose proof (skip_len s). apply IH; lia.
Qed.

Lemma climb_S f m s : climb (S f) m s =
  match prefix_atom (climb f) s with None => None | Some (e0, r0) => loop (climb f) f m e0 r0 end.
Proof. reflexivity. Qed.

Theorem climb_stable : forall f m s, length s < f -> climb f m s = climb (S f) m s.
Proof.
  induction f as [|f IH]; intros m s Hl; [lia|].
  rewrite (climb_S (S f) m s), (climb_S f m s).
  assert (Ha : agree (length s) (climb f) (climb (S f))) by (intros m' x Hx; apply IH; lia).
  rewrite <- (prefix_atom_ext _ _ s Ha).
  destruct (prefix_atom (climb f) s) as [[e0 r0]|] eqn:E; [|reflexivity].
  apply prefix_atom_len in E; [|apply climb_shrinking].
  apply (loop_ext (climb f) (climb (S f)) m (length s)); [exact Ha | apply climb_shrinking | lia | lia].
Qed.

Corollary climb_enough f m s : length s < f -> forall k, climb (k + f) m s = climb f m s.
Proof. intros H. induction k as [|k IH]; [reflexivity|]. cbn [plus]. rewrite <- climb_stable by lia. exact IH. Qed.

(** the round trip with the fuel the model uses *)
Corollary roundtrip_fuel e : wf e -> climb (S (S (length (render 0 e)))) 0 (render 0 e) = Some (e, []).
Proof.
  intros Hwf. destruct (roundtrip e Hwf) as (n & Hn).
  rewrite <- (climb_enough (S (S (length (render 0 e)))) 0 (render 0 e) ltac:(lia) n).
  apply Hn. lia.
Qed.

(** ... and in context: the printed text followed by neutral text is read back and the text left over *)
Corollary roundtrip_ctx_fuel e rest : wf e -> neutral rest ->
  climb (S (S (length (render 0 e ++ rest)))) 0 (render 0 e ++ rest) = Some (e, rest).
Proof.
  intros Hwf Hn. destruct complete as [C _].
  assert (HP : Parses 0 (render 0 e ++ rest) (e, rest)).
  { apply render_parses; [exact Hwf | lia | right; right; right; exact Hn |]. apply L_stop, stop_none. right; right; right; exact Hn. }
  destruct (C _ _ _ HP) as (n & Hnf).
  rewrite <- (climb_enough (S (S (length (render 0 e ++ rest)))) 0 (render 0 e ++ rest) ltac:(lia) n).
  apply Hnf. lia.
Qed.

(* ---------------- surface variation: blanks at every site where the grammar skips them, and any
   number of redundant parentheses ---------------- *)
Inductive dexpr :=
| DId (n : text) | DNum (k : N)
| DF (n : text) (s0 s1 : text) (a : dexpr) (s2 : text)      (* n s0 ( s1 a s2 ) *)
| DB (o : binop) (l : dexpr) (s1 s2 : text) (r : dexpr)     (* l s1 op s2 r *)
| DU (u : unop) (x : dexpr)                                  (* op x : no blank after a prefix operator *)
| DP (s1 : text) (x : dexpr) (s2 : text).                    (* ( s1 x s2 ) *)
Fixpoint erase (d : dexpr) : expr :=
  match d with
  | DId n => EId n | DNum k => ENum k | DF n _ _ a _ => EF n (erase a)
  | DB o l _ _ r => EB o (erase l) (erase r) | DU u x => EU u (erase x) | DP _ x _ => erase x
  end.
Fixpoint drender (d : dexpr) : text :=
  match d with
  | DId n => n
  | DNum k => num_render k
  | DF n s0 s1 a s2 => n ++ s0 ++ LP :: s1 ++ drender a ++ s2 ++ [RP]
  | DB o l s1 s2 r => drender l ++ s1 ++ tb o ++ s2 ++ drender r
  | DU u x => tu u ++ drender x
  | DP s1 x s2 => LP :: s1 ++ drender x ++ s2 ++ [RP]
  end.
(* well-formed in a position of level ctx: blanks are blanks, and an operator that binds more loosely than
   its position allows stands inside parentheses *)
Fixpoint dwf (ctx : nat) (d : dexpr) : Prop :=
  match d with
  | DId n => wf_id n
  | DNum k => wf_num k
  | DF n s0 s1 a s2 => wf_id n /\ blanks s0 /\ blanks s1 /\ blanks s2 /\ dwf 0 a
  | DB o l s1 s2 r => ctx <= lb o /\ blanks s1 /\ blanks s2 /\ dwf (lb o) l /\ dwf (S (lb o)) r
  | DU u x => ctx <= lu u /\ dwf (S (lu u)) x
  | DP s1 x s2 => blanks s1 /\ blanks s2 /\ dwf 0 x
  end.

Lemma tu_starter u r : hd_is starter (tu u ++ r).
Proof.
  destruct (HPsym _ _ _ (in_ptab u)) as (c & t & E & H). rewrite E. eexists c, _. split; [reflexivity|].
  unfold starter. replace (pfirst c) with true; [rewrite !orb_true_r; reflexivity|]. symmetry.
  unfold pfirst. apply existsb_exists. exists (lu u, tu u, u). split; [apply in_ptab|]. cbn. rewrite E. apply Ascii.eqb_refl.
Qed.
Lemma lp_starter r : hd_is starter (LP :: r).
Proof. eexists LP, _. split; [reflexivity|]. unfold starter. rewrite Ascii.eqb_refl, !orb_true_r. reflexivity. Qed.

Lemma drender_starter d : forall ctx, dwf ctx d -> forall rest, hd_is starter (drender d ++ rest).
Proof.
  induction d as [n|k|n s0 s1 a IHa s2|o l IHl s1 s2 r IHr|u x IHx|s1 x IHx s2]; intros ctx Hwf rest; cbn [dwf drender] in *.
  - destruct (H_id_hd n Hwf) as (c & t & -> & H). exists c, (t ++ rest). split; [reflexivity|]. unfold starter. rewrite H. reflexivity.
  - destruct (H_num_hd k Hwf) as (c & t & -> & H). exists c, (t ++ rest). split; [reflexivity|]. unfold starter. rewrite H, orb_true_r. reflexivity.
  - destruct Hwf as (Hn & _). destruct (H_id_hd n Hn) as (c & t & -> & H). eexists c, _. split; [reflexivity|]. unfold starter. rewrite H. reflexivity.
  - destruct Hwf as (_ & _ & _ & Hl & _). rewrite <- app_assoc. eapply IHl. exact Hl.
  - rewrite <- app_assoc. apply tu_starter.
  - apply lp_starter.
Qed.

Lemma blanks_rp_rest sp r ctx : blanks sp -> rest_ok ctx (sp ++ RP :: r).
Proof. intros H. right; left. exists sp, r. auto. Qed.
Lemma blanks_rp_stop sp r m : blanks sp -> stop_ok m (sp ++ RP :: r).
Proof. intros H. right; left. exists sp, r. auto. Qed.

Theorem drender_parses : forall d ctx minp rest res,
  dwf ctx d -> minp <= ctx -> rest_ok ctx rest -> LoopR minp (erase d) rest res -> Parses minp (drender d ++ rest) res.
Proof.
  (* a parenthesised group "( s1 body s2 )" whose body parses at level 0 *)
  assert (GROUP : forall e body s1 s2 minp rest res, blanks s1 -> blanks s2 ->
      (forall rest' res', rest_ok 0 rest' -> LoopR 0 e rest' res' -> Parses 0 (body ++ rest') res') ->
      (forall rest', hd_is starter (body ++ rest')) ->
      LoopR minp e rest res -> Parses minp ((LP :: s1 ++ body ++ s2 ++ [RP]) ++ rest) res).
  { intros e body s1 s2 minp rest res B1 B2 NP Hst HL.
    replace ((LP :: s1 ++ body ++ s2 ++ [RP]) ++ rest) with (LP :: s1 ++ body ++ s2 ++ RP :: rest)
      by (cbn [app]; rewrite <- !app_assoc; reflexivity).
    econstructor; [|exact HL]. eapply Pre_paren; [apply lp_prefix_none | | reflexivity |].
    - intros rec. unfold Climb.try_func. rewrite H_id_fail; [reflexivity|]. cbn. destruct HLP as (_ & -> & _). reflexivity.
    - apply PT_mk with (r := s2 ++ RP :: rest); [| rewrite skip_blanks by exact B2; apply skip_nonsp; tauto].
      rewrite skip_blanks by exact B1. rewrite starter_skip by apply Hst.
      apply NP; [apply blanks_rp_rest; exact B2|]. apply L_stop. apply stop_none. apply blanks_rp_stop; exact B2. }
  induction d as [n|k|n s0 s1 a IHa s2|o l IHl s1 s2 r IHr|u x IHx|s1 x IHx s2]; intros ctx minp rest res Hwf Hm Hok HL;
    cbn [dwf drender erase] in *.
  - (* identifier *)
    destruct (H_id_hd n Hwf) as (c & t & En & Hc).
    assert (Hid : id_parse (n ++ rest) = Some (n, rest)) by (apply H_id_ok; [exact Hwf | eapply rest_not_idch; eauto]).
    econstructor; [|exact HL]. rewrite En in *. cbn [app] in *.
    apply Pre_id; [apply idstart_prefix_none, Hc | | | | exact Hid].
    + intros rec. unfold Climb.try_func. rewrite Hid. pose proof (rest_not_lp _ _ Hok) as Hl.
      destruct (skip_sp rest) as [|d r']; [reflexivity|]. rewrite Hl. reflexivity.
    + intros rec. unfold Climb.try_paren. destruct (Ascii.eqb_spec c LP) as [->|]; [|reflexivity].
      destruct HLP as (_ & E & _). congruence.
    + apply H_num_fail. right. exact Hc.
  - (* number *)
    destruct (H_num_hd k Hwf) as (c & t & En & Hc).
    assert (Hn : num_parse (num_render k ++ rest) = Some (k, rest)) by (apply H_num_ok; [exact Hwf | eapply rest_not_idch; eauto]).
    econstructor; [|exact HL]. rewrite En in *. cbn [app] in *.
    assert (Hns : idstart c = false).
    { destruct (idstart c) eqn:E; [apply Hidstart in E; destruct E; congruence | reflexivity]. }
    apply Pre_num; [apply digit_prefix_none, Hc | | | exact Hn].
    + intros rec. unfold Climb.try_func. rewrite H_id_fail; [reflexivity|]. cbn. rewrite Hns. reflexivity.
    + intros rec. unfold Climb.try_paren. destruct (Ascii.eqb_spec c LP) as [->|]; [|reflexivity].
      destruct HLP as (_ & _ & E & _). congruence.
  - (* function call with blanks *)
    destruct Hwf as (Hn & B0 & B1 & B2 & Ha).
    replace ((n ++ s0 ++ LP :: s1 ++ drender a ++ s2 ++ [RP]) ++ rest) with (n ++ (s0 ++ LP :: s1 ++ drender a ++ s2 ++ RP :: rest))
      by (rewrite <- !app_assoc; cbn [app]; rewrite <- !app_assoc; reflexivity).
    destruct (H_id_hd n Hn) as (c & t & En & Hc).
    econstructor; [|exact HL].
    change (EF n (erase a), rest) with (EF n (fst (erase a, rest)), snd (erase a, rest)).
    eapply Pre_func with (r := s0 ++ LP :: s1 ++ drender a ++ s2 ++ RP :: rest).
    + rewrite En. cbn [app]. apply idstart_prefix_none, Hc.
    + apply H_id_ok; [exact Hn|]. apply blanks_hd_not_idch; [exact B0|]. cbn. destruct HLP as [-> _]. reflexivity.
    + rewrite skip_blanks by exact B0. apply skip_nonsp. tauto.
    + apply PT_mk with (r := s2 ++ RP :: rest); [| rewrite skip_blanks by exact B2; apply skip_nonsp; tauto].
      rewrite skip_blanks by exact B1. rewrite starter_skip by (eapply drender_starter; exact Ha).
      apply IHa with (ctx := 0); [exact Ha | lia | apply blanks_rp_rest; exact B2 |]. apply L_stop, stop_none. apply blanks_rp_stop; exact B2.
  - (* binary with blanks around the operator *)
    destruct Hwf as (Hge & B1 & B2 & Hl & Hr).
    replace ((drender l ++ s1 ++ tb o ++ s2 ++ drender r) ++ rest) with (drender l ++ (s1 ++ tb o ++ (s2 ++ drender r ++ rest)))
      by (rewrite <- !app_assoc; reflexivity).
    assert (Hst : hd_is starter (drender r ++ rest)) by (eapply drender_starter; exact Hr).
    assert (Hao : after_op (s2 ++ drender r ++ rest)).
    { unfold after_op. rewrite skip_blanks by exact B2. rewrite starter_skip by exact Hst. exact Hst. }
    apply IHl with (ctx := lb o); [exact Hl | lia | right; right; left; exists s1, o, (s2 ++ drender r ++ rest); repeat split; auto |].
    eapply L_step; [|exact HL].
    rewrite skip_blanks by exact B1.
    destruct (tb_hd o (s2 ++ drender r ++ rest)) as (c & t & E & Hc).
    rewrite E, skip_nonsp by (apply Hsym in Hc; tauto). rewrite <- E.
    destruct (HIpos o) as (pre & post & Etab & Hpre). rewrite Etab.
    apply tryI_pre; [intros l0 t0 o0 Hin; eapply Hpre; [exact Hin | exact Hao]|].
    eapply TI_hit; [lia | apply strip_app |]. rewrite skip_blanks by exact B2. rewrite starter_skip by exact Hst.
    apply IHr with (ctx := S (lb o)); [exact Hr | lia | eapply rest_up; [exact Hok | lia] |]. apply L_stop, stop_none.
    eapply rest_stop; [exact Hok | lia].
  - (* unary *)
    destruct Hwf as (Hge & Hx). rewrite <- app_assoc.
    econstructor; [|exact HL]. apply Pre_un.
    destruct (HPpos u) as (pre & post & Etab & Hpre). rewrite Etab.
    apply tryP_pre; [intros l0 t0 u0 Hin; eapply Hpre; eauto|].
    eapply TP_hit; [apply strip_app|].
    apply IHx with (ctx := S (lu u)); [exact Hx | lia | eapply rest_up; [exact Hok | lia] |]. apply L_stop, stop_none.
    eapply rest_stop; [exact Hok | lia].
  - (* redundant or required parentheses *)
    destruct Hwf as (B1 & B2 & Hx).
    eapply GROUP; [exact B1 | exact B2 | | | exact HL].
    + intros rest' res' Hok' HL'. apply IHx with (ctx := 0); [exact Hx | lia | exact Hok' | exact HL'].
    + intros rest'. eapply drender_starter. exact Hx.
Qed.

(** with the fuel the model uses, alone and in a neutral context *)
Corollary droundtrip_ctx_fuel d rest : dwf 0 d -> neutral rest ->
  climb (S (S (length (drender d ++ rest)))) 0 (drender d ++ rest) = Some (erase d, rest).
Proof.
  intros Hwf Hn. destruct complete as [C _].
  assert (HP : Parses 0 (drender d ++ rest) (erase d, rest)).
  { apply drender_parses with (ctx := 0); [exact Hwf | lia | right; right; right; exact Hn |]. apply L_stop, stop_none. right; right; right; exact Hn. }
  destruct (C _ _ _ HP) as (n & Hnf).
  rewrite <- (climb_enough (S (S (length (drender d ++ rest)))) 0 (drender d ++ rest) ltac:(lia) n).
  apply Hnf. lia.
Qed.
Corollary droundtrip_fuel d : dwf 0 d -> climb (S (S (length (drender d)))) 0 (drender d) = Some (erase d, []).
Proof.
  intros Hwf. destruct complete as [C _].
  assert (HP : Parses 0 (drender d ++ []) (erase d, [])).
  { apply drender_parses with (ctx := 0); [exact Hwf | lia | left; reflexivity |]. apply L_stop, stop_none. left; reflexivity. }
  rewrite app_nil_r in HP. destruct (C _ _ _ HP) as (n & Hnf).
  rewrite <- (climb_enough (S (S (length (drender d)))) 0 (drender d) ltac:(lia) n).
  apply Hnf. lia.
Qed.
End ClimbProofs.
Arguments DId {binop unop}.
Arguments DNum {binop unop}.
Arguments DF {binop unop}.
Arguments DB {binop unop}.
Arguments DU {binop unop}.
Arguments DP {binop unop}.
