(* Driver of the extracted model (avmodel.ml): one sub-command per interface.
   hex <dir> <n>: for each case i in [dir] compare the extracted model's file with the
   implementation's file and evaluate the specification oracle on the implementation's file.
   Output: one line per case  "<i> <corr:ok|MISMATCH|noimpl> <spec:ok|FAIL|noimpl> <len>" *)
open Avmodel

let rec pos_of_int n = if n = 1 then XH else if n land 1 = 1 then XI (pos_of_int (n lsr 1)) else XO (pos_of_int (n lsr 1))
let n_of_int n = if n = 0 then N0 else Npos (pos_of_int n)
let rec int_of_pos = function XH -> 1 | XO p -> 2 * int_of_pos p | XI p -> 2 * int_of_pos p + 1
let int_of_n = function N0 -> 0 | Npos p -> int_of_pos p

let read_file path =
  let ic = open_in_bin path in
  let n = in_channel_length ic in
  let s = really_input_string ic n in
  close_in ic; s

let list_of_string s =
  let r = ref [] in
  for i = String.length s - 1 downto 0 do r := n_of_int (Char.code s.[i]) :: !r done; !r

let rec eq_list a b = match a, b with
  | [], [] -> true
  | x :: a', y :: b' -> int_of_n x = int_of_n y && eq_list a' b'
  | _, _ -> false

let cmd_hex () =
  let dir = Sys.argv.(2) in
  let n = int_of_string Sys.argv.(3) in
  for i = 0 to n - 1 do
    let img = list_of_string (read_file (Filename.concat dir (string_of_int i ^ ".bin"))) in
    let hexp = Filename.concat dir (string_of_int i ^ ".hex") in
    if Sys.file_exists hexp then begin
      let file = list_of_string (read_file hexp) in
      let m = write img in
      let corr = if eq_list m file then "ok" else "MISMATCH" in
      let spec = if holds_C07 img file then "ok" else "FAIL" in
      Printf.printf "%d %s %s %d\n%!" i corr spec (List.length img)
    end else
      Printf.printf "%d noimpl noimpl %d\n%!" i (List.length img)
  done


let () =
  match Sys.argv.(1) with
  | "hex" -> cmd_hex ()
  | c -> prerr_endline ("unknown command " ^ c); exit 2
