(** The precedence-climbing expression parser exactly as the peg crate generates it for a
    [precedence!{}] block (peg-macros 0.8.4, translate.rs: __infix_parse), at character level,
    generic in the operator tables, the character classes and the identifier / number
    sub-parsers.  Definitions only; the round-trip theorem is in Proofs/ClimbProofs.v. *)
From Coq Require Import List Arith Bool Ascii NArith.
Import ListNotations.

Definition text := list ascii.

Definition hd_ok (P : ascii -> bool) (s : text) : bool :=
  match s with [] => true | c :: _ => P c end.

Fixpoint strip (tok s : text) : option text :=
  match tok with
  | [] => Some s
  | c :: tk => match s with d :: r => if Ascii.eqb c d then strip tk r else None | [] => None end
  end.

Section Climb.
Variable binop unop : Type.
Variable itab : list (nat * text * binop).
Variable ptab : list (nat * text * unop).
Variable is_sp : ascii -> bool.
Variable id_parse : text -> option (text * text).
Variable num_parse : text -> option (N * text).
Definition LP : ascii := "("%char.
Definition RP : ascii := ")"%char.

Inductive expr := EId (n:text) | ENum (k:N) | EF (n:text) (a:expr)
                | EB (o:binop) (l r:expr) | EU (u:unop) (x:expr).
Definition pres := option (expr * text).

Fixpoint skip_sp (s:text) : text :=
  match s with c :: r => if is_sp c then skip_sp r else s | [] => [] end.

(* ---------------- the parser (mirror of peg's generated code) ---------------- *)
Fixpoint try_prefix (rec : nat -> text -> pres) (tbl : list (nat*text*unop)) (s:text) : pres :=
  match tbl with
  | [] => None
  | (lvl, tok, u) :: tl =>
      match strip tok s with
      | Some r => match rec (S lvl) r with
                  | Some (e, r') => Some (EU u e, r')
                  | None => try_prefix rec tl s end
      | None => try_prefix rec tl s
      end
  end.

Definition paren_tail (rec : nat -> text -> pres) (s:text) : pres :=
  (* after "(" : space expr space ")" *)
  match rec 0 (skip_sp s) with
  | Some (e, r) => match skip_sp r with c :: r' => if Ascii.eqb c RP then Some (e, r') else None | [] => None end
  | None => None
  end.

Definition try_func (rec : nat -> text -> pres) (s:text) : pres :=
  match id_parse s with
  | Some (n, r) => match skip_sp r with
                   | c :: r1 => if Ascii.eqb c LP then
                                  match paren_tail rec r1 with Some (a, r2) => Some (EF n a, r2) | None => None end
                                else None
                   | [] => None end
  | None => None
  end.

Definition try_paren (rec : nat -> text -> pres) (s:text) : pres :=
  match s with c :: r => if Ascii.eqb c LP then paren_tail rec r else None | [] => None end.

Definition prefix_atom (rec : nat -> text -> pres) (s:text) : pres :=
  match try_prefix rec ptab s with Some x => Some x | None =>
  match try_func rec s with Some x => Some x | None =>
  match try_paren rec s with Some x => Some x | None =>
  match num_parse s with Some (k, r) => Some (ENum k, r) | None =>
  match id_parse s with Some (n, r) => Some (EId n, r) | None => None end end end end end.

Fixpoint try_infix (rec : nat -> text -> pres) (minp:nat) (tbl : list (nat*text*binop)) (s:text)
  : option (binop * expr * text) :=
  match tbl with
  | [] => None
  | (lvl, tok, o) :: tl =>
      if minp <=? lvl then
        match strip tok s with
        | Some r => match rec (S lvl) (skip_sp r) with
                    | Some (e, r') => Some (o, e, r')
                    | None => try_infix rec minp tl s end
        | None => try_infix rec minp tl s
        end
      else try_infix rec minp tl s
  end.

Fixpoint loop (rec : nat -> text -> pres) (g:nat) (minp:nat) (acc:expr) (s:text) : pres :=
  match g with O => None | S g' =>
    match try_infix rec minp itab (skip_sp s) with
    | Some (o, e, r') => loop rec g' minp (EB o acc e) r'
    | None => Some (acc, s)
    end
  end.

Fixpoint climb (f:nat) (minp:nat) (s:text) {struct f} : pres :=
  match f with O => None | S f' =>
    match prefix_atom (climb f') s with
    | None => None
    | Some (e0, r0) => loop (climb f') f' minp e0 r0
    end
  end.

End Climb.
Arguments EId {binop unop}.
Arguments ENum {binop unop}.
Arguments EF {binop unop}.
Arguments EB {binop unop}.
Arguments EU {binop unop}.
