(** C07: the writer model round-trips through the independent reader, for every image. *)
From Coq Require Import List NArith ZArith Lia Bool ZifyBool ZifyN.
Import ListNotations.
Require Import AvraV.Model.Base AvraV.Model.Hex AvraV.Spec.HexReader.
Open Scope N_scope.
Ltac Zify.zify_post_hook ::= Z.div_mod_to_equations.
Arguments N.add : simpl never. Arguments N.mul : simpl never. Arguments N.div : simpl never.
Arguments N.modulo : simpl never. Arguments N.sub : simpl never. Arguments N.ltb : simpl never.
Arguments N.eqb : simpl never. Arguments N.leb : simpl never.

Definition byte_ok (b : N) : Prop := b < 256.

Lemma sum_sumN l : sum l = sumN l.
Proof. induction l as [|x l IH]; cbn [sum sumN]; [reflexivity | rewrite IH; reflexivity]. Qed.

Lemma unhex_hexd n : n < 16 -> unhex (hexd n) = Some n.
Proof.
  intros H. unfold unhex, hexd.
  destruct (N.ltb_spec n 10).
  - replace ((48 <=? 48 + n) && (48 + n <=? 57)) with true by lia. f_equal. lia.
  - replace ((48 <=? 55 + n) && (55 + n <=? 57)) with false by lia.
    replace ((65 <=? 55 + n) && (55 + n <=? 70)) with true by lia. f_equal. lia.
Qed.

Lemma read_byte_hex2 b s : b < 256 -> read_byte (hex2 b ++ s) = Some (b, s).
Proof.
  intros H. unfold hex2. cbn [app read_byte].
  rewrite !unhex_hexd by lia. f_equal. f_equal. lia.
Qed.

Lemma read_bytes_map bs s : Forall byte_ok bs ->
  read_bytes (length bs) (concat (map hex2 bs) ++ s) = Some (bs, s).
Proof.
  induction 1 as [|b bs Hb _ IH]; [reflexivity|].
  cbn [length map concat read_bytes]. rewrite <- app_assoc.
  rewrite read_byte_hex2 by exact Hb. rewrite IH. reflexivity.
Qed.

Lemma cks_ok body : (sumN body + cks body) mod 256 = 0.
Proof. unfold cks. lia. Qed.
Lemma cks_lt body : cks body < 256.
Proof. unfold cks. lia. Qed.

Lemma parse_record_ok ty off data s :
  ty < 256 -> off < 65536 -> N.of_nat (length data) < 256 -> Forall byte_ok data ->
  parse_record (record ty off data ++ s) = Some (ty, off, data, 13 :: 10 :: s).
Proof.
  intros Hty Hoff Hlen Hdata. unfold record, body_of.
  cbn [app map concat]. rewrite <- !app_assoc. cbn [app].
  unfold parse_record.
  rewrite read_byte_hex2 by exact Hlen.
  rewrite read_byte_hex2 by lia.
  rewrite read_byte_hex2 by lia.
  rewrite read_byte_hex2 by exact Hty.
  rewrite map_app, concat_app, <- app_assoc.
  rewrite Nnat.Nat2N.id. rewrite read_bytes_map by exact Hdata.
  cbn [map concat app]. rewrite <- app_assoc.
  rewrite read_byte_hex2 by apply cks_lt. cbn [app].
  set (body := N.of_nat (length data) :: off / 256 :: off mod 256 :: ty :: data).
  replace (N.of_nat (length data) + off / 256 + off mod 256 + ty + sum data + cks body)
    with (sumN body + cks body).
  2:{ change (sumN body) with (N.of_nat (length data) + (off / 256 + (off mod 256 + (ty + sumN data)))).
      rewrite (sum_sumN data). lia. }
  rewrite cks_ok. change (0 =? 0) with true. cbv iota.
  replace (off / 256 * 256 + off mod 256) with off by lia. reflexivity.
Qed.

Lemma skip_eol_colon s : skip_eol (58 :: s) = 58 :: s.
Proof. reflexivity. Qed.
Lemma record_hd ty off data : exists t, record ty off data = 58 :: t.
Proof. unfold record. eexists. reflexivity. Qed.

Definition chunk_ok (c : list N) : Prop := (0 < length c <= 16)%nat /\ Forall byte_ok c.

Lemma addrs_app a x y : addrs a (x ++ y) = addrs a x ++ addrs (a + N.of_nat (length x)) y.
Proof.
  revert a. induction x as [|b x IH]; intros a; cbn [app addrs length].
  - f_equal. lia.
  - rewrite IH. cbn [app]. do 3 f_equal. lia.
Qed.

Inductive chunks_ok : list (list N) -> Prop :=
| co_nil : chunks_ok []
| co_last c : chunk_ok c -> chunks_ok [c]
| co_cons c c' tl : chunk_ok c -> length c = 16%nat -> chunks_ok (c' :: tl) -> chunks_ok (c :: c' :: tl).

Lemma read_S f base s : read (S f) base s = read_body (read f) base s.
Proof. reflexivity. Qed.

Lemma read_crlf f base s : read f base (13 :: 10 :: s) = read f base s.
Proof. destruct f; reflexivity. Qed.

Lemma read_mono f : forall base s r, read f base s = Some r -> read (S f) base s = Some r.
Proof.
  induction f as [|f IH]; intros base s r H; [discriminate|].
  rewrite read_S in H. rewrite read_S. unfold read_body in *.
  destruct (parse_record (skip_eol s)) as [[[[ty off] data] rest]|]; [|discriminate].
  destruct (ty =? 0).
  { destruct (read f base rest) as [l|] eqn:E; [|discriminate]. rewrite (IH _ _ _ E). exact H. }
  destruct (ty =? 1); [exact H|].
  destruct (ty =? 2); [destruct data as [|hi [|lo [|x y]]]; try exact H; apply IH; exact H|].
  destruct (ty =? 4); [destruct data as [|hi [|lo [|x y]]]; try exact H; apply IH; exact H|].
  exact H.
Qed.

Lemma read_mono_le f f' base s r : (f <= f')%nat -> read f base s = Some r -> read f' base s = Some r.
Proof. induction 1 as [|m _ IH]; [auto|]. intros H0. apply read_mono. auto. Qed.

(** the reader's base address agrees with the writer's position, except just before a block
    record is due *)
Definition Inv (a base : N) : Prop :=
  if (0 <? a) && (a mod 65536 =? 0) then True else base = 65536 * (a / 65536).

Lemma chunk_len c : chunk_ok c -> N.of_nat (length c) < 256.
Proof. intros [[_ H] _]. lia. Qed.

Lemma read_step a c rest base f r :
  chunk_ok c -> a mod 16 = 0 -> a + 16 <= 4294967296 -> Inv a base ->
  read f (65536 * (a / 65536)) rest = Some r ->
  read (S (S f)) base
    ((if (0 <? a) && (a mod 65536 =? 0) then record 4 0 [(a / 65536) / 256; (a / 65536) mod 256] else [])
       ++ record 0 (a mod 65536) c ++ rest) = Some (addrs a c ++ r).
Proof.
  intros Hc Ha Hb HI H. unfold Inv in HI.
  destruct ((0 <? a) && (a mod 65536 =? 0)) eqn:E.
  - destruct (record_hd 4 0 [a / 65536 / 256; (a / 65536) mod 256]) as [t Et].
    rewrite read_S. unfold read_body. rewrite Et at 1. cbn [app]. rewrite skip_eol_colon.
    change (58 :: t ++ ?x) with ((58 :: t) ++ x). rewrite <- Et.
    rewrite parse_record_ok; [| lia | lia | cbn; lia | repeat constructor; unfold byte_ok; lia].
    change (4 =? 0) with false. change (4 =? 1) with false. change (4 =? 2) with false.
    change (4 =? 4) with true. cbv iota.
    rewrite read_crlf.
    replace ((a / 65536 / 256 * 256 + (a / 65536) mod 256) * 65536) with (65536 * (a / 65536)) by lia.
    destruct (record_hd 0 (a mod 65536) c) as [t' Et'].
    rewrite read_S. unfold read_body. rewrite Et' at 1. cbn [app]. rewrite skip_eol_colon.
    change (58 :: t' ++ ?x) with ((58 :: t') ++ x). rewrite <- Et'.
    rewrite parse_record_ok; [| lia | lia | apply chunk_len, Hc | apply Hc].
    change (0 =? 0) with true. cbv iota.
    rewrite read_crlf. rewrite H.
    replace (65536 * (a / 65536) + a mod 65536) with a by lia. reflexivity.
  - subst base. cbn [app].
    apply read_mono.
    destruct (record_hd 0 (a mod 65536) c) as [t' Et'].
    rewrite read_S. unfold read_body. rewrite Et' at 1. cbn [app]. rewrite skip_eol_colon.
    change (58 :: t' ++ ?x) with ((58 :: t') ++ x). rewrite <- Et'.
    rewrite parse_record_ok; [| lia | lia | apply chunk_len, Hc | apply Hc].
    change (0 =? 0) with true. cbv iota.
    rewrite read_crlf. rewrite H.
    replace (65536 * (a / 65536) + a mod 65536) with a by lia. reflexivity.
Qed.

Lemma data_records_cons a c tl : data_records a (c :: tl) =
  (if (0 <? a) && (a mod 65536 =? 0) then record 4 0 [(a / 65536) / 256; (a / 65536) mod 256] else [])
  ++ record 0 (a mod 65536) c ++ data_records (a + 16) tl.
Proof. reflexivity. Qed.

Lemma read_data cs : chunks_ok cs -> forall a base f r tail,
  a mod 16 = 0 -> a + 16 * N.of_nat (length cs) <= 4294967296 -> Inv a base ->
  (forall b, read f b tail = Some r) ->
  read (f + 2 * length cs) base (data_records a cs ++ tail) = Some (addrs a (concat cs) ++ r).
Proof.
  induction 1 as [|c Hc|c c' tl Hc Hlen _ IH]; intros a base f r tail Ha Hb HI Ht.
  - cbn [data_records length concat app addrs] in *. rewrite Nat.add_0_r. apply Ht.
  - cbn [data_records length concat] in *. rewrite !app_nil_r.
    rewrite <- !app_assoc.
    replace (f + 2 * 1)%nat with (S (S f)) by lia.
    apply read_step; [exact Hc | exact Ha | lia | exact HI | apply Ht].
  - rewrite data_records_cons. rewrite <- !app_assoc.
    replace (f + 2 * length (c :: c' :: tl))%nat with (S (S (f + 2 * length (c' :: tl)))) by (cbn [length]; lia).
    cbn [concat]. rewrite addrs_app, <- app_assoc. rewrite Hlen.
    replace (a + N.of_nat 16) with (a + 16) by lia.
    apply read_step; [exact Hc | exact Ha | cbn [length] in Hb; lia | exact HI |].
    apply IH; [lia | cbn [length] in *; lia | | exact Ht].
    unfold Inv. destruct ((0 <? a + 16) && ((a + 16) mod 65536 =? 0)) eqn:E; [exact I|]. f_equal. lia.
Qed.

Lemma chunks_spec : forall n l, (length l <= n)%nat -> Forall byte_ok l ->
  chunks_ok (chunks n l) /\ concat (chunks n l) = l /\ (16 * length (chunks n l) <= length l + 15)%nat.
Proof.
  induction n as [|n IH]; intros l Hn Hl.
  - destruct l; [|cbn in Hn; lia]. cbn. repeat split; try constructor; lia.
  - destruct l as [|x l']; [cbn; repeat split; try constructor; lia|].
    cbn [chunks]. set (l := x :: l') in *.
    assert (Hsk : (length (skipn 16 l) <= n)%nat) by (rewrite skipn_length; unfold l in *; cbn [length] in *; lia).
    assert (Hf : Forall byte_ok (skipn 16 l)).
    { rewrite <- (firstn_skipn 16 l) in Hl. apply Forall_app in Hl. tauto. }
    destruct (IH _ Hsk Hf) as (Hok & Hcat & Hlen).
    assert (Hc : chunk_ok (firstn 16 l)).
    { split. - rewrite firstn_length. unfold l. cbn [length]. lia.
      - rewrite <- (firstn_skipn 16 l) in Hl. apply Forall_app in Hl. tauto. }
    repeat split.
    + destruct (chunks n (skipn 16 l)) as [|c' tl] eqn:E; [constructor; exact Hc|].
      constructor; [exact Hc | | exact Hok].
      rewrite firstn_length. destruct (Nat.le_gt_cases 16 (length l)); [lia|].
      exfalso. rewrite skipn_all2 in E by lia. destruct n; discriminate.
    + cbn [concat]. rewrite Hcat. apply firstn_skipn.
    + cbn [length]. destruct (Nat.le_gt_cases 16 (length l)) as [Hge|Hlt].
      * rewrite skipn_length in Hlen. lia.
      * rewrite skipn_all2 by lia. replace (chunks n []) with (@nil (list N)) by (destruct n; reflexivity).
        unfold l. cbn [length]. lia.
Qed.

Lemma eof_read b : read 1 b (record 1 0 [] ++ [13; 10]) = Some [].
Proof.
  rewrite read_S. unfold read_body.
  destruct (record_hd 1 0 []) as [t Et]. rewrite Et at 1. cbn [app]. rewrite skip_eol_colon.
  change (58 :: t ++ ?x) with ((58 :: t) ++ x). rewrite <- Et.
  rewrite parse_record_ok; [| lia | lia | cbn; lia | constructor]. reflexivity.
Qed.

Theorem roundtrip_fuel img : Forall byte_ok img -> N.of_nat (length img) + 16 <= 4294967296 ->
  read (3 + 2 * length (chunks (length img) img)) 0 (write img) = Some (addrs 0 img).
Proof.
  intros Hb Hlen. unfold write.
  destruct img as [|x l'].
  - cbn [app chunks length Nat.mul Nat.add addrs]. apply (read_mono_le 1); [lia | apply eof_read].
  - set (img := x :: l') in *.
    destruct (chunks_spec (length img) img (le_n _) Hb) as (Hok & Hcat & Hcl).
    rewrite <- !app_assoc.
    replace (3 + 2 * length (chunks (length img) img))%nat
      with (S (S (1 + 2 * length (chunks (length img) img)))) by lia.
    apply read_mono.
    rewrite read_S. unfold read_body.
    destruct (record_hd 2 0 [0;0]) as [t Et]. rewrite Et at 1. cbn [app]. rewrite skip_eol_colon.
    change (58 :: t ++ ?x) with ((58 :: t) ++ x). rewrite <- Et.
    rewrite parse_record_ok; [| lia | lia | cbn; lia | repeat constructor; unfold byte_ok; lia].
    change (2 =? 0) with false. change (2 =? 1) with false. change (2 =? 2) with true. cbv iota.
    rewrite read_crlf. change ((0 * 256 + 0) * 16) with 0.
    replace (addrs 0 img) with (addrs 0 (concat (chunks (length img) img)) ++ [])
      by (rewrite Hcat; apply app_nil_r).
    apply read_data; [exact Hok | reflexivity | (unfold img in *; cbn [length] in *; lia) | reflexivity |].
    intros b. apply eof_read.
Qed.

(** the file is long enough for [read_file]'s fuel *)
Lemma hex2s_len l : length (concat (map hex2 l)) = (2 * length l)%nat.
Proof. induction l as [|x l IH]; [reflexivity|]. cbn [map concat]. rewrite app_length, IH. cbn [length hex2]. lia. Qed.

Lemma record_len ty off data : (13 <= length (record ty off data))%nat.
Proof.
  unfold record, body_of. cbn [length]. rewrite app_length, hex2s_len, !app_length. cbn [length]. lia.
Qed.

Lemma data_records_len cs a : (2 * length cs <= length (data_records a cs))%nat.
Proof.
  revert a. induction cs as [|c tl IH]; intros a; [cbn; lia|].
  rewrite data_records_cons, !app_length. specialize (IH (a + 16)).
  pose proof (record_len 0 (a mod 65536) c). cbn [length]. lia.
Qed.

Theorem roundtrip img : Forall byte_ok img -> N.of_nat (length img) + 16 <= 4294967296 ->
  read_file (write img) = Some (addrs 0 img).
Proof.
  intros Hb Hlen. unfold read_file.
  eapply read_mono_le; [| apply roundtrip_fuel; assumption].
  unfold write. destruct img as [|x l'].
  - cbn. lia.
  - rewrite !app_length.
    pose proof (data_records_len (chunks (length (x :: l')) (x :: l')) 0).
    pose proof (record_len 2 0 [0;0]). pose proof (record_len 1 0 []). cbn [length] in *. lia.
Qed.

Lemma pairs_eqb_refl l : pairs_eqb l l = true.
Proof.
  induction l as [|[a b] l IH]; [reflexivity|]. cbn [pairs_eqb]. unfold pair_eqb. cbn [fst snd].
  rewrite !N.eqb_refl, IH. reflexivity.
Qed.

Lemma pairs_eqb_eq a : forall b, pairs_eqb a b = true -> a = b.
Proof.
  induction a as [|[x y] a IH]; intros [|[x' y'] b] H; try discriminate; [reflexivity|].
  cbn [pairs_eqb] in H. unfold pair_eqb in H. cbn [fst snd] in H.
  apply andb_true_iff in H as [H1 H2]. apply andb_true_iff in H1 as [Hx Hy].
  apply N.eqb_eq in Hx, Hy. subst. f_equal. apply IH, H2.
Qed.

Theorem write_holds img : Forall byte_ok img -> N.of_nat (length img) + 16 <= 4294967296 ->
  holds_C07 img (write img) = true.
Proof. intros Hb Hl. unfold holds_C07. rewrite roundtrip by assumption. apply pairs_eqb_refl. Qed.

(** what the oracle means: a decoded file places exactly the image *)
Theorem holds_C07_sound img file : holds_C07 img file = true -> read_file file = Some (addrs 0 img).
Proof.
  unfold holds_C07. destruct (read_file file) as [l|]; [|discriminate].
  intros H. f_equal. apply pairs_eqb_eq, H.
Qed.
