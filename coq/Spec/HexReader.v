(** Independent Intel HEX reader, written from the format definition, not from the writer.
    A file is accepted iff it consists solely of records [:LLAAAATT<data>CC] in upper-case hex
    with a checksum that makes the byte sum 0 mod 256, separated/terminated by CR/LF runs, of
    types 00 (data), 02 (extended segment address), 04 (extended linear address) and exactly one
    01 (end of file) record, which is last.  The result lists every data byte with its absolute
    address in file order. *)
From Coq Require Import List NArith Bool.
Import ListNotations.
Open Scope N_scope.

Definition unhex (c : N) : option N :=
  if (48 <=? c) && (c <=? 57) then Some (c - 48)
  else if (65 <=? c) && (c <=? 70) then Some (c - 55) else None.
Definition read_byte (s : list N) : option (N * list N) :=
  match s with
  | h :: l :: r => match unhex h, unhex l with Some a, Some b => Some (a * 16 + b, r) | _, _ => None end
  | _ => None end.
Fixpoint read_bytes (n : nat) (s : list N) : option (list N * list N) :=
  match n with O => Some ([], s) | S m =>
    match read_byte s with
    | Some (b, r) => match read_bytes m r with Some (bs, r') => Some (b :: bs, r') | None => None end
    | None => None end end.
Fixpoint sum (l : list N) : N := match l with [] => 0 | x :: r => x + sum r end.
(** one record: (type, 16-bit offset, data, rest of the text) *)
Definition parse_record (s : list N) : option (N * N * list N * list N) :=
  match s with
  | 58 :: r0 =>
    match read_byte r0 with Some (ll, r1) =>
    match read_byte r1 with Some (ah, r2) =>
    match read_byte r2 with Some (al, r3) =>
    match read_byte r3 with Some (ty, r4) =>
    match read_bytes (N.to_nat ll) r4 with Some (data, r5) =>
    match read_byte r5 with Some (cc, r6) =>
      if (ll + ah + al + ty + sum data + cc) mod 256 =? 0 then Some (ty, ah * 256 + al, data, r6) else None
    | None => None end | None => None end | None => None end | None => None end | None => None end | None => None end
  | _ => None end.
Fixpoint skip_eol (s : list N) : list N :=
  match s with c :: r => if (c =? 13) || (c =? 10) then skip_eol r else s | [] => [] end.
Fixpoint addrs (a : N) (bs : list N) : list (N * N) :=
  match bs with [] => [] | b :: r => (a, b) :: addrs (a + 1) r end.

Definition read_body (rd : N -> list N -> option (list (N * N))) (base : N) (s : list N)
  : option (list (N * N)) :=
  match parse_record (skip_eol s) with
  | Some (ty, off, data, r) =>
      if ty =? 0 then
        match rd base r with Some l => Some (addrs (base + off) data ++ l) | None => None end
      else if ty =? 1 then match data, skip_eol r with [], [] => Some [] | _, _ => None end
      else if ty =? 2 then match data with [hi; lo] => rd ((hi * 256 + lo) * 16) r | _ => None end
      else if ty =? 4 then match data with [hi; lo] => rd ((hi * 256 + lo) * 65536) r | _ => None end
      else None
  | None => None
  end.
Fixpoint read (fuel : nat) (base : N) (s : list N) : option (list (N * N)) :=
  match fuel with O => None | S f => read_body (read f) base s end.
(** every record is at least 11 characters long, so [length s] steps always suffice *)
Definition read_file (s : list N) : option (list (N * N)) := read (S (length s)) 0 s.

Definition pair_eqb (x y : N * N) : bool := (fst x =? fst y) && (snd x =? snd y).
Fixpoint pairs_eqb (a b : list (N * N)) : bool :=
  match a, b with
  | [], [] => true
  | x :: a', y :: b' => pair_eqb x y && pairs_eqb a' b'
  | _, _ => false end.

(** The property, as a decidable oracle on (image, file): the file decodes to exactly the image
    bytes at exactly their addresses, every byte once, none elsewhere. *)
Definition holds_C07 (img file : list N) : bool :=
  match read_file file with Some l => pairs_eqb l (addrs 0 img) | None => false end.
