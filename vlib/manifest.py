"""Regenerates MANIFEST.json from the table below (python3 -m vlib.manifest)."""
import json
import os

VERIF = os.path.dirname(os.path.dirname(os.path.abspath(__file__)))

BASE = ("Coq 8.16.1 kernel incl. vm_compute (no native_compute); no axioms (Print Assumptions of every theorem in Props/<id>.v is "
        "checked to be 'Closed under the global context' on each run); Spec/*.v transcriptions; the hand-written model Model/*.v, "
        "tied to /repo by correspondence runs (harness links the library built from the working tree; extracted model via "
        "ExtrOcamlBasic + ocaml/driver.ml, a slice re-evaluated by vm_compute inside Coq); rustc/std/third-party crates as exercised.")

CHECKS = {
    "C07": dict(
        text="Theorem C07_roundtrip (Props/C07.v): for every byte image up to the 32-bit HEX address space the writer model's file is "
             "accepted by an independent Intel HEX reader and decodes to exactly the image at addresses 0..n-1 (induction over 16-byte "
             "chunks, unbounded length). The model is tied to src/writer.rs + the ihex formatter by byte-for-byte comparison of the "
             "files the real writers produce (every length 0..600, +-17 around every 64 KiB multiple up to the largest flash).",
        note=BASE + " Modelled rather than verified: writer.rs, ihex::create_object_file_representation, the CRLF pass, File I/O.",
        tech="Coq proof (induction) over a hand-written model + differential correspondence with the real writer",
        ref="3 C07"),
}

CHECKS["C01"] = dict(
    text="Theorem C01_encode (Props/C01.v): for every assembler spelling (every row of the ISA table Spec/Isa.v and every documented "
         "alias, 160 spellings), every core it exists on, every operand tuple the ISA allows, every instruction address and whatever "
         "source operands denote those values, the encoder model emits exactly the table's words, low byte first, and an independent "
         "decoder maps them back to the statement. Proof: kernel-checked exhaustive sweeps of every one-word operand space, the 16 low "
         "address bits of jmp/call/lds/sts kept symbolic, a pc-shift lemma for relative operands. Tie: base opcodes/lengths/mnemonic "
         "table regenerated from /repo by executing the real code (Gen/OpTable.v); operand packing by correspondence with "
         "instruction::process on the complete one-word operand space (265k cases).",
    note=BASE + " Modelled rather than verified: instruction/mod.rs::process (as Model/Encode.v), expr conversions; Spec/Isa.v is my "
         "transcription of the AVR Instruction Set Manual.",
    tech="Coq proof (exhaustive kernel sweeps + symbolic lemmas) over a hand-written model with regenerated opcode table + exhaustive differential correspondence",
    ref="3 C01")
CHECKS["C03"] = dict(
    text="Theorems C03_reachable / C03_unreachable (Props/C03.v): for all 22 relative spellings, every instruction address pc >= 0 and "
         "every target t in Z: if d = t-(pc+1) fits the field the encoder emits the word whose decoded displacement is exactly d, "
         "otherwise (for any preceding operands) no machine code is produced - no wrap, no truncation. Unbounded in pc and t (lia + "
         "sweep of the 128/4096 in-range displacements). PROGRAM LEVEL (Proofs/BranchProofs.v, composing the C02 layout theorem with the "
         "encoder theorem): C03_in_program - in every program passes 1 and 2 accept (any interleaving of segments, .org gaps, data and "
         "other instructions around it) a relative instruction anywhere in a code segment is found in the flash image at byte 2a, where "
         "a is also the address the encoder computed the displacement from (and what the symbol pc reads), its operands being evaluated "
         "over the label / .equ / #define tables exactly as pass 1 left them; so the word in the image decodes to the statement with "
         "displacement t-(a+1) for whatever target t the operand denotes; C03_never_out_of_reach - no image contains a relative "
         "instruction whose displacement does not fit; C03_label_operand - a name bound only as a label denotes its position.",
    note=BASE + " Modelled rather than verified: the rjmp/rcall/br arms of process. The instruction-level cases are also run under every "
         "device row of the table (targets one flash size beyond both range ends).",
    tech="Coq proof (arithmetic lemmas + finite sweep; pass 1 / pass 2 lock-step invariant for the position of an instruction) + "
         "differential correspondence at both range limits and under every device",
    ref="3 C03")
CHECKS["C04"] = dict(
    text="Theorems (Props/C04.v): C04_values_in_range - UNBOUNDED in the operand values: for every operation, operand list, program "
         "counter and all values in Z, whatever the encoder accepts has every value operand inside the range of its field kind in the "
         "ISA table (8-bit immediates, unsigned bit/port/constant fields, relative targets, jmp/call and lds/sts addresses incl. the "
         "reduced-core 0x40..0xBF), C04_displacement_in_range (ld/st/ldd/std: Y or Z, 0..63), C04_kinds_from_table (the kind table is "
         "checked against every row of Spec/Isa.v); C04_window_full / C04_window_reduced - for every mnemonic and every operand list of "
         "a finite, explicitly defined window (ALL registers in every position, all index forms, all operand kinds and counts 0-3, values "
         "around every field boundary; 44k lists per mnemonic) the model returns an error value or exactly the ISA encoding of the "
         "statement as written (kernel-checked exhaustive sweep); C04_guards. Registers, kinds and counts are finite and swept "
         "exhaustively; values are covered for all of Z; that accepted in-range operands get the table's encoding is C01. IN A PROGRAM: C04_no_error_is_dropped / C04_every_instruction_encoded - in a build pass 2 accepts, every item of every segment was accepted and every instruction was encoded by the encoder (so the range theorem holds of each): no image contains a statement the ISA cannot encode.",
    note=BASE + " The window theorem is bounded (the bound is in its statement); the range theorem is not.",
    tech="Coq proof (goal-directed case analysis over all operations for the value ranges; finite kernel-swept window for registers, "
         "kinds and counts) + differential correspondence/oracle sweep",
    ref="3 C04")
CHECKS["C05"] = dict(
    text="Theorem C05_eval (Props/C05.v): for every symbol table and every expression tree (unbounded, induction) the evaluator model "
         "returns exactly the value the documented operator table defines (Spec/ExprSpec.v: i64 arithmetic, 0/1 comparisons, ~ = "
         "complement, truncating / and %, byte/word selectors, exp2) and fails exactly where it says the build must fail; "
         "C05_precedence_table: the operator table regenerated from the grammar source places all 18+3 operators on the documented "
         "levels; C05_negated_name_operand: a negated name beginning with x, y or z is an expression operand, not a pre-decrement. Tie: text -> AST -> value compared with document::expr / Expr::run on the full operator x boundary grid, all "
         "operator-pair nestings, random trees in minimal/blank/redundant-parenthesis renderings, hostile and mutated texts. "
         "C05_parse / C05_parse_minimal / C05_parse_in_context: for every tree and every printer that parenthesises at least where the "
         "documented levels require (left-associative binary levels, unary above all) - and, C05_parse_any_blanks_and_parentheses, with any blanks and "
         "redundant parentheses -, the grammar of the model - peg's precedence "
         "climbing over the regenerated table, at character level - reads the printed text back as that tree (generic theorem "
         "Proofs/ClimbProofs.v instantiated for the real tables, identifier and literal parsers in Proofs/ExprRoundTrip.v; fuel of the "
         "model proved sufficient).",
    note=BASE + " Modelled rather than verified: Expr::run (Model/Eval.v), the peg precedence-climbing algorithm (Model/Climb.v, "
         "Model/Grammar.v); log2 and page are outside the specification.",
    tech="Coq proof (structural induction for evaluation; relational big-step semantics + render/parse round trip for the grammar) + regenerated precedence table + differential correspondence",
    ref="3 C05")

CHECKS["C17"] = dict(
    text="Partial by nature. Theorems C17_history / C17_order_irrelevant (Props/C17.v): in the model a build is a function of the "
         "source alone - whatever was built before or after, the result of a source is build_str of that source (induction over the "
         "history). The content lies in the ties: (1) source scan on every run: the only static/thread-local/lazy/atomic/unsafe item "
         "in /repo/src is the immutable DEVICES table and no hash map is iterated; (2) correspondence of the functional model with "
         "the code; (3) every source built alone in a fresh process, after and before all others in one process and on 8 concurrent "
         "threads in different rotations (programs deep inside chains of definitions among them) - all observations equal.",
    note=BASE + " Thread schedules are explored, not proved; CommonContext is Rc<RefCell> (!Send) - a type-system argument recorded as an "
         "assumption. Working directory and HOME are inputs.",
    tech="Coq proof over a purely functional model + static source scan + history/thread differential runs",
    ref="3 C17")

PROG = (" Tie for the program level: the whole pipeline is modelled in Gallina at character level (Model/Lines, Parse, Display, "
        "Passes - grammar, line loop, directives, macro expansion, passes 0-2, capacity check) and compared with builder::build_str on "
        "every generated text of every program-level check (observations: images, sizes, messages / first 'line: N' of the error / "
        "panic-crash-timeout in isolated workers); opcode, mnemonic, directive, precedence and device tables are regenerated from /repo.")
CHECKS["C06"] = dict(
    text="Theorem C06_data (Props/C06.v): for every data directive and every operand list (unbounded, induction) the bytes the model emits "
         "are exactly the specification's (Spec/DataSpec.v: operands in order, 1/2/4/8-byte little-endian two's complement, strings as "
         "bytes for .db only), failing exactly when a value does not fit [-2^(w-1), 2^w-1], has no value, or a string is in .dw/.dd/.dq; "
         "C06_flash_padding / eeprom_no_padding / wrong_segment / reserve_eeprom for the segment rules. IN A PROGRAM: C06_in_program - the bytes of a data directive, its operands evaluated at the directive's own location, stand in the flash image at byte 2a resp. in the EEPROM image at byte a (composition with the C02 layout theorem)." + PROG,
    note=BASE + " Search oracle: independent reference encoder in vlib/c06.py.",
    tech="Coq proof (induction on operand lists, width lemmas by lia) + differential correspondence + reference-encoder oracle", ref="3 C06")
CHECKS["C10"] = dict(
    text="Theorems C10_* (Props/C10.v), all unbounded: lookups of labels/.equ/.set/.def depend on a name only through its lower-case form "
         "(hence every reference evaluates the same in any case); an unbound name is an error value, never a default; a duplicate label "
         "fails at the second definition; a label entered by pass 1 has the position of the following item and persists (fold invariant) "
         "- pass 2 evaluates references only afterwards, so forward references resolve; after .set every reference sees exactly that "
         "value (first definition and re-assignment); .def/.undef scope; an alias operand is the register operand for the encoder. C10_equ_stored / C10_equ_evaluated_at_use (an .equ keeps its expression; every reference evaluates it afresh where and when it stands); C10_label_before_directive (a label in front of any directive is entered before the directive acts). C10_def_keeps_others / C10_undef_keeps_others (aliases are independent of each other), C10_symbol_directives_in_every_segment." + PROG,
    note=BASE + " Domain: names unique across the four kinds modulo case (cross-kind clashes resolve by a fixed priority without error; "
         "the property demands failure for duplicate labels only). Search oracle: reference resolver in vlib/c10.py + deletion/duplication mutants.",
    tech="Coq proof (fold invariants, case lemmas) + differential correspondence + reference-resolver oracle", ref="3 C10")
CHECKS["C12"] = dict(
    text="Theorem C12_limits (Props/C12.v): for every program, the build succeeds iff passes 0-2 succeed and flash image <= 2*flash words, "
         "EEPROM image <= EEPROM bytes, data extent <= RAM bytes of the selected (or default) device, and a successful build reports "
         "exactly that device's sizes and the RAM extent; C12_pass1_capacity; C12_device_once (unknown / second device is an error); "
         "C12_parts: every shipped includes/*def.inc whose device is in the table declares the figures the table enforces (both "
         "regenerated from /repo on every run, compared by vm_compute). C12_only_device_selects: no directive but .device (and .include, which hands over to another file) changes the selected device." + PROG,
    note=BASE + " Search: every device row x 3 memories x {cap-1, cap, cap+1} reached by .org, data, code, reservation; the report the "
         "command-line tool prints with -v (usage and capacity of the three memories) under every device row. The figures every part is "
         "demanded to have are spec/devices.tsv (my transcription; trusted base): the table regenerated from the code must equal it.",
    tech="Coq proof (characterisation of the capacity check) + regenerated device/part tables + exhaustive boundary runs", ref="3 C12")
CHECKS["C13"] = dict(
    text="Theorem C13_gate (Props/C13.v): for EVERY set of feature flags (all 2^16, not only the 54 rows), every operation and operand "
         "list, the gate of pass 2 passes the instruction iff no flag the device carries removes that form according to the flag "
         "documentation (Spec/GateSpec.v); C13_same_code: the device enters the encoder only through the reduced-core flag and only for "
         "lds/sts - every other instruction encodes identically under any device; C13_pass2_rejects. IN A PROGRAM: C13_every_instruction_gated - every instruction of a build pass 2 accepts passed the gate of THE device of the program, wherever the .device line stands." + PROG,
    note=BASE + " Search: 54 devices x 119 instruction forms exhaustively, also with the device selected after the code and behind the "
         "62 shipped part-definition files; the feature flags every part is demanded to have are spec/devices.tsv (trusted base).",
    tech="Coq proof (case analysis over operations and flags) + regenerated device table + exhaustive device x form runs", ref="3 C13")
CHECKS["C14"] = dict(
    text="Proved (Props/C14.v, unbounded): letter case of mnemonics, function names, index registers, register prefix (symbol "
         "references: C10_case); blank lines and comment-only lines with ANY comment text parse to the empty line and the line loop "
         "passes over it without touching the state; CR LF and LF split into the same lines; C14_radix - for every value below 2^63 and "
         "every letter case of the digits, $hex, 0xhex, 0bbinary, 0octal and decimal are read as the same number; "
         "C14_expression_blanks_and_parentheses / _in_context - for every expression, whatever blanks are written at every place where "
         "the grammar skips them (around binary operators, inside parentheses, before a function's parenthesis) and however many "
         "redundant parentheses are added, the text parses to the same expression (decorated-tree round trip over the generic climbing "
         "parser, instantiated for the regenerated tables). PARTIAL: blanks around operands and commas of a statement and trailing "
         "comments after a statement are line-level and rest on the metamorphic search (every token of structured programs respelled "
         "independently, images and sizes compared) and on the correspondence." + PROG,
    note=BASE + " Directive-name case, 0X/0B prefixes, blanks after a block comment and label indentation are not among the property's "
         "listed rewrites (the grammar rejects the first three).",
    tech="Coq proof (case / blank / comment / CRLF invariance; radix; decorated-expression round trip) + metamorphic respelling search + "
         "differential correspondence", ref="3 C14")
CHECKS["C15"] = dict(
    text="Theorems C15_pass2 / C15_pass1 / C15_syntax / C15_directive (Props/C15.v): errors are structured in the model (Err (Some n) = the "
         "text names line n); for every item, state and program, every error raised in pass 2 (operand kind/range/count, undefined symbol "
         "in instruction/data/.set, value range, device gate, .undef, .def), pass 1 (duplicate label, wrong segment, address space), the "
         "parse loop (syntax) and directive handling (.if/.org evaluation, unknown directive/device, .error) names the line of the "
         "offending statement - sole stated exception: .byte's 'too many arguments'. C15_message: .message/.warning append exactly their "
         "text with their own line number and change nothing else. C15_line_numbers / C15_lines_are_split_at_every_LF: the i-th physical line carries the number i, an unbounded natural number; there are no continuation lines." + PROG,
    note=BASE + " Search: 19 fault kinds injected one at a time into valid programs; message order/numbering incl. conditional arms. "
         "Messages inside macro bodies are outside the property's quantifier.",
    tech="Coq proof (exhaustive case analysis of every error site) + single-fault injection search + differential correspondence", ref="3 C15")
CHECKS["C16"] = dict(
    text="PARTIAL BY NATURE. The model keeps every partial operation of the code as an explicit Panic outcome; theorems (Props/C16.v, all "
         "inputs): expression evaluation, the encoder (operands fetched only after the count check), directive handling and pass 1 never "
         "panic; cyclic symbols / recursive macros end in an error at depth 64; all model functions are total. Not expressible in Gallina: "
         "native stack depth, time, allocator - exercised by ./check C16: every case in an isolated worker (3 GB limit, watchdog), "
         "bounded-exhaustive single-line programs (153 heads x 0-2 operands from a 43-entry hostile dictionary), structural extremes, "
         "mutated programs, 64 KiB repeated-line programs and lines with unbalanced parentheses answered within 3 s; three deep-nesting inputs are open known findings; C16_expansion_size_bounded: an expansion line above 64 KiB is an error (self-calling macros with growing arguments end). C16_no_truncation / C16_counter_bounded: an advance that reaches 2^32 is an error whatever its size; accepted counters stay below 2^32." + PROG,
    note=BASE + " The remaining Panic sites of the model are the 32-bit additions of pass 2, unreachable after pass 1's check (not proved). "
         "'Promptly' is operationalised as 3 s (two tries) in the debug worker for 64 KiB - the bound of the quantifier - of one kind of "
         "line each; everything else runs under a 10 s watchdog.",
    tech="Coq proof of panic-freedom for evaluator/encoder/directives/pass 1 + isolated-process bounded-exhaustive and mutation runs", ref="3 C16")

CHECKS["C08"] = dict(
    text="Theorem C08_select (Props/C08.v): for every well-formed block tree (plain lines = ANY text that is not one of the six "
         "conditional directives; blocks nested to any depth, any number of .elif arms, with or without .else), every assembly state "
         "and every outcome, the line loop of the model - which skips by counting nested conditionals - run on the flattened text "
         "returns exactly what the tree semantics prescribes: the first arm whose condition holds (conditions evaluated in the evolving "
         "state, an .elif only when no earlier arm held), else the .else arm, and of all other arms nothing - their bodies are never "
         "inspected. Mutual induction over node/nodes/arms with balanced-skip lemmas; errors and the label on an arm's own line "
         "included. Proving it exposed a real defect of the first repair (nested conditional before an outer .elif), since fixed." + PROG,
    note=BASE + " The tree semantics leaves a selected .macro / .exit line undefined (None). Search: blanking the unselected lines "
         "must not change the result (bounded-exhaustive chains x truth assignments x nesting, garbage in unselected arms).",
    tech="Coq proof (refinement of a block-tree semantics by mutual induction) + metamorphic search + differential correspondence", ref="3 C08")
CHECKS["C18"] = dict(
    text="PARTIAL. Theorems C18_build_fails / C18_success / C18_unwritable (Props/C18.v) over Model/Cli.v: a failed build creates "
         "nothing and exits non-zero; a successful build with creatable outputs writes exactly the non-empty images to the -o/-e paths "
         "or <dir>/<stem>.hex / .eep.hex, each file decoding (independent reader, by C07) to exactly the image, exit 0; an output that "
         "cannot be created gives a non-zero exit. OS behaviour enters through the oracle can_create. The binary built from the tree is "
         "run on 10 sources x all 8 option combinations x {writable, missing directory, path is a directory} (200 runs): exit status, "
         "set of created/altered files, and every output file byte-identical to Hex.write of the image the library builds.",
    note=BASE + " Signals, disk-full and races are not modelled; the Python oracle of ./check C18 mirrors Cli.cli_main. Sources are named by "
         "absolute path, relative path and through symbolic links; general programs are run through the tool with -v and compared with "
         "the library's result (exit status, files, printed messages, report).",
    tech="Coq proof over a CLI model with an OS oracle (reusing the C07 round-trip theorem) + exhaustive option-matrix runs of the real binary",
    ref="3 C18")
CHECKS["C02"] = dict(
    text="Theorems (Props/C02.v) over pass1/pass2 of Model/Passes.v, for EVERY segment list, item mix and device: C02_instruction_length "
         "(encoder output = 2 x the regenerated operation-table length); C02_item (whatever pass 1 keeps, pass 2 advances identically and "
         "emits exactly unit x advance bytes: both instruction lengths, .db odd/even with flash padding, .dw/.dd/.dq, EEPROM .byte, "
         ".set/.def/.undef, labels); C02_org_gap (padding appends zeros up to exactly unit x address); C02_layout (every flash/EEPROM "
         "segment of an arbitrarily interleaved program stands in the final image at unit x its start address with the length pass 1 "
         "computed; images only grow by appending; images within the device); C02_label (a label's value is the address at which pass 2 "
         "emits what follows it; data labels = segment start + reservations before); C02_hypotheses_met (pass 0 leaves no macro call in "
         "code; every table device is below the 2^31 bound). The segment list is what the parser produced: the parser-level findings "
         "`.org 0` and non-literal `.byte` are open known findings reported by the check." + PROG,
    note=BASE + " Search: 4000 (quick) / 80000 (thorough) generated layouts against an independent reference layout in vlib/c02.py; nine "
         "programs with more than 2^16 instructions / labels / operands / characters / segments / symbols (implementation only).",
    tech="Coq proof (lock-step fold invariants over pass 1 / pass 2) + regenerated op/device tables + reference-layout oracle search", ref="3 C02")
CHECKS["C11"] = dict(
    text="Theorems (Props/C11.v) over Model/Fs.v (std::path components, PathBuf::push/parent, BTreeSet order; a file system of directories and "
         "regular files) and Model/Files.v (parse_file_internal, build_file): C11_as_written / C11_in_set / C11_own_directory / C11_inherited / "
         "C11_caller / C11_includepath / C11_file (a name is looked for as written, then below each directory of the include set; the set a "
         "file is parsed with holds its own directory, the caller's directories, every earlier .includepath - relative ones resolved against "
         "the file containing the directive); C11_not_found (found nowhere => the build fails); C11_include_is_paste: for every file system, "
         "state and continuation, an .include line naming a found file whose text is a well-formed block tree (plain lines, conditionals, macro "
         "definitions, any depth; no file directives), optionally ended by .exit + arbitrary text, makes the line loop end exactly as it does "
         "on the file's lines pasted in place - definitions flow on, .exit ends only the file; C11_sorted_* (the set invariant the theorem "
         "needs is kept by every step); C11_depth (self-inclusion ends in an error at depth 65)." + PROG.replace("Passes.build_str", "Files.build_file / Passes.build_str"),
    note=BASE + " Correspondence on generated directory trees (nine ways of placing an included file, three working-directory modes, .exit, "
         "missing files) and odd paths (., .., //, directories named as files, shadowed names in several searched directories = set order, "
         "include chains of depth 62-66, self/mutual inclusion). Search oracle: real build_file(tree) = real build_str(pasted text). Not "
         "modelled: symbolic links, a trailing slash after a file name, non-UTF-8 contents.",
    tech="Coq proof (path/order lemmas, file-layer independence by mutual induction over block trees, reuse of the C08 refinement) + "
         "differential correspondence on real directory trees + paste oracle", ref="3 C11")
CHECKS["C09"] = dict(
    text="Theorems (Props/C09.v): C09_substitute - for a call with 1..10 arguments, the line the expansion parses is the body line with "
         "EVERY @i replaced at once by the text of argument i (the code's sequential str::replace cannot re-substitute or mix parameters; a "
         "reference beyond the arguments stays and is a syntax error), for every body line made of '@'-free text and @0..@9; "
         "C09_argument_text / C09_argument_alone / C09_argument_no_at - the text an expression argument is turned into (Display: every "
         "compound operand parenthesised) has no '@' and, in any non-gluing context, is read back by the grammar as exactly the expression "
         "the caller wrote, for all operators, levels and nesting depths (instance of the generic climbing-parser round trip); "
         "C09_register_operand / C09_index_operands / C09_expression_operand / C09_compound_operand - as an operand of an instruction "
         "line, registers r0..r31, the index forms X, X+, -X, X+expr and expressions read back as the operand the caller wrote; C09_case "
         "(calls are matched in lower case) and C09_undefined (error naming the call's line); THE SPLICE (Proofs/SpliceProofs.v): "
         "C09_call_is_paste - in a code segment, a call of a macro whose substituted body has no segment directive / .org / .include line "
         "(labels, instructions, data, .set/.def/.equ, messages, conditionals, nested macro definitions allowed) is processed by pass 0 "
         "exactly as: parse the substituted body as a fresh code segment at the current address, take over its macros / messages / "
         "symbols, process its items one nesting level deeper in the place of the call, go on with the rest (equation, failing runs "
         "included); C09_call_is_paste_ok (an accepted call leaves the state the body's items written in its place leave), "
         "C09_expansion_shape, C09_items_in_order, C09_depth_monotone. PARTIAL only for bodies that switch segments or include files: "
         "those rest on the correspondence and on the oracle search (real build of the macro program = real build of the hand-expanded "
         "program). C09_body_verbatim: a macro body is recorded as exactly the lines that were written, up to the first end-of-macro line." + PROG,
    note=BASE + " Search: macros with up to ten parameters, bodies with instructions, data, conditionals on parameters, nested calls and "
         "segment switches; arguments = registers, index forms, random expression trees; calls before the definition and in mixed case.",
    tech="Coq proof (token-level substitution lemma; parser round trip instantiated for Display; splice of a call into pass 0 by an invariant "
         "of the line loop + depth monotonicity) + expansion oracle + differential correspondence",
    ref="3 C09")

NOT_APPLICABLE = {}
IN_PROGRESS = ("machinery built and green on the current tree (./check %s: model-vs-implementation correspondence + oracle search + "
               "kernel-checked examples); not claimed until its unbounded theorem is in Props/%s.v")
PENDING = ("claimed in DESIGN.md, machinery not built yet in this commit; listed here so that nothing unbuilt is claimed "
           "(technique applies - see DESIGN.md section 3)")


def main():
    ids = [json.loads(l)["id"] for l in open(os.path.join(VERIF, "properties.jsonl"))]
    checks = []
    for pid in ids:
        if pid not in CHECKS:
            continue
        c = CHECKS[pid]
        checks.append({
            "property_id": pid,
            "quick_cmd": "./check %s --tier quick" % pid,
            "thorough_cmd": "./check %s --tier thorough" % pid,
            "evidence_file": "/verif/evidence/%s.json" % pid,
            "replay_cmd_template": "./check %s --replay {path}" % pid,
            "engine": "coq-proof",
            "level_claimed": {"category": "proof", "text": c["text"], "design_ref": "DESIGN.md section " + c["ref"]},
            "level_note": c["note"],
            "technique": c["tech"],
        })
    na = [{"property_id": p, "reason": NOT_APPLICABLE.get(p, PENDING)} for p in ids if p not in CHECKS]
    m = {
        "version": 1,
        "setup_cmd": "./check --setup",
        "hooks": {"guard": "avra_rs_verif", "enable": "none needed: every interface the harness uses is pub; the guard name is reserved and unused",
                  "baseline_off_cmd": "cd /repo && cargo test --workspace --no-fail-fast --offline", "source_commits": [], "add_only": True},
        "engines": [{"name": "coq-proof", "path": "/verif/check", "serves_properties": [c["property_id"] for c in checks],
                     "kind_free_text": "Coq 8.16.1 theorems about a hand-written Gallina model (coq/), tied to /repo on every run by "
                                       "regenerated tables and model-vs-implementation correspondence (harness/, ocaml/, vlib/)"}],
        "checks": checks,
        "not_applicable": na,
        "notes": "See DESIGN.md. known_findings.json lists repaired defects (fix: commits in /repo) and open findings.",
    }
    with open(os.path.join(VERIF, "MANIFEST.json"), "w") as f:
        json.dump(m, f, indent=1)
    print("MANIFEST.json: %d checks, %d not claimed" % (len(checks), len(na)))


if __name__ == "__main__":
    main()
