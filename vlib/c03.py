"""C03 - relative branches and jumps reach exactly the target that was named."""
from . import encgen, encrun

PROP = "C03"


def run(res):
    cs = encgen.relative("F") + (encgen.relative("R") if res.tier != "quick" else encgen.relative("R")[::7])
    encrun.standard_run(
        res, PROP, cs, keep=lambda r: True, what="relative-jump/branch",
        rule=("all 18 br<cond>, brbs/brbc x 8 bits, rjmp, rcall at every displacement -70..70 / -66..66 / -2055..2055 around both "
              "field limits, at 11 instruction addresses from 0 to 2^32-1, plus targets at the i64 extremes; oracle: Spec/Isa.expect_at "
              "(in range -> exactly the table word whose decoded displacement d satisfies target = pc + 1 + d; out of range -> error); "
              "distinct = distinct case text"),
        exhaustive_note="complete over the displacement windows stated in the rule, for the listed instruction addresses",
        assume=["program-level placement (labels, .org gaps between instruction and target) is C02's layout theorem composed with "
                "this field-level theorem; the instruction-level interface is given pc and target directly"])


match_known = encrun.match_known


def replay(path):
    return encrun.replay(PROP, path)
