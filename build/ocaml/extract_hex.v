(* Extraction of the HEX writer model and the independent reader for volume runs (images up to
   the largest flash).  ExtrOcamlBasic only: bool, option, list, prod, unit, sumbool map to the
   OCaml types; N/positive/nat stay the extracted inductives.  No Extract Constant. *)
Require Import AvraV.Model.Hex AvraV.Spec.HexReader.
Require Extraction.
Require Import ExtrOcamlBasic.
Extraction Language OCaml.
Extraction "hexmodel.ml" Hex.write HexReader.holds_C07 HexReader.read_file.
