"""C01 - every valid instruction assembles to its exact AVR ISA machine code."""
import random

from . import encgen, encrun, gen, progcheck as P, progrun

PROP = "C01"


def cases(tier, seed):
    rng = random.Random(seed)
    cs = encgen.legal("F") + encgen.addresses("F", rng, 4000 if tier == "quick" else 200000)
    cs += encgen.addresses("R", rng, 500)
    cs += encgen.relative("F")
    if tier != "quick":
        cs += encgen.legal("R") + encgen.relative("R")
    return cs


def run(res):
    encrun.standard_run(
        res, PROP, lambda vh: cases(res.tier, res.seed) + encgen.per_device(gen.read_devices(vh), res.tier != "quick"), keep=lambda r: r[3] != "NONE", what="legal-operand",
        rule=("cases = (core, pc, mnemonic, operand tuple) enumerated by vlib/encgen.py legal()+addresses()+relative(), restricted to "
              "tuples Spec/Isa.expect_at can encode; each is run through instruction::process of /repo, the extracted Coq model and "
              "the ISA table; plus per_device(): under EVERY device row of the table, every mnemonic and the operands at which a device figure "
              "(flash words/bytes, RAM start/end, EEPROM size) could be mistaken for a limit of the instruction; distinct = distinct case "
              "text, all are non-trivial (an instruction is encoded)"),
        exhaustive_note=("complete for every one-word form (all registers, immediates, displacements, ports, bits, branch and "
                         "rjmp/rcall offsets); jmp/call: all 64 high parts x 8 boundary low parts + random; lds/sts: all registers x "
                         "boundary + random addresses; reduced-core lds/sts complete"),
        assume=["Spec/Isa.v is a transcription of the AVR Instruction Set Manual (DESIGN.md section 10)",
                "operands in this interface are literals and registers; symbolic operands are covered by the theorem's "
                "hypothesis on the accessor views and by the program-level checks"])
    run_sequences(res)


SPELL = [None]     # the random source of to_source's operand spellings (None: plain decimal)


def to_source(case):
    """an instruction-level case as a line of assembler text"""
    _, _, m, ops = case.split(" ")
    if ops == "-":
        return "  " + m

    def val(t):
        """the value in one of the spellings the grammar has for it (radix prefixes, parentheses, sums, unary forms)"""
        v = int(t)
        k = SPELL[0].randrange(9) if SPELL[0] is not None else 0
        if v < 0:
            return [t, "(%s)" % t, "0%s" % t, "-(%d)" % -v, "~%d" % (-v - 1), "~0x%x" % (-v - 1), "-$%x" % -v, "(0-%d)" % -v, t][k]
        return [t, "$%x" % v, "0x%X" % v, "0b" + bin(v)[2:], "(%d)" % v, "(%d+%d)" % (v // 2, v - v // 2), "~(~%d)" % v, "-(-%d)" % v, "%d*1" % v][k]

    def conv(o):
        if o[0] == "e":
            return val(o[1:])
        if "+q" in o:
            return o[0] + "+" + val(o[3:])
        if o[0] == "r" and SPELL[0] is not None and SPELL[0].random() < 0.25:
            # the register through its .def alias (the sequence programs define q0..q31 = r0..r31), in any letter case
            return SPELL[0].choice(["q%s", "Q%s"]) % o[1:]
        return o
    return "  %s %s" % (m, ", ".join(conv(o) for o in ops.split(",")))


def sequences(rng, pool, n):
    """programs = sequences of legal instructions (often the SAME statement several times in a row, labels and data words in
    between): the image must be the concatenation of what the ISA table says for each statement AT ITS OWN ADDRESS - an
    instruction's words depend on the statement and its address only, never on its neighbours.
    -> list of (lines, list of (enc case at its address or None for a literal word, literal hex))"""
    out = []
    for _ in range(n):
        a = 0
        lines, parts = [], []
        k = rng.randrange(4, 40)
        prev = None
        while len(parts) < k:
            r = rng.random()
            if prev is not None and r < 0.3:
                kind = prev            # the same statement again, at the next address
            elif r < 0.45:
                kind = ("rel", rng.choice(["rjmp", "rcall"] + ["br" + b for b in encgen.BR] + ["brbs e3,", "brbc e6,"]), rng.randrange(0, 60))
            elif r < 0.5:
                kind = ("abs", rng.choice(["jmp", "call"]), rng.choice([0, 1, 65535, 65536, 4194303, rng.randrange(0, 4194304)]))
            elif r < 0.55:
                kind = ("mem", rng.choice(["lds r%d,e%d", "sts e%d,r%d"]), rng.randrange(32), rng.choice([0, 96, 255, 256, 65535, rng.randrange(0, 65536)]))
            elif r < 0.62:
                kind = ("word", rng.randrange(0, 65536))
            elif r < 0.68:
                kind = ("label",)
            else:
                kind = ("plain", rng.choice(pool))
            if kind[0] == "label":
                lines.append("L%d_%d:" % (len(out), len(lines)))
                continue
            if kind[0] == "word":
                lines.append("  .dw %d" % kind[1])
                parts.append((None, "%02x%02x" % (kind[1] % 256, kind[1] // 256)))
                a += 1
            elif kind[0] == "rel":
                # the SAME target text from successive addresses: the displacement differs every time
                t = kind[2]
                lim = 2048 if kind[1] in ("rjmp", "rcall") else 64
                if not -lim <= t - (a + 1) < lim:
                    t = a + 1 + rng.randrange(-min(lim, a + 1), lim)
                    kind = (kind[0], kind[1], t)
                op = kind[1]
                case = "F %d %s e%d" % (a, op, t) if " " not in op else "F %d %s%s" % (a, op.replace(" ", " "), "e%d" % t)
                if rng.random() < 0.3:
                    # the same target written relative to the location counter of THIS statement (whatever stands in front of it)
                    txt = to_source(case)
                    lines.append(txt[:txt.rindex(",") + 1 if "," in txt else txt.index(op.split()[0]) + len(op.split()[0])] + " %s%+d" % (rng.choice(["pc", "PC"]), t - a))
                else:
                    lines.append(to_source(case))
                parts.append((case, None))
                a += 1
            elif kind[0] == "abs":
                case = "F %d %s e%d" % (a, kind[1], kind[2])
                lines.append(to_source(case))
                parts.append((case, None))
                a += 2
            elif kind[0] == "mem":
                case = "F %d %s" % (a, kind[1] % ((kind[2], kind[3]) if kind[1].startswith("lds") else (kind[3], kind[2])))
                lines.append(to_source(case))
                parts.append((case, None))
                a += 2
            else:
                f = kind[1].split(" ")
                case = "F %d %s %s" % (a, f[2], f[3])
                lines.append(to_source(case))
                parts.append((case, None))
                a += 1
            prev = kind
        out.append((lines, parts))
    return out


def run_sequences(res):
    import random
    from . import common as C
    vh = C.build_harness("debug")
    exe = C.build_model()
    rng = random.Random(res.seed + 1)
    SPELL[0] = rng
    pool = [c for c in encgen.legal("F")[::37] if c.split(" ")[2] not in ("jmp", "call", "lds", "sts")]
    seqs = sequences(rng, pool, 150 if res.tier == "quick" else 20000)
    cases = list(dict.fromkeys(c for _, parts in seqs for c, _ in parts if c))
    spec = {r[0]: r[3] for r in encrun.run_cases(vh, exe, cases)}
    prelude = "".join(".def q%d = r%d\n" % (i, i) for i in range(32))
    texts = [prelude + "\n".join(lines) + "\n" for lines, _ in seqs]
    obs = P.correspond(res, vh, exe, texts, "instruction-sequence programs")
    for (lines, parts), t in zip(seqs, texts):
        want = "".join(spec[c] if c else h for c, h in parts)
        a = progrun.parse_obs(obs[t][0])
        if any(spec[c] == "NONE" for c, _ in parts if c):
            continue
        if a["kind"] != "OK" or a["code"] != want:
            P.fail(res, "builder::build_str", t, "code " + want, obs[t][0][:200], "sequence", extra=dict(want_code=want))
    res.extra["distribution"]["instruction_sequences"] = len(seqs)


match_known = encrun.match_known


def replay(path):
    import json
    i = json.load(open(path)).get("input") or {}
    if "want_code" in i:
        def judge(vh, exe, inp):
            a = progrun.parse_obs(progrun.run_texts(vh, exe, [inp["source"]])[0][1])
            return None if a["kind"] == "OK" and a["code"] == inp["want_code"] else ("code " + inp["want_code"], a)
        return P.replay_text(PROP, path, judge)
    return encrun.replay(PROP, path)
