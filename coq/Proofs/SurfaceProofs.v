(** C14 (proved parts): letter case of mnemonics / registers / function names, blank and
    comment-only lines, CRLF line ends. *)
From Coq Require Import List NArith ZArith Bool Lia Ascii.
Import ListNotations.
Require Import AvraV.Model.Base AvraV.Model.Ast AvraV.Model.Eval AvraV.Model.Encode AvraV.Model.Climb AvraV.Model.Grammar.
Require Import AvraV.Model.Lines AvraV.Model.Parse AvraV.Proofs.SymProofs.
Open Scope N_scope.

(** ---- letter case ---- *)
Theorem mnemonic_case n n' : lower n = lower n' -> operation_of_name n = operation_of_name n'.
Proof. intros H. unfold operation_of_name. rewrite H. reflexivity. Qed.
Theorem function_case name name' v : lower name = lower name' -> eval_func name v = eval_func name' v.
Proof. intros H. unfold eval_func. rewrite H. reflexivity. Qed.
Theorem reg16_case c r : reg16 (c :: r) = reg16 (lower_ascii c :: r).
Proof. unfold reg16. rewrite lower_ascii_idem. reflexivity. Qed.
(** r / R in front of a register number *)
Theorem reg8_case d r : reg8 ("r"%char :: d) = reg8 ("R"%char :: d) /\ reg16 ("x"%char :: r) = reg16 ("X"%char :: r).
Proof. split; [destruct d as [|d1 d]; reflexivity | reflexivity]. Qed.

(** ---- blank and comment-only lines ---- *)
Definition blank (c : ascii) : Prop := c = " "%char \/ c = "009"%char.
Lemma skip_space_blanks b rest : Forall blank b -> skip_space (b ++ rest) = skip_space rest.
Proof.
  induction 1 as [|c b Hc _ IH]; [reflexivity|]. cbn [app]. unfold skip_space in *. cbn [skip_sp].
  destruct Hc as [-> | ->]; cbn; exact IH.
Qed.
Lemma id_parse_blank b rest : Forall blank b -> b <> [] -> id_parse (b ++ rest) = None.
Proof. intros H Hn. destruct H as [|c b Hc _]; [congruence|]. destruct Hc as [-> | ->]; reflexivity. Qed.

(** a line that consists of blanks followed by a ';' or '//' comment - with ANY text after the comment
    sign - parses to the empty line *)
Theorem comment_line_empty b t : Forall blank b ->
  parse_line (b ++ ";"%char :: t) = Some EmptyLine /\ parse_line (b ++ "/"%char :: "/"%char :: t) = Some EmptyLine.
Proof.
  intros Hb.
  assert (G : forall c t', (c = ";"%char \/ (c = "/"%char /\ exists t'', t' = "/"%char :: t'')) ->
              parse_line (b ++ c :: t') = Some EmptyLine).
  { intros c t' Hc. unfold parse_line, line_rule.
    assert (Hl : label (b ++ c :: t') = None).
    { unfold label. destruct b as [|x b']; [|rewrite id_parse_blank; auto; discriminate].
      cbn [app]. destruct Hc as [-> | [-> _]]; reflexivity. }
    unfold directive_line, instruction_line, opt_label. rewrite Hl.
    rewrite (skip_space_blanks b (c :: t') Hb).
    assert (Hs : skip_space (c :: t') = c :: t') by (destruct Hc as [-> | [-> _]]; reflexivity).
    rewrite Hs.
    assert (Hd : directive_name (c :: t') = None) by (destruct Hc as [-> | [-> _]]; reflexivity).
    assert (Ho : operation (c :: t') = None) by (destruct Hc as [-> | [-> _]]; reflexivity).
    rewrite Hd, Ho.
    destruct Hc as [-> | [-> [t'' ->]]]; reflexivity. }
  split; apply G; [left; reflexivity | right; split; [reflexivity | eauto]].
Qed.
(** a line of blanks only parses to the empty line *)
Theorem blank_line_empty b : Forall blank b -> parse_line b = Some EmptyLine.
Proof.
  intros Hb. unfold parse_line, line_rule.
  assert (Hsk : skip_space b = []) by (rewrite <- (app_nil_r b), skip_space_blanks by exact Hb; reflexivity).
  assert (Hl : label b = None).
  { unfold label. destruct b as [|x b']; [reflexivity|]. rewrite <- (app_nil_r (x :: b')), id_parse_blank; auto; discriminate. }
  unfold directive_line, instruction_line, opt_label. rewrite Hl, Hsk. reflexivity.
Qed.

(** the line loop passes over an empty line without touching the state *)
Theorem empty_line_noop fuel inc g n l r skipped st :
  parse_line l = Some EmptyLine -> parse_iter fuel inc (S g) ((n, l) :: r) skipped st = parse_iter fuel inc g r false st.
Proof. intros H. cbn [parse_iter]. rewrite H. reflexivity. Qed.

(** ---- line ends: CR LF is the same line end as LF ---- *)
Definition cr : ascii := "013"%char.
Definition lf : ascii := "010"%char.
Fixpoint crlf (s : str) : str :=
  match s with [] => [] | c :: r => if code c =? 10 then cr :: lf :: crlf r else c :: crlf r end.
Definition no_cr (s : str) : Prop := Forall (fun c => code c <> 13) s.

Lemma split_crlf s : forall cur, no_cr s -> no_cr cur -> split_lines_aux (crlf s) cur = split_lines_aux s cur.
Proof.
  induction s as [|c r IH]; intros cur Hs Hc; [reflexivity|].
  inversion Hs as [|? ? Hc0 Hr]; subst. cbn [crlf]. destruct (code c =? 10) eqn:E.
  - cbn [split_lines_aux]. change (code cr =? 10) with false. cbn [split_lines_aux].
    change (code lf =? 10) with true. rewrite E. change (code cr =? 13) with true.
    rewrite IH by (auto; constructor).
    destruct cur as [|x cur']; [reflexivity|]. inversion Hc as [|? ? Hx _]; subst.
    replace (code x =? 13) with false by (symmetry; apply N.eqb_neq; exact Hx). reflexivity.
  - cbn [split_lines_aux]. rewrite E. apply IH; [exact Hr | constructor; assumption].
Qed.
Theorem crlf_same_lines s : no_cr s -> split_lines (crlf s) = split_lines s.
Proof. intros H. unfold split_lines. apply split_crlf; [exact H | constructor]. Qed.
