(** C16 - no input makes the assembler panic, overflow its stack, or hang.
    PARTIAL BY NATURE.  The model keeps every partial operation of the code as an explicit [Panic]
    outcome (index out of bounds, unwrap, overflow under overflow checks); the theorems below show
    that these sites are guarded.  What no Gallina model can exhibit - the depth of the native stack,
    wall-clock time, the allocator - is exercised by ./check C16 in isolated worker processes (three
    deep-nesting inputs are open known findings).  Proofs: Proofs/TotalProofs.v. *)
From Coq Require Import List ZArith NArith String.
Import ListNotations.
Require Import AvraV.Model.Base AvraV.Model.Ast AvraV.Model.Eval AvraV.Model.Encode AvraV.Model.Parse AvraV.Model.Passes.
Require Import AvraV.Proofs.TotalProofs AvraV.Proofs.LayoutProofs.

(** Expression evaluation never panics: division by zero, overflow, shift amounts, unknown
    functions and symbols are all error values; cyclic definitions end at the depth limit. *)
Theorem C16_eval_total : forall f c e, is_panic (run f c e) = false.
Proof. exact run_np. Qed.
Print Assumptions C16_eval_total.

(** The encoder never panics: operands are fetched by position only after the operand count has
    been checked - for every operation and every operand list (missing, surplus, wrong kind). *)
Theorem C16_encoder_total : forall fuel c op args pc, is_panic (process fuel c op args pc) = false.
Proof. exact process_np. Qed.
Print Assumptions C16_encoder_total.

(** Directives never panic, whatever their operand list (empty, wrong kind, too long). *)
Theorem C16_directive_total : forall fuel inc d ops st line,
  (forall p s, is_panic (inc p s) = false) -> is_panic (directive_parse fuel inc d ops st line) = false.
Proof. exact directive_np. Qed.
Print Assumptions C16_directive_total.

(** Pass 1 never panics: a location counter that would leave the 32-bit address space is an error. *)
Theorem C16_pass1_total : forall t st ci, is_panic (pass1_item t st ci) = false.
Proof. exact pass1_item_np. Qed.
Print Assumptions C16_pass1_total.

(** No size is truncated on its way into the layout: a location counter plus ANY advance (an unbounded natural number: a
    reservation of 2^32 + 16 bytes is not a reservation of 16) that reaches 2^32 is an error naming the line, and what pass 1
    accepts keeps every counter below 2^32 - which, with the device check at the end of pass 1 (C12_pass1_capacity), bounds
    what pass 2 allocates by the device's memories. *)
From Coq Require Import Lia.
Theorem C16_no_truncation : forall line a b, (4294967296 <= a + b)%N -> advance line a b = Err (Some line).
Proof. intros line a b H. unfold advance, two32. destruct (a + b <? 4294967296)%N eqn:E; [apply N.ltb_lt in E; lia | reflexivity]. Qed.
Theorem C16_counter_bounded : forall line a b r, advance line a b = Ok r -> (r = a + b /\ a + b < two32)%N.
Proof. exact AvraV.Proofs.LayoutProofs.advance_ok. Qed.
Print Assumptions C16_no_truncation.

(** Termination: every function of the model is total (structural recursion on explicit fuel);
    cyclic symbol definitions and recursive macros end in an error at depth 64. *)
Definition outcome (src : string) : N :=
  match build_str 300 (list_ascii_of_string src) with Ok _ => 0 | Err _ => 1 | Panic => 2 | OutOfFuel => 3 end%N.
Definition nl := String (Ascii.ascii_of_N 10) EmptyString.
Example C16_examples :
  outcome ("mov r1" ++ nl) = 1%N /\ outcome (".org" ++ nl) = 1%N /\ outcome (".def a = b" ++ nl) = 1%N /\
  outcome (".equ x = y" ++ nl ++ ".equ y = x" ++ nl ++ ".dw x" ++ nl) = 1%N /\
  outcome (".macro m" ++ nl ++ "m" ++ nl ++ ".endm" ++ nl ++ "m" ++ nl) = 1%N /\
  outcome (".dw 99999999999999999999" ++ nl) = 1%N /\ outcome ("ldi r32, 1" ++ nl) = 1%N /\
  outcome (".org 0xFFFFFFFF" ++ nl ++ "nop" ++ nl) = 1%N /\ outcome (".org 0x7fffffff" ++ nl ++ "nop" ++ nl) = 1%N /\
  outcome (".eseg" ++ nl ++ ".byte 4294967312" ++ nl) = 1%N /\ outcome (".dseg" ++ nl ++ ".byte 0x100000000" ++ nl) = 1%N.
Proof. vm_compute. repeat split; reflexivity. Qed.

(** The size of an expansion is bounded like its depth: a body line that is longer than MAX_MACRO_LINE once the arguments are
    in it ends the build with an error naming the call - so an argument that mentions itself twice, doubling at every level of
    a self-calling macro, is refused after some sixteen levels and not after 2^64 characters. *)
Theorem C16_expansion_size_bounded : forall fuel inc macroses line name ops st body,
  lookup name macroses = Some body -> too_long (substitute ops body) = true ->
  macro_expand fuel inc macroses line name ops st = Err (Some line).
Proof. intros fuel inc macroses line name ops st body H1 H2. unfold macro_expand. rewrite H1. cbv zeta. rewrite H2. reflexivity. Qed.
Print Assumptions C16_expansion_size_bounded.
