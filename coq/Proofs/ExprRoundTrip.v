(** Instance of Proofs/ClimbProofs.v for the real expression grammar: operator tables regenerated
    from the precedence!{} block of src/document.rs (Gen/PrecTable.v), the character classes,
    identifier and literal parsers of Model/Grammar.v, decimal rendering of numbers (Model/Show.v). *)
From Coq Require Import List Arith Lia Bool Ascii NArith ZArith ZifyBool ZifyN ZifyNat.
Ltac Zify.zify_post_hook ::= Z.div_mod_to_equations.
Import ListNotations.
Require Import AvraV.Model.Base AvraV.Model.Ast AvraV.Model.Climb AvraV.Model.Grammar AvraV.Model.Show AvraV.Gen.PrecTable.
Require Import AvraV.Proofs.ClimbProofs.

Local Open Scope nat_scope.
Ltac all_ascii c := destruct c as [[|] [|] [|] [|] [|] [|] [|] [|]].

(** characters operator tokens are made of *)
Definition symc (c : ascii) : bool := existsb (Ascii.eqb c) (lit "|&^=!<>+-*/%~").

(** ---------------- character classes ---------------- *)
Lemma Hsym : forall c, symc c = true ->
  is_idch c = false /\ is_idstart c = false /\ is_digit c = false /\ is_sp c = false /\ Ascii.eqb c LP = false /\ Ascii.eqb c RP = false.
Proof. intros c. all_ascii c; intros H; try (vm_compute in H; discriminate); vm_compute; repeat split. Qed.
Lemma Hidstart : forall c, is_idstart c = true -> is_idch c = true /\ is_digit c = false.
Proof. intros c. all_ascii c; intros H; try (vm_compute in H; discriminate); vm_compute; split; reflexivity. Qed.
Lemma Hdigit : forall c, is_digit c = true -> is_idch c = true.
Proof. intros c H. unfold is_idch. rewrite H. reflexivity. Qed.
Lemma Hidch_sp : forall c, is_idch c = true -> is_sp c = false.
Proof. intros c. all_ascii c; intros H; try (vm_compute in H; discriminate); reflexivity. Qed.
Lemma HLP : is_idch LP = false /\ is_idstart LP = false /\ is_digit LP = false /\ is_sp LP = false.
Proof. vm_compute. repeat split. Qed.
Lemma HRP : is_idch RP = false /\ is_idstart RP = false /\ is_digit RP = false /\ is_sp RP = false /\ Ascii.eqb RP LP = false.
Proof. vm_compute. repeat split. Qed.

(** ---------------- identifiers ---------------- *)
Definition wf_id (n : str) : Prop := exists c a, n = c :: a /\ is_idstart c = true /\ forallb is_idch a = true.

Lemma take_while_app p a : forall r, forallb p a = true -> hd_ok (fun c => negb (p c)) r = true -> take_while p (a ++ r) = (a, r).
Proof.
  induction a as [|c a IH]; intros r Ha Hr; cbn [app].
  - destruct r as [|d r']; [reflexivity|]. cbn in *. apply negb_true_iff in Hr. rewrite Hr. reflexivity.
  - cbn in Ha. apply andb_prop in Ha. destruct Ha as (Hc & Ha). cbn [take_while]. rewrite Hc, (IH r Ha Hr). reflexivity.
Qed.
Lemma take_while_split p s : forall a b, take_while p s = (a, b) -> s = (a ++ b)%list /\ forallb p a = true.
Proof.
  induction s as [|c r IH]; intros a b H; cbn in H; [injection H as <- <-; auto|].
  destruct (p c) eqn:E; [|injection H as <- <-; auto].
  destruct (take_while p r) as [a' b'] eqn:E2. injection H as <- <-. destruct (IH _ _ eq_refl) as (-> & Hf). cbn. rewrite E, Hf. auto.
Qed.

Lemma H_id_ok : forall n r, wf_id n -> hd_ok (fun c => negb (is_idch c)) r = true -> id_parse (n ++ r) = Some (n, r).
Proof. intros n r (c & a & -> & Hc & Ha) Hr. cbn [app id_parse]. rewrite Hc, (take_while_app _ _ _ Ha Hr). reflexivity. Qed.
Lemma H_id_fail : forall s, hd_ok (fun c => negb (is_idstart c)) s = true -> id_parse s = None.
Proof. intros [|c r] H; [reflexivity|]. cbn in *. apply negb_true_iff in H. rewrite H. reflexivity. Qed.
Lemma H_id_hd : forall n, wf_id n -> hd_is is_idstart n.
Proof. intros n (c & a & -> & Hc & _). exists c, a. auto. Qed.
Lemma H_id_len : forall s n r, id_parse s = Some (n, r) -> length r < length s.
Proof.
  intros [|c s'] n r H; [discriminate|]. cbn in H. destruct (is_idstart c); [|discriminate].
  destruct (take_while is_idch s') as [a b] eqn:E. injection H as <- <-. apply take_while_split in E. destruct E as (-> & _).
  cbn. rewrite app_length. lia.
Qed.

(** ---------------- numbers: decimal rendering is read back ---------------- *)
Definition wf_num (k : N) : Prop := (k < i64_limit)%N.
Definition dchar (m : N) : ascii := ascii_of_N (48 + m mod 10).

Lemma dchar_facts m : is_digit (dchar m) = true /\ hex_val (dchar m) = Some (m mod 10)%N /\ is_oct (dchar m) = (m mod 10 <? 8)%N.
Proof.
  unfold dchar. pose proof (N.mod_upper_bound m 10 ltac:(discriminate)) as H.
  assert (C : (m mod 10 = 0 \/ m mod 10 = 1 \/ m mod 10 = 2 \/ m mod 10 = 3 \/ m mod 10 = 4 \/ m mod 10 = 5 \/ m mod 10 = 6 \/
               m mod 10 = 7 \/ m mod 10 = 8 \/ m mod 10 = 9)%N) by lia.
  destruct C as [E|[E|[E|[E|[E|[E|[E|[E|[E|E]]]]]]]]]; rewrite E; vm_compute; auto.
Qed.

Lemma pos_digits_S f n acc : pos_digits (S f) n acc = if (n <? 10)%N then dchar n :: acc else pos_digits f (n / 10) (dchar n :: acc).
Proof. reflexivity. Qed.

(** with enough fuel: all digits, value, and no leading zero *)
Lemma pos_digits_spec : forall f n acc, (n < 10 ^ N.of_nat (S f))%N ->
  exists ds, pos_digits (S f) n acc = (ds ++ acc)%list /\ ds <> [] /\ forallb is_digit ds = true /\
             (forall v, digits_val 10 ds v = (v * 10 ^ N.of_nat (length ds) + n)%N) /\
             (forall c r, ds = c :: r -> c = dchar 0 -> n = 0%N /\ r = []).
Proof.
  induction f as [|f IH]; intros n acc Hn; rewrite pos_digits_S; destruct (dchar_facts n) as (Hd & Hv & _);
    (destruct (n <? 10)%N eqn:E; [apply N.ltb_lt in E | apply N.ltb_ge in E]).
  1,3: exists [dchar n]; (split; [reflexivity|]); (split; [discriminate|]); (split; [cbn; rewrite Hd; reflexivity|]); split;
       [ intros v; cbn [digits_val length]; rewrite Hv, N.mod_small by exact E; change (N.of_nat 1) with 1%N; rewrite N.pow_1_r; reflexivity
       | intros c r [= <- <-] Hc; unfold dchar in Hc; apply (f_equal N_of_ascii) in Hc;
         rewrite !N_ascii_embedding in Hc by (pose proof (N.mod_upper_bound n 10 ltac:(discriminate)); lia);
         split; [lia | reflexivity] ].
  - exfalso. change (N.of_nat 1) with 1%N in Hn. rewrite N.pow_1_r in Hn. lia.
  - assert (Hq : (n / 10 < 10 ^ N.of_nat (S f))%N).
    { apply N.div_lt_upper_bound; [discriminate|]. rewrite (Nat2N.inj_succ (S f)), N.pow_succ_r' in Hn. exact Hn. }
    destruct (IH (n / 10)%N (dchar n :: acc) Hq) as (ds & Hp & Hne & Hall & Hval & Hz).
    exists (ds ++ [dchar n])%list. split; [rewrite Hp, <- app_assoc; reflexivity|]. split; [destruct ds; discriminate|].
    split; [rewrite forallb_app, Hall; cbn; rewrite Hd; reflexivity|]. split.
    + intros v. assert (G : forall l v0, digits_val 10 (l ++ [dchar n]) v0 = (digits_val 10 l v0 * 10 + n mod 10)%N).
      { induction l as [|x l IHl]; intros v0; cbn [app digits_val]; [rewrite Hv; reflexivity | apply IHl]. }
      rewrite G, Hval, app_length. cbn [length]. rewrite Nat.add_1_r, Nat2N.inj_succ, N.pow_succ_r'.
      pose proof (N.div_mod n 10 ltac:(discriminate)) as Hdm.
      remember (n / 10)%N as q. remember (n mod 10)%N as r0. remember (10 ^ N.of_nat (length ds))%N as P.
      rewrite Hdm. ring.
    + intros c r Hc Hc0. destruct ds as [|c' ds']; [contradiction|]. cbn in Hc. injection Hc as <- _.
      destruct (Hz c' ds' eq_refl Hc0) as (Hz0 & _). assert (1 <= n / 10)%N by (apply N.div_le_lower_bound; [discriminate | lia]). lia.
Qed.

Lemma show_N_spec k : wf_num k ->
  exists ds, show_N k = ds /\ ds <> [] /\ forallb is_digit ds = true /\ digits_val 10 ds 0 = k /\
             (forall c r, ds = c :: r -> c = dchar 0 -> k = 0%N /\ r = []).
Proof.
  intros Hk. unfold show_N.
  assert (Hn : (k < 10 ^ N.of_nat 80)%N).
  { unfold wf_num, i64_limit in Hk. eapply N.lt_trans; [exact Hk|]. vm_compute. reflexivity. }
  destruct (pos_digits_spec 79 k [] Hn) as (ds & Hp & Hne & Hall & Hval & Hz).
  exists ds. rewrite Hp, app_nil_r. split; [reflexivity|]. split; [exact Hne|]. split; [exact Hall|].
  split; [rewrite Hval; lia | exact Hz].
Qed.

Lemma digit_not c (d : ascii) : is_digit c = true -> is_digit d = false -> Ascii.eqb d c = false.
Proof. intros Hc Hd. destruct (Ascii.eqb_spec d c); [subst; congruence | reflexivity]. Qed.

Lemma hd_weaken (p q : ascii -> bool) r : (forall c, q c = true -> p c = true) ->
  hd_ok (fun c => negb (p c)) r = true -> hd_ok (fun c => negb (q c)) r = true.
Proof.
  intros H. destruct r as [|c r']; [reflexivity|]. cbn. intros Hp. apply negb_true_iff in Hp. apply negb_true_iff.
  destruct (q c) eqn:E; [apply H in E; congruence | reflexivity].
Qed.
Lemma oct_digit c : is_oct c = true -> is_digit c = true.
Proof. all_ascii c; intros H; try (vm_compute in H; discriminate); reflexivity. Qed.

(** a non-identifier character after the digits: none of the prefixed alternatives of e_const applies *)
Lemma strip_two c0 (x : ascii) r : is_idch x = true -> hd_ok (fun c => negb (is_idch c)) r = true -> strip [c0; x] (c0 :: r) = None.
Proof.
  intros Hx Hr. cbn. rewrite Ascii.eqb_refl. destruct r as [|d r']; [reflexivity|]. cbn in Hr. apply negb_true_iff in Hr.
  destruct (Ascii.eqb_spec x d); [subst; congruence | reflexivity].
Qed.

Lemma H_num_ok : forall k r, wf_num k -> hd_ok (fun c => negb (is_idch c)) r = true -> num_parse (show_N k ++ r) = Some (k, r).
Proof.
  intros k r Hk Hr. destruct (show_N_spec k Hk) as (ds & -> & Hne & Hall & Hval & Hz).
  destruct ds as [|c ds']; [contradiction|]. cbn [forallb] in Hall. apply andb_prop in Hall. destruct Hall as (Hc & Hds).
  assert (Hdec : radix_alt is_digit 10 ((c :: ds') ++ r) = Some (k, r)).
  { unfold radix_alt. rewrite (take_while_app is_digit (c :: ds') r); [| cbn; rewrite Hc, Hds; reflexivity | apply (hd_weaken is_idch); [apply Hdigit | exact Hr]].
    rewrite Hval. unfold wf_num in Hk. apply N.ltb_lt in Hk. rewrite Hk. reflexivity. }
  unfold num_parse, e_const.
  assert (H1 : strip (lit "$") ((c :: ds') ++ r) = None).
  { change (strip (lit "$") ((c :: ds') ++ r)) with (if Ascii.eqb "$" c then Some (ds' ++ r)%list else None).
    rewrite (digit_not c "$"%char Hc eq_refl). reflexivity. }
  rewrite H1. cbn [or_opt].
  destruct (Ascii.eqb_spec c (dchar 0)) as [E0|N0].
  - destruct (Hz c ds' eq_refl E0) as (-> & ->). subst c. cbn [app].
    change (strip (lit "0x") (dchar 0 :: r)) with (strip [dchar 0; "x"%char] (dchar 0 :: r)).
    change (strip (lit "0b") (dchar 0 :: r)) with (strip [dchar 0; "b"%char] (dchar 0 :: r)).
    rewrite (strip_two (dchar 0) "x"%char r eq_refl Hr), (strip_two (dchar 0) "b"%char r eq_refl Hr). cbn [or_opt].
    change (strip (lit "0") (dchar 0 :: r)) with (Some r).
    assert (Ho : radix_alt is_oct 8 r = None).
    { unfold radix_alt. change r with ([] ++ r)%list at 1. rewrite (take_while_app is_oct [] r eq_refl); [reflexivity|].
      apply (hd_weaken is_idch); [intros x Hx; apply Hdigit, oct_digit, Hx | exact Hr]. }
    cbv beta iota. rewrite Ho. cbn [or_opt]. cbn [app] in Hdec. rewrite Hdec. reflexivity.
  - assert (Hz0 : Ascii.eqb "0" c = false) by (destruct (Ascii.eqb_spec "0"%char c); [subst; exfalso; apply N0; reflexivity | reflexivity]).
    cbn [app lit list_ascii_of_string strip]. rewrite Hz0. cbn [or_opt]. cbn [app] in Hdec. rewrite Hdec. reflexivity.
Qed.

Lemma H_num_hd : forall k, wf_num k -> hd_is is_digit (show_N k).
Proof.
  intros k Hk. destruct (show_N_spec k Hk) as (ds & -> & Hne & Hall & _). destruct ds as [|c ds']; [contradiction|].
  cbn in Hall. apply andb_prop in Hall. exists c, ds'. tauto.
Qed.

Lemma H_num_fail : forall c r, symc c = true \/ is_idstart c = true -> num_parse (c :: r) = None.
Proof.
  intros c r. all_ascii c; intros H; try (vm_compute in H; destruct H; discriminate); reflexivity.
Qed.

Lemma radix_alt_len p b s v r : radix_alt p b s = Some (v, r) -> length r < length s.
Proof.
  unfold radix_alt. destruct (take_while p s) as [ds r'] eqn:E. apply take_while_split in E. destruct E as (-> & _).
  destruct ds as [|c ds]; [discriminate|]. destruct (_ <? _)%N; [|discriminate]. intros [= _ <-]. cbn. rewrite app_length. lia.
Qed.
Lemma utf8_len s v r : utf8_char s = Some (v, r) -> length r < length s.
Proof.
  destruct s as [|c s']; [discriminate|]. cbn [utf8_char].
  repeat match goal with
         | |- context [if ?x then _ else _] => destruct x
         | |- context [match ?x with _ => _ end] => destruct x
         end; intros [= _ <-]; cbn; lia.
Qed.
Lemma H_num_len : forall s k r, num_parse s = Some (k, r) -> length r < length s.
Proof.
  intros s k r. unfold num_parse, e_const.
  repeat match goal with
         | |- context [strip ?t s] => let E := fresh "E" in destruct (strip t s) eqn:E; [apply strip_len in E; cbn in E |]
         end;
  repeat match goal with
         | |- context [radix_alt ?p ?b ?x] => let E := fresh "R" in destruct (radix_alt p b x) as [[? ?]|] eqn:E; [apply radix_alt_len in E |]
         end; cbn [or_opt]; try (intros [= _ <-]; lia).
  all: unfold ch_lit; destruct s as [|q r0]; try discriminate; destruct (code q =? 39)%N; try discriminate;
       destruct (utf8_char r0) as [[v r1]|] eqn:U; try discriminate; apply utf8_len in U;
       destruct (_ || _); try discriminate; destruct r1 as [|q2 r2]; try discriminate; destruct (code q2 =? 39)%N; try discriminate;
       intros [= _ <-]; cbn in *; lia.
Qed.

(** ---------------- the operator tables ---------------- *)
Definition lb (o : binop) : nat :=
  match o with
  | BLOr => 0 | BLAnd => 1 | BOr => 2 | BXor => 3 | BAnd => 4 | BEq | BNe => 5 | BLt | BLe | BGt | BGe => 6
  | BShl | BShr => 7 | BAdd | BSub => 8 | BMul | BDiv | BRem => 9
  end.
Definition tb (o : binop) : str := lit (binop_tok o).
Definition lu (u : unop) : nat := 10.
Definition tu (u : unop) : str := lit (unop_tok u).

Definition starterc := starter unop ptab is_idstart is_digit.
Definition badc := bad unop ptab symc.

Lemma HPsym : forall l t u, In (l, t, u) ptab -> hd_is symc t.
Proof.
  intros l t u H. unfold ptab in H. cbn [In] in H.
  repeat (destruct H as [H|H]; [injection H as <- <- <-; eexists _, _; split; [reflexivity | vm_compute; reflexivity] |]). destruct H.
Qed.
Lemma HIsym : forall l t o, In (l, t, o) itab -> hd_is symc t.
Proof.
  intros l t o H. unfold itab in H. cbn [In] in H.
  repeat (destruct H as [H|H]; [injection H as <- <- <-; eexists _, _; split; [reflexivity | vm_compute; reflexivity] |]). destruct H.
Qed.

(** how a table token [t] relates to the token [tok] actually in the text (followed by the start of an
    operand): it does not match, or it matches a proper prefix and leaves a character no operand starts with *)
Definition after_opc : str -> Prop := after_op unop ptab is_sp is_idstart is_digit.
Fixpoint pair_ok (t tok : str) : bool :=
  match t, tok with
  | [], [] => false
  | [], d :: _ => badc d
  | c :: _, [] => negb (starterc c) && negb (is_sp c)
  | c :: t', d :: tok' => if Ascii.eqb c d then pair_ok t' tok' else true
  end.
Lemma pair_ok_sound t : forall tok s, pair_ok t tok = true -> after_opc s ->
  strip t (tok ++ s) = None \/ exists r, strip t (tok ++ s) = Some r /\ hd_is badc r.
Proof.
  induction t as [|c t' IH]; intros [|d tok'] s H Hs; cbn [pair_ok] in H.
  - discriminate.
  - right. exists ((d :: tok') ++ s)%list. split; [reflexivity|]. exists d, (tok' ++ s)%list. auto.
  - apply andb_prop in H. destruct H as (H1 & H2). apply negb_true_iff in H1. apply negb_true_iff in H2.
    left. cbn [app]. destruct s as [|x r]; [reflexivity|]. cbn [strip].
    destruct (Ascii.eqb_spec c x) as [<-|]; [|reflexivity]. exfalso.
    unfold after_opc, after_op in Hs. cbn [Climb.skip_sp] in Hs. rewrite H2 in Hs. destruct Hs as (y & r' & [= <- <-] & Hy).
    unfold starterc in H1. congruence.
  - cbn [app strip]. destruct (Ascii.eqb c d); [apply IH; assumption | left; reflexivity].
Qed.

(** position of an operator's own entry, found by its token *)
Fixpoint split_tok {A} (tok : str) (tbl : list (nat * str * A)) : list (nat * str * A) * list (nat * str * A) :=
  match tbl with
  | [] => ([], [])
  | e :: r => if str_eqb (snd (fst e)) tok then ([], r) else let '(a, b) := split_tok tok r in (e :: a, b)
  end.

Lemma HPpos : forall u, exists pre post, ptab = (pre ++ (lu u, tu u, u) :: post)%list /\
  forall l t u', In (l, t, u') pre -> forall s, strip t (tu u ++ s) = None.
Proof.
  intros u. exists (fst (split_tok (tu u) ptab)), (snd (split_tok (tu u) ptab)).
  destruct u; (split; [reflexivity|]); intros l t u' Hin s; vm_compute in Hin;
    repeat (destruct Hin as [Hin|Hin]; [injection Hin as <- <- <-; reflexivity|]); destruct Hin.
Qed.

Lemma HIpos : forall o, exists pre post, itab = (pre ++ (lb o, tb o, o) :: post)%list /\
  forall l t o', In (l, t, o') pre -> forall s, after_opc s ->
    strip t (tb o ++ s) = None \/ exists r, strip t (tb o ++ s) = Some r /\ hd_is badc r.
Proof.
  intros o. exists (fst (split_tok (tb o) itab)), (snd (split_tok (tb o) itab)).
  destruct o; (split; [reflexivity|]); intros l t o' Hin s Hs; vm_compute in Hin;
    repeat (destruct Hin as [Hin|Hin]; [injection Hin as <- <- <-; apply pair_ok_sound; [vm_compute; reflexivity | exact Hs]|]); destruct Hin.
Qed.

Lemma HIstop : forall o minp s l t o', lb o < minp -> after_opc s -> In (l, t, o') itab -> minp <= l ->
  strip t (tb o ++ s) = None \/ exists r, strip t (tb o ++ s) = Some r /\ hd_is badc r.
Proof.
  intros o minp s l t o' Hlt Hs Hin Hle. unfold itab in Hin. cbn [In] in Hin.
  destruct o; cbn [lb] in Hlt;
    repeat (destruct Hin as [Hin|Hin];
            [injection Hin as <- <- <-; first [exfalso; lia | apply pair_ok_sound; [vm_compute; reflexivity | exact Hs]]|]);
    destruct Hin.
Qed.

(** ---------------- the theorems ---------------- *)
Definition cexpr := Climb.expr binop unop.
Definition wfe : cexpr -> Prop := wf binop unop wf_id wf_num.
Definition render_np (np : nat -> cexpr -> bool) : nat -> cexpr -> str := render binop unop show_N lb tb lu tu np.
Definition np_sound (np : nat -> cexpr -> bool) : Prop := forall ctx e, must_paren binop unop lb lu ctx e = true -> np ctx e = true.

(** for every printer that parenthesises at least where the table of levels requires it, the grammar
    reads the printed text back as the same tree, consuming all of it - with the fuel the model uses *)
Theorem climb_roundtrip np e : np_sound np -> wfe e ->
  climb_expr (expr_fuel (render_np np 0 e)) 0 (render_np np 0 e) = Some (e, []).
Proof.
  intros Hnp Hwf. unfold climb_expr, expr_fuel, render_np.
  apply (roundtrip_fuel binop unop itab ptab is_sp is_idch is_idstart is_digit id_parse num_parse show_N wf_id wf_num lb tb lu tu symc np);
    first [ exact Hnp | exact Hsym | exact Hidstart | exact Hdigit | exact Hidch_sp | exact HLP | exact HRP | exact H_id_ok | exact H_id_fail
          | exact H_id_hd | exact H_num_ok | exact H_num_fail | exact H_num_hd | exact HPsym | exact HIsym | exact HPpos | exact HIpos
          | exact HIstop | exact H_id_len | exact H_num_len | exact Hwf ].
Qed.

Corollary parse_roundtrip np e : np_sound np -> wfe e -> parse_expr (render_np np 0 e) = Some (conv e).
Proof. intros Hnp Hwf. unfold parse_expr, expr_rule. rewrite (climb_roundtrip np e Hnp Hwf). reflexivity. Qed.

(** the printer of the implementation (fmt::Display for Expr: every binary and unary node in parentheses) *)
Definition np_all (ctx : nat) (e : cexpr) : bool := true.
Lemma np_all_sound : np_sound np_all.
Proof. intros ctx e _. reflexivity. Qed.
(** the printer that writes only the parentheses the documented table requires *)
Definition np_min (ctx : nat) (e : cexpr) : bool := must_paren binop unop lb lu ctx e.
Lemma np_min_sound : np_sound np_min.
Proof. intros ctx e H. exact H. Qed.

Require Import AvraV.Model.Display.
Lemma show_Z_N k : show_Z (Z.of_N k) = show_N k.
Proof. destruct k; reflexivity. Qed.

(** fmt::Display of an expression is the always-parenthesising printer *)
Lemma display_is_render : forall e ctx, display_expr (conv e) = render_np np_all ctx e.
Proof.
  induction e as [n|k|n a IHa|o l IHl r IHr|u x IHx]; intros ctx; unfold render_np in *; cbn [conv display_expr render needs_paren np_all].
  - reflexivity.
  - apply show_Z_N.
  - rewrite (IHa 0). reflexivity.
  - rewrite (IHl (lb o)), (IHr (S (lb o))). unfold tb. cbn [app]. rewrite <- !app_assoc. reflexivity.
  - rewrite (IHx (S (lu u))). unfold tu. cbn [app]. rewrite <- !app_assoc. reflexivity.
Qed.

(** what a macro argument is turned into reads back as the argument: for every well-formed
    expression (identifiers of the grammar, constants below 2^63) *)
Theorem display_roundtrip e : wfe e -> parse_expr (display_expr (conv e)) = Some (conv e).
Proof. intros Hwf. rewrite (display_is_render e 0). apply parse_roundtrip; [exact np_all_sound | exact Hwf]. Qed.

(** in context: what follows must not glue onto the argument - no identifier character right after
    it, and the next non-blank character neither '(' nor an operator character *)
Definition neutral_rest : str -> Prop := neutral is_sp is_idch symc.
Theorem climb_roundtrip_ctx np e rest : np_sound np -> wfe e -> neutral_rest rest ->
  expr_rule (render_np np 0 e ++ rest) = Some (conv e, rest).
Proof.
  intros Hnp Hwf Hn. unfold expr_rule, climb_expr, expr_fuel, render_np.
  rewrite (roundtrip_ctx_fuel binop unop itab ptab is_sp is_idch is_idstart is_digit id_parse num_parse show_N wf_id wf_num lb tb lu tu symc np);
    first [ reflexivity | exact Hnp | exact Hsym | exact Hidstart | exact Hdigit | exact Hidch_sp | exact HLP | exact HRP | exact H_id_ok | exact H_id_fail
          | exact H_id_hd | exact H_num_ok | exact H_num_fail | exact H_num_hd | exact HPsym | exact HIsym | exact HPpos | exact HIpos
          | exact HIstop | exact H_id_len | exact H_num_len | exact Hwf | exact Hn ].
Qed.
Theorem display_roundtrip_ctx e rest : wfe e -> neutral_rest rest ->
  expr_rule (display_expr (conv e) ++ rest) = Some (conv e, rest).
Proof. intros Hwf Hn. rewrite (display_is_render e 0). apply climb_roundtrip_ctx; [exact np_all_sound | exact Hwf | exact Hn]. Qed.

(** ---------------- surface variation of expressions: blanks and redundant parentheses ---------------- *)
Definition dcexpr := dexpr binop unop.
Definition dwfe : nat -> dcexpr -> Prop := dwf binop unop is_sp wf_id wf_num lb lu.
Definition drender_e : dcexpr -> str := drender binop unop show_N tb tu.
Definition erase_e : dcexpr -> cexpr := erase binop unop.

Theorem surface_roundtrip d : dwfe 0 d -> parse_expr (drender_e d) = Some (conv (erase_e d)).
Proof.
  intros Hwf. unfold parse_expr, expr_rule, climb_expr, expr_fuel, drender_e, erase_e.
  rewrite (droundtrip_fuel binop unop itab ptab is_sp is_idch is_idstart is_digit id_parse num_parse show_N wf_id wf_num lb tb lu tu symc);
    first [ reflexivity | exact Hsym | exact Hidstart | exact Hdigit | exact Hidch_sp | exact HLP | exact HRP | exact H_id_ok | exact H_id_fail
          | exact H_id_hd | exact H_num_ok | exact H_num_fail | exact H_num_hd | exact HPsym | exact HIsym | exact HPpos | exact HIpos
          | exact HIstop | exact H_id_len | exact H_num_len | exact Hwf ].
Qed.
Theorem surface_roundtrip_ctx d rest : dwfe 0 d -> neutral_rest rest -> expr_rule (drender_e d ++ rest) = Some (conv (erase_e d), rest).
Proof.
  intros Hwf Hn. unfold expr_rule, climb_expr, expr_fuel, drender_e, erase_e.
  rewrite (droundtrip_ctx_fuel binop unop itab ptab is_sp is_idch is_idstart is_digit id_parse num_parse show_N wf_id wf_num lb tb lu tu symc);
    first [ reflexivity | exact Hsym | exact Hidstart | exact Hdigit | exact Hidch_sp | exact HLP | exact HRP | exact H_id_ok | exact H_id_fail
          | exact H_id_hd | exact H_num_ok | exact H_num_fail | exact H_num_hd | exact HPsym | exact HIsym | exact HPpos | exact HIpos
          | exact HIstop | exact H_id_len | exact H_num_len | exact Hwf | exact Hn ].
Qed.
