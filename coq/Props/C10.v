(** C10 - symbols resolve by the documented binding rules or the build fails.
    Property theorems only; proofs are in Proofs/SymProofs.v (and Proofs/EncProofs.v for aliases). *)
From Coq Require Import List ZArith NArith String.
Import ListNotations.
Require Import AvraV.Model.Base AvraV.Model.Ast AvraV.Model.Device AvraV.Model.Eval AvraV.Model.Encode.
Require Import AvraV.Model.Parse AvraV.Model.Passes AvraV.Spec.Isa AvraV.Proofs.EncCheck AvraV.Proofs.EncProofs AvraV.Proofs.SymProofs.

(** Letter case: labels, .equ, .set, .def and the special symbols are looked up through the
    lower-case form of the name only; hence a reference evaluates the same in any letter case.
    (Preprocessor flags made with .define are matched as written; the hypothesis excludes them.) *)
Theorem C10_case : forall c n n' f,
  lower n = lower n' -> get_define c n = None -> get_define c n' = None ->
  run f c (EIdent n) = run f c (EIdent n') /\ get_def c n = get_def c n'.
Proof. intros. split; [apply run_case; assumption | apply (lookups_case c n n'); assumption]. Qed.
Print Assumptions C10_case.

(** No silent default: a name bound nowhere is an error of the evaluation, never a value. *)
Theorem C10_undefined_fails : forall c n f, get_expr c n = None -> run (S f) c (EIdent n) = Err None.
Proof. exact unbound_fails. Qed.

(** Labels: defining a label twice (in any letter case - the grammar lower-cases label names) fails
    at the second definition; a label entered by pass 1 has the position of the item that follows
    and stays visible for all of pass 1 - pass 2, which evaluates every reference, only starts
    afterwards, so references may precede the definition. *)
Theorem C10_duplicate_label : forall t c cur out cp name,
  lookup name (labels c) <> None -> pass1_item t (c, cur, out) (cp, ILabel name) = Err (Some (fst cp)).
Proof. exact duplicate_label_fails. Qed.
Theorem C10_label_value : forall t c cur out cp name c' cur' out',
  pass1_item t (c, cur, out) (cp, ILabel name) = Ok (c', cur', out') ->
  lookup name (labels c') = Some (t, cur) /\ cur' = cur.
Proof. exact label_defined. Qed.
Theorem C10_labels_persist : forall t its st st' n v,
  fold_left (fun acc ci => do a <- acc; pass1_item t a ci) its (Ok st) = Ok st' ->
  lookup n (labels (fst (fst st))) = Some v -> lookup n (labels (fst (fst st'))) = Some v.
Proof. exact labels_persist. Qed.
Print Assumptions C10_labels_persist.

(** .set: after an assignment every reference (in any case) sees exactly that value until the next
    assignment - first definition and re-assignment. *)
Theorem C10_set_first : forall fuel t c cur out cp name e v,
  run fuel (ctx_set_pc c cur) e = Ok v -> exist (ctx_set_pc c cur) (lower name) = false ->
  exists c', pass2_item fuel t (c, cur, out) (cp, ISet name e) = Ok (c', cur, out) /\
    forall name', lower name' = lower name -> get_set c' name' = Some (EConst v).
Proof. exact set_latest. Qed.
Theorem C10_set_again : forall fuel t c cur out cp name e v old,
  run fuel (ctx_set_pc c cur) e = Ok v -> lookup (lower name) (sets c) = Some old ->
  exists c', pass2_item fuel t (c, cur, out) (cp, ISet name e) = Ok (c', cur, out) /\
    forall name', lower name' = lower name -> get_set c' name' = Some (EConst v).
Proof. exact set_reassign. Qed.
Print Assumptions C10_set_again.

(** .def / .undef: the alias (any case) resolves to its register from the .def on, and to nothing
    after .undef; .undef of an unknown alias is an error naming the line; and an instruction that
    uses the alias is the instruction that uses the register (the encoder sees the same operand). *)
Theorem C10_def : forall fuel t c cur out cp alias reg r,
  reg_of_name reg = Some r -> exist (ctx_set_pc c cur) (lower alias) = false ->
  exists c', pass2_item fuel t (c, cur, out) (cp, IDef alias (EIdent reg)) = Ok (c', cur, out) /\
    forall a', lower a' = lower alias -> get_def c' a' = Some r.
Proof. exact def_scope. Qed.
Theorem C10_undef : forall fuel t c cur out cp alias,
  match pass2_item fuel t (c, cur, out) (cp, IUndef alias) with
  | Ok (c', _, _) => forall a', lower a' = lower alias -> get_def c' a' = None
  | Err l => l = Some (fst cp) /\ lookup (lower alias) (defs c) = None
  | _ => False
  end.
Proof. exact undef_scope. Qed.
Theorem C10_alias_is_register : forall fuel cx name n,
  get_def cx name = Some n -> run fuel cx (EIdent name) = Err None ->
  view_of fuel cx (OE (EIdent name)) = view_of fuel cx (OR8 n).
Proof. intros. rewrite (view_alias fuel cx name n) by assumption. rewrite view_reg. reflexivity. Qed.
Print Assumptions C10_alias_is_register.

Definition code_of (src : string) : option (list N) :=
  match build_str 200 (list_ascii_of_string src) with Ok b => Some (b_code b) | _ => None end.
Definition nl := String (Ascii.ascii_of_N 10) EmptyString.
Example C10_examples :
  code_of (".set v = 1" ++ nl ++ " .dw v" ++ nl ++ ".set V = v + 1" ++ nl ++ " .dw v" ++ nl) = Some [1; 0; 2; 0]%N /\
  code_of (".def Tmp = r16" ++ nl ++ ".undef TMP" ++ nl ++ " mov tmp, r1" ++ nl) = None /\
  code_of (" .dw fwd" ++ nl ++ "nop" ++ nl ++ "Fwd: nop" ++ nl) = Some [2; 0; 0; 0; 0; 0]%N /\
  code_of (" .dw nowhere" ++ nl) = None /\ code_of ("a: nop" ++ nl ++ "A: nop" ++ nl) = None /\
  code_of (".def Tmp = r16" ++ nl ++ " mov TMP, r1" ++ nl) = code_of (" mov r16, r1" ++ nl).
Proof. vm_compute. repeat split; reflexivity. Qed.
