"""C02 - label values and .org positions equal where the bytes really land.
Search oracle: an independent reference layout (this file): three location counters, `.org N` = the next item lands at N
(never backwards), label = position of the following item (word offset in flash, byte offset in EEPROM, RAM start +
offset in the data segment), images = the items at those positions with zero gaps.  Label values are made visible through
a `.dw <label>` table at the end of the code."""
import random

from . import gen, progcheck as P, progrun

PROP = "C02"


def enc_jmp(op, k):
    w1 = (0x940C if op == "jmp" else 0x940E) | ((k >> 16) & 1) | (((k >> 17) & 0x1F) << 4)
    return w1.to_bytes(2, "little") + (k & 0xFFFF).to_bytes(2, "little")


STRS = ["a", "ab", "abc", "µs", "25°C", "é", "€uro", "日本", "x😀", "naïve café", ""]


def db_operands(rng):
    """operands of a .db line: numbers and strings (also non-ASCII: a string occupies its UTF-8 bytes) -> (bytes, text)"""
    bs, parts = bytearray(), []
    for _ in range(rng.randrange(1, 6)):
        if rng.random() < 0.25:
            t = rng.choice(STRS)
            parts.append('"%s"' % t)
            bs += t.encode("utf-8")
        else:
            b = rng.randrange(1, 255)
            parts.append(str(b))
            bs.append(b)
    return bytes(bs), ", ".join(parts)


def gen_case(rng, devs):
    dev = rng.choice(devs) if rng.random() < 0.5 else None
    ram_start = dev[2] if dev else 0x60
    avr8l = bool(dev and "Avr8l" in dev[5])
    nojmp = bool(dev and "NoJmp" in dev[5])
    tiny = bool(dev and "Tiny1x" in dev[5])
    lines = [".device %s" % dev[0]] if dev else []
    pos = {"c": 0, "d": ram_start, "e": 0}
    code, eep = bytearray(), bytearray()
    labels = {}          # name -> value
    fixups = []          # (offset in code, label, kind) resolved at the end
    seg = "c"
    pending = None
    ok = True

    def place(nbytes_or_none):
        """apply a pending .org to the current segment; returns False on backwards .org"""
        nonlocal pending, ok
        if pending is not None:
            if pending < pos[seg]:
                ok = False
            else:
                if seg == "c":
                    code.extend(bytes(2 * (pending - pos["c"])))
                elif seg == "e":
                    eep.extend(bytes(pending - pos["e"]))
                pos[seg] = pending
            pending = None

    n = rng.randrange(3, 16)
    for i in range(n):
        k = rng.random()
        if k < 0.12:
            place(None) if False else None
            new = rng.choice("cde")
            # a pending .org that was never followed by an item is dropped with its (empty) segment
            if new != seg:
                pending = None
            seg = new
            lines.append({"c": ".cseg", "d": ".dseg", "e": ".eseg"}[seg])
            continue
        if k < 0.24:
            base = pos[seg]
            target = base + rng.choice([0, 1, 2, 3, 8, 17]) if rng.random() < 0.85 else max(0, base - rng.randrange(1, 4))
            if target == 0:
                target = base + 1
            lines.append(".org %s" % rng.choice([str(target), "0x%x" % target]))
            pending = target
            continue
        if k < 0.42:
            name = "L%d" % len(labels)
            # a label is placed like an item: a pending .org takes effect here, the gap is zero-filled
            place(None)
            labels[name] = pos[seg]
            lines.append("%s:" % name)
            continue
        # an item
        if seg == "c":
            place(None)
            c = rng.random()
            if c < 0.3:
                lines.append("  nop")
                code.extend(b"\0\0")
                pos["c"] += 1
            elif c < 0.45 and not nojmp:
                op = rng.choice(["jmp", "call"])
                tgt = rng.choice(list(labels)) if labels and rng.random() < 0.7 else None
                if tgt and tgt in labels and isinstance(labels[tgt], int) and labels[tgt] < 4194304:
                    lines.append("  %s %s" % (op, tgt))
                    code.extend(enc_jmp(op, labels[tgt]))
                else:
                    lines.append("  %s 0x1234" % op)
                    code.extend(enc_jmp(op, 0x1234))
                pos["c"] += 2
            elif c < 0.55 and not tiny:
                lines.append("  lds r16, 0x80")
                if avr8l:
                    code.extend((0xA000).to_bytes(2, "little"))      # r16 -> field 0; k=0x80: k6..k4 = 000
                    pos["c"] += 1
                else:
                    code.extend(b"\x00\x91\x80\x00")
                    pos["c"] += 2
            elif c < 0.8:
                bs, text = db_operands(rng)
                lines.append("  .db " + text)
                code.extend(bs + (b"\0" if len(bs) % 2 else b""))
                pos["c"] += (len(bs) + 1) // 2
            else:
                w = rng.choice([("dw", 2), ("dd", 4), ("dq", 8)])
                vals = [rng.randrange(0, 60000) for _ in range(rng.randrange(1, 3))]
                lines.append("  .%s %s" % (w[0], ", ".join(map(str, vals))))
                for v in vals:
                    code.extend(v.to_bytes(w[1], "little"))
                pos["c"] += len(vals) * w[1] // 2
        elif seg == "e":
            place(None)
            r = rng.random()
            if r < 0.4:
                bs, text = db_operands(rng)
                lines.append("  .db " + text)
                eep.extend(bs)
                pos["e"] += len(bs)
            elif r < 0.65:
                # word data in the byte-addressed EEPROM lands wherever the counter stands, odd offsets included
                w = rng.choice([("dw", 2), ("dd", 4), ("dq", 8)])
                vals = [rng.randrange(0, 60000) for _ in range(rng.randrange(1, 3))]
                lines.append("  .%s %s" % (w[0], ", ".join(map(str, vals))))
                for v in vals:
                    eep.extend(v.to_bytes(w[1], "little"))
                pos["e"] += len(vals) * w[1]
            else:
                m = rng.randrange(0, 7)
                lines.append("  .byte %d" % m)
                eep.extend(bytes(m))
                pos["e"] += m
        else:
            place(None)
            m = rng.randrange(0, 9)
            lines.append("  .byte %d" % m)
            pos["d"] += m
    # the label table: continues the code segment
    if labels:
        lines.append(".cseg")
        if seg != "c":
            pending = None
        seg = "c"
        place(None)
        for name, v in labels.items():
            lines.append("  .dw %s" % name)
            code.extend((v % 65536).to_bytes(2, "little"))
            pos["c"] += 1
            if v > 65535:
                ok = False
    fill = pos["d"] - ram_start
    return "\n".join(lines) + "\n", (("OK", bytes(code).hex(), bytes(eep).hex(), fill) if ok else ("ERR",)), dev


def big_counts(res, vh):
    """more than 2^16 of everything that is counted (lines, instructions, labels, operands, characters, segments, symbols): the
    layout rule has no size limit below the device's.  Judged on the implementation only (the model's list appends are quadratic)."""
    from . import common as C
    le = lambda v, n: (v % 256 ** n).to_bytes(n, "little").hex()
    cases = [
        ("instructions", " nop\n" * 70000 + "L: .dd L\n", "0000" * 70000 + le(70000, 4)),
        ("labels", "".join("l%d: .dd l%d\n" % (i, i) for i in range(66000)), "".join(le(2 * i, 4) for i in range(66000))),
        ("label-after-65536-words", ".org 65535\n nop\nL: nop\n rjmp L\n .dd L\n", None),
        ("segments", "".join(".org %d\n .dw %d\n" % (2 * k, k % 65536) for k in range(1, 67000)), None),
        ("operands", " .db " + ", ".join(str(i % 256) for i in range(70001)) + "\nE: .dd E\n",
         "".join("%02x" % (i % 256) for i in range(70001)) + "00" + le(35001, 4)),
        ("string", " .db \"" + "x" * 70001 + "\"\nE: .dd E\n", "78" * 70001 + "00" + le(35001, 4)),
        ("symbols", "".join(".equ e%d = %d\n" % (i, i) for i in range(66000)) + " .dd e65999, e65536, e255\n", le(65999, 4) + le(65536, 4) + le(255, 4)),
        ("eeprom-bytes", ".eseg\n" + " .db 1, 2\n" * 32767 + "E: .db 9\n.cseg\n .dd E\n", None),
        ("dseg-reserve", ".dseg\n" + " .byte 1\n" * 66000 + "V: .byte 1\n.cseg\n .dd V\n", le(0x60 + 66000, 4)),
    ]
    out = C.vh(vh, ["build"], input="".join(t.encode("utf-8").hex() + "\n" for _, t, _ in cases)).split("\n")
    for (kind, text, want), o in zip(cases, out):
        a = progrun.parse_obs(o)
        res.count(("big", kind), nontrivial=True)
        if kind == "segments":
            want = "".join("0000" + le(k % 65536, 2) for k in range(1, 67000))[4:]
            want = "0000" + want        # word 0 and 1 are padding, then every second word holds k
            want = None if a.get("kind") == "OK" and all(a["code"][8 * k:8 * k + 4] == le(k % 65536, 2) for k in (1, 2, 255, 256, 32768, 65535, 65536, 66999)) and len(a["code"]) == 4 * (2 * 66999 + 1) else "x"
            if want:
                P.fail(res, "builder::build_str", ".org 2 / .dw 1 / .org 4 / .dw 2 ... (66999 segments)", "word 2k = k for every k, %d bytes" % (2 * (2 * 66999 + 1)), o[:60] + " ... length %d" % len(a.get("code", "")), "big:" + kind)
            continue
        if kind == "label-after-65536-words":
            ok = a.get("kind") == "OK" and a["code"].endswith("0000" + "0000" + "fecf" + le(65536, 4))
        elif kind == "eeprom-bytes":
            ok = a.get("kind") == "OK" and a["code"] == le(65534, 4) and a["eeprom"] == "0102" * 32767 + "09"
        else:
            ok = a.get("kind") == "OK" and a["code"] == want
        if not ok:
            P.fail(res, "builder::build_str", "%s ... (%d bytes)" % (text[:60], len(text)), "the layout rule: " + (want[-24:] if want else kind) + " at the end",
                   o[:40] + " ... " + a.get("code", "")[-24:], "big:" + kind)
    res.extra.setdefault("distribution", {})["counts_above_65536"] = len(cases)


def run(res):
    vh, exe = P.base(res, PROP)
    big_counts(res, vh)
    from . import devspec
    devspec.check(res, gen.read_devices(vh), ("RAM start",))
    devs = [d for d in gen.read_devices(vh)[1:] if d[1] >= 512]
    rng = random.Random(res.seed)
    cases = [gen_case(rng, devs) for _ in range(4000 if res.tier == "quick" else 1500000)]
    texts = [c[0] for c in cases]
    obs = P.correspond(res, vh, exe, texts, "layout programs")
    nerr = ncap = 0
    for text, exp, dev in cases:
        a = progrun.parse_obs(obs[text][0])
        if exp[0] == "ERR":
            nerr += 1
            if a["kind"] != "ERR":
                P.fail(res, "builder::build_str", text, "a failed build (.org behind the location counter)", obs[text][0][:120], "org-backwards-accepted")
            continue
        if a["kind"] == "ERR":
            # the reference does not model capacity: a layout that exceeds the selected device legitimately fails (C12)
            d = dev or ("-", 4194304, 0x60, 8388608, 65536, [])
            if len(exp[1]) // 2 > 2 * d[1] or len(exp[2]) // 2 > d[4] or exp[3] > d[3]:
                ncap += 1
                continue
            P.fail(res, "builder::build_str", text, "code=%s eeprom=%s ram_filling=%d" % (exp[1][:80], exp[2][:40], exp[3]), obs[text][0][:120], "rejected")
        elif (a["code"], a["eeprom"], a["fill"]) != (exp[1], exp[2], exp[3]):
            P.fail(res, "builder::build_str", text, "code=%s eeprom=%s ram_filling=%d" % (exp[1], exp[2], exp[3]), obs[text][0][:200], "layout")
    # macro bodies that begin or end with .org / a segment directive: the expansion lands where the pasted body would
    from . import c09
    mp = c09.segment_first_pairs()
    mobs = P.correspond(res, vh, exe, [a for a, _ in mp] + [b for _, b in mp], "macros whose body begins or ends with a segment directive or .org")
    for a, b in mp:
        x, y = progrun.parse_obs(mobs[a][0]), progrun.parse_obs(mobs[b][0])
        if y["kind"] == "OK" and (x["kind"], x.get("code"), x.get("eeprom"), x.get("fill")) != ("OK", y["code"], y["eeprom"], y["fill"]):
            P.fail(res, "builder::build_str", a, "the images of the pasted body: " + mobs[b][0][:100], mobs[a][0][:100], "macro-segment-layout")
    # probes of the open known findings (known_findings.json): reported as KNOWN-FINDING while they persist
    probes = [(".dseg\n.equ n = 3\nv: .byte n\nw: .byte 1\n.cseg\n .dw w\n", ("OK", "6300", "", 4), "byte-nonliteral"),
              ("nop\nnop\n.org 0\nnop\n", ("ERR",), "org-zero")]
    pobs = progrun.run_texts(vh, exe, [p[0] for p in probes])
    for (text, exp, cls), (_, a, b) in zip(probes, pobs):
        o = progrun.parse_obs(a)
        good = (o["kind"] == "ERR") if exp[0] == "ERR" else (o["kind"] == "OK" and (o["code"], o["eeprom"], o["fill"]) == exp[1:])
        if not good:
            P.fail(res, "builder::build_str", text, str(exp), a[:100], cls)
        if not P.agree(a, b):
            res.oblige("correspondence on known-finding probe " + cls, False, "impl=%s model=%s" % (a[:80], b[:80]))
    res.extra["distribution"].update(cases=len(cases), expected_org_failures=nerr, over_capacity=ncap)
    res.extra["exhaustive"] = False
    res.rule = ("3-15 statements mixing labels, one- and two-word instructions (lds in its one-word form on reduced cores), .db of odd "
                "and even length, .dw/.dd/.dq, .byte reservations, .org gaps (15% going backwards) and arbitrarily interleaved "
                ".cseg/.dseg/.eseg, half of them under a random device (different RAM start); a final .dw table exposes every label value; "
                "oracle: reference layout in vlib/c02.py")
    res.samples = [dict(source=cases[i][0], expected=str(cases[i][1])[:160], observed=obs[cases[i][0]][0][:100]) for i in (0, 1)]
    res.assume = ["`.org 0` and non-literal .byte operands are excluded from the generator (known findings, see known_findings.json)"]


match_known = P.match_known


def replay(path):
    return P.replay_by_rerun(PROP, path)
