(** C01 - every valid instruction assembles to its exact AVR ISA machine code.
    Property theorems only; proofs are in Proofs/Enc*.v. *)
From Coq Require Import List ZArith NArith String.
Import ListNotations.
Require Import AvraV.Model.Base AvraV.Model.Ast AvraV.Model.Device AvraV.Model.Eval AvraV.Model.Encode.
Require Import AvraV.Spec.Isa AvraV.Proofs.EncCheck AvraV.Proofs.EncProofs AvraV.Gen.Devices.
Local Open Scope string_scope.
Local Open Scope Z_scope.

(** For every assembler spelling [s] (every row of the ISA table and every documented alias), on
    every core it exists on, for every operand tuple [ws] the ISA allows for it ([fits]), at every
    instruction address [pc], whatever source-level operands [args] denote those values (registers,
    register aliases, arbitrary expressions - only what the accessors return matters):
    - the ISA table defines instruction words for the statement,
    - the encoder emits exactly those words, low byte first, one word or two as the table says,
    - the independent decoder maps the words back to the statement in canonical spelling.
    For relative jumps and branches [ws] carries the displacement and the source operand is the
    target pc + 1 + displacement ([at_pc]). *)
Theorem C01_encode :
  forall (c : core) (s : spelling) (fuel : nat) (cx : ctx) (args : list iop) (ws : list warg) (pc : Z),
  In s spellings -> core_ok c (sp_core s) = true -> is_avr8l (dev cx) = isred c ->
  fits (sp_ops s) ws = true -> 0 <= pc ->
  map (view_of fuel cx) args = map wview (at_pc pc (op_of (sp_name s)) ws) ->
  exists words, expect c (sp_name s) ws = Some words /\
    process fuel cx (op_of (sp_name s)) args (Z.to_N pc) = Ok (bytes_of words) /\
    (dec_exempt c (sp_name s) ws = false -> decode c words = canon_norm (sp_name s) ws).
Proof. exact encode_correct. Qed.
Check C01_encode :
  forall (c : core) (s : spelling) (fuel : nat) (cx : ctx) (args : list iop) (ws : list warg) (pc : Z),
  In s spellings -> core_ok c (sp_core s) = true -> is_avr8l (dev cx) = isred c ->
  fits (sp_ops s) ws = true -> 0 <= pc ->
  map (view_of fuel cx) args = map wview (at_pc pc (op_of (sp_name s)) ws) ->
  exists words, expect c (sp_name s) ws = Some words /\
    process fuel cx (op_of (sp_name s)) args (Z.to_N pc) = Ok (bytes_of words) /\
    (dec_exempt c (sp_name s) ws = false -> decode c words = canon_norm (sp_name s) ws).
Print Assumptions C01_encode.

(** The same at the level of the sweeps: every admitted operand tuple of every spelling passes the
    executable cross-check (ISA words = model bytes, decoder round trip). *)
Theorem C01_all_spellings : forall s c ws,
  In s spellings -> core_ok c (sp_core s) = true -> fits (sp_ops s) ws = true -> ok_at c (sp_name s) ws = true.
Proof. exact enc_all. Qed.
Print Assumptions C01_all_spellings.

(** How source operands meet the hypothesis of C01_encode. *)
Theorem C01_operand_register : forall fuel cx n, view_of fuel cx (OR8 n) = wview (WReg (Z.of_N n)).
Proof. exact view_reg. Qed.
Theorem C01_operand_alias : forall fuel cx name n,
  get_def cx name = Some n -> run fuel cx (EIdent name) = Err None ->
  view_of fuel cx (OE (EIdent name)) = wview (WReg (Z.of_N n)).
Proof. exact view_alias. Qed.
Theorem C01_operand_expression : forall fuel cx e v,
  run fuel cx e = Ok v -> get_r8 cx (OE e) = Err None -> view_of fuel cx (OE e) = wview (WExp v).
Proof. exact view_expr. Qed.
Theorem C01_operand_displacement : forall fuel cx (y : bool) e q,
  run fuel cx e = Ok q -> view_of fuel cx (OIndex (IPostIncE (if y then RY else RZ) e)) = wview (WIdxQ y q).
Proof. exact view_disp. Qed.
Print Assumptions C01_operand_expression.

(** Non-vacuity and table sanity on documented encodings; the number of spellings covered. *)
Example C01_table_examples :
  expect Full "add" [WReg 17; WReg 3] = Some [0x0D13] /\
  expect Full "ldi" [WReg 16; WExp 255] = Some [0xEF0F] /\
  expect Full "ldd" [WReg 1; WIdxQ true 63] = Some [0xAC1F] /\
  expect Full "jmp" [WExp 4194303] = Some [0x95FD; 0xFFFF] /\
  expect Full "bclr" [WExp 3] = Some [0x94B8] /\
  expect Full "lpm" [] = Some [0x95C8] /\
  expect Reduced "lds" [WReg 18; WExp 64] = Some [0xA120] /\
  expect_at Full 64 "breq" [WExp 2] = Some [0xF209] /\
  expect Full "movw" [WReg 17; WReg 18] = None /\
  length spellings = 160%nat.
Proof. vm_compute. repeat split; reflexivity. Qed.
Example C01_hypotheses_satisfiable :
  let s := {| sp_name := "ldi"; sp_core := CAny; sp_ops := [PReg d_ RHigh; PExp K_ KImm8] |} in
  In s spellings /\ fits (sp_ops s) [WReg 16; WExp (-1)] = true /\
  map (view_of 5 (ctx_new default_device)) [OR8 16; OE (EUn UMinus (EConst 1))]
    = map wview (at_pc 7 (op_of "ldi") [WReg 16; WExp (-1)]) /\
  process 5 (ctx_new default_device) (op_of "ldi") [OR8 16; OE (EUn UMinus (EConst 1))] 7 = Ok [0x0F; 0xEF]%N.
Proof. vm_compute. repeat split; try reflexivity. repeat (first [left; reflexivity | right]). Qed.
