(** What the data directives must emit (property C06), written directly on integers and byte
    lists - independent of the Rust code and of Model/. *)
From Coq Require Import List NArith ZArith Bool Ascii.
Import ListNotations.
Require Import AvraV.Model.Base AvraV.Model.Ast.
Local Open Scope Z_scope.

Definition width (k : datadef) : Z := match k with Db => 1 | Dw => 2 | Dd => 4 | Dq => 8 end.
(** a value fits an element of w bytes when it is a w-byte signed or unsigned number; 8-byte
    elements take every value (a constant expression is a 64-bit signed integer, C05) *)
Definition fits_width (k : datadef) (v : Z) : bool :=
  match k with
  | Dq => true
  | _ => (- 2 ^ (8 * width k - 1) <=? v) && (v <? 2 ^ (8 * width k))
  end.
(** byte i of the two's complement representation (floor division = bit selection) *)
Definition byte_at (v : Z) (i : Z) : N := Z.to_N ((v / 256 ^ i) mod 256).
Definition little_endian (k : datadef) (v : Z) : list N :=
  match k with
  | Db => [byte_at v 0]
  | Dw => [byte_at v 0; byte_at v 1]
  | Dd => [byte_at v 0; byte_at v 1; byte_at v 2; byte_at v 3]
  | Dq => [byte_at v 0; byte_at v 1; byte_at v 2; byte_at v 3; byte_at v 4; byte_at v 5; byte_at v 6; byte_at v 7]
  end.

(** one operand: an expression with value [val e] (None = it has no value: undefined symbol,
    arithmetic error) or a string; None = the build must fail *)
Definition spec_operand (val : expr -> option Z) (k : datadef) (o : operand) : option (list N) :=
  match o with
  | PE e => match val e with
            | Some v => if fits_width k v then Some (little_endian k v) else None
            | None => None
            end
  | PS t => match k with Db => Some (map N_of_ascii t) | _ => None end
  end.
(** operands in source order *)
Fixpoint spec_data (val : expr -> option Z) (k : datadef) (l : list operand) : option (list N) :=
  match l with
  | [] => Some []
  | o :: r => match spec_operand val k o, spec_data val k r with
              | Some a, Some b => Some (a ++ b)%list
              | _, _ => None
              end
  end.
(** in flash a .db line of odd length gets one zero byte *)
Definition pad_even (bs : list N) : list N := if Nat.even (length bs) then bs else (bs ++ [0%N])%list.
