(** C13 - instructions the selected device lacks are rejected; all others are unaffected.
    Property theorems only; proofs are in Proofs/GateProofs.v. *)
From Coq Require Import List ZArith NArith String Bool.
Import ListNotations.
Require Import AvraV.Model.Base AvraV.Model.Ast AvraV.Model.Device AvraV.Model.Eval AvraV.Model.Encode.
Require Import AvraV.Model.Parse AvraV.Model.Passes AvraV.Spec.GateSpec AvraV.Proofs.GateProofs AvraV.Gen.Devices.

(** For EVERY set of feature flags (all 2^16, not only the rows of the device table), every
    operation and every operand list: the gate pass 2 applies lets the instruction through iff no
    flag the device carries removes that instruction form according to the flag documentation
    (Spec/GateSpec.disabled). *)
Theorem C13_gate : forall (d : device) (o : operation) (args : list iop),
  check_instruction d o args = available d o args.
Proof. exact gate_spec. Qed.
Check C13_gate : forall (d : device) (o : operation) (args : list iop),
  check_instruction d o args = available d o args.
Print Assumptions C13_gate.

(** An instruction that passes the gate is encoded exactly as with any other device selected -
    the device enters the encoder through nothing but the reduced-core flag, and that flag matters
    for lds/sts only (their one-word form; C01 covers its encoding). *)
Theorem C13_same_code : forall fuel c d op args pc,
  match op with OLds | OSts => False | _ => True end ->
  process fuel (ctx_set_device c d) op args pc = process fuel c op args pc.
Proof. exact device_irrelevant. Qed.
Print Assumptions C13_same_code.

(** pass 2 consults exactly this gate: a gated-out instruction is an error naming its line *)
Theorem C13_pass2_rejects : forall fuel t c cur out cp op args,
  check_instruction (dev c) op args = false ->
  pass2_item fuel t (c, cur, out) (cp, IInstr op args) = Err (Some (fst cp)).
Proof. intros. unfold pass2_item. cbn [dev ctx_set_pc]. rewrite H. reflexivity. Qed.
Print Assumptions C13_pass2_rejects.

Definition builds (src : string) : bool := is_ok (build_str 200 (list_ascii_of_string src)).
Definition nl := String (Ascii.ascii_of_N 10) EmptyString.
Example C13_examples :
  builds (".device ATtiny11" ++ nl ++ "ld r0, X" ++ nl) = false /\ builds (".device ATtiny11" ++ nl ++ "ld r0, Z" ++ nl) = true /\
  builds (".device ATmega8" ++ nl ++ "call 0" ++ nl) = false /\ builds (".device ATmega8" ++ nl ++ "mul r1, r2" ++ nl) = true /\
  builds (".device ATtiny13" ++ nl ++ "muls r16, r17" ++ nl) = false /\
  disabled NoLpmX OLpm [OR8 0; OIndex (INone RZ)] = true /\ disabled NoLpmX OLpm [] = false /\
  available {| flash_size := 1; ram_start := 0; ram_size := 0; eeprom_size := 0; opts := [NoYreg] |} OLdd [OR8 1; OIndex (IPostIncE RY (EConst 1))] = false.
Proof. vm_compute. repeat split; reflexivity. Qed.

(** IN A PROGRAM.  Every instruction of a build that pass 2 accepts - wherever it stands, before or after the line that selected the
    device, in whatever segment of the list - passed the gate of THE device of the program (the one the finished parse selected:
    pass 2 never changes it); with [C13_gate]: no image holds an instruction its device lacks. *)
Require Import AvraV.Model.Parse AvraV.Proofs.BranchProofs.
Theorem C13_every_instruction_gated : forall fuel c segs r2,
  pass2 fuel c segs = Ok r2 ->
  forall pre sg post ipre cp op args ipost, segs = (pre ++ sg :: post)%list -> items sg = (ipre ++ (cp, IInstr op args) :: ipost)%list ->
  check_instruction (dev c) op args = true.
Proof. exact pass2_gates_every_instruction. Qed.
Print Assumptions C13_every_instruction_gated.
