(** C03 - relative branches and jumps reach exactly the target that was named.
    Property theorems only; proofs are in Proofs/Enc*.v. *)
From Coq Require Import List ZArith NArith String.
Import ListNotations.
Require Import AvraV.Model.Base AvraV.Model.Ast AvraV.Model.Device AvraV.Model.Eval AvraV.Model.Encode.
Require Import AvraV.Spec.Isa AvraV.Proofs.EncCheck AvraV.Proofs.EncProofs AvraV.Gen.Devices.
Local Open Scope string_scope.
Local Open Scope Z_scope.

(** the relative spellings: rjmp, rcall, brbs, brbc and the 18 br<cond> aliases *)
Definition relative_spelling (s : spelling) : Prop := In s spellings /\ rel_op (op_of (sp_name s)) = true.

(** Reachable target: for every relative spelling, every instruction address [pc], every target [t]
    whose displacement d = t - (pc+1) fits the field (and every status bit for brbs/brbc, carried by
    [pre]), the encoder emits the instruction, and the independent decoder reads back the statement
    with exactly the displacement d: target = address of the instruction + 1 + d. *)
Theorem C03_reachable :
  forall (c : core) (s : spelling) (fuel : nat) (cx : ctx) (args : list iop) (pre : list warg) (t pc : Z),
  relative_spelling s -> is_avr8l (dev cx) = isred c -> 0 <= pc ->
  fits (sp_ops s) (pre ++ [WExp (t - (pc + 1))])%list = true ->
  map (view_of fuel cx) args = map wview (pre ++ [WExp t])%list ->
  exists words, process fuel cx (op_of (sp_name s)) args (Z.to_N pc) = Ok (bytes_of words) /\
    decode c words = canon_norm (sp_name s) (pre ++ [WExp (t - (pc + 1))])%list.
Proof. exact branch_reachable. Qed.
Print Assumptions C03_reachable.

(** Unreachable target: whatever precedes the target operand, a displacement outside -64..63
    (branches) / -2048..2047 (rjmp, rcall) never yields machine code - no wrapping, no truncation. *)
Theorem C03_unreachable :
  forall (a : bool) (op : operation) (vs0 : list view) (t pc : Z),
  rel_op op = true -> 0 <= pc ->
  ~ (- 2 ^ (rel_bits op - 1) <= t - (pc + 1) < 2 ^ (rel_bits op - 1)) ->
  is_ok (process_v a op (vs0 ++ [wview (WExp t)])%list (Z.to_N pc)) = false.
Proof. exact rel_reject. Qed.
Print Assumptions C03_unreachable.

Example C03_examples :
  relative_spelling {| sp_name := "brne"; sp_core := CAny; sp_ops := [PExp k_ (KRel 7)] |} /\
  rel_bits (OBr BrNe) = 7 /\ rel_bits ORjmp = 12 /\
  process 3 (ctx_new default_device) (OBr BrNe) [OE (EConst 37)] 100 = Ok [0x01; 0xF6]%N /\
  decode Full [0xF601] = Some ("brbc", [WExp 1; WExp (-64)]) /\
  is_ok (process 3 (ctx_new default_device) (OBr BrNe) [OE (EConst 36)] 100) = false /\
  is_ok (process 3 (ctx_new default_device) ORjmp [OE (EConst 2149)] 100) = false /\
  is_ok (process 3 (ctx_new default_device) ORjmp [OE (EConst 2148)] 100) = true.
Proof. vm_compute. repeat split; try reflexivity. repeat (first [left; reflexivity | right]). Qed.
