(** C04: combination of the window sweeps. *)
From Coq Require Import List NArith ZArith Bool String Lia.
Import ListNotations.
Require Import AvraV.Spec.Isa AvraV.Proofs.EncCheck AvraV.Proofs.RejCheck.
Require AvraV.Proofs.RejSweep0 AvraV.Proofs.RejSweep1 AvraV.Proofs.RejSweep2 AvraV.Proofs.RejSweep3.
Require AvraV.Proofs.RejSweep4 AvraV.Proofs.RejSweep5 AvraV.Proofs.RejSweep6 AvraV.Proofs.RejSweep7.
Require AvraV.Proofs.RejSweep8 AvraV.Proofs.RejSweep9 AvraV.Proofs.RejSweep10 AvraV.Proofs.RejSweep11.

Lemma every12_cover {A} (l : list A) x : In x l -> exists j, (j <= 11)%nat /\ In x (every12 j l).
Proof.
  induction l as [|h r IH]; intros H; [destruct H|].
  destruct H as [-> | H].
  - exists 0%nat. split; [lia | left; reflexivity].
  - destruct (IH H) as (j & Hj & Hin).
    destruct (Nat.eq_dec j 11) as [-> | Hne].
    + exists 0%nat. split; [lia | right; exact Hin].
    + exists (S j). split; [lia | exact Hin].
Qed.

Lemma all_names_checked name : In name all_names -> check_name name = true.
Proof.
  intros H. destruct (every12_cover _ _ H) as (j & Hj & Hin).
  destruct j as [|j]; [exact (proj1 (forallb_forall _ _) RejSweep0.sweep _ Hin)|].
  destruct j as [|j]; [exact (proj1 (forallb_forall _ _) RejSweep1.sweep _ Hin)|].
  destruct j as [|j]; [exact (proj1 (forallb_forall _ _) RejSweep2.sweep _ Hin)|].
  destruct j as [|j]; [exact (proj1 (forallb_forall _ _) RejSweep3.sweep _ Hin)|].
  destruct j as [|j]; [exact (proj1 (forallb_forall _ _) RejSweep4.sweep _ Hin)|].
  destruct j as [|j]; [exact (proj1 (forallb_forall _ _) RejSweep5.sweep _ Hin)|].
  destruct j as [|j]; [exact (proj1 (forallb_forall _ _) RejSweep6.sweep _ Hin)|].
  destruct j as [|j]; [exact (proj1 (forallb_forall _ _) RejSweep7.sweep _ Hin)|].
  destruct j as [|j]; [exact (proj1 (forallb_forall _ _) RejSweep8.sweep _ Hin)|].
  destruct j as [|j]; [exact (proj1 (forallb_forall _ _) RejSweep9.sweep _ Hin)|].
  destruct j as [|j]; [exact (proj1 (forallb_forall _ _) RejSweep10.sweep _ Hin)|].
  destruct j as [|j]; [exact (proj1 (forallb_forall _ _) RejSweep11.sweep _ Hin)|].
  lia.
Qed.

Theorem window_sound_full name ws : In name all_names -> In ws window -> sound_at Full name ws = true.
Proof.
  intros Hn Hw. pose proof (all_names_checked name Hn) as H. unfold check_name in H.
  apply andb_prop in H. destruct H as [HF _]. exact (proj1 (forallb_forall _ _) HF ws Hw).
Qed.
Theorem window_sound_reduced name ws : In name all_names -> In ws (window_reduced name) -> sound_at Reduced name ws = true.
Proof.
  intros Hn Hw. pose proof (all_names_checked name Hn) as H. unfold check_name in H.
  apply andb_prop in H. destruct H as [_ HR]. exact (proj1 (forallb_forall _ _) HR ws Hw).
Qed.
