(** Paths (std::path::Path on Unix, as far as the assembler uses it) and a file system without
    symbolic links.  Definitions only.
    - [components]: Path::components - one RootDir for any run of leading slashes, empty
      components and non-leading "." dropped, a leading "." kept on a relative path.
    - PathBuf equality and the order of BTreeSet<PathBuf> are those of the component lists.
    - [join] = PathBuf::push, [parent] = Path::parent.
    - [fsys]: the directories and regular files of a tree, by absolute name; [walk] is the path
      resolution of the operating system (every intermediate name must be a directory; ".."
      steps up, the root being its own parent). *)
Require Import AvraV.Model.Base AvraV.Model.Ast.
Open Scope N_scope.

Inductive comp := CRoot | CCur | CParent | CNorm (s : str).
Definition path := list comp.

Definition slash : ascii := ascii_of_N 47.
Definition dot : ascii := ascii_of_N 46.
Definition is_slash (c : ascii) : bool := N_of_ascii c =? 47.

(** split on '/' *)
Fixpoint split_slash (s cur : str) : list str :=
  match s with
  | [] => [rev cur]
  | c :: r => if is_slash c then rev cur :: split_slash r [] else split_slash r (c :: cur)
  end.

Definition components (t : str) : path :=
  let abs := match t with c :: _ => is_slash c | [] => false end in
  let raw := split_slash t [] in
  let one (first : bool) (seg : str) : list comp :=
    match seg with
    | [] => []
    | _ => if str_eqb seg [dot] then (if first && negb abs then [CCur] else [])
           else if str_eqb seg [dot; dot] then [CParent] else [CNorm seg]
    end in
  (if abs then [CRoot] else []) ++
  match raw with
  | [] => []
  | s0 :: more => one true s0 ++ flat_map (one false) more
  end.

Definition is_abs (p : path) : bool := match p with CRoot :: _ => true | _ => false end.

(** PathBuf::push *)
Definition join (a b : path) : path :=
  if is_abs b then b
  else match a with
       | [] => b
       | _ => a ++ match b with CCur :: r => r | _ => b end
       end.

(** Path::parent *)
Definition parent (p : path) : option path :=
  match rev p with
  | [] => None
  | CRoot :: _ => None
  | _ :: r => Some (rev r)
  end.

(** order of components and of paths (derive(Ord) on Component, lexicographic on the lists; names
    compare as byte strings) *)
Fixpoint str_cmp (a b : str) : comparison :=
  match a, b with
  | [], [] => Eq
  | [], _ => Lt
  | _, [] => Gt
  | x :: a', y :: b' => match N.compare (N_of_ascii x) (N_of_ascii y) with Eq => str_cmp a' b' | c => c end
  end.
Definition comp_rank (c : comp) : N := match c with CRoot => 0 | CCur => 1 | CParent => 2 | CNorm _ => 3 end.
Definition comp_cmp (a b : comp) : comparison :=
  match a, b with
  | CNorm x, CNorm y => str_cmp x y
  | _, _ => N.compare (comp_rank a) (comp_rank b)
  end.
Fixpoint path_cmp (a b : path) : comparison :=
  match a, b with
  | [], [] => Eq
  | [], _ => Lt
  | _, [] => Gt
  | x :: a', y :: b' => match comp_cmp x y with Eq => path_cmp a' b' | c => c end
  end.
Definition path_eqb (a b : path) : bool := match path_cmp a b with Eq => true | _ => false end.

(** BTreeSet<PathBuf>: a strictly increasing list *)
Fixpoint set_insert (p : path) (s : list path) : list path :=
  match s with
  | [] => [p]
  | q :: r => match path_cmp p q with Lt => p :: s | Eq => s | Gt => q :: set_insert p r end
  end.
Definition set_of (l : list path) : list path := fold_left (fun s p => set_insert p s) l [].

(** ---- file system ---- *)
Definition names := list str.
Record fsys := { fs_cwd : names; fs_dirs : list names; fs_files : list (names * str) }.
Definition names_eqb (a b : names) : bool := list_eqb str_eqb a b.
Definition is_dir (fs : fsys) (n : names) : bool := match n with [] => true | _ => existsb (names_eqb n) (fs_dirs fs) end.
Fixpoint find_file (n : names) (l : list (names * str)) : option str :=
  match l with [] => None | (k, v) :: r => if names_eqb n k then Some v else find_file n r end.

Fixpoint walk (fs : fsys) (cur : names) (p : path) : option names :=
  match p with
  | [] => Some cur
  | CRoot :: r => walk fs [] r
  | CCur :: r => walk fs cur r
  | CParent :: r => walk fs (removelast cur) r
  | CNorm n :: r =>
      let nxt := (cur ++ [n])%list in
      match r with
      | [] => if is_dir fs nxt then Some nxt else match find_file nxt (fs_files fs) with Some _ => Some nxt | None => None end
      | _ => if is_dir fs nxt then walk fs nxt r else None
      end
  end.
Definition resolve (fs : fsys) (p : path) : option names :=
  match p with [] => None | _ => walk fs (fs_cwd fs) p end.     (* the empty path names nothing *)
(** Path::exists *)
Definition exists_path (fs : fsys) (p : path) : bool := match resolve fs p with Some _ => true | None => false end.
(** File::open + read_to_string: a regular file gives its text; a directory or nothing, an error *)
Definition read_path (fs : fsys) (p : path) : option str :=
  match resolve fs p with Some n => if is_dir fs n then None else find_file n (fs_files fs) | None => None end.

(** the file-layer part of a ParseContext: current_path and include_paths *)
Record flayer := { cur_path : path; ipaths : list path }.
Definition fl_empty : flayer := {| cur_path := []; ipaths := [] |}.
