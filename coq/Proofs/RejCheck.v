(** C04: what the encoder accepts is what was written.  The executable check and the finite
    operand window over which it is swept. *)
From Coq Require Import List NArith ZArith Bool String.
Import ListNotations.
Require Import AvraV.Model.Base AvraV.Model.Ast AvraV.Model.Encode AvraV.Spec.Isa AvraV.Proofs.EncCheck.
Require Import AvraV.Gen.OpTable.
Local Open Scope Z_scope.

(** If the model produces machine code for the statement "name ws" (ws as written: registers, values,
    index forms; relative operands as displacements), then the ISA defines an encoding for exactly
    that statement and the bytes are that encoding.  Otherwise the result is an error value. *)
Definition sound_at (c : core) (name : string) (ws : list warg) : bool :=
  let o := op_of name in
  match process_v (isred c) o (map wview (at_pc 0 o ws)) 0 with
  | Ok bs => match expect c name ws with Some words => list_eqb N.eqb bs (bytes_of words) | None => false end
  | Err _ => true
  | _ => false
  end.

(** all mnemonics the assembler knows (the regenerated table), as spec strings *)
Definition all_names : list string := map (fun kv => string_of_list_ascii (fst kv)) mnemonics.

Fixpoint zr (n : nat) (a : Z) : list Z := match n with O => [] | S m => a :: zr m (Z.succ a) end.
Definition win_regs : list Z := zr 32 0.
Definition win_vals : list Z :=
  [-9223372036854775808; -4294967296; -65536; -2049; -2048; -256; -129; -128; -127; -65; -64; -63; -8; -1; 0; 1; 2; 7; 8; 15; 16;
   31; 32; 39; 40; 62; 63; 64; 65; 127; 128; 191; 192; 254; 255; 256; 2046; 2047; 2048; 4095; 4096; 65535; 65536; 4194303; 4194304;
   4294967295; 9223372036854775807].
Definition dense_vals : list Z := zr 21 (-140) ++ zr 81 (-10) ++ zr 16 120 ++ zr 11 185 ++ zr 13 250.
Definition win_args : list warg :=
  map WReg win_regs ++ map WExp win_vals ++ map WIdx all_idx ++
  flat_map (fun q => [WIdxQ true q; WIdxQ false q]) [-1; 0; 1; 63; 64; 255] ++ [WOther].
Definition win_dense : list warg := map WExp dense_vals ++ flat_map (fun q => [WIdxQ true q; WIdxQ false q]) (zr 7 (-3) ++ zr 7 60).
Definition win_small : list warg := [WReg 5; WReg 20; WExp 3; WIdx FY; WIdxQ false 1; WOther].

(** the window: no operand; every single operand of [win_args] and [win_dense]; every pair from
    [win_args] x ([win_args] + [win_dense]) in both orders; every triple from [win_small] *)
Definition window : list (list warg) :=
  [[]] ++ map (fun a => [a]) (win_args ++ win_dense) ++
  flat_map (fun a => map (fun b => [a; b]) (win_args ++ win_dense)) win_args ++
  flat_map (fun a => map (fun b => [a; b]) win_args) win_dense ++
  flat_map (fun a => flat_map (fun b => map (fun c => [a; b; c]) win_small) win_small) win_small.

(** on the reduced core only lds/sts differ from the full core; they get the whole window there,
    the other mnemonics the pairs of [win_args] *)
Definition window_small : list (list warg) :=
  [[]] ++ map (fun a => [a]) win_args ++ flat_map (fun a => map (fun b => [a; b]) win_args) win_args.
Definition window_reduced (name : string) : list (list warg) :=
  if String.eqb name "lds" || String.eqb name "sts" then window else window_small.
Definition check_name (name : string) : bool :=
  forallb (sound_at Full name) window && forallb (sound_at Reduced name) (window_reduced name).

Fixpoint every12 {A} (k : nat) (l : list A) : list A :=
  match l with [] => [] | x :: r => match k with O => x :: every12 11 r | S k' => every12 k' r end end.
