(** The AVR instruction set as a table (transcribed from the AVR Instruction Set Manual; see
    DESIGN.md section 10) - independent of the Rust code and of Model/.
    A row gives the assembler spelling, the 16- or 32-bit pattern (MSB first, letters are operand
    fields) and, per written operand, its kind and legal range.  One generic packer [words] and one
    generic pattern matcher [decode] interpret the table. *)
From Coq Require Import List NArith ZArith Bool Ascii String.
Import ListNotations.
Local Open Scope string_scope.
Local Open Scope Z_scope.

Inductive core := Full | Reduced.
Inductive coresel := CAny | CFull | CReduced.
Inductive regclass := RAny | RHigh | RMul | REven | RWord.
Inductive immkind :=
| KImm8                (* written -128..255, field = value mod 256 *)
| KU (bits : Z)        (* 0 .. 2^bits-1 *)
| KRel (bits : Z)      (* signed displacement d (target = address of the instruction + 1 + d), two's complement in [bits] bits *)
| KAddr (hibits : Z)   (* address 0 .. 2^(16+hibits)-1 of a two-word instruction: the letter field holds
                          address / 65536, the second word holds address mod 65536 ("+16k" in the manual) *)
| KRAddr.              (* reduced-core lds/sts address 0x40..0xBF: k3..0 -> 'k', k4 -> 'a', k5 -> 'b', k6 -> 'c' *)
Inductive idxf := FX | FXp | FmX | FY | FYp | FmY | FZ | FZp | FmZ.
Inductive opspec :=
| PReg (l : ascii) (c : regclass)
| PExp (l : ascii) (k : immkind)
| PIdx (f : idxf)
| PIdxQ (y : bool).     (* Y+q / Z+q, field 'q' 0..63 *)
Record row := { r_name : string; r_core : coresel; r_pat : string; r_ops : list opspec }.

(** what the programmer wrote, operand by operand *)
Inductive warg := WReg (n : Z) | WExp (v : Z) | WIdx (f : idxf) | WIdxQ (y : bool) (q : Z)
| WOther.   (* any other operand form (X+q, a string, ...): fits no row *)

Definition R (n c p : string) (o : list opspec) := {| r_name := n; r_core := CAny; r_pat := p; r_ops := o |}.
Definition d_ := "d"%char. Definition r_ := "r"%char. Definition K_ := "K"%char. Definition k_ := "k"%char.
Definition s_ := "s"%char. Definition b_ := "b"%char. Definition A_ := "A"%char. Definition q_ := "q"%char.
Definition rr n p := {| r_name := n; r_core := CAny; r_pat := p; r_ops := [PReg d_ RAny; PReg r_ RAny] |}.
Definition ri n p := {| r_name := n; r_core := CAny; r_pat := p; r_ops := [PReg d_ RHigh; PExp K_ KImm8] |}.
Definition r1 n p := {| r_name := n; r_core := CAny; r_pat := p; r_ops := [PReg d_ RAny] |}.
Definition r0 n p := {| r_name := n; r_core := CAny; r_pat := p; r_ops := [] |}.
Definition mk n c p o := {| r_name := n; r_core := c; r_pat := p; r_ops := o |}.

Definition table : list row := [
  rr "add" "0000 11rd dddd rrrr"; rr "adc" "0001 11rd dddd rrrr"; rr "sub" "0001 10rd dddd rrrr";
  rr "sbc" "0000 10rd dddd rrrr"; rr "and" "0010 00rd dddd rrrr"; rr "or" "0010 10rd dddd rrrr";
  rr "eor" "0010 01rd dddd rrrr"; rr "cpse" "0001 00rd dddd rrrr"; rr "cp" "0001 01rd dddd rrrr";
  rr "cpc" "0000 01rd dddd rrrr"; rr "mov" "0010 11rd dddd rrrr"; rr "mul" "1001 11rd dddd rrrr";
  ri "subi" "0101 KKKK dddd KKKK"; ri "sbci" "0100 KKKK dddd KKKK"; ri "andi" "0111 KKKK dddd KKKK";
  ri "ori" "0110 KKKK dddd KKKK"; ri "cpi" "0011 KKKK dddd KKKK"; ri "ldi" "1110 KKKK dddd KKKK";
  mk "adiw" CAny "1001 0110 KKdd KKKK" [PReg d_ RWord; PExp K_ (KU 6)];
  mk "sbiw" CAny "1001 0111 KKdd KKKK" [PReg d_ RWord; PExp K_ (KU 6)];
  r1 "com" "1001 010d dddd 0000"; r1 "neg" "1001 010d dddd 0001"; r1 "swap" "1001 010d dddd 0010";
  r1 "inc" "1001 010d dddd 0011"; r1 "asr" "1001 010d dddd 0101"; r1 "lsr" "1001 010d dddd 0110";
  r1 "ror" "1001 010d dddd 0111"; r1 "dec" "1001 010d dddd 1010";
  r1 "push" "1001 001d dddd 1111"; r1 "pop" "1001 000d dddd 1111";
  mk "muls" CAny "0000 0010 dddd rrrr" [PReg d_ RHigh; PReg r_ RHigh];
  mk "mulsu" CAny "0000 0011 0ddd 0rrr" [PReg d_ RMul; PReg r_ RMul];
  mk "fmul" CAny "0000 0011 0ddd 1rrr" [PReg d_ RMul; PReg r_ RMul];
  mk "fmuls" CAny "0000 0011 1ddd 0rrr" [PReg d_ RMul; PReg r_ RMul];
  mk "fmulsu" CAny "0000 0011 1ddd 1rrr" [PReg d_ RMul; PReg r_ RMul];
  mk "movw" CAny "0000 0001 dddd rrrr" [PReg d_ REven; PReg r_ REven];
  mk "rjmp" CAny "1100 kkkk kkkk kkkk" [PExp k_ (KRel 12)];
  mk "rcall" CAny "1101 kkkk kkkk kkkk" [PExp k_ (KRel 12)];
  mk "jmp" CAny "1001 010k kkkk 110k" [PExp k_ (KAddr 6)];
  mk "call" CAny "1001 010k kkkk 111k" [PExp k_ (KAddr 6)];
  mk "brbs" CAny "1111 00kk kkkk ksss" [PExp s_ (KU 3); PExp k_ (KRel 7)];
  mk "brbc" CAny "1111 01kk kkkk ksss" [PExp s_ (KU 3); PExp k_ (KRel 7)];
  r0 "ijmp" "1001 0100 0000 1001"; r0 "eijmp" "1001 0100 0001 1001";
  r0 "icall" "1001 0101 0000 1001"; r0 "eicall" "1001 0101 0001 1001";
  r0 "ret" "1001 0101 0000 1000"; r0 "reti" "1001 0101 0001 1000";
  r0 "sleep" "1001 0101 1000 1000"; r0 "break" "1001 0101 1001 1000"; r0 "wdr" "1001 0101 1010 1000";
  r0 "lpm" "1001 0101 1100 1000"; r0 "elpm" "1001 0101 1101 1000"; r0 "spm" "1001 0101 1110 1000";
  r0 "nop" "0000 0000 0000 0000";
  mk "lpm" CAny "1001 000d dddd 0100" [PReg d_ RAny; PIdx FZ];
  mk "lpm" CAny "1001 000d dddd 0101" [PReg d_ RAny; PIdx FZp];
  mk "elpm" CAny "1001 000d dddd 0110" [PReg d_ RAny; PIdx FZ];
  mk "elpm" CAny "1001 000d dddd 0111" [PReg d_ RAny; PIdx FZp];
  mk "bset" CAny "1001 0100 0sss 1000" [PExp s_ (KU 3)];
  mk "bclr" CAny "1001 0100 1sss 1000" [PExp s_ (KU 3)];
  mk "bld" CAny "1111 100d dddd 0bbb" [PReg d_ RAny; PExp b_ (KU 3)];
  mk "bst" CAny "1111 101d dddd 0bbb" [PReg d_ RAny; PExp b_ (KU 3)];
  mk "sbrc" CAny "1111 110d dddd 0bbb" [PReg d_ RAny; PExp b_ (KU 3)];
  mk "sbrs" CAny "1111 111d dddd 0bbb" [PReg d_ RAny; PExp b_ (KU 3)];
  mk "cbi" CAny "1001 1000 AAAA Abbb" [PExp A_ (KU 5); PExp b_ (KU 3)];
  mk "sbic" CAny "1001 1001 AAAA Abbb" [PExp A_ (KU 5); PExp b_ (KU 3)];
  mk "sbi" CAny "1001 1010 AAAA Abbb" [PExp A_ (KU 5); PExp b_ (KU 3)];
  mk "sbis" CAny "1001 1011 AAAA Abbb" [PExp A_ (KU 5); PExp b_ (KU 3)];
  mk "in" CAny "1011 0AAd dddd AAAA" [PReg d_ RAny; PExp A_ (KU 6)];
  mk "out" CAny "1011 1AAd dddd AAAA" [PExp A_ (KU 6); PReg d_ RAny];
  (* reduced-core one-word lds/sts come first so that the decoder prefers them on that core *)
  mk "lds" CReduced "1010 0bac dddd kkkk" [PReg d_ RHigh; PExp k_ KRAddr];
  mk "sts" CReduced "1010 1bac dddd kkkk" [PExp k_ KRAddr; PReg d_ RHigh];
  mk "ld" CAny "1001 000d dddd 1100" [PReg d_ RAny; PIdx FX];
  mk "ld" CAny "1001 000d dddd 1101" [PReg d_ RAny; PIdx FXp];
  mk "ld" CAny "1001 000d dddd 1110" [PReg d_ RAny; PIdx FmX];
  mk "ld" CAny "1001 000d dddd 1001" [PReg d_ RAny; PIdx FYp];
  mk "ld" CAny "1001 000d dddd 1010" [PReg d_ RAny; PIdx FmY];
  mk "ld" CAny "1001 000d dddd 0001" [PReg d_ RAny; PIdx FZp];
  mk "ld" CAny "1001 000d dddd 0010" [PReg d_ RAny; PIdx FmZ];
  mk "ldd" CAny "10q0 qq0d dddd 1qqq" [PReg d_ RAny; PIdxQ true];
  mk "ldd" CAny "10q0 qq0d dddd 0qqq" [PReg d_ RAny; PIdxQ false];
  mk "st" CAny "1001 001d dddd 1100" [PIdx FX; PReg d_ RAny];
  mk "st" CAny "1001 001d dddd 1101" [PIdx FXp; PReg d_ RAny];
  mk "st" CAny "1001 001d dddd 1110" [PIdx FmX; PReg d_ RAny];
  mk "st" CAny "1001 001d dddd 1001" [PIdx FYp; PReg d_ RAny];
  mk "st" CAny "1001 001d dddd 1010" [PIdx FmY; PReg d_ RAny];
  mk "st" CAny "1001 001d dddd 0001" [PIdx FZp; PReg d_ RAny];
  mk "st" CAny "1001 001d dddd 0010" [PIdx FmZ; PReg d_ RAny];
  mk "std" CAny "10q0 qq1d dddd 1qqq" [PIdxQ true; PReg d_ RAny];
  mk "std" CAny "10q0 qq1d dddd 0qqq" [PIdxQ false; PReg d_ RAny];
  mk "lds" CFull "1001 000d dddd 0000" [PReg d_ RAny; PExp k_ (KAddr 0)];
  mk "sts" CFull "1001 001d dddd 0000" [PExp k_ (KAddr 0); PReg d_ RAny]
].

(** documented aliases, as rewriting of what was written into the canonical spelling *)
Definition br_alias : list (string * (bool * Z)) := [
  ("breq", (true, 1)); ("brne", (false, 1)); ("brcs", (true, 0)); ("brcc", (false, 0));
  ("brsh", (false, 0)); ("brlo", (true, 0)); ("brmi", (true, 2)); ("brpl", (false, 2));
  ("brge", (false, 4)); ("brlt", (true, 4)); ("brhs", (true, 5)); ("brhc", (false, 5));
  ("brts", (true, 6)); ("brtc", (false, 6)); ("brvs", (true, 3)); ("brvc", (false, 3));
  ("brie", (true, 7)); ("brid", (false, 7))].
Definition flag_alias : list (string * (bool * Z)) := [
  ("sec", (true, 0)); ("sez", (true, 1)); ("sen", (true, 2)); ("sev", (true, 3)); ("ses", (true, 4));
  ("seh", (true, 5)); ("set", (true, 6)); ("sei", (true, 7));
  ("clc", (false, 0)); ("clz", (false, 1)); ("cln", (false, 2)); ("clv", (false, 3)); ("cls", (false, 4));
  ("clh", (false, 5)); ("clt", (false, 6)); ("cli", (false, 7))].
Fixpoint assoc {V} (k : string) (l : list (string * V)) : option V :=
  match l with [] => None | (k', v) :: r => if String.eqb k k' then Some v else assoc k r end.

Definition canon (name : string) (w : list warg) : option (string * list warg) :=
  let is x := String.eqb name x in
  match w with
  | [WReg d] =>
      if is "lsl" then Some ("add", [WReg d; WReg d]) else if is "rol" then Some ("adc", [WReg d; WReg d])
      else if is "tst" then Some ("and", [WReg d; WReg d]) else if is "clr" then Some ("eor", [WReg d; WReg d])
      else if is "ser" then Some ("ldi", [WReg d; WExp 255]) else Some (name, w)
  | [WReg d; WExp k] =>
      if is "sbr" then Some ("ori", w)
      else if is "cbr" then (if (-128 <=? k) && (k <=? 255) then Some ("andi", [WReg d; WExp (255 - k mod 256)]) else None)
      else Some (name, w)
  | [WReg d; WIdx FY] => if is "ld" || is "ldd" then Some ("ldd", [WReg d; WIdxQ true 0]) else Some (name, w)
  | [WReg d; WIdx FZ] => if is "ld" || is "ldd" then Some ("ldd", [WReg d; WIdxQ false 0]) else Some (name, w)
  | [WReg d; WIdx f] => if is "ldd" then Some ("ld", w) else Some (name, w)   (* ld/ldd are one mnemonic family *)
  | [WReg d; WIdxQ y q] => if is "ld" then Some ("ldd", w) else Some (name, w)
  | [WIdx FY; WReg d] => if is "st" || is "std" then Some ("std", [WIdxQ true 0; WReg d]) else Some (name, w)
  | [WIdx FZ; WReg d] => if is "st" || is "std" then Some ("std", [WIdxQ false 0; WReg d]) else Some (name, w)
  | [WIdx f; WReg d] => if is "std" then Some ("st", w) else Some (name, w)
  | [WIdxQ y q; WReg d] => if is "st" then Some ("std", w) else Some (name, w)
  | [WExp k] =>
      match assoc name br_alias with
      | Some (set, bit) => Some (if set then "brbs" else "brbc", [WExp bit; WExp k])
      | None => Some (name, w)
      end
  | [] =>
      match assoc name flag_alias with
      | Some (set, bit) => Some (if set then "bset" else "bclr", [WExp bit])
      | None => Some (name, w)
      end
  | _ => Some (name, w)
  end.

(** ---------- generic packer ---------- *)
Definition pat := list ascii.                       (* LSB first *)
Definition mkpat (p : string) : pat :=
  rev (filter (fun c => negb (Ascii.eqb c " "%char)) (list_ascii_of_string p)).
Definition env := list (ascii * Z).
Fixpoint take_bit (c : ascii) (e : env) : Z * env :=
  match e with
  | [] => (0, [])
  | (k, v) :: r => if Ascii.eqb k c then (v mod 2, (k, v / 2) :: r)
                   else let '(b, r') := take_bit c r in (b, (k, v) :: r')
  end.
Fixpoint pack (p : pat) (e : env) : Z :=
  match p with
  | [] => 0
  | c :: r => if Ascii.eqb c "0"%char then 2 * pack r e
              else if Ascii.eqb c "1"%char then 1 + 2 * pack r e
              else let '(b, e') := take_bit c e in b + 2 * pack r e'
  end.

Definition reg_field (c : regclass) (n : Z) : option Z :=
  match c with
  | RAny => if (0 <=? n) && (n <=? 31) then Some n else None
  | RHigh => if (16 <=? n) && (n <=? 31) then Some (n - 16) else None
  | RMul => if (16 <=? n) && (n <=? 23) then Some (n - 16) else None
  | REven => if (0 <=? n) && (n <=? 31) && (n mod 2 =? 0) then Some (n / 2) else None
  | RWord => if (n =? 24) || (n =? 26) || (n =? 28) || (n =? 30) then Some ((n - 24) / 2) else None
  end.

Definition idxf_eqb (a b : idxf) : bool :=
  match a, b with
  | FX, FX | FXp, FXp | FmX, FmX | FY, FY | FYp, FYp | FmY, FmY | FZ, FZ | FZp, FZp | FmZ, FmZ => true
  | _, _ => false end.

(** fields contributed by one written operand (and the second instruction word, if the operand
    supplies one), or None when it does not fit the row *)
Definition enc_op (p : opspec) (w : warg) : option (env * option Z) :=
  match p, w with
  | PReg l c, WReg n => match reg_field c n with Some f => Some ([(l, f)], None) | None => None end
  | PExp l KImm8, WExp v => if (-128 <=? v) && (v <=? 255) then Some ([(l, v mod 256)], None) else None
  | PExp l (KU bits), WExp v => if (0 <=? v) && (v <? 2 ^ bits) then Some ([(l, v)], None) else None
  | PExp l (KRel bits), WExp d =>
      if (- 2 ^ (bits - 1) <=? d) && (d <? 2 ^ (bits - 1)) then Some ([(l, d mod 2 ^ bits)], None) else None
  | PExp l (KAddr hibits), WExp v =>
      if (0 <=? v) && (v <? 65536 * 2 ^ hibits) then Some ([(l, v / 65536)], Some (v mod 65536)) else None
  | PExp l KRAddr, WExp v =>
      if (64 <=? v) && (v <=? 191)
      then Some ([(l, v mod 16); ("a"%char, (v / 16) mod 2); ("b"%char, (v / 32) mod 2); ("c"%char, (v / 64) mod 2)], None)
      else None
  | PIdx f, WIdx f' => if idxf_eqb f f' then Some ([], None) else None
  | PIdxQ y, WIdxQ y' q => if Bool.eqb y y' && (0 <=? q) && (q <=? 63) then Some ([(q_, q)], None) else None
  | _, _ => None
  end.
Definition or_else (a b : option Z) : option Z := match a with Some _ => a | None => b end.
Fixpoint enc_ops (ps : list opspec) (ws : list warg) : option (env * option Z) :=
  match ps, ws with
  | [], [] => Some ([], None)
  | p :: ps', w :: ws' =>
      match enc_op p w, enc_ops ps' ws' with
      | Some (a, x), Some (b, y) => Some ((a ++ b)%list, or_else x y)
      | _, _ => None
      end
  | _, _ => None
  end.

Definition core_ok (c : core) (s : coresel) : bool :=
  match s, c with CAny, _ | CFull, Full | CReduced, Reduced => true | _, _ => false end.

(** pre-compiled rows: reversed pattern and the fixed bits of the pattern as a (mask, value) pair
    so that the decoder can reject a row with one comparison *)
Record crow := { c_row : row; c_pat : pat; c_mask : Z; c_val : Z }.
Definition fixed_only (one : bool) (c : ascii) : ascii :=
  if Ascii.eqb c "0"%char then (if one then "1" else "0")%char
  else if Ascii.eqb c "1"%char then "1"%char else "0"%char.
Definition compile (r : row) : crow :=
  let p := mkpat (r_pat r) in
  {| c_row := r; c_pat := p; c_mask := pack (map (fixed_only true) p) []; c_val := pack (map (fixed_only false) p) [] |}.
Definition ctable : list crow := Eval vm_compute in map compile table.

Definition rows_for (c : core) (name : string) : list crow :=
  filter (fun r => String.eqb (r_name (c_row r)) name && core_ok c (r_core (c_row r))) ctable.
Definition row_words (r : crow) (w : list warg) : option (list Z) :=
  match enc_ops (r_ops (c_row r)) w with
  | Some (e, second) => Some (pack (c_pat r) e :: match second with Some x => [x] | None => [] end)
  | None => None
  end.
Fixpoint first_fit (t : list crow) (w : list warg) : option (list Z) :=
  match t with
  | [] => None
  | r :: t' => match row_words r w with Some ws => Some ws | None => first_fit t' w end
  end.

(** THE SPECIFICATION.  [expect c name w] = the instruction words the ISA defines for the
    statement "name w", or None when the ISA cannot encode it (then the assembler must fail).
    The operand of a relative jump or branch is the displacement d here; [expect_at] is the same
    for the target address as it is written in the source of an instruction at word address pc. *)
Definition expect (c : core) (name : string) (w : list warg) : option (list Z) :=
  match canon name w with
  | Some (n, w') => first_fit (rows_for c n) w'
  | None => None
  end.

Definition is_relative (name : string) : bool :=
  String.eqb name "rjmp" || String.eqb name "rcall" || String.eqb (substring 0 2 name) "br" && negb (String.eqb name "break").
(** turn the last operand, when it is an expression, from a target address into a displacement (and back) *)
Definition shift_arg (delta : Z) (w : warg) : warg := match w with WExp v => WExp (v + delta) | x => x end.
Fixpoint shift_last (delta : Z) (w : list warg) : list warg :=
  match w with
  | [] => []
  | x :: r => match r with [] => [shift_arg delta x] | _ => x :: shift_last delta r end
  end.
Definition expect_at (c : core) (pc : Z) (name : string) (w : list warg) : option (list Z) :=
  expect c name (if is_relative name then shift_last (- (pc + 1)) w else w).

(** ---------- independent decoder (pattern matcher over the same table) ---------- *)
Definition uenv := list (ascii * (Z * Z)).         (* letter -> (value so far, weight of next bit) *)
Fixpoint put_bit (c : ascii) (b : Z) (e : uenv) : uenv :=
  match e with
  | [] => [(c, (b, 2))]
  | (k, (v, w)) :: r => if Ascii.eqb k c then (k, (v + b * w, 2 * w)) :: r else (k, (v, w)) :: put_bit c b r
  end.
Fixpoint unpack (p : pat) (w : Z) (e : uenv) : option uenv :=
  match p with
  | [] => if w =? 0 then Some e else None
  | c :: r => let b := w mod 2 in
              if Ascii.eqb c "0"%char then (if b =? 0 then unpack r (w / 2) e else None)
              else if Ascii.eqb c "1"%char then (if b =? 1 then unpack r (w / 2) e else None)
              else unpack r (w / 2) (put_bit c b e)
  end.
Definition field (c : ascii) (e : uenv) : Z :=
  match find (fun kv => Ascii.eqb (fst kv) c) e with Some (_, (v, _)) => v | None => 0 end.

Definition dec_op (e : uenv) (second : Z) (p : opspec) : warg :=
  match p with
  | PReg l RAny => WReg (field l e)
  | PReg l RHigh | PReg l RMul => WReg (16 + field l e)
  | PReg l REven => WReg (2 * field l e)
  | PReg l RWord => WReg (24 + 2 * field l e)
  | PExp l KImm8 | PExp l (KU _) => WExp (field l e)
  | PExp l (KRel bits) =>
      let f := field l e in WExp (if f <? 2 ^ (bits - 1) then f else f - 2 ^ bits)
  | PExp l (KAddr _) => WExp (field l e * 65536 + second)
  | PExp l KRAddr =>
      let c := field "c"%char e in
      WExp (field l e + 16 * field "a"%char e + 32 * field "b"%char e + 64 * c + (if c =? 0 then 128 else 0))
  | PIdx f => WIdx f
  | PIdxQ y => WIdxQ y (field q_ e)
  end.
Definition two_word (ps : list opspec) : bool :=
  existsb (fun p => match p with PExp _ (KAddr _) => true | _ => false end) ps.

(** [decode c ws]: the first row (of the core) whose fixed bits match the first word and whose
    length is the number of words given; its operand fields are then read back *)
Fixpoint find_row (c : core) (t : list crow) (two : bool) (w1 : Z) : option (crow * uenv) :=
  match t with
  | [] => None
  | r :: t' =>
      if Bool.eqb (two_word (r_ops (c_row r))) two && (Z.land w1 (c_mask r) =? c_val r) && core_ok c (r_core (c_row r)) then
        match unpack (c_pat r) w1 [] with
        | Some e => Some (r, e)
        | None => find_row c t' two w1
        end
      else find_row c t' two w1
  end.
Definition decode_in (c : core) (two : bool) (w1 w2 : Z) : option (string * list warg) :=
  match find_row c ctable two w1 with
  | Some (r, e) => Some (r_name (c_row r), map (dec_op e w2) (r_ops (c_row r)))
  | None => None
  end.
Definition decode (c : core) (ws : list Z) : option (string * list warg) :=
  match ws with
  | [a] => decode_in c false a 0
  | [a; b] => decode_in c true a b
  | _ => None
  end.

(** what the decoder returns for a written statement: canonical spelling, immediates as 0..255 *)
Definition norm_arg (w : warg) : warg :=
  match w with WExp v => if (-128 <=? v) && (v <? 0) then WExp (v + 256) else w | x => x end.
Definition canon_norm (name : string) (w : list warg) : option (string * list warg) :=
  match canon name w with
  | Some (n, w') =>
      let imm8 := existsb (String.eqb n) ["subi"; "sbci"; "andi"; "ori"; "cpi"; "ldi"] in
      Some (n, if imm8 then map norm_arg w' else w')
  | None => None
  end.

(** ---------- the assembler spellings: the quantifier domain of "every supported mnemonic and
    every operand combination the ISA allows" ---------- *)
Record spelling := { sp_name : string; sp_core : coresel; sp_ops : list opspec }.
Definition sp n o := {| sp_name := n; sp_core := CAny; sp_ops := o |}.
Definition all_idx := [FX; FXp; FmX; FY; FYp; FmY; FZ; FZp; FmZ].
Definition alias_spellings : list spelling :=
  map (fun n => sp n [PReg d_ RAny]) ["lsl"; "rol"; "tst"; "clr"] ++
  [sp "ser" [PReg d_ RHigh]; sp "sbr" [PReg d_ RHigh; PExp K_ KImm8]; sp "cbr" [PReg d_ RHigh; PExp K_ KImm8]] ++
  map (fun kv => sp (fst kv) [PExp k_ (KRel 7)]) br_alias ++
  map (fun kv => sp (fst kv) []) flag_alias ++
  [sp "ld" [PReg d_ RAny; PIdx FY]; sp "ld" [PReg d_ RAny; PIdx FZ];
   sp "ld" [PReg d_ RAny; PIdxQ true]; sp "ld" [PReg d_ RAny; PIdxQ false];
   sp "st" [PIdx FY; PReg d_ RAny]; sp "st" [PIdx FZ; PReg d_ RAny];
   sp "st" [PIdxQ true; PReg d_ RAny]; sp "st" [PIdxQ false; PReg d_ RAny]] ++
  map (fun f => sp "ldd" [PReg d_ RAny; PIdx f]) all_idx ++
  map (fun f => sp "std" [PIdx f; PReg d_ RAny]) all_idx.
Definition spellings : list spelling :=
  map (fun r => {| sp_name := r_name r; sp_core := r_core r; sp_ops := r_ops r |}) table ++ alias_spellings.

(** the operand tuples a spelling admits *)
Definition fits (ps : list opspec) (ws : list warg) : bool :=
  match enc_ops ps ws with Some _ => true | None => false end.
