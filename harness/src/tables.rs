//! Tables read out of the real library (tie A of DESIGN.md 2.4): nothing here is re-typed by
//! hand, every figure comes from executing the code of the working tree.
use avra_lib::device::{Device, DEVICES};

fn device_line(name: &str, d: &Device) -> String {
    let opts: Vec<String> = d.disable_opts.iter().map(|o| format!("{:?}", o)).collect();
    format!(
        "{} {} {} {} {} {}",
        name,
        d.flash_size,
        d.ram_start,
        d.ram_size,
        d.eeprom_size,
        if opts.is_empty() { "-".to_string() } else { opts.join(",") }
    )
}

/// one line per device, sorted by name: name flash_words ram_start ram_size eeprom opts
/// first line: the default device (Device::new(0)) under the name "-"
pub fn devices() -> i32 {
    println!("{}", device_line("-", &Device::new(0)));
    let mut names: Vec<&&str> = DEVICES.keys().collect();
    names.sort();
    for n in names {
        println!("{}", device_line(n, &DEVICES[*n]));
    }
    0
}
