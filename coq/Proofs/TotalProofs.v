(** C16 (what the model can carry): evaluation, encoding, directive handling and pass 1 never
    "panic"; the only panic sites left in the model are the 32-bit address additions of pass 2. *)
From Coq Require Import List NArith ZArith Bool Lia.
Import ListNotations.
Require Import AvraV.Model.Base AvraV.Model.Ast AvraV.Model.Device AvraV.Model.Eval AvraV.Model.Encode.
Require Import AvraV.Model.Lines AvraV.Model.Parse AvraV.Model.Passes AvraV.Proofs.ErrProofs.

Definition is_panic {A} (r : res A) : bool := match r with Panic => true | _ => false end.

Lemma checked_np z : is_panic (checked z) = false.
Proof. unfold checked. destruct (in_i64 z); reflexivity. Qed.
Lemma eval_bin_np o a b : is_panic (eval_bin o a b) = false.
Proof. destruct o; cbn [eval_bin]; rewrite ?checked_np; try reflexivity;
  repeat match goal with |- context [if ?x then _ else _] => destruct x end; rewrite ?checked_np; reflexivity. Qed.
Lemma eval_un_np o v : is_panic (eval_un o v) = false.
Proof. destruct o; cbn [eval_un]; rewrite ?checked_np; reflexivity. Qed.
Lemma eval_func_np n v : is_panic (eval_func n v) = false.
Proof. unfold eval_func. cbv zeta. repeat match goal with |- context [if ?x then _ else _] => destruct x end; reflexivity. Qed.

(** Expr::run never panics: every operator returns a value or an error value *)
Theorem run_n_np : forall f d c e, is_panic (run_n f d c e) = false.
Proof.
  induction f as [|f IH]; intros d c e; [reflexivity|]. destruct e as [n|z|fn a|l o r|o x]; cbn [run_n].
  - destruct (get_expr c n) as [[| | | |]|]; try reflexivity; destruct (max_symbol_depth <=? d)%nat; try reflexivity; apply IH.
  - reflexivity.
  - destruct fn; try reflexivity. pose proof (IH d c a) as H. destruct (run_n f d c a); try discriminate; cbn [bind]; try reflexivity.
    apply eval_func_np.
  - pose proof (IH d c l) as H1. destruct (run_n f d c l); try discriminate; cbn [bind]; try reflexivity.
    pose proof (IH d c r) as H2. destruct (run_n f d c r); try discriminate; cbn [bind]; try reflexivity. apply eval_bin_np.
  - pose proof (IH d c x) as H. destruct (run_n f d c x); try discriminate; cbn [bind]; try reflexivity. apply eval_un_np.
Qed.
Corollary run_np f c e : is_panic (run f c e) = false.
Proof. apply run_n_np. Qed.

(** the encoder: operands are fetched by position only after the operand count has been checked *)
Definition idx_np (r : res vidx) : Prop :=
  match r with Ok (VDisp _ q) => is_panic q = false | Panic => False | _ => True end.
Definition view_np (v : view) : Prop :=
  is_panic (v_r8 v) = false /\ is_panic (v_val v) = false /\ idx_np (v_idx v).

Lemma view_of_np fuel c a : view_np (view_of fuel c a).
Proof.
  unfold view_np, idx_np, view_of. cbn [v_r8 v_val v_idx]. repeat split.
  - destruct a as [|i|e]; try reflexivity. destruct e; try reflexivity. cbn. destruct (get_def c n); reflexivity.
  - destruct a as [|i|e]; try reflexivity. apply run_np.
  - destruct a as [|i|e]; try exact I. destruct i; cbn; try exact I. apply run_np.
Qed.

Lemma bind_np {A B} (m : res A) (f : A -> res B) :
  is_panic m = false -> (forall x, m = Ok x -> is_panic (f x) = false) -> is_panic (bind m f) = false.
Proof. destruct m; cbn; intros H1 H2; try discriminate; auto. Qed.

Lemma get_byte_np v : is_panic v = false -> is_panic (get_byte v) = false.
Proof. intros H. unfold get_byte. apply bind_np; [exact H|]. intros x _. unfold byte_of. destruct (_ || _); reflexivity. Qed.
Lemma small_field_np m v : is_panic v = false -> is_panic (small_field m v) = false.
Proof. intros H. unfold small_field. apply bind_np; [apply get_byte_np; exact H|]. intros x _. destruct (_ || _); reflexivity. Qed.
Lemma get_bit_np v : is_panic v = false -> is_panic (get_bit_index v) = false.
Proof. intros H. unfold get_bit_index. apply bind_np; [exact H|]. intros x _. unfold bit_of. destruct (_ || _); reflexivity. Qed.
Lemma rel_of_np k pc : is_panic (rel_of k pc) = false.
Proof. unfold rel_of. destruct (in_i64 _); reflexivity. Qed.

Ltac use_idx :=
  match goal with
  | H : v_idx ?v = Ok ?x, I : idx_np (v_idx ?v) |- _ => rewrite H in I; cbn [idx_np] in I
  end.
Ltac np_step :=
  match goal with
  | |- is_panic (bind _ _) = false => apply bind_np; [| intros ? ?]
  | |- is_panic (Ok _) = false => reflexivity
  | |- is_panic (Err _) = false => reflexivity
  | |- is_panic (get_byte _) = false => apply get_byte_np
  | |- is_panic (small_field _ _) = false => apply small_field_np
  | |- is_panic (get_bit_index _) = false => apply get_bit_np
  | |- is_panic (rel_of _ _) = false => apply rel_of_np
  | |- is_panic (v_idx ?v) = false =>
      match goal with I : idx_np (v_idx v) |- _ =>
        unfold idx_np in I; destruct (v_idx v); [reflexivity | reflexivity | contradiction | reflexivity] end
  | |- is_panic (if ?x then _ else _) = false => destruct x
  | |- is_panic (match ?x with _ => _ end) = false => try use_idx; destruct x eqn:?
  | |- is_panic (let '(_, _) := ?x in _) = false => destruct x
  end.

Theorem process_v_np a op vs pc : Forall view_np vs -> is_panic (process_v a op vs pc) = false.
Proof.
  intros Hv.
  assert (V : forall i v, nth_error vs i = Some v -> view_np v).
  { intros i v H. eapply (proj1 (Forall_forall _ _) Hv). eapply nth_error_In; eauto. }
  unfold process_v.
  destruct (operand_counts op) as [l|] eqn:Ec.
  2: { destruct op; try discriminate; try (destruct b; discriminate). cbn [bind]. reflexivity. }
  destruct (existsb (Nat.eqb (length vs)) l) eqn:El; [|reflexivity]. cbn [bind].
  assert (A : forall i, (forall n, In n l -> (i < n)%nat) -> exists v, arg vs i = Ok v /\ view_np v).
  { intros i Hi. apply existsb_exists in El. destruct El as (n & Hn & En). apply Nat.eqb_eq in En.
    specialize (Hi n Hn). unfold arg. destruct (nth_error vs i) as [v|] eqn:E.
    - exists v. split; [reflexivity | eapply V; eauto].
    - apply nth_error_None in E. lia. }
  destruct op; try (destruct b); cbn [operand_counts] in Ec; try discriminate; injection Ec as <-; try reflexivity.
  all: try (destruct (A 0%nat) as (v0 & -> & (R0 & L0 & I0)); [intros ? Hn; cbn [In] in Hn; intuition (subst; lia)|]).
  all: try (destruct (A 1%nat) as (v1 & -> & (R1 & L1 & I1)); [intros ? Hn; cbn [In] in Hn; intuition (subst; lia)|]).
  all: cbn [bind].
  all: try (destruct vs as [|x0 [|x1 [|x2 vs']]]; cbn in El; try discriminate;
            try (inversion Hv as [|? ? (R0 & L0 & I0) Hv']; subst; inversion Hv' as [|? ? (R1 & L1 & I1) _]; subst);
            cbn [arg nth_error bind]).
  all: unfold idx_np in *.
  all: repeat match goal with
              | |- context [v_r8 ?v] => destruct (v_r8 v); try discriminate; cbn [bind]
              | |- context [v_idx ?v] => destruct (v_idx v) as [[? | ? | ? | ? ?]| | |]; try contradiction; cbn [bind]
              | |- context [get_bit_index (v_val ?v)] =>
                  let H := fresh in pose proof (get_bit_np (v_val v) ltac:(assumption)) as H;
                  destruct (get_bit_index (v_val v)); try discriminate; cbn [bind arg nth_error]
              end.
  all: repeat (first [assumption | reflexivity | np_step]).
  all: inversion Hv as [|? ? _ Hv']; inversion Hv' as [|? ? (? & ? & ?) _]; assumption.
Qed.

(** instruction::process never panics *)
Corollary process_np fuel c op args pc : is_panic (process fuel c op args pc) = false.
Proof. unfold process. apply process_v_np. apply Forall_forall. intros v Hin. apply in_map_iff in Hin.
  destruct Hin as (a & <- & _). apply view_of_np. Qed.

(** pass 1 never panics (its address arithmetic reports an error instead) *)
Theorem pass1_item_np t st ci : is_panic (pass1_item t st ci) = false.
Proof.
  destruct st as [[c cur] out], ci as [cp it]. unfold pass1_item, advance.
  destruct it as [z | k ops | a e | a | a e | ops | op args | lab]; cbn [fst]; try reflexivity;
    try destruct k; try destruct t;
    repeat match goal with
           | |- context [if ?x then _ else _] => destruct x; cbn [bind]
           | |- context [match ?x with _ => _ end] => destruct x; cbn [bind]
           end; reflexivity.
Qed.

(** directives never panic, provided the file layer does not *)
Theorem directive_np fuel inc d ops st line :
  (forall p s, is_panic (inc p s) = false) -> is_panic (directive_parse fuel inc d ops st line) = false.
Proof.
  intros Hi. unfold directive_parse.
  destruct d; try reflexivity; try (destruct ops as [args | a e]; cbn [first_op]; try reflexivity).
  all: try (match goal with |- context [DInclude] => idtac end).
  all: try (destruct (hd_error args) as [[e0|p]|]; try reflexivity;
            match goal with |- is_panic (bind (?f ?pp ?ss) _) = false => pose proof (Hi pp ss) as Hp; destruct (f pp ss); try discriminate; reflexivity end).
  all: repeat match goal with
              | |- context [run ?f ?c ?e] => let H := fresh in pose proof (run_np f c e) as H; destruct (run f c e); try discriminate
              | |- context [if ?x then _ else _] => destruct x
              | |- context [match ?x with _ => _ end] => destruct x
              end; try reflexivity.
Qed.
