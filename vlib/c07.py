"""C07 - the Intel HEX files reproduce the images byte for byte at the right addresses.
Theorems: coq/Props/C07.v (writer model round-trips through the independent reader for every
image).  Tie: files written by the real write_code_hex/write_eeprom_hex compared byte for byte
with Model/Hex.write (extracted, and a slice inside Coq).  Search: the real files through the
independent reader Spec/HexReader (the oracle holds_C07)."""
import concurrent.futures as cf
import json
import os
import shutil

from . import common as C

PROP = "C07"


def lengths(tier, max_bytes):
    """(kind, length) list: every length below 600 for the code writer, a denser-than-needed slice
    for the eeprom writer (same generator function behind both), every length within one record
    (+-17) of each 64 KiB multiple up to the largest flash of the device table"""
    out = [("code", n) for n in range(0, 601)]
    out += [("eeprom", n) for n in (list(range(0, 70)) + [255, 256, 257, 511, 512, 513, 599, 600])]
    ks = list(range(1, max_bytes // 65536 + 1))
    if tier == "quick":
        ks = sorted(set(ks[:2] + ks[-1:]))
    for k in ks:
        for d in range(-17, 18):
            n = k * 65536 + d
            if n <= max_bytes + 17:
                out.append(("code", n))
        if tier != "quick" or k == 1:
            for d in (-16, -1, 0, 1, 16, 17):
                out.append(("eeprom", k * 65536 + d))
    return out


def device_cases(devs, tier):
    """(kind, length, figures): the writer is handed the device's sizes with the image (BuildResult); the file must not
    depend on them.  For every distinct (flash words, EEPROM bytes, RAM bytes) of the device table: images up to the device's
    flash around every 64 KiB multiple it can hold (all of them for small parts; first, second and last for the big ones),
    and EEPROM images up to the EEPROM size."""
    figs = sorted(set((f[1], f[4], f[3]) for f in devs))
    out = []
    for flash, eep, ram in figs:
        cap = 2 * flash
        ks = list(range(1, cap // 65536 + 1))
        if len(ks) > 3 and (tier == "quick" or len(ks) > 8):
            ks = ks[:2] + ks[-1:]
        lens = {1, 16, 17, min(cap, 600)}
        for k in ks:
            for d in (-16, -1, 0, 1, 16, 17, 32):
                if 0 < k * 65536 + d <= cap:
                    lens.add(k * 65536 + d)
        lens.add(cap)
        for n in sorted(lens):
            if n <= (1 << 20) or tier != "quick":
                out.append(("code", n, (flash, eep, ram)))
        for n in sorted({1, 17, eep} - {0}):
            out.append(("eeprom", n, (flash, eep, ram)))
    return out


def run_batch(vh, exe, work, idx, batch, seed):
    d = os.path.join(work, "b%d" % idx)
    shutil.rmtree(d, ignore_errors=True)
    os.makedirs(d)
    inp = "".join("%s %d %d%s\n" % (c[0], c[1], seed * 1000003 + idx * 7919 + j, (" %d %d %d" % c[2]) if len(c) > 2 else "")
                  for j, c in enumerate(batch))
    C.vh(vh, ["hex", d], input=inp)
    out = C.model(exe, ["hex", d, str(len(batch))])
    rows = []
    for ln in out.splitlines():
        f = ln.split()
        if len(f) == 4:
            j = int(f[0])
            outcome = None
            if f[1] == "noimpl":
                try:
                    outcome = open(os.path.join(d, "%d.outcome" % j)).read()
                except OSError:
                    outcome = "missing"
            rows.append((batch[j][0], batch[j][1], seed * 1000003 + idx * 7919 + j, f[1], f[2], outcome, batch[j][2] if len(batch[j]) > 2 else None))
    small = []
    if idx % 4 == 0:  # keep a few small cases for the in-Coq slice
        for j, c in enumerate(batch):
            k, n = c[0], c[1]
            p = os.path.join(d, "%d.hex" % j)
            if n <= 40 and os.path.exists(p):
                small.append((list(open(os.path.join(d, "%d.bin" % j), "rb").read()), list(open(p, "rb").read())))
    shutil.rmtree(d, ignore_errors=True)
    return rows, small


def incoq(res, small):
    """tie B(i): model = implementation and oracle holds, evaluated by the Coq kernel's VM"""
    d = os.path.join(C.COQ, "Cases")
    os.makedirs(d, exist_ok=True)
    path = os.path.join(d, "c07_cases.v")
    body = ("Require Import AvraV.Model.Base AvraV.Model.Hex AvraV.Spec.HexReader.\nOpen Scope N_scope.\n"
            "Definition cases : list (list N * list N) := [\n")
    body += ";\n".join("(%s, %s)" % (C.nlist(i), C.nlist(f)) for i, f in small) + "].\n"
    body += ('Eval vm_compute in Report "c07" (failing (fun c => list_eqb N.eqb (write (fst c)) (snd c)) cases) '
             '(failing (fun c => holds_C07 (fst c) (snd c)) cases).\n')
    open(path, "w").write(body)
    _, ok, out, secs = C.coqc_file(path, 600)
    rep = C.parse_reports(out).get("c07")
    good = ok and rep is not None and rep == ([], [])
    res.oblige("correspondence(in-Coq vm_compute): Hex.write = files written by /repo on %d small images" % len(small),
               good, "" if good else (out[-400:] if rep is None else "mismatch idx %s, oracle fails idx %s" % rep))


def run(res):
    vh = C.build_harness("debug")
    exe = C.build_model()
    pr = C.check_props(PROP)
    for n, ok, note in pr["obligations"]:
        res.oblige("theorem " + n, ok, note)
    if pr.get("broken") and not pr["obligations"]:
        res.oblige("coq build", False, pr["broken"])
    devs = [ln.split() for ln in C.vh(vh, ["devices"]).splitlines()]
    max_bytes = max(int(f[1]) for f in devs if f[0] != "-") * 2
    cases = lengths(res.tier, max_bytes) + device_cases([(f[0], int(f[1]), int(f[2]), int(f[3]), int(f[4])) for f in devs], res.tier)
    nb = 32
    batches = [cases[i::nb] for i in range(nb)]
    work = os.path.join(C.BUILD, "work", "c07-%d" % os.getpid())
    rows, small = [], []
    with cf.ThreadPoolExecutor(max_workers=C.NCPU) as ex:
        for r, s in ex.map(lambda ib: run_batch(vh, exe, work, ib[0], ib[1], res.seed), enumerate(batches)):
            rows += r
            small += s
    shutil.rmtree(work, ignore_errors=True)
    mism = [r for r in rows if r[3] != "ok"]
    for kind, n, sd, corr, spec, outcome, fig in rows:
        res.count((kind, n, sd, fig), nontrivial=n > 0)
        if spec != "ok":
            res.failing.append(dict(
                interface="writer::write_%s_hex" % kind,
                input=dict(kind=kind, length=n, image_seed=sd, device_figures=list(fig) if fig else None),
                expected="a file that the independent Intel HEX reader decodes to exactly the image bytes at addresses 0..length-1",
                observed=("library call ended with " + outcome) if outcome else "file rejected by the reader or decodes to something else",
                cls="above-64KiB" if n > 65536 else "other"))
    res.oblige("correspondence(extracted model): Hex.write = file written by /repo, %d images" % len(rows),
               not mism and len(rows) == len(cases),
               "first mismatch: %s" % (mism[0][:3],) if mism else ("%d of %d cases ran" % (len(rows), len(cases))))
    incoq(res, small[:48])
    run_cli(res, vh, exe)
    dist = {"len0": 0, "1..16": 0, "17..600": 0, "64KiB-boundaries": 0}
    dist["with-device-figures"] = sum(1 for r in rows if r[6])
    for kind, n, *_ in rows:
        dist["len0" if n == 0 else "1..16" if n <= 16 else "17..600" if n <= 600 else "64KiB-boundaries"] += 1
    res.rule = ("images = (writer, length, PRNG seed): every length 0..600, every length within +-17 of each multiple of "
                "65536 up to 2*max flash words of the device table (%d bytes; quick tier: first two and last multiple); "
                "contents random / counting / 0xFF / sparse by seed; plus, for every distinct (flash, EEPROM, RAM) row of the device table "
                "handed to the writer with the image, images around every 64 KiB multiple that fits the part and the full-flash / "
                "full-EEPROM images; non-trivial = non-empty image" % max_bytes)
    res.samples = [dict(writer=k, length=n, seed=s, model_equals_file=c, reader_accepts=sp, device_figures=fg) for k, n, s, c, sp, _, fg in rows[:3] + rows[-3:]]
    res.extra["distribution"] = dist
    res.extra["exhaustive"] = False
    res.assume = ["ihex crate record formatting and the LF->CRLF pass are part of Model/Hex.write (modelled, tied by byte-for-byte comparison)",
                  "extraction (ExtrOcamlBasic only) and ocaml/driver.ml for the volume comparison; a slice is re-done by vm_compute inside Coq"]
    if res.failing and not pr["ok"]:
        pass


CLI_SOURCES = {
    "code-only": "  ldi r16, 1\n  rjmp 0\n",
    "eeprom-only": ".eseg\n .db 1, 2, 3, 4, 5\n",
    "eeprom-only-17": ".eseg\n .db " + ", ".join(str(i) for i in range(17)) + "\n",
    "both": "  nop\n.eseg\n  .dw 0x1234\n.cseg\n  ret\n",
    "eeprom-first": ".eseg\n  .db 9\n.cseg\n  nop\n",
    "code-above-64k": ".org 0x8000\n  nop\n  nop\n.eseg\n .db 7\n",
    "all-zero": "  nop\n  nop\n.eseg\n .db 0, 0, 0\n",
    "eeprom-reserved": "  ret\n.eseg\n .byte 9\n",
    "all-ff": "  .dw 0xffff\n.eseg\n .db 255\n",
}


def run_cli(res, vh, exe):
    """the files the command-line tool leaves for a source = the images the library builds for it, through the same reader:
    every non-empty image has its file (flash and EEPROM independently of each other), at the default and at given names"""
    import subprocess
    from . import c18, progrun
    binary, env = c18.build_bin()
    work = os.path.join(C.BUILD, "work", "c07cli-%d" % os.getpid())
    shutil.rmtree(work, ignore_errors=True)
    lib = {k: progrun.parse_obs(r[1]) for k, r in zip(CLI_SOURCES, progrun.run_texts(vh, exe, list(CLI_SOURCES.values())))}
    jobs = []
    hexdir = os.path.join(work, "cmp")
    os.makedirs(hexdir)
    for name, text in CLI_SOURCES.items():
        for given in ("", "o", "e", "oe"):
            d = os.path.join(work, name + "-given-" + given)
            os.makedirs(os.path.join(d, "out"))
            src = os.path.join(d, "prog.asm")
            open(src, "w").write(text)
            # a name that is not given is derived from the SOURCE name, whatever the other one is
            # (file names are byte strings: blanks, non-ASCII characters and bytes that are no valid UTF-8 are names like any other)
            fn, en = [("f.hex", "e.hex"), ("f l.hex", "\u20ac.hex"), (b"f\xfc.hex", b"\xff.hex")][len(jobs) % 3]
            dec = lambda b: b.decode("utf-8", "surrogateescape")
            op = os.path.join(os.fsencode(d), b"out", fn if isinstance(fn, bytes) else os.fsencode(fn))
            ep = os.path.join(os.fsencode(d), b"out", en if isinstance(en, bytes) else os.fsencode(en))
            paths = {"code": dec(op) if "o" in given else os.path.join(d, "prog.hex"),
                     "eeprom": dec(ep) if "e" in given else os.path.join(d, "prog.eep.hex")}
            args = ["-s", src] + (["-o", op] if "o" in given else []) + (["-e", ep] if "e" in given else [])
            p = subprocess.run([binary] + args, cwd=d, env=env, stdout=subprocess.PIPE, stderr=subprocess.STDOUT, text=True, timeout=120)
            l = lib[name]
            for k in ("code", "eeprom"):
                img = bytes.fromhex(l[k]) if l["kind"] == "OK" else b""
                desc = dict(source=text, args=" ".join((a.decode("utf-8", "backslashreplace") if isinstance(a, bytes) else a).replace(d, "<dir>") for a in args), image=k)
                if img and not os.path.exists(paths[k]):
                    res.failing.append(dict(interface="avra-rs binary", input=desc, expected="a HEX file holding the %d-byte %s image" % (len(img), k),
                                            observed="no file; exit %d; %s" % (p.returncode, p.stdout[-120:]), cls="cli-file-missing"))
                elif img:
                    i = len(jobs)
                    open(os.path.join(hexdir, "%d.bin" % i), "wb").write(img)
                    shutil.copy(paths[k], os.path.join(hexdir, "%d.hex" % i))
                    jobs.append(desc)
    out = C.model(exe, ["hex", hexdir, str(len(jobs))]).splitlines()
    for ln in out:
        f = ln.split()
        if len(f) == 4 and (f[1] != "ok" or f[2] != "ok"):
            res.failing.append(dict(interface="avra-rs binary", input=jobs[int(f[0])], expected="a file equal to Hex.write of the library's image, decoding to it",
                                    observed="model-equal=%s reader-accepts=%s" % (f[1], f[2]), cls="cli-file-content"))
    res.oblige("command-line tool: %d files for %d sources x {default names, -o, -e, both} compared with the library's images" % (len(jobs), len(CLI_SOURCES)),
               len(out) >= len(jobs), "%d of %d compared" % (len(out), len(jobs)))
    shutil.rmtree(work, ignore_errors=True)


def match_known(f, entry):
    return entry.get("class") is not None and f.get("cls") == entry.get("class")


def replay(path):
    r = json.load(open(path))
    vh = C.build_harness("debug")
    exe = C.build_model()
    i = r.get("input") or {}
    if not i:
        print("replay: broken obligation %r - re-run ./check %s" % (r.get("obligation"), PROP))
        return 1
    if "args" in i:
        global CLI_SOURCES
        CLI_SOURCES = {"replay": i["source"]}

        class R:
            failing = []

            def oblige(self, *a):
                pass
        r2 = R()
        run_cli(r2, vh, exe)
        if r2.failing:
            print("VIOLATION property=%s replay=%s" % (PROP, path))
            return 1
        print("replay: property now holds on this input")
        return 0
    work = os.path.join(C.BUILD, "work", "c07-replay-%d" % os.getpid())
    os.makedirs(work, exist_ok=True)
    fg = i.get("device_figures")
    C.vh(vh, ["hex", work], input="%s %d %d%s\n" % (i["kind"], i["length"], i["image_seed"], (" %d %d %d" % tuple(fg)) if fg else ""))
    out = C.model(exe, ["hex", work, "1"]).split()
    shutil.rmtree(work, ignore_errors=True)
    if out[2] == "ok":
        print("replay: property now holds on this input")
        return 0
    print("VIOLATION property=%s replay=%s" % (PROP, path))
    return 1
