(** C08 - conditional assembly assembles exactly the selected branch (examples; theorem below is added with Proofs/CondProofs.v). *)
From Coq Require Import List ZArith NArith String.
Import ListNotations.
Require Import AvraV.Model.Base AvraV.Model.Ast AvraV.Model.Passes.
Definition code_of (src : string) : option (list N) :=
  match build_str 200 (list_ascii_of_string src) with Ok b => Some (b_code b) | _ => None end.
Definition nl := String (Ascii.ascii_of_N 10) EmptyString.
Example C08_examples :
  code_of (".if 1" ++ nl ++ ".db 1,2" ++ nl ++ ".elif 1" ++ nl ++ ".db 3,4" ++ nl ++ ".else" ++ nl ++ ".db 5,6" ++ nl ++ ".endif" ++ nl)
    = Some [1; 2]%N /\
  code_of (".if 0" ++ nl ++ "garbage !!" ++ nl ++ ".elif 1" ++ nl ++ ".db 3,4" ++ nl ++ ".elif 1" ++ nl ++ ".db 7,8" ++ nl ++ ".endif" ++ nl)
    = Some [3; 4]%N.
Proof. vm_compute. split; reflexivity. Qed.
