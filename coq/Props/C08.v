(** C08 - conditional assembly assembles exactly the selected branch.
    Property theorems only; proofs are in Proofs/CondProofs.v. *)
From Coq Require Import List ZArith NArith String.
Import ListNotations.
Require Import AvraV.Model.Base AvraV.Model.Ast AvraV.Model.Lines AvraV.Model.Parse AvraV.Model.Passes AvraV.Proofs.CondProofs.

(** A program is a list of block trees ([nodes]): plain lines,
    .if/.ifdef/.ifndef [.elif]* [.else] .endif blocks nested to any depth, and macro definitions
    (.macro line, balanced body text without an end-of-macro line, .endm/.endmacro); a plain line is
    ANY text that is not one of the six conditional directives - valid statements, text that does not
    parse at all, .error, ...  ([wf_nodes] says nothing else).  The tree semantics [ex_nodes] is what the
    property asks for: a block evaluates the condition of its head; if it holds, exactly the lines of
    that arm are assembled (recursively) and of the remaining arms nothing but the label, if any, on
    the next arm's own line; otherwise the next arm is looked at in the same way - an .elif is
    evaluated only then -, the .else arm is taken when no condition held, and a block without a taken
    arm contributes nothing.  The bodies of unselected arms are never inspected: [ex_*] does not
    even look at them, so they may contain anything.  Conditions are evaluated in the state the
    assembly has reached ([line_step] runs the model's own directive handling).

    THEOREM: for every well-formed program, every state and every result of the tree semantics
    (a state or an error value; [None] = a selected plain line ends the file or opens a macro definition
    that is not closed as a macro node, which the tree semantics does not describe), the line loop of the model - skipping by counting
    nested conditionals - run on the flattened text returns exactly that result. *)
Theorem C08_select : forall fuel inc ns st o,
  wf_nodes ns -> ex_nodes fuel inc ns st = Some o ->
  forall g, (length (fl_nodes ns) < g)%nat -> parse_iter fuel inc g (fl_nodes ns) false st = o.
Proof. exact select_program. Qed.
Check C08_select : forall fuel inc ns st o,
  wf_nodes ns -> ex_nodes fuel inc ns st = Some o ->
  forall g, (length (fl_nodes ns) < g)%nat -> parse_iter fuel inc g (fl_nodes ns) false st = o.
Print Assumptions C08_select.

(** the same with an arbitrary continuation (any text may follow the blocks) and for the relational
    form of the loop *)
Theorem C08_select_general : forall fuel inc,
  (forall ns, wf_nodes ns -> forall st o rest res,
     ex_nodes fuel inc ns st = Some o -> Cont fuel inc o rest res -> Run fuel inc (fl_nodes ns ++ rest) false st res).
Proof. intros fuel inc. exact (proj1 (proj2 (refines fuel inc))). Qed.
Print Assumptions C08_select_general.

(** Non-vacuity: a two-level tree with garbage in the unselected arms, its flattening, and the result. *)
Definition L (n : N) (s : string) : N * str := (n, list_ascii_of_string s).
Definition sample : nodes :=
  Ncons (NBlock (L 0 ".if 0") (Ncons (NLine (L 1 "this is !! not assembly")) Nnil)
           (AElif (L 2 ".elif 1")
              (Ncons (NLine (L 3 " .db 3, 4"))
                 (Ncons (NBlock (L 4 ".if 0") (Ncons (NLine (L 5 ".error ""no""")) Nnil) (AEnd (L 6 ".endif"))) Nnil))
              (AElif (L 7 ".elif 1") (Ncons (NLine (L 8 " .db 7, 8")) Nnil)
                 (AElse (L 9 ".else") (Ncons (NLine (L 10 "dup: dup: dup:")) Nnil) (L 11 ".endif")))))
        (Ncons (NLine (L 12 " .db 5, 6")) Nnil).
Definition st0 := pstate_new (Eval.ctx_new Gen.Devices.default_device).
Example C08_example :
  wf_nodes sample /\
  (exists st', ex_nodes 50 no_include sample st0 = Some (Ok st') /\
               map (fun x => snd x) (items (last_seg st')) =
               [IData Db [PE (EConst 3); PE (EConst 4)]; IData Db [PE (EConst 5); PE (EConst 6)]]) /\
  length (fl_nodes sample) = 13%nat.
Proof. vm_compute. repeat split; try reflexivity. eexists. split; reflexivity. Qed.

Definition code_of (src : string) : option (list N) :=
  match build_str 200 (list_ascii_of_string src) with Ok b => Some (b_code b) | _ => None end.
Definition nl := String (Ascii.ascii_of_N 10) EmptyString.
Example C08_examples :
  code_of (".if 1" ++ nl ++ ".db 1,2" ++ nl ++ ".elif 1" ++ nl ++ ".db 3,4" ++ nl ++ ".else" ++ nl ++ ".db 5,6" ++ nl ++ ".endif" ++ nl)
    = Some [1; 2]%N /\
  code_of (".if 0" ++ nl ++ "garbage !!" ++ nl ++ ".elif 1" ++ nl ++ ".db 3,4" ++ nl ++ ".elif 1" ++ nl ++ ".db 7,8" ++ nl ++ ".endif" ++ nl)
    = Some [3; 4]%N /\
  code_of (".if 1" ++ nl ++ ".db 1,2" ++ nl ++ ".if 0" ++ nl ++ ".db 9,9" ++ nl ++ ".endif" ++ nl ++ ".elif 1" ++ nl ++ ".db 3,4" ++ nl ++ ".endif" ++ nl)
    = Some [1; 2]%N.
Proof. vm_compute. repeat split; reflexivity. Qed.
