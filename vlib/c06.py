"""C06 - data directives emit exactly the bytes written, little-endian, exact width.
Search oracle: an independent reference (this file) computes the expected flash / EEPROM image or 'must fail'."""
import random

from . import progcheck as P, progrun

PROP = "C06"
WIDTH = {"db": 1, "dw": 2, "dd": 4, "dq": 8}
STRINGS = ["", "a", "ab", "abc", "Hello, World", "é", "€uro", "a;b", "//x", "/* */", "tab\there", "'", "x" * 17,
           # no escapes in strings: a backslash is a character like any other, also as the last one
           "C:\\", "ab\\", "\\", "a\\b", "\\n", "\\\\", "\\0", "%", "@0", "#", "$", "`", "a,b", " ", "  x ", ":", "=", "(", "r16", "\x7f"]


def lit(v, rng):
    """an expression text whose value is v (non-negative literals only, as the grammar has no negative literals)"""
    if v >= 0:
        return rng.choice([str(v), "0x%x" % v, "$%X" % v, "(%d)" % v]) if v < 2 ** 63 else str(v)
    if v == -2 ** 63:
        return "-9223372036854775807-1"
    return rng.choice(["-%d", "(-%d)", "0-%d"]) % (-v)


def bound_values(w):
    b = 8 * w
    vs = [0, 1, 2, 127, 128, 255, 256, 2 ** (b - 1) - 1, 2 ** (b - 1), 2 ** b - 1, -1, -2, -(2 ** (b - 1)), -(2 ** (b - 1)) + 1]
    if w < 8:
        vs += [2 ** b, 2 ** b + 1, -(2 ** (b - 1)) - 1, -(2 ** (b - 1)) - 2, 2 ** 32, -2 ** 33, 2 ** 63 - 1, -2 ** 63]
    else:
        vs = [0, 1, 255, 2 ** 32, 2 ** 63 - 1, -1, -2 ** 63, -2 ** 63 + 1, 2 ** 62]
    return vs


def fits(v, w):
    if w == 8:
        return -2 ** 63 <= v <= 2 ** 63 - 1
    return -(2 ** (8 * w - 1)) <= v <= 2 ** (8 * w) - 1


def gen_case(rng):
    """-> (lines, expected) where expected = ('OK', code bytes, eeprom bytes) | ('ERR',)"""
    lines, code, eep = [], bytearray(), bytearray()
    ok = True
    seg = "c"
    syms = {}
    for _ in range(rng.randrange(1, 7)):
        k = rng.random()
        if k > 0.9:
            # a .set variable, defined or re-defined in whatever segment is current: a data operand sees the value the
            # variable has at its own place in the source, also when the memories are interleaved
            name = "v%d" % rng.randrange(2)
            if name in syms and rng.random() < 0.5:
                step = rng.randrange(1, 4)
                lines.append(".set %s = %s + %d" % (name, rng.choice([name, name.upper()]), step))
                syms[name] += step
            else:
                syms[name] = rng.randrange(0, 200)
                lines.append(".set %s = %d" % (name, syms[name]))
            continue
        if k < 0.18:
            seg = rng.choice("ce" if rng.random() < 0.97 else "d")
            lines.append({"c": ".cseg", "e": ".eseg", "d": ".dseg"}[seg])
            continue
        if k < 0.28:
            name = "k%d" % len(syms)
            v = rng.choice(bound_values(1)) if rng.random() < 0.2 else rng.randrange(0, 256)
            syms[name] = v
            lines.append(".equ %s = %s" % (name, lit(v, rng)))
            continue
        if k < 0.36 and seg == "e":
            n = rng.randrange(0, 6)
            if rng.random() < 0.3:
                # a gap first: the reservation does not start at address 0 / at the end of the previous data
                gap = rng.randrange(1, 5)
                lines.append(".org %d" % (len(eep) + gap))
                eep += bytes(gap)
            lines.append(".byte %d" % n)
            eep += bytes(n)
            continue
        d = rng.choice(list(WIDTH))
        w = WIDTH[d]
        ops, out = [], bytearray()
        line_pc = len(code) // 2 if seg == "c" else len(eep)      # what the symbol pc reads on this line: where the line starts
        for _ in range(rng.randrange(1, 5)):
            r = rng.random()
            if 0.93 < r and seg in "ce":
                v, text = line_pc, rng.choice(["pc", "PC", "Pc", "pc+0", "(pc)"])
                ops.append(text)
                if fits(v, w):
                    out += (v % (256 ** w)).to_bytes(w, "little")
                else:
                    ok = False
                continue
            if r < (0.3 if d == "db" else 0.02):
                s = rng.choice(STRINGS)
                ops.append('"%s"' % s)
                if d == "db":
                    out += s.encode("utf-8")
                else:
                    ok = False
            else:
                if r < 0.4 and syms:
                    name = rng.choice(list(syms))
                    v, text = syms[name], rng.choice([name, name.upper()])
                else:
                    v = rng.choice(bound_values(w)) if rng.random() < 0.12 else rng.choice([rng.randrange(0, 256 ** w), -rng.randrange(1, 2 ** (8 * w - 1) + 1)])
                    text = lit(v, rng)
                ops.append(text)
                if fits(v, w):
                    out += (v % (256 ** w)).to_bytes(w, "little")
                else:
                    ok = False
        line = ".%s %s%s" % (d, rng.choice([", ", ",", " ,"]).join(ops), rng.choice(["", "", "", ' ; "q"', " ; it's", ' // "', ' /* " */', ';"']))
        if seg == "c" and rng.random() < 0.15:     # (macros can only be called in the code segment)
            # the same line reached through a macro: a body is kept and re-read as the text that was written
            mname = "dm%d" % len(lines)
            lines += [".macro " + mname, line, ".endm", " " + rng.choice([mname, mname.upper()])]
        else:
            lines.append(line)
        if seg == "c":
            if d == "db" and len(out) % 2 == 1:
                out += b"\0"
            code += out
        elif seg == "e":
            eep += out
        else:
            ok = False
    return lines, (("OK", bytes(code).hex(), bytes(eep).hex()) if ok else ("ERR",))


def run(res):
    vh, exe = P.base(res, PROP)
    rng = random.Random(res.seed)
    cases = [gen_case(rng) for _ in range(3000 if res.tier == "quick" else 1000000)]
    # every width x every boundary value, alone, in both segments
    for d, w in WIDTH.items():
        for v in bound_values(w):
            for seg in ("c", "e"):
                out = (v % (256 ** w)).to_bytes(w, "little") if fits(v, w) else None
                lines = [".eseg" if seg == "e" else ".cseg", ".%s %s" % (d, lit(v, rng))]
                if out is None:
                    exp = ("ERR",)
                else:
                    if seg == "c" and d == "db":
                        out += b"\0"
                    exp = ("OK", out.hex() if seg == "c" else "", out.hex() if seg == "e" else "")
                cases.append((lines, exp))
    # empty operand lists and empty strings: a line that contributes no bytes is still subject to every check
    for d, w in WIDTH.items():
        for seg in ("c", "e", "d"):
            for ops in ([], ['""'], ['""', '""'], ['""', "1"], ["1", '""'], ['"a"', '""', '"b"']):
                has_str = any(o.startswith('"') for o in ops)
                if seg == "d" or (has_str and d != "db"):
                    exp = ("ERR",)
                else:
                    out = bytearray()
                    for o in ops:
                        out += o.strip('"').encode() if o.startswith('"') else int(o).to_bytes(w, "little")
                    if seg == "c" and d == "db" and len(out) % 2 == 1:
                        out += b"\0"
                    exp = ("OK", out.hex() if seg == "c" else "", out.hex() if seg == "e" else "")
                for tail in ([], [" nop"] if seg == "c" else [".cseg", " nop"]):
                    e2 = exp if exp[0] == "ERR" or not tail else ("OK", exp[1] + "0000", exp[2])
                    cases.append(([{"c": ".cseg", "e": ".eseg", "d": ".dseg"}[seg], (".%s %s" % (d, ", ".join(ops))).rstrip()] + tail, e2))
    # operand lists separated by blanks instead of commas (the grammar allows up to five): strings and plain numbers
    for seg in ("c", "e"):
        for ops in (['"ab"', '"cd"'], ['"abc"', "1"], ["7", '"xy"'], ['"a"', '"b"', '"c"'], ["1", "2", "3"], ['"x"', "65", '"y"', "66", '"z"'], ["10", "20", "30", "40", "50"],
                    ['"Mixed Case"', "0"], ['"a;b"', '"c"'], ["'A'", '"bc"'], ['"ab"', "'c'"]):
            for sep in (" ", "  ", "\t", " \t "):
                out = bytearray()
                for o in ops:
                    out += o.strip('"').encode() if o.startswith('"') else bytes([ord(o[1])]) if o.startswith("'") else int(o).to_bytes(1, "little")
                if seg == "c" and len(out) % 2 == 1:
                    out += b"\0"
                cases.append(([".cseg" if seg == "c" else ".eseg", ".db " + sep.join(ops)], ("OK", out.hex() if seg == "c" else "", out.hex() if seg == "e" else "")))
    # macro bodies that begin or end with .org / a segment directive: the expansion lands where the pasted body would
    from . import c09
    mp = c09.segment_first_pairs()
    mobs = P.correspond(res, vh, exe, [a for a, _ in mp] + [b for _, b in mp], "macros whose body begins or ends with a segment directive or .org")
    for a, b in mp:
        x, y = progrun.parse_obs(mobs[a][0]), progrun.parse_obs(mobs[b][0])
        if y["kind"] == "OK" and (x["kind"], x.get("code"), x.get("eeprom"), x.get("fill")) != ("OK", y["code"], y["eeprom"], y["fill"]):
            P.fail(res, "builder::build_str", a, "the images of the pasted body: " + mobs[b][0][:100], mobs[a][0][:100], "macro-segment-data")
    texts = ["\n".join(l) + "\n" for l, _ in cases]
    obs = P.correspond(res, vh, exe, texts, "data-directive programs")
    nerr = 0
    for (lines, exp), t in zip(cases, texts):
        a = progrun.parse_obs(obs[t][0])
        if exp[0] == "ERR":
            nerr += 1
            if a["kind"] != "ERR":
                P.fail(res, "builder::build_str", t, "a failed build (value out of range / string in word directive / wrong segment)", obs[t][0][:120], "accepted")
        elif a["kind"] != "OK" or a["code"] != exp[1] or a["eeprom"] != exp[2]:
            P.fail(res, "builder::build_str", t, "code=%s eeprom=%s" % (exp[1], exp[2]), obs[t][0][:160], "bytes")
    res.extra["distribution"].update(cases=len(cases), expected_failures=nerr)
    res.extra["exhaustive"] = False
    res.rule = ("operand lists of 1..4 elements (literals of all radixes, negated literals, .equ symbols and re-assigned .set variables in both letter cases, ASCII / "
                "non-ASCII / empty strings) for .db/.dw/.dd/.dq and .byte, in code, EEPROM and (wrongly) data segments; every width x "
                "every boundary value on its own; oracle: reference encoder in vlib/c06.py (little-endian two's complement, "
                "[-2^(w-1), 2^w-1], one pad byte per odd .db line in flash only)")
    res.samples = [dict(source=texts[i], expected=cases[i][1], observed=obs[texts[i]][0][:100]) for i in (0, 1, len(texts) - 1)]
    res.assume = ["the reference encoder in vlib/c06.py is an independent reading of the property text"]


match_known = P.match_known


def replay(path):
    def judge(vh, exe, i):
        rows = progrun.run_texts(vh, exe, [i["source"]])
        want = i.get("want")
        return None if want is None or rows[0][1].startswith(want) else (want, rows[0][1])
    return P.replay_text(PROP, path, judge)
