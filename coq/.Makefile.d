Model/Base.vo Model/Base.glob Model/Base.v.beautified Model/Base.required_vo: Model/Base.v 
Model/Base.vio: Model/Base.v 
Model/Base.vos Model/Base.vok Model/Base.required_vos: Model/Base.v 
Model/Hex.vo Model/Hex.glob Model/Hex.v.beautified Model/Hex.required_vo: Model/Hex.v Model/Base.vo
Model/Hex.vio: Model/Hex.v Model/Base.vio
Model/Hex.vos Model/Hex.vok Model/Hex.required_vos: Model/Hex.v Model/Base.vos
Proofs/HexProofs.vo Proofs/HexProofs.glob Proofs/HexProofs.v.beautified Proofs/HexProofs.required_vo: Proofs/HexProofs.v Model/Base.vo Model/Hex.vo Spec/HexReader.vo
Proofs/HexProofs.vio: Proofs/HexProofs.v Model/Base.vio Model/Hex.vio Spec/HexReader.vio
Proofs/HexProofs.vos Proofs/HexProofs.vok Proofs/HexProofs.required_vos: Proofs/HexProofs.v Model/Base.vos Model/Hex.vos Spec/HexReader.vos
Props/C07.vo Props/C07.glob Props/C07.v.beautified Props/C07.required_vo: Props/C07.v Model/Hex.vo Spec/HexReader.vo Proofs/HexProofs.vo
Props/C07.vio: Props/C07.v Model/Hex.vio Spec/HexReader.vio Proofs/HexProofs.vio
Props/C07.vos Props/C07.vok Props/C07.required_vos: Props/C07.v Model/Hex.vos Spec/HexReader.vos Proofs/HexProofs.vos
Spec/HexReader.vo Spec/HexReader.glob Spec/HexReader.v.beautified Spec/HexReader.required_vo: Spec/HexReader.v 
Spec/HexReader.vio: Spec/HexReader.v 
Spec/HexReader.vos Spec/HexReader.vok Spec/HexReader.required_vos: Spec/HexReader.v 
