
type nat =
| O
| S of nat

val fst : ('a1 * 'a2) -> 'a1

val snd : ('a1 * 'a2) -> 'a2

val length : 'a1 list -> nat

val app : 'a1 list -> 'a1 list -> 'a1 list

type comparison =
| Eq
| Lt
| Gt

val add : nat -> nat -> nat

type positive =
| XI of positive
| XO of positive
| XH

type n =
| N0
| Npos of positive

module Pos :
 sig
  type mask =
  | IsNul
  | IsPos of positive
  | IsNeg
 end

module Coq_Pos :
 sig
  val succ : positive -> positive

  val add : positive -> positive -> positive

  val add_carry : positive -> positive -> positive

  val pred_double : positive -> positive

  type mask = Pos.mask =
  | IsNul
  | IsPos of positive
  | IsNeg

  val succ_double_mask : mask -> mask

  val double_mask : mask -> mask

  val double_pred_mask : positive -> mask

  val sub_mask : positive -> positive -> mask

  val sub_mask_carry : positive -> positive -> mask

  val mul : positive -> positive -> positive

  val compare_cont : comparison -> positive -> positive -> comparison

  val compare : positive -> positive -> comparison

  val eqb : positive -> positive -> bool

  val iter_op : ('a1 -> 'a1 -> 'a1) -> positive -> 'a1 -> 'a1

  val to_nat : positive -> nat

  val of_succ_nat : nat -> positive
 end

module N :
 sig
  val succ_double : n -> n

  val double : n -> n

  val add : n -> n -> n

  val sub : n -> n -> n

  val mul : n -> n -> n

  val compare : n -> n -> comparison

  val eqb : n -> n -> bool

  val leb : n -> n -> bool

  val ltb : n -> n -> bool

  val pos_div_eucl : positive -> n -> n * n

  val div_eucl : n -> n -> n * n

  val div : n -> n -> n

  val modulo : n -> n -> n

  val to_nat : n -> nat

  val of_nat : nat -> n
 end

val concat : 'a1 list list -> 'a1 list

val map : ('a1 -> 'a2) -> 'a1 list -> 'a2 list

val firstn : nat -> 'a1 list -> 'a1 list

val skipn : nat -> 'a1 list -> 'a1 list

val hexd : n -> n

val hex2 : n -> n list

val sumN : n list -> n

val cks : n list -> n

val body_of : n -> n -> n list -> n list

val record : n -> n -> n list -> n list

val chunks : nat -> n list -> n list list

val data_records : n -> n list list -> n list

val write : n list -> n list

val unhex : n -> n option

val read_byte : n list -> (n * n list) option

val read_bytes : nat -> n list -> (n list * n list) option

val sum : n list -> n

val parse_record : n list -> (((n * n) * n list) * n list) option

val skip_eol : n list -> n list

val addrs : n -> n list -> (n * n) list

val read_body :
  (n -> n list -> (n * n) list option) -> n -> n list -> (n * n) list option

val read : nat -> n -> n list -> (n * n) list option

val read_file : n list -> (n * n) list option

val pair_eqb : (n * n) -> (n * n) -> bool

val pairs_eqb : (n * n) list -> (n * n) list -> bool

val holds_C07 : n list -> n list -> bool
