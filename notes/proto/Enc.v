From Coq Require Import List NArith ZArith Lia Bool Ascii String.
Import ListNotations.
Require Import Isa.
Open Scope N_scope.

(* model of process() for the same slice, written the way mod.rs computes it *)
Definition rr_base (o:rr_op) : N :=
  match o with ADD=>0x0c00|ADC=>0x1c00|SUB=>0x1800|SBC=>0x0800|AND=>0x2000|OR=>0x2800|EOR=>0x2400
             |CPSE=>0x1000|CP=>0x1400|CPC=>0x0400|MOV=>0x2c00|MUL=>0x9c00 end.
Definition imm_base (o:imm_op) : N :=
  match o with SUBI=>0x5000|SBCI=>0x4000|ANDI=>0x7000|ORI=>0x6000|CPI=>0x3000|LDI=>0xe000 end.

Definition enc (i:insn) : list N :=
  match i with
  | Irr o d r => [N.lor (rr_base o) (N.lor (N.shiftl d 4) (N.lor (N.shiftl (N.land r 0x10) 5) (N.land r 0x0f)))]
  | Iimm o d k => [N.lor (imm_base o) (N.lor (N.shiftl (N.land d 0x0f) 4) (N.lor (N.shiftl (N.land k 0xf0) 4) (N.land k 0x0f)))]
  | Ildd st y r q =>
      [N.lor (if st then 0x8200 else 0x8000) (N.lor (N.shiftl r 4) (N.lor (if y then 8 else 0)
         (N.lor (N.shiftl (N.land q 0x20) 8) (N.lor (N.shiftl (N.land q 0x18) 7) (N.land q 0x07)))))]
  | Ibrb set s k =>
      let rel16 := Z.to_N (k mod 65536) in   (* rel as u16 *)
      [N.lor 0xf000 (N.lor s (N.lor (if set then 0 else 0x400) (N.shiftl (N.land rel16 0x7f) 3)))]
  | Ijmp call k =>
      [N.lor (if call then 0x940e else 0x940c) (N.lor (N.shiftr (N.land k 0x3e0000) 13) (N.shiftr (N.land k 0x010000) 16));
       N.land k 0xffff]
  end.

Definition agree (i:insn) : bool :=
  (fix eq (a b:list N) := match a, b with [], [] => true | x::a', y::b' => (x =? y) && eq a' b' | _, _ => false end) (enc i) (words i).

Time Lemma enc_sweep : forallb agree (dom_rr ++ dom_imm ++ dom_ldd ++ dom_brb ++ dom_jmp_hi)%list = true.
Proof. Time vm_compute. reflexivity. Time Qed.

(* the unbounded part of jmp/call: arbitrary 22-bit k, by arithmetic not by sweep *)
Lemma jmp_lo k : N.land k 0xffff = k mod 65536.
Proof. change 0xffff with (N.ones 16). rewrite N.land_ones. reflexivity. Qed.
