(** C09, the splice: a macro call puts into the current code segment exactly the items the
    substituted body parses to (read as a fresh code segment at the current address), in order,
    with nested calls expanded one level deeper; nothing else of the segment list changes.
    Holds for every body in which no line is a segment directive, .org or .include (such lines
    may not even occur in a branch that is skipped): labels, instructions, data, .set/.def,
    .equ, messages, conditionals and nested macro definitions are all covered. *)
From Coq Require Import List NArith ZArith Bool Lia.
Import ListNotations.
Require Import AvraV.Model.Base AvraV.Model.Ast AvraV.Model.Device AvraV.Model.Eval AvraV.Model.Lines.
Require Import AvraV.Model.Fs AvraV.Model.Parse AvraV.Model.Passes.
Require Import AvraV.Proofs.LayoutProofs AvraV.Proofs.CondProofs AvraV.Proofs.Pass0Proofs.
Open Scope N_scope.

(** lines that leave the list of segments alone (and have a length a line of an expansion may have) *)
Definition neutral_dir (d : directive) : bool :=
  match d with DOrg | DCSeg | DDSeg | DESeg | DInclude => false | _ => true end.
Definition neutral_line (ln : line) : bool :=
  match dir_of (snd ln) with Some d => neutral_dir d | None => true end && (N.of_nat (length (snd ln)) <=? max_macro_line).

Lemma neutral_not_too_long ls : Forall (fun ln => neutral_line ln = true) ls -> too_long ls = false.
Proof.
  induction 1 as [|ln r Hn _ IH]; [reflexivity|].
  apply andb_true_iff in Hn. destruct Hn as [_ Hn]. apply N.leb_le in Hn.
  change (too_long (ln :: r)) with ((max_macro_line <? N.of_nat (length (snd ln))) || too_long r).
  rewrite IH, (proj2 (N.ltb_ge _ _) Hn). reflexivity.
Qed.

Lemma skip_cond_forall (P : line -> Prop) all : forall ls d, Forall P ls -> Forall P (fst (skip_cond all d ls)).
Proof.
  induction ls as [|[n l] r IH]; intros d H; cbn [skip_cond]; [constructor|].
  inversion H as [|? ? Hh Ht]; subst.
  destruct (dir_of l) as [dd|]; [|apply IH; exact Ht].
  destruct dd; try (apply IH; exact Ht);
    destruct d; try (apply IH; exact Ht); try destruct all; cbn [fst]; first [apply IH; exact Ht | exact H | exact Ht].
Qed.
Lemma skip_macro_forall (P : line -> Prop) : forall ls acc, Forall P ls -> Forall P (snd (skip_macro ls acc)).
Proof.
  induction ls as [|[n l] r IH]; intros acc H; cbn [skip_macro]; [constructor|].
  inversion H as [|? ? Hh Ht]; subst.
  destruct (dir_of l) as [dd|]; [|apply IH; exact Ht].
  destruct dd; try (apply IH; exact Ht); exact Ht.
Qed.

(** the shape the inner state of an expansion starts with, and keeps *)
Definition one_seg (a : N) (st : pstate) : Prop :=
  exists its, segs st = [{| items := its; seg_t := SCode; address := a |}].

Lemma one_seg_push a st cp it : one_seg a st -> one_seg a (push_item st cp it).
Proof. intros (its & E). exists (its ++ [(cp, it)])%list. unfold push_item, with_segs. cbn [segs]. rewrite E. reflexivity. Qed.
Lemma one_seg_label a st lab line : one_seg a st -> one_seg a (label_item st lab line).
Proof. destruct lab; [apply one_seg_push | trivial]. Qed.
Lemma one_seg_same a st st' : segs st' = segs st -> one_seg a st -> one_seg a st'.
Proof. intros E (its & H). exists its. congruence. Qed.

Section Splice.
Variable fuel : nat.
Variable inc : str -> pstate -> res pstate.

Lemma directive_one_seg a d ops st line st' ni : neutral_dir d = true ->
  directive_parse fuel inc d ops st line = Ok (st', ni) -> one_seg a st -> one_seg a st'.
Proof.
  intros Hn H Hs. unfold directive_parse in H.
  destruct d; try discriminate;
    repeat match type of H with
           | context [match ?x with _ => _ end] => destruct x eqn:?; try discriminate
           end;
    try (injection H as <- _);
    first [ exact Hs | apply one_seg_push; exact Hs | eapply one_seg_same; [|exact Hs]; reflexivity ].
Qed.

(** only .device (and what an included file does) changes the selected device - hence the capacities a build is held to *)
Lemma directive_keeps_device d ops st line st' ni : d <> DDevice -> d <> DInclude ->
  directive_parse fuel inc d ops st line = Ok (st', ni) -> dev (pcx st') = dev (pcx st).
Proof.
  intros Hd Hi H. unfold directive_parse in H.
  destruct d; try discriminate; try congruence;
    repeat match type of H with
           | context [match ?x with _ => _ end] => destruct x eqn:?; try discriminate
           end;
    try (injection H as <- _); reflexivity.
Qed.

Lemma line_step_one_seg a ln sk st st' ni : neutral_line ln = true ->
  line_step fuel inc ln sk st = Ok (st', ni) -> one_seg a st -> one_seg a st'.
Proof.
  unfold neutral_line. intros Hn H Hs. apply andb_true_iff in Hn. destruct Hn as [Hn _]. revert Hn H. unfold dir_of, line_step. intros Hn H.
  destruct (parse_line (snd ln)) as [[| name | lab o args | lab d ops]|]; try discriminate.
  - injection H as <- _. exact Hs.
  - injection H as <- _. apply one_seg_push. exact Hs.
  - injection H as <- _. apply one_seg_push, one_seg_label. exact Hs.
  - pose proof (one_seg_label a st lab (fst ln + 1) Hs) as Hl.
    destruct d, sk; try (injection H as <- _; exact Hl); eapply directive_one_seg; eauto.
Qed.

Lemma parse_iter_one_seg a : forall g ls sk st st', Forall (fun ln => neutral_line ln = true) ls ->
  parse_iter fuel inc g ls sk st = Ok st' -> one_seg a st -> one_seg a st'.
Proof.
  induction g as [|g IH]; intros ls sk st st' Hf H Hs; [discriminate|].
  destruct ls as [|ln r]; [injection H as <-; exact Hs|].
  inversion Hf as [|? ? Hn Hr]; subst.
  rewrite parse_iter_step in H. apply bind_ok in H. destruct H as ([st2 ni] & Hl & H).
  pose proof (line_step_one_seg a _ _ _ _ _ Hn Hl Hs) as Hs2. unfold continue in H.
  destruct ni.
  - eapply IH; eauto.
  - pose proof (skip_cond_forall _ false r 0%nat Hr) as Hk.
    destruct (skip_cond false 0 r) as [r' at_elif]. eapply IH; [exact Hk | exact H | exact Hs2].
  - eapply IH; [apply skip_cond_forall; exact Hr | exact H | exact Hs2].
  - pose proof (skip_macro_forall _ r [] Hr) as Hk.
    destruct (skip_macro r []) as [body r']. eapply IH; [exact Hk | exact H |].
    eapply one_seg_same; [|exact Hs2]. reflexivity.
  - injection H as <-. exact Hs2.
Qed.

Variable macroses : list (str * list (N * str)).

(** what the expansion of a call hands to pass 0: the items the substituted body parses to *)
Definition body_items (ops : list iop) (body : list (N * str)) (st : pstate) : res (pstate * list ((N * N) * item)) :=
  let inner := {| segs := [{| items := []; seg_t := SCode; address := address (last_seg st) |}];
                  macro_name := macro_name st; macros := macros st; msgs := msgs st; pcx := pcx st; fl := fl_empty |} in
  let ls := substitute ops body in
  do r <- parse_iter fuel inc (S (length ls)) ls false inner;
  Ok ({| segs := segs st; macro_name := macro_name r; macros := macros r; msgs := msgs r; pcx := pcx r; fl := fl st |},
      match segs r with s :: _ => items s | [] => [] end).

Lemma expand_neutral line name ops st body :
  lookup name macroses = Some body ->
  Forall (fun ln => neutral_line ln = true) (substitute ops body) ->
  macro_expand fuel inc macroses line name ops st =
    do x <- body_items ops body st;
    Ok (fst x, [{| items := snd x; seg_t := SCode; address := address (last_seg st) |}]).
Proof.
  intros Hl Hf. unfold macro_expand, body_items. rewrite Hl. cbv zeta. rewrite (neutral_not_too_long _ Hf).
  destruct (parse_iter _ _ _ _ _ _) as [r| | |] eqn:Ep; try reflexivity. cbn [bind fst snd].
  assert (Hs : one_seg (address (last_seg st)) r).
  { eapply parse_iter_one_seg; [exact Hf | exact Ep |]. exists []. reflexivity. }
  destruct Hs as (its & ->). reflexivity.
Qed.

Lemma pass0_items_cons depth cp it rest st :
  pass0_items fuel inc macroses depth ((cp, it) :: rest) st =
  do st1 <- match it with
            | IInstr (OCustom name) ops =>
                match depth with
                | O => Err (Some (fst cp))
                | S d =>
                    do es <- macro_expand fuel inc macroses (fst cp) name ops st;
                    let '(st0, segments) := es in
                    match segments with
                    | [] => Ok st0
                    | s0 :: more =>
                        let cur := last_seg st0 in
                        let st1 := if negb (address s0 =? address cur) || negb (segt_eqb (seg_t s0) (seg_t cur))
                                   then add_segment st0 {| items := []; seg_t := seg_t s0; address := address s0 |} else st0 in
                        do st2 <- pass0_items fuel inc macroses d (items s0) st1;
                        fold_left (fun (acc : res pstate) (sg : segment) =>
                                     do a <- acc;
                                     match seg_t sg with
                                     | SCode => pass0_items fuel inc macroses d (items sg)
                                                  (add_segment a {| items := []; seg_t := seg_t sg; address := address sg |})
                                     | _ => Ok (add_segment a sg)
                                     end) more (Ok st2)
                    end
                end
            | _ => Ok (push_item st cp it)
            end;
  pass0_items fuel inc macroses depth rest st1.
Proof. destruct depth; reflexivity. Qed.

Lemma pass0_items_app depth : forall a b st,
  pass0_items fuel inc macroses depth (a ++ b) st =
  do s <- pass0_items fuel inc macroses depth a st; pass0_items fuel inc macroses depth b s.
Proof.
  induction a as [|[cp it] a IH]; intros b st.
  - rewrite pass0_items_nil. reflexivity.
  - cbn [app]. rewrite !pass0_items_cons.
    match goal with |- bind ?x _ = _ => destruct x as [s1| | |] end; cbn [bind]; try reflexivity. apply IH.
Qed.

Lemma pstate_eta st :
  {| segs := segs st; macro_name := macro_name st; macros := macros st; msgs := msgs st; pcx := pcx st; fl := fl st |} = st.
Proof. destruct st; reflexivity. Qed.

(** THE SPLICE.  In a code segment, a call of a macro whose (substituted) body has no
    segment/.org/.include line is: parse the substituted body as a fresh code segment at the
    current address, take over what it did to macros, messages and symbols, and process its items -
    one level deeper - as if they stood in the place of the call. *)
Theorem call_is_paste d cp name ops rest st body :
  seg_t (last_seg st) = SCode ->
  lookup name macroses = Some body ->
  Forall (fun ln => neutral_line ln = true) (substitute ops body) ->
  pass0_items fuel inc macroses (S d) ((cp, IInstr (OCustom name) ops) :: rest) st =
  do x <- body_items ops body st;
  do s <- pass0_items fuel inc macroses d (snd x) (fst x);
  pass0_items fuel inc macroses (S d) rest s.
Proof.
  intros Hc Hl Hf. rewrite pass0_items_cons, (expand_neutral _ _ _ _ _ Hl Hf).
  destruct (body_items ops body st) as [[st0 its]| | |] eqn:Eb; try reflexivity. cbn [bind fst snd].
  assert (Hsegs : segs st0 = segs st).
  { unfold body_items in Eb. apply bind_ok in Eb. destruct Eb as (r & _ & Eb). injection Eb as <- _. reflexivity. }
  cbv zeta. cbn [address seg_t items fold_left].
  assert (Hlast : last_seg st0 = last_seg st) by (unfold last_seg; rewrite Hsegs; reflexivity).
  rewrite Hlast, Hc, N.eqb_refl. cbn [negb orb segt_eqb].
  destruct (pass0_items fuel inc macroses d its st0); reflexivity.
Qed.

(** deeper is never different: what succeeds with [d] levels left succeeds identically with more *)
Lemma pass0_items_mono : forall d its st r,
  pass0_items fuel inc macroses d its st = Ok r -> pass0_items fuel inc macroses (S d) its st = Ok r.
Proof.
  induction d as [|d IHd].
  - induction its as [|[cp it] rest IH]; intros st r H.
    + rewrite pass0_items_nil in *. exact H.
    + rewrite pass0_items_cons in *. apply bind_ok in H. destruct H as (st1 & H1 & H).
      destruct it as [z | k ops | a e | a | a e | ops | op args | lab];
        try (injection H1 as <-; cbn [bind]; apply IH; exact H).
      destruct op; try discriminate; injection H1 as <-; cbn [bind]; apply IH; exact H.
  - induction its as [|[cp it] rest IH]; intros st r H.
    + rewrite pass0_items_nil in *. exact H.
    + rewrite pass0_items_cons in H. rewrite pass0_items_cons. apply bind_ok in H. destruct H as (st1 & H1 & H).
      apply IH in H.
      destruct it as [z | k ops | a e | a | a e | ops | op args | lab];
        try (injection H1 as <-; cbn [bind]; exact H).
      destruct op; try (injection H1 as <-; cbn [bind]; exact H).
      apply bind_ok in H1. destruct H1 as ([st0 segments] & He & H1). rewrite He. cbn [bind].
      destruct segments as [|s0 more]; [injection H1 as <-; cbn [bind]; exact H|].
      cbv zeta in H1 |- *. apply bind_ok in H1. destruct H1 as (st2 & H2 & H1).
      rewrite (IHd _ _ _ H2). cbn [bind].
      match goal with |- bind ?f _ = _ => assert (Ef : f = Ok st1) end; [|rewrite Ef; cbn [bind]; exact H].
      clear H2 H IH He. revert st2 H1. induction more as [|sg more IHm]; intros st2 H1; cbn [fold_left] in H1 |- *; [exact H1|].
      cbn [bind] in H1 |- *. pose proof (fold_res_ok _ _ _ _ H1) as (st3 & E3). rewrite E3 in H1.
      destruct (seg_t sg); [rewrite (IHd _ _ _ E3) | rewrite E3 | rewrite E3]; apply IHm; exact H1.
Qed.

(** the call and the pasted items give the same state whenever the call is accepted *)
Theorem call_is_paste_ok d cp name ops rest st body r st0 its :
  seg_t (last_seg st) = SCode ->
  lookup name macroses = Some body ->
  Forall (fun ln => neutral_line ln = true) (substitute ops body) ->
  body_items ops body st = Ok (st0, its) ->
  pass0_items fuel inc macroses (S d) ((cp, IInstr (OCustom name) ops) :: rest) st = Ok r ->
  pass0_items fuel inc macroses (S d) (its ++ rest) st0 = Ok r.
Proof.
  intros Hc Hl Hf Hb H. rewrite (call_is_paste d cp name ops rest st body Hc Hl Hf), Hb in H. cbn [bind fst snd] in H.
  apply bind_ok in H. destruct H as (s & Hs & H). rewrite pass0_items_app, (pass0_items_mono _ _ _ _ Hs). exact H.
Qed.
End Splice.
