"""Program-level generators (builder::build_str): structured mostly-valid programs, conditional
assembly trees, macro libraries, layout mixes, single-fault mutants and hostile text."""
from . import exprgen

REG_LOW = ["r0", "r1", "r5", "r15"]
REG_HIGH = ["r16", "r17", "r20", "r24", "r26", "r30", "r31"]
DEVICES = ["ATmega8", "ATmega328P", "ATtiny13", "ATtiny20", "ATtiny10", "AT90S1200", "ATmega2560", "ATmega103", "ATmega48", "AT94K"]


def case_mix(rng, s):
    k = rng.randrange(4)
    if k == 0:
        return s.upper()
    if k == 1:
        return s.capitalize()
    return s


class Gen:
    def __init__(self, rng, faults=False):
        self.rng = rng
        self.labels = []
        self.equs = []
        self.sets = []
        self.defs = []
        self.n = 0
        self.faults = faults

    def fresh(self, p):
        self.n += 1
        return "%s%d" % (p, self.n)

    def small_expr(self, depth=1):
        r = self.rng
        k = r.random()
        pool = self.equs + self.sets + self.labels
        if k < 0.35 or depth == 0:
            return str(r.choice([0, 1, 2, 3, 7, 10, 31, 63, 100, 255]))
        if k < 0.55 and pool:
            return case_mix(r, r.choice(pool))
        if k < 0.65:
            return "%s(%s)" % (r.choice(["low", "high", "LOW", "byte2", "byte3", "byte4", "lwrd", "hwrd", "High", "exp2", "log2", "page", "Lwrd"]), self.small_expr(depth - 1))
        if k < 0.68:
            return r.choice(["pc", "PC", "Pc", "pc+1", "pc-1"])
        if k < 0.71:
            return r.choice(["-", "~", "!"]) + self.small_expr(depth - 1)
        if k < 0.75:
            return "(%s)" % self.small_expr(depth - 1)
        if k < 0.8:
            return r.choice(["$1F", "0x10", "0b101", "017", "'A'"])
        op = r.choice(["+", "-", "*", "&", "|", "<<", ">>", "^", "/", "%", "==", "<", "!=", "<=", ">", ">=", "&&", "||"])
        sp = r.choice(["", " "])
        return "%s%s%s%s%s" % (self.small_expr(depth - 1), sp, op, sp, self.small_expr(depth - 1))

    def reg(self, high=False):
        r = self.rng
        if self.defs and r.random() < 0.25:
            return case_mix(r, r.choice(self.defs))
        x = r.choice(REG_HIGH if high or r.random() < 0.5 else REG_LOW)
        return x.upper() if r.random() < 0.15 else x

    def instruction(self):
        r = self.rng
        k = r.randrange(16)
        m = lambda s: case_mix(r, s)
        if k == 0:
            return "%s %s, %s" % (m(r.choice(["add", "adc", "sub", "and", "or", "eor", "mov", "cp", "cpc", "cpse", "sbc", "mul"])), self.reg(), self.reg())
        if k == 1:
            return "%s %s, %s" % (m(r.choice(["ldi", "subi", "andi", "ori", "cpi", "sbci", "sbr", "cbr"])), self.reg(True), self.small_expr())
        if k == 2:
            return "%s %s" % (m(r.choice(["inc", "dec", "com", "neg", "push", "pop", "lsl", "lsr", "rol", "ror", "asr", "swap", "clr", "tst"])), self.reg())
        if k == 3:
            return m(r.choice(["nop", "ret", "reti", "sei", "cli", "sec", "clc", "wdr", "sleep", "ijmp", "icall", "lpm", "spm", "break", "seh", "clt"]))
        if k == 4 and self.labels:
            return "%s %s" % (m(r.choice(["rjmp", "rcall", "breq", "brne", "brcs", "brge", "brlt", "brpl", "brid"])), case_mix(r, r.choice(self.labels)))
        if k == 5 and self.labels:
            return "%s %s" % (m(r.choice(["jmp", "call"])), r.choice(self.labels))
        if k == 6:
            return "%s %s, %s" % (m(r.choice(["ld", "ldd"])), self.reg(), r.choice(["X", "X+", "-X", "Y", "Y+", "-Y", "Z", "Z+", "-Z", "Y+3", "Z+63", "y+" + self.small_expr(0), "z"]))
        if k == 7:
            return "%s %s, %s" % (m(r.choice(["st", "std"])), r.choice(["X", "X+", "-X", "Y+", "-Z", "Y+2", "Z+1", "Z"]), self.reg())
        if k == 8:
            return "%s %s, %s" % (m("lds"), self.reg(True), r.choice(["0x60", "0x100", "0x40", "96"] + self.labels[:1]))
        if k == 9:
            return "%s %s, %s" % (m("sts"), r.choice(["0x60", "0x100", "0x41"]), self.reg(True))
        if k == 10:
            return "%s %s, %s" % (m(r.choice(["in"])), self.reg(), self.small_expr(0)) if r.random() < 0.5 else "out %s, %s" % (r.choice(["0x3f", "63", "0"]), self.reg())
        if k == 11:
            return "%s %s, %d" % (m(r.choice(["sbi", "cbi", "sbis", "sbic"])), r.choice(["0", "31", "0x12"]), r.randrange(8))
        if k == 12:
            return "%s %s, %d" % (m(r.choice(["sbrc", "sbrs", "bst", "bld"])), self.reg(), r.randrange(8))
        if k == 13:
            return "%s %s, %s" % (m(r.choice(["adiw", "sbiw"])), r.choice(["r24", "r26", "r28", "r30", "R30"]), r.choice(["0", "1", "63"]))
        if k == 14:
            return "%s %s, %s" % (m("movw"), r.choice(["r0", "r16", "r30"]), r.choice(["r2", "r24"]))
        if k == 15:
            kk = r.randrange(6)
            if kk == 0:
                return "%s %s, %s" % (m(r.choice(["lpm", "elpm"])), self.reg(), r.choice(["Z", "Z+", "z"]))
            if kk == 1:
                return "%s %d, %s" % (m(r.choice(["brbs", "brbc"])), r.randrange(8), r.choice(self.labels + ["pc", "pc+2"]))
            if kk == 2:
                return "%s %d" % (m(r.choice(["bset", "bclr"])), r.randrange(8))
            if kk == 3:
                return "%s %s, %s" % (m(r.choice(["muls", "mulsu", "fmul", "fmuls", "fmulsu"])), r.choice(["r16", "r17", "r23"]), r.choice(["r16", "r20", "r23"]))
            if kk == 4:
                return "%s %s" % (m("ser"), self.reg(True))
            return m(r.choice(["eijmp", "eicall", "elpm", "sez", "cln", "sev", "cls", "set", "cli"]))
        return m("nop")

    def data(self, seg):
        r = self.rng
        d = r.choice(["db", "db", "dw", "dd", "dq"])
        n = r.randrange(1, 5)
        ops = []
        for _ in range(n):
            if d == "db" and r.random() < 0.3:
                ops.append('"%s"' % r.choice(["", "a", "ab", "Hello", "xyz!", "é", "a;b", "//"]))
            else:
                ops.append(self.small_expr())
        return ".%s %s" % (d, (r.choice([", ", ",", " , "])).join(ops))

    def definition(self):
        r = self.rng
        k = r.randrange(5)
        if k == 0:
            n = self.fresh("E")
            self.equs.append(n)
            return ".equ %s = %s" % (n, self.small_expr())
        if k == 1:
            n = r.choice(self.sets) if self.sets and r.random() < 0.5 else self.fresh("S")
            if n not in self.sets:
                self.sets.append(n)
            return ".set %s = %s" % (case_mix(r, n), self.small_expr())
        if k == 2:
            n = self.fresh("D")
            self.defs.append(n)
            return ".def %s = %s" % (n, r.choice(REG_HIGH + REG_LOW))
        if k == 3 and self.defs:
            n = self.defs.pop(r.randrange(len(self.defs)))
            return ".undef %s" % case_mix(r, n)
        return ".define F%d" % r.randrange(3)

    def label(self):
        n = self.fresh("L")
        self.labels.append(n)
        return n

    def plain_line(self, seg):
        r = self.rng
        k = r.random()
        pre = ""
        if k < 0.15:
            pre = self.label() + ": "
        if seg == "c":
            body = self.instruction() if r.random() < 0.7 else self.data(seg)
        elif seg == "e":
            body = self.data(seg) if r.random() < 0.7 else ".byte %d" % r.randrange(0, 9)
        else:
            body = ".byte %d" % r.randrange(0, 17)
        if r.random() < 0.08:
            body = ""
        tail = r.choice(["", "", "", " ; c", " // x", "  /* y */", "\t;"])
        return ("  " if not pre else "") + pre + body + tail if (pre or body) else tail.strip()


def program(rng, size=12, device=None, conditionals=True, macros=True, faults=False):
    g = Gen(rng, faults)
    lines = []
    seg = "c"
    if device or rng.random() < 0.2:
        lines.append(".device %s" % (device or rng.choice(DEVICES)))
    # forward-declare a few labels so that early references exist
    fwd = [g.fresh("L") for _ in range(rng.randrange(0, 3))]
    g.labels += fwd
    mac = []
    if macros and rng.random() < 0.4:
        name = g.fresh("mac")
        body = ["  ldi @0, @1" if rng.random() < 0.5 else "  mov @0, r1", "  nop"]
        if rng.random() < 0.3:
            body.append(".if @1 > 5\n  inc @0\n.endif")
        lines += [".macro %s" % case_mix(rng, name)] + body + [rng.choice([".endmacro", ".endm"])]
        mac.append(name)
    depth = 0
    for _ in range(size):
        k = rng.random()
        if k < 0.06:
            seg = rng.choice("cde")
            lines.append({"c": ".cseg", "d": ".dseg", "e": ".eseg"}[seg])
        elif k < 0.10:
            lines.append(".org %s" % rng.choice(["0x10", "0x20", "64", "0x100", "0x200", "0"]))
        elif k < 0.2:
            lines.append(g.definition())
        elif k < 0.26 and conditionals:
            c = rng.choice([".if %s" % g.small_expr(), ".ifdef F%d" % rng.randrange(3), ".ifndef F%d" % rng.randrange(3), ".if 0", ".if 1"])
            lines.append(c)
            depth += 1
        elif k < 0.30 and depth:
            lines.append(rng.choice([".else", ".elif %s" % rng.choice(["0", "1", g.small_expr()])]))
        elif k < 0.36 and depth:
            lines.append(".endif")
            depth -= 1
        elif k < 0.40 and mac and seg == "c":
            lines.append("  %s %s, %s" % (case_mix(rng, rng.choice(mac)), rng.choice(REG_HIGH), g.small_expr()))
        elif k < 0.43:
            lines.append('.%s "%s"' % (rng.choice(["message", "warning"]), rng.choice(["hi", "m1", ""])))
        elif k < 0.46:
            # directives that are accepted and ignored, '#' spellings, flags
            lines.append(rng.choice([".list", ".nolist", ".listmac", ".csegsize 8", ".overlap", ".nooverlap", "#pragma AVRPART ADMIN PART_NAME ATmega8",
                                     ".pragma x", "#define F%d" % rng.randrange(3), "#define G%d 1" % rng.randrange(2), ".includepath \"inc\""]))
        else:
            lines.append(g.plain_line(seg))
    lines += [".endif"] * depth
    # define the forward labels
    if fwd:
        lines.append(".cseg")
        for f in fwd:
            lines.append("%s: nop" % f)
    return lines


def mutate(rng, lines):
    """one single-line fault or token-level mutation"""
    ls = list(lines)
    if not ls:
        return ls
    i = rng.randrange(len(ls))
    k = rng.randrange(8)
    if k == 0:
        del ls[i]
    elif k == 1:
        ls.insert(i, ls[i])
    elif k == 2:
        ls[i] = ls[i] + rng.choice([" garbage", ",", " r99", " +", ")", "\"", " 1 2 3 4 5 6 7"])
    elif k == 3:
        ls.insert(i, rng.choice(["  foo r1", "  ldi r1, 5", "  ldi r16, 300", "  breq nowhere", ".db 256", ".dw 70000", ".set q = nosym",
                                 ".if nosym", ".error \"x\"", ".undef zz", "  mov r1", "  nop r1", ".org", ".device nodev", "dup: nop\ndup: nop",
                                 ".byte 4", ".db 1", "  .foo", ".macro", ".endif", ".else", ".include \"nofile.inc\""]))
    elif k == 4 and ls[i]:
        p = rng.randrange(len(ls[i]))
        ls[i] = ls[i][:p] + ls[i][p + 1:]
    elif k == 5 and ls[i]:
        p = rng.randrange(len(ls[i]) + 1)
        ls[i] = ls[i][:p] + rng.choice("0123456789abxyz_$'()+-*/%&|^<>=!~ \t,;:.#@\"") + ls[i][p:]
    elif k == 6 and len(ls) > 1:
        j = rng.randrange(len(ls))
        ls[i], ls[j] = ls[j], ls[i]
    else:
        ls[i] = ls[i].upper() if rng.random() < 0.5 else ls[i].replace(" ", "\t")
    return ls


HOSTILE_LINES = ["", " ", "\t", ";", "//", "/* */", "/* x", "lbl:", "lbl: ; c", "1bad:", "_ok:", "lbl:lbl2:", " lbl: nop", "nop;", "nop//x",
                 "nop /* a */ nop", ".db", ".db ,", ".db 1,", ".db ,1", ".db 1,,2", ".db \"a\" \"b\"", ".db 1 2", ".db 1 2 3 4 5 6", ".db 1 2 3 4 5 6 7",
                 ".dw \"ab\"", ".dq a == 1", ".equ a = 1", ".equ = 1", ".equ a 1", ".set a = ", ".def a = r1", ".def a = b", ".def a = r32",
                 ".undef", ".undef a", ".org", ".org x", ".org -1", ".org 4294967296", ".org 0xFFFFFFFF\nnop", ".byte", ".byte 1, 2", ".byte x",
                 ".byte -1", ".dseg\n.byte -1", ".eseg\n.byte 100000", ".device", ".device ATmega8\n.device ATmega8", ".device atmega8",
                 ".if", ".if \"s\"", ".ifdef", ".ifdef 1", ".else", ".endif", ".elif 1", ".if 1", ".if 0", ".macro", ".macro m", ".endm", ".endmacro",
                 ".message", ".message 1", ".message \"a\", \"b\"", ".error \"boom\"", ".warning \"w\"", ".exit", ".exit\ngarbage here",
                 ".include", ".include 1", ".include \"nofile\"", ".includepath \"x\"", ".list", ".nolist", ".listmac", ".overlap", ".pragma a b",
                 ".pragma", ".csegsize 1", ".CSEG", "#define X", "#ifdef X\nnop\n#endif", ".unknown", ". db 1", "..db", ".db1", "r1", "r32 r1",
                 "mov r1 r2", "mov r1,,r2", "mov r1, r2,", "mov r100, r1", "mov r05, r1", "mov R1, R2", "ldi r16, -xval", "ldi r16, r1x", "ld r1, x+1",
                 "ld r1, -x", "ld r1, X +", "ld r1, Y + 1", "ldd r1, Y+", "foo", "foo 1, 2", "FOO", "brxx l", "seq", "clq", "nop nop",
                 "rjmp pc", "rjmp PC-1", "rjmp pc+1", ".dw pc", "a: .dw a, b\nb: .dw a", ".equ x = y\n.equ y = x\n.dw x", ".equ x = x\n.dw x",
                 ".macro m\nm\n.endm\nm", ".macro m\n.endm\nm 1,2,3,4,5,6,7,8,9,10,11", ".macro m\nldi r16, @0\n.endm\nm", ".macro m\nldi r16, @0\n.endm\nm 1+2",
                 ".macro M\nnop\n.endm\nm\nM", ".macro m\n.dseg\n.byte 2\n.cseg\nnop\n.endm\nm\nm", "m\n.macro m\nnop\n.endm",
                 "\r", "nop\r", "nop\r\nnop", "nop\rnop", "﻿nop", "nop ", "é: nop", ".db \"é\"", ".db 'é'", ".db '''", ".db ''", ".db \"\"",
                 ".db \"unterminated", "ldi r16, 'a'", "ldi r16, ';'", ".db \";\"", ".db \"//\" ; c", ".db 1 ; \"", "x: .equ y = 1\n.dw x, y",
                 ".set S = 1\n.set S = S + 1\n.dw S", ".set s = 1\nldi r16, S", ".def t = r16\n.def t = r17\nmov t, t", ".def t = r16\n.undef T\nmov t, r1",
                 ".equ l = 1\nl: nop", "l: nop\n.equ l = 5\n.dw l", ".dseg\nv: .byte 2\n.cseg\n.dw v", ".eseg\ne: .db 1\n.cseg\n.dw e",
                 ".dseg\nnop", ".dseg\n.db 1", ".cseg\n.byte 1", ".eseg\nnop", ".eseg\n.db 1, 2, 3\n.dw 4", ".db 1, 2, 3", ".db \"abc\"",
                 ".org 0x10\nnop\n.org 0x5\nnop", ".org 0x10\nnop\n.org 0x10\nnop", ".dseg\n.org 0x100\n.cseg\nnop", ".cseg\n.org 0x10\n.dseg\n.byte 1",
                 ".equ o = 8\n.org o\nnop", ".org 2*4\nnop", ".eseg\n.org 4\n.db 1", ".dseg\n.org 0x70\nv: .byte 1\n.cseg\n.dw v"]


def hostile(rng):
    return [h.split("\n") for h in HOSTILE_LINES]


def text_of(lines, rng=None):
    eol = "\n"
    if rng is not None and rng.random() < 0.1:
        eol = "\r\n"
    s = eol.join(lines)
    if rng is None or rng.random() < 0.8:
        s += eol
    return s
