(** C07 - The Intel HEX files reproduce the images byte for byte at the right addresses.
    Property theorems only; proofs are in Proofs/HexProofs.v. *)
From Coq Require Import List NArith.
Import ListNotations.
Require Import AvraV.Model.Hex AvraV.Spec.HexReader AvraV.Proofs.HexProofs.
Open Scope N_scope.

(** For every image of bytes (any length the 32-bit Intel HEX address space can hold, the empty
    image and images above 64 KiB included) the written file is accepted by the independent
    reader - hence consists solely of well-formed records with valid checksums ending in the
    single end-of-file record - and decodes to exactly the image bytes at exactly their
    addresses, each once, nothing else. *)
Theorem C07_roundtrip : forall img : list N,
  Forall (fun b => b < 256) img -> N.of_nat (length img) + 16 <= 4294967296 ->
  read_file (write img) = Some (addrs 0 img).
Proof. exact roundtrip. Qed.
Check C07_roundtrip : forall img : list N,
  Forall (fun b => b < 256) img -> N.of_nat (length img) + 16 <= 4294967296 ->
  read_file (write img) = Some (addrs 0 img).
Print Assumptions C07_roundtrip.

(** The oracle used against the implementation's files means what it says. *)
Theorem C07_oracle_sound : forall img file,
  holds_C07 img file = true -> read_file file = Some (addrs 0 img).
Proof. exact holds_C07_sound. Qed.
Print Assumptions C07_oracle_sound.

Theorem C07_model_holds : forall img : list N,
  Forall (fun b => b < 256) img -> N.of_nat (length img) + 16 <= 4294967296 ->
  holds_C07 img (write img) = true.
Proof. exact write_holds. Qed.
Print Assumptions C07_model_holds.

(** Non-vacuity: a concrete image crossing a record boundary, and the empty image. *)
Example C07_example :
  read_file (write [1; 2; 3; 4; 5; 6; 7; 8; 9; 10; 11; 12; 13; 14; 15; 16; 255]) =
  Some (addrs 0 [1; 2; 3; 4; 5; 6; 7; 8; 9; 10; 11; 12; 13; 14; 15; 16; 255])
  /\ read_file (write []) = Some [].
Proof. split; vm_compute; reflexivity. Qed.
