(** C08: the line loop of the model (parse_iter + skip_cond) refines the block-tree semantics of
    conditional assembly. *)
From Coq Require Import List NArith ZArith Bool Lia.
Import ListNotations.
Require Import AvraV.Model.Base AvraV.Model.Ast AvraV.Model.Eval AvraV.Model.Lines AvraV.Model.Parse.

Section Cond.
Variable fuel : nat.
Variable inc : str -> pstate -> res pstate.

Definition line := (N * str)%type.
Inductive kind := KIf | KElif | KElse | KEndif | KPlain.
Definition kind_of (ln : line) : kind :=
  match dir_of (snd ln) with
  | Some DIf | Some DIfDef | Some DIfNDef => KIf
  | Some DElIf => KElif
  | Some DElse => KElse
  | Some DEndif => KEndif
  | _ => KPlain
  end.

(** what the loop does with ONE line it reads in assembling mode: the new state and the mode *)
Definition line_step (ln : line) (skipped : bool) (st : pstate) : res (pstate * next_item) :=
  let line := (fst ln + 1)%N in
  match parse_line (snd ln) with
  | None => Err (Some line)
  | Some EmptyLine => Ok (st, NewLine)
  | Some (LabelLine name) => Ok (push_item st (line, 1%N) (ILabel name), NewLine)
  | Some (CodeLine lab o args) => Ok (push_item (label_item st lab line) (line, 2%N) (IInstr o args), NewLine)
  | Some (DirLine lab d ops) =>
      let st1 := label_item st lab line in
      match d, skipped with
      | DElIf, false => Ok (st1, EndIfAll)
      | _, _ => directive_parse fuel inc d ops st1 line
      end
  end.

(** the loop, one line at a time (relational, successful and failing runs alike; no fuel) *)
Inductive Run : lines -> bool -> pstate -> res pstate -> Prop :=
| R_nil sk st : Run [] sk st (Ok st)
| R_err ln r sk st l : line_step ln sk st = Err l -> Run (ln :: r) sk st (Err l)
| R_panic ln r sk st : line_step ln sk st = Panic -> Run (ln :: r) sk st Panic
| R_fuel ln r sk st : line_step ln sk st = OutOfFuel -> Run (ln :: r) sk st OutOfFuel
| R_new ln r sk st st' res : line_step ln sk st = Ok (st', NewLine) -> Run r false st' res -> Run (ln :: r) sk st res
| R_eof ln r sk st st' : line_step ln sk st = Ok (st', EndFile) -> Run (ln :: r) sk st (Ok st')
| R_skip ln r sk st st' res : line_step ln sk st = Ok (st', EndIf) ->
    Run (fst (skip_cond false 0 r)) (snd (skip_cond false 0 r)) st' res -> Run (ln :: r) sk st res
| R_all ln r sk st st' res : line_step ln sk st = Ok (st', EndIfAll) -> Run (fst (skip_cond true 0 r)) false st' res -> Run (ln :: r) sk st res
| R_macro ln r sk st st' res : line_step ln sk st = Ok (st', EndMacro) ->
    Run (snd (skip_macro r [])) false
        {| segs := segs st'; macro_name := macro_name st'; macros := insert (macro_name st') (fst (skip_macro r [])) (macros st');
           msgs := msgs st'; pcx := pcx st'; fl := fl st' |} res ->
    Run (ln :: r) sk st res.

Lemma skip_cond_len all : forall ls d, (length (fst (skip_cond all d ls)) <= length ls)%nat.
Proof.
  induction ls as [|[n l] r IH]; intros d; cbn [skip_cond]; [cbn; lia|].
  destruct (dir_of l) as [dd|]; [|specialize (IH d); cbn [length]; lia].
  destruct dd; try (specialize (IH d); cbn [length]; lia).
  - destruct d; [destruct all; [specialize (IH 0%nat); cbn [length]; lia | cbn [fst length]; lia] | specialize (IH (S d)); cbn [length]; lia].
  - destruct d; [destruct all; [specialize (IH 0%nat); cbn [length]; lia | cbn [fst length]; lia] | specialize (IH (S d)); cbn [length]; lia].
  - destruct d; [cbn [fst length]; lia | specialize (IH d); cbn [length]; lia].
  - specialize (IH (S d)). cbn [length]. lia.
  - specialize (IH (S d)). cbn [length]. lia.
  - specialize (IH (S d)). cbn [length]. lia.
Qed.
Lemma skip_macro_len : forall ls acc, (length (snd (skip_macro ls acc)) <= length ls)%nat.
Proof.
  induction ls as [|[n l] r IH]; intros acc; cbn [skip_macro]; [cbn; lia|].
  destruct (dir_of l) as [dd|]; [|specialize (IH (acc ++ [(n, l)])%list); cbn [length]; lia].
  destruct dd; try (specialize (IH (acc ++ [(n, l)])%list); cbn [length]; lia); cbn [snd length]; lia.
Qed.

(** one iteration of the fuelled loop, in terms of [line_step] *)
Definition continue (g : nat) (r : lines) (x : pstate * next_item) : res pstate :=
  let '(st2, ni) := x in
  match ni with
  | NewLine => parse_iter fuel inc g r false st2
  | EndFile => Ok st2
  | EndIf => let '(r', at_elif) := skip_cond false 0 r in parse_iter fuel inc g r' at_elif st2
  | EndIfAll => parse_iter fuel inc g (fst (skip_cond true 0 r)) false st2
  | EndMacro =>
      let '(body, r') := skip_macro r [] in
      parse_iter fuel inc g r' false
        {| segs := segs st2; macro_name := macro_name st2; macros := insert (macro_name st2) body (macros st2);
           msgs := msgs st2; pcx := pcx st2; fl := fl st2 |}
  end.
Lemma parse_iter_step g ln r sk st :
  parse_iter fuel inc (S g) (ln :: r) sk st = bind (line_step ln sk st) (continue g r).
Proof.
  destruct ln as [n l]. cbn [parse_iter]. unfold line_step. cbn [fst snd].
  destruct (parse_line l) as [[| name | lab o args | lab d ops]|]; try reflexivity.
  all: try (destruct d, sk; try reflexivity; cbn [bind];
            destruct (directive_parse _ _ _ _ _ _) as [[st2 ni]| | |]; reflexivity).
Qed.

(** the relation determines what the fuelled loop of the model computes *)
Theorem run_complete ls sk st res : Run ls sk st res -> forall g, (length ls < g)%nat -> parse_iter fuel inc g ls sk st = res.
Proof.
  induction 1 as [sk st | ln r sk st e H | ln r sk st H | ln r sk st H | ln r sk st st' res H _ IH | ln r sk st st' H
                  | ln r sk st st' res H _ IH | ln r sk st st' res H _ IH | ln r sk st st' res H _ IH];
    intros g Hg; (destruct g as [|g]; [cbn [length] in Hg; lia|]); try reflexivity;
    rewrite parse_iter_step, H; cbn [bind continue]; try reflexivity; cbn [length] in Hg.
  - apply IH. lia.
  - pose proof (skip_cond_len false r 0). destruct (skip_cond false 0 r) as [r' at_elif]. cbn [fst snd] in *. apply IH. lia.
  - apply IH. pose proof (skip_cond_len true r 0). lia.
  - destruct (skip_macro r []) as [body r'] eqn:E. cbn [fst snd] in IH. apply IH.
    pose proof (skip_macro_len r []) as L. rewrite E in L. cbn [snd] in L. lia.
Qed.

(** ---------------- block trees ---------------- *)
Inductive node := NLine (ln : line) | NBlock (head : line) (body : nodes) (tl : arms) | NMacro (head : line) (body : nodes) (e : line)
with nodes := Nnil | Ncons (n : node) (ns : nodes)
with arms := AEnd (e : line) | AElse (el : line) (body : nodes) (e : line) | AElif (hd : line) (body : nodes) (more : arms).
Scheme node_i := Induction for node Sort Prop
with nodes_i := Induction for nodes Sort Prop
with arms_i := Induction for arms Sort Prop.
Combined Scheme tree_mut from node_i, nodes_i, arms_i.

Fixpoint fl_node (n : node) : lines :=
  match n with NLine ln => [ln] | NBlock h b a => h :: fl_nodes b ++ fl_arms a | NMacro h b e => h :: fl_nodes b ++ [e] end
with fl_nodes (ns : nodes) : lines :=
  match ns with Nnil => [] | Ncons n r => fl_node n ++ fl_nodes r end
with fl_arms (a : arms) : lines :=
  match a with
  | AEnd e => [e]
  | AElse el b e => el :: fl_nodes b ++ [e]
  | AElif hd b m => hd :: fl_nodes b ++ fl_arms m
  end.

(** the line that ends a macro definition *)
Definition is_endm (ln : line) : bool :=
  match dir_of (snd ln) with Some DEndM | Some DEndMacro => true | _ => false end.

(** well-formed: every line sits where its kind says - conditional directives only as the heads and
    ends of blocks; everything else ([KPlain]: statements, text that does not parse, .macro, ...)
    only as plain lines *)
Fixpoint wf_node (n : node) : Prop :=
  match n with
  | NLine ln => kind_of ln = KPlain
  | NBlock h b a => kind_of h = KIf /\ wf_nodes b /\ wf_arms a
  (* a macro definition: the head is an ordinary line (it is .macro when the semantics accepts it), the
     body is balanced text without an end-of-macro line, closed by .endm / .endmacro *)
  | NMacro h b e => kind_of h = KPlain /\ wf_nodes b /\ forallb (fun ln => negb (is_endm ln)) (fl_nodes b) = true /\ is_endm e = true
  end
with wf_nodes (ns : nodes) : Prop :=
  match ns with Nnil => True | Ncons n r => wf_node n /\ wf_nodes r end
with wf_arms (a : arms) : Prop :=
  match a with
  | AEnd e => kind_of e = KEndif
  | AElse el b e => kind_of el = KElse /\ wf_nodes b /\ kind_of e = KEndif
  | AElif hd b m => kind_of hd = KElif /\ wf_nodes b /\ wf_arms m
  end.

Lemma skip_cond_kind all d ln r :
  skip_cond all d (ln :: r) =
  match kind_of ln with
  | KIf => skip_cond all (S d) r
  | KEndif => match d with O => (r, false) | S d' => skip_cond all d' r end
  | KElse => match d with O => if all then skip_cond all d r else (r, false) | S _ => skip_cond all d r end
  | KElif => match d with O => if all then skip_cond all d r else (ln :: r, true) | S _ => skip_cond all d r end
  | KPlain => skip_cond all d r
  end.
Proof. destruct ln as [n l]. unfold kind_of. cbn [skip_cond snd]. destruct (dir_of l) as [[]|]; reflexivity. Qed.

Lemma endm_plain e : is_endm e = true -> kind_of e = KPlain.
Proof. unfold is_endm, kind_of. destruct (dir_of (snd e)) as [[]|]; intros H; try discriminate; reflexivity. Qed.

(** the collector of macro bodies stops at the first end-of-macro line *)
Lemma skip_macro_body b e rest : forallb (fun ln => negb (is_endm ln)) b = true -> is_endm e = true ->
  forall acc, skip_macro (b ++ e :: rest) acc = ((acc ++ b)%list, rest).
Proof.
  intros Hb He. induction b as [|[n l] b IH]; intros acc; cbn [app].
  - destruct e as [n l]. cbn [skip_macro]. unfold is_endm in He. cbn [snd] in He. rewrite app_nil_r.
    destruct (dir_of l) as [[]|]; try discriminate; reflexivity.
  - cbn [forallb] in Hb. apply andb_prop in Hb. destruct Hb as (H1 & H2). cbn [skip_macro].
    unfold is_endm in H1. cbn [snd] in H1.
    rewrite (IH H2 (acc ++ [(n, l)])%list), <- app_assoc.
    destruct (dir_of l) as [[]|]; try discriminate; reflexivity.
Qed.

(** balanced text is invisible to the skipper, at every depth, in both modes *)
Lemma skip_balanced all :
  (forall n, wf_node n -> forall d r, skip_cond all d (fl_node n ++ r) = skip_cond all d r) /\
  (forall ns, wf_nodes ns -> forall d r, skip_cond all d (fl_nodes ns ++ r) = skip_cond all d r) /\
  (forall a, wf_arms a -> forall d r, skip_cond all (S d) (fl_arms a ++ r) = skip_cond all d r).
Proof.
  apply tree_mut.
  - intros ln H d r. cbn [fl_node app wf_node] in *. rewrite skip_cond_kind, H. reflexivity.
  - intros h b IHb a IHa (Hh & Hb & Ha) d r. cbn [fl_node app]. rewrite skip_cond_kind, Hh, <- app_assoc, IHb, IHa by assumption. reflexivity.
  - intros h b IHb e (Hh & Hb & _ & He) d r. cbn [fl_node app]. rewrite skip_cond_kind, Hh, <- app_assoc, IHb by assumption.
    cbn [app]. rewrite skip_cond_kind, (endm_plain _ He). reflexivity.
  - intros _ d r. reflexivity.
  - intros n IHn ns IHns (Hn & Hns) d r. cbn [fl_nodes]. rewrite <- app_assoc, IHn, IHns by assumption. reflexivity.
  - intros e H d r. cbn [fl_arms app wf_arms] in *. rewrite skip_cond_kind, H. reflexivity.
  - intros el b IHb e (Hel & Hb & He) d r. cbn [fl_arms app]. rewrite skip_cond_kind, Hel, <- app_assoc, IHb by assumption.
    cbn [app]. rewrite skip_cond_kind, He. reflexivity.
  - intros hd b IHb m IHm (Hhd & Hb & Hm) d r. cbn [fl_arms app]. rewrite skip_cond_kind, Hhd, <- app_assoc, IHb, IHm by assumption. reflexivity.
Qed.

(** after an assembled arm: the rest of the block is skipped up to and including its .endif *)
Lemma skip_all_arms a : wf_arms a -> forall r, skip_cond true 0 (fl_arms a ++ r) = (r, false).
Proof.
  destruct (skip_balanced true) as (_ & SN & _).
  induction a as [e | el b e | hd b m IH]; cbn [wf_arms fl_arms app]; intros H r.
  - rewrite skip_cond_kind, H. reflexivity.
  - destruct H as (Hel & Hb & He). rewrite skip_cond_kind, Hel, <- app_assoc, SN by assumption. cbn [app]. rewrite skip_cond_kind, He. reflexivity.
  - destruct H as (Hhd & Hb & Hm). rewrite skip_cond_kind, Hhd, <- app_assoc, SN by assumption. apply IH. exact Hm.
Qed.

(** ---------------- the tree semantics (what the property asks for) ---------------- *)
Definition ores := option (res pstate).      (* None: outside the specification (a selected line opens a macro or ends the file) *)
Definition obind (o : ores) (f : pstate -> ores) : ores :=
  match o with Some (Ok st) => f st | other => other end.
Definition lift_err {A} (r : res A) : ores :=
  match r with Ok _ => None | Err l => Some (Err l) | Panic => Some Panic | OutOfFuel => Some OutOfFuel end.
(** assemble one line that is not a conditional directive *)
Definition step_plain (ln : line) (st : pstate) : ores :=
  match line_step ln false st with Ok (st', NewLine) => Some (Ok st') | r => lift_err r end.
(** reaching an arm head or .endif in assembling mode: only its label (if any) has an effect *)
Definition step_tail (ln : line) (st : pstate) : ores :=
  match line_step ln false st with Ok (st', EndIfAll) => Some (Ok st') | r => lift_err r end.

Fixpoint ex_node (n : node) (st : pstate) : ores :=
  match n with
  | NLine ln => step_plain ln st
  | NBlock h b a =>
      match line_step h false st with
      | Ok (st', NewLine) => obind (ex_nodes b st') (after_taken a)     (* condition holds: this arm, no other *)
      | Ok (st', EndIf) => ex_arms a st'                                  (* condition fails: look at the next arm *)
      | r => lift_err r
      end
  | NMacro h b e =>
      match line_step h false st with
      | Ok (st', EndMacro) =>                                              (* the body is recorded as text, nothing of it is assembled *)
          Some (Ok {| segs := segs st'; macro_name := macro_name st'; macros := insert (macro_name st') (fl_nodes b) (macros st');
                      msgs := msgs st'; pcx := pcx st'; fl := fl st' |})
      | r => lift_err r
      end
  end
with ex_nodes (ns : nodes) (st : pstate) : ores :=
  match ns with Nnil => Some (Ok st) | Ncons n r => obind (ex_node n st) (ex_nodes r) end
with ex_arms (a : arms) (st : pstate) : ores :=
  match a with
  | AEnd e => Some (Ok st)
  | AElse el b e => obind (ex_nodes b st) (step_plain e)
  | AElif hd b m =>
      match line_step hd true st with
      | Ok (st', NewLine) => obind (ex_nodes b st') (after_taken m)
      | Ok (st', EndIf) => ex_arms m st'
      | r => lift_err r
      end
  end
with after_taken (a : arms) (st : pstate) : ores :=
  match a with
  | AEnd e => step_plain e st
  | AElse el _ _ => step_tail el st
  | AElif hd _ _ => step_tail hd st
  end.

Definition Cont (o : res pstate) (rest : lines) (res : res pstate) : Prop :=
  match o with Ok st' => Run rest false st' res | other => res = other end.

Lemma run_err ln r sk st (x : res (pstate * next_item)) o : line_step ln sk st = x -> lift_err x = Some o ->
  forall rest res, Cont o rest res -> Run (ln :: r) sk st res.
Proof.
  intros H Hl rest res HC. destruct x as [y| l | |]; cbn in Hl; try discriminate; injection Hl as <-; cbn in HC; subst res.
  - apply R_err. exact H.
  - apply R_panic. exact H.
  - apply R_fuel. exact H.
Qed.

Theorem refines :
  (forall n, wf_node n -> forall st o rest res, ex_node n st = Some o -> Cont o rest res -> Run (fl_node n ++ rest) false st res) /\
  (forall ns, wf_nodes ns -> forall st o rest res, ex_nodes ns st = Some o -> Cont o rest res -> Run (fl_nodes ns ++ rest) false st res) /\
  (forall a, wf_arms a ->
     (forall st o rest res, ex_arms a st = Some o -> Cont o rest res ->
        Run (fst (skip_cond false 0 (fl_arms a ++ rest))) (snd (skip_cond false 0 (fl_arms a ++ rest))) st res) /\
     (forall st o rest res, after_taken a st = Some o -> Cont o rest res -> Run (fl_arms a ++ rest) false st res)).
Proof.
  destruct (skip_balanced false) as (_ & SNf & _).
  apply tree_mut.
  - (* plain line *)
    intros ln Hk st o rest res He HC. cbn [fl_node app ex_node] in *. unfold step_plain in He.
    destruct (line_step ln false st) as [[st' ni]| l | |] eqn:E.
    + destruct ni; cbn in He; try discriminate. injection He as <-. eapply R_new; [exact E | exact HC].
    + eapply run_err; eauto.
    + eapply run_err; eauto.
    + eapply run_err; eauto.
  - (* block *)
    intros h b IHb a IHa (Hh & Hb & Ha) st o rest res He HC. cbn [fl_node app ex_node] in *. rewrite <- app_assoc.
    destruct (IHa Ha) as [IHa1 IHa2].
    destruct (line_step h false st) as [[st' ni]| l | |] eqn:E.
    + destruct ni; cbn in He; try discriminate.
      * (* taken *) eapply R_new; [exact E|].
        destruct (ex_nodes b st') as [[stb| lb | |]|] eqn:Eb; cbn [obind] in He; try discriminate.
        -- eapply IHb; [exact Hb | exact Eb |]. cbn [Cont]. eapply IHa2; eauto.
        -- injection He as <-. eapply IHb; [exact Hb | exact Eb | exact HC].
        -- injection He as <-. eapply IHb; [exact Hb | exact Eb | exact HC].
        -- injection He as <-. eapply IHb; [exact Hb | exact Eb | exact HC].
      * (* not taken *) eapply R_skip; [exact E|]. rewrite SNf by exact Hb. eapply IHa1; eauto.
    + eapply run_err; eauto.
    + eapply run_err; eauto.
    + eapply run_err; eauto.
  - (* macro definition *)
    intros h b _ e (Hh & Hb & Hne & He) st o rest res Hx HC. cbn [fl_node app ex_node] in *. rewrite <- app_assoc. cbn [app].
    destruct (line_step h false st) as [[st' ni]| l | |] eqn:E.
    + destruct ni; cbn in Hx; try discriminate. injection Hx as <-. eapply R_macro; [exact E|].
      rewrite (skip_macro_body _ _ _ Hne He []). cbn [fst snd app]. exact HC.
    + eapply run_err; eauto.
    + eapply run_err; eauto.
    + eapply run_err; eauto.
  - intros _ st o rest res He HC. cbn in *. injection He as <-. exact HC.
  - intros n IHn ns IHns (Hn & Hns) st o rest res He HC. cbn [fl_nodes ex_nodes] in *. rewrite <- app_assoc.
    destruct (ex_node n st) as [[stn| ln | |]|] eqn:En; cbn [obind] in He; try discriminate.
    + eapply IHn; [exact Hn | exact En |]. cbn [Cont]. eapply IHns; eauto.
    + injection He as <-. eapply IHn; [exact Hn | exact En | exact HC].
    + injection He as <-. eapply IHn; [exact Hn | exact En | exact HC].
    + injection He as <-. eapply IHn; [exact Hn | exact En | exact HC].
  - (* AEnd *)
    intros e He. cbn [wf_arms] in He. split.
    + intros st o rest res Hx HC. cbn [fl_arms app ex_arms] in *. rewrite skip_cond_kind, He. cbn [fst snd]. injection Hx as <-. exact HC.
    + intros st o rest res Hx HC. cbn [fl_arms app after_taken] in *. unfold step_plain in Hx.
      destruct (line_step e false st) as [[st' ni]| l | |] eqn:E.
      * destruct ni; cbn in Hx; try discriminate. injection Hx as <-. eapply R_new; [exact E | exact HC].
      * eapply run_err; eauto.
      * eapply run_err; eauto.
      * eapply run_err; eauto.
  - (* AElse *)
    intros el b IHb e (Hel & Hb & He). split.
    + intros st o rest res Hx HC. cbn [fl_arms app ex_arms] in *. rewrite skip_cond_kind, Hel. cbn [fst snd]. rewrite <- app_assoc. cbn [app].
      destruct (ex_nodes b st) as [[stb| lb | |]|] eqn:Eb; cbn [obind] in Hx; try discriminate.
      * eapply IHb; [exact Hb | exact Eb |]. cbn [Cont]. unfold step_plain in Hx.
        destruct (line_step e false stb) as [[st' ni]| l | |] eqn:E.
        -- destruct ni; cbn in Hx; try discriminate. injection Hx as <-. eapply R_new; [exact E | exact HC].
        -- eapply run_err; eauto.
        -- eapply run_err; eauto.
        -- eapply run_err; eauto.
      * injection Hx as <-. eapply IHb; [exact Hb | exact Eb | exact HC].
      * injection Hx as <-. eapply IHb; [exact Hb | exact Eb | exact HC].
      * injection Hx as <-. eapply IHb; [exact Hb | exact Eb | exact HC].
    + intros st o rest res Hx HC. cbn [fl_arms app after_taken] in *. unfold step_tail in Hx.
      destruct (line_step el false st) as [[st' ni]| l | |] eqn:E.
      * destruct ni; cbn in Hx; try discriminate. injection Hx as <-. eapply R_all; [exact E|].
        destruct (skip_balanced true) as (_ & SNt & _). rewrite <- app_assoc, SNt by exact Hb. cbn [app]. rewrite skip_cond_kind, He. cbn [fst]. exact HC.
      * eapply run_err; eauto.
      * eapply run_err; eauto.
      * eapply run_err; eauto.
  - (* AElif *)
    intros hd b IHb m IHm (Hhd & Hb & Hm). destruct (IHm Hm) as [IHm1 IHm2]. split.
    + intros st o rest res Hx HC. cbn [fl_arms app ex_arms] in *. rewrite skip_cond_kind, Hhd. cbn [fst snd]. rewrite <- app_assoc.
      destruct (line_step hd true st) as [[st' ni]| l | |] eqn:E.
      * destruct ni; cbn in Hx; try discriminate.
        -- eapply R_new; [exact E|].
           destruct (ex_nodes b st') as [[stb| lb | |]|] eqn:Eb; cbn [obind] in Hx; try discriminate.
           ++ eapply IHb; [exact Hb | exact Eb |]. cbn [Cont]. eapply IHm2; eauto.
           ++ injection Hx as <-. eapply IHb; [exact Hb | exact Eb | exact HC].
           ++ injection Hx as <-. eapply IHb; [exact Hb | exact Eb | exact HC].
           ++ injection Hx as <-. eapply IHb; [exact Hb | exact Eb | exact HC].
        -- eapply R_skip; [exact E|]. rewrite SNf by exact Hb. eapply IHm1; eauto.
      * eapply run_err; eauto.
      * eapply run_err; eauto.
      * eapply run_err; eauto.
    + intros st o rest res Hx HC. cbn [fl_arms app after_taken] in *. unfold step_tail in Hx.
      destruct (line_step hd false st) as [[st' ni]| l | |] eqn:E.
      * destruct ni; cbn in Hx; try discriminate. injection Hx as <-. eapply R_all; [exact E|].
        destruct (skip_balanced true) as (_ & SNt & _). rewrite <- app_assoc, SNt by exact Hb.
        rewrite skip_all_arms by exact Hm. cbn [fst]. exact HC.
      * eapply run_err; eauto.
      * eapply run_err; eauto.
      * eapply run_err; eauto.
Qed.
End Cond.

(** the statement for a whole program, in terms of the fuelled loop of the model *)
Theorem select_program fuel inc ns st o :
  wf_nodes ns -> ex_nodes fuel inc ns st = Some o ->
  forall g, (length (fl_nodes ns) < g)%nat -> parse_iter fuel inc g (fl_nodes ns) false st = o.
Proof.
  intros Hwf He g Hg. destruct (refines fuel inc) as (_ & Hn & _).
  apply (run_complete fuel inc); [|exact Hg].
  rewrite <- (app_nil_r (fl_nodes ns)). eapply Hn; [exact Hwf | exact He |].
  destruct o; cbn; try reflexivity. apply R_nil.
Qed.
