(** src/builder/pass0.rs (macro expansion), pass1.rs (sizes, label addresses), pass2.rs (evaluation,
    encoding, emission) and builder/mod.rs (capacity check, BuildResult). *)
Require Import AvraV.Model.Base AvraV.Model.Ast AvraV.Model.Device AvraV.Model.Eval AvraV.Model.Encode.
Require Import AvraV.Model.Grammar AvraV.Model.Lines AvraV.Model.Display AvraV.Model.Fs AvraV.Model.Parse AvraV.Model.Show.
Require Import AvraV.Gen.OpTable AvraV.Gen.Devices.
Open Scope N_scope.

(** ---------------- pass 0 ---------------- *)
Section Pass0.
Variable fuel : nat.
Variable include_file : str -> pstate -> res pstate.
Variable macroses : list (str * list (N * str)).      (* the macros recorded by the parser *)

Definition non_empty (l : list segment) : list segment := filter (fun s => negb (seg_is_empty s)) l.
(** what an expansion hands over: its segments without the empty ones - except the last, which is where the body left off
    (a body that ends with a segment directive or .org hands that position to what follows the call) *)
Fixpoint but_last_non_empty (l : list segment) : list segment :=
  match l with
  | [] => []
  | [s] => [s]
  | s :: r => if seg_is_empty s then but_last_non_empty r else s :: but_last_non_empty r
  end.

(** macro_expand: substitute the arguments, parse the body into fresh segments *)
Definition substitute (ops : list iop) (body : list (N * str)) : list (N * str) :=
  match ops with
  | [] => body
  | _ =>
      map (fun ln =>
             (fst ln,
              snd (fold_left (fun (acc : N * str) (a : iop) =>
                                (N.succ (fst acc), replace (lit "@" ++ show_N (fst acc))%list (display_iop a) (snd acc)))
                             ops (0, snd ln)))) body
  end.

(** MAX_MACRO_LINE: how long a line of a body may be once the arguments are in it (the nesting limit bounds the depth of an
    expansion, this bounds its size: an argument that mentions itself twice doubles at every level) *)
Definition max_macro_line : N := 65536.
Definition too_long (ls : list (N * str)) : bool :=
  existsb (fun ln => (max_macro_line <? N.of_nat (length (snd ln)))%N) ls.

Definition macro_expand (line : N) (name : str) (ops : list iop) (st : pstate) : res (pstate * list segment) :=
  match lookup name macroses with
  | None => Err (Some line)
  | Some body =>
      let inner := {| segs := [{| items := []; seg_t := SCode; address := address (last_seg st) |}];
                      macro_name := macro_name st; macros := macros st; msgs := msgs st; pcx := pcx st; fl := fl_empty |} in
      let ls := substitute ops body in
      if too_long ls then Err (Some line) else
      do r <- parse_iter fuel include_file (S (length ls)) ls false inner;
      Ok ({| segs := segs st; macro_name := macro_name r; macros := macros r; msgs := msgs r; pcx := pcx r; fl := fl st |},
          but_last_non_empty (segs r))
  end.

(** pass0_internal; [depth] = how many more levels of macro calls may be entered (MAX_MACRO_DEPTH = 64) *)
Fixpoint pass0_items (depth : nat) : list ((N * N) * item) -> pstate -> res pstate :=
  fix go (its : list ((N * N) * item)) (st : pstate) : res pstate :=
    match its with
    | [] => Ok st
    | (cp, it) :: rest =>
        do st1 <-
          match it with
          | IInstr (OCustom name) ops =>
              match depth with
              | O => Err (Some (fst cp))
              | S d =>
                  do es <- macro_expand (fst cp) name ops st;
                  let '(st0, segments) := es in
                  match segments with
                  | [] => Ok st0
                  | s0 :: more =>
                      let cur := last_seg st0 in
                      let st1 := if negb (address s0 =? address cur) || negb (segt_eqb (seg_t s0) (seg_t cur))
                                 then add_segment st0 {| items := []; seg_t := seg_t s0; address := address s0 |} else st0 in
                      do st2 <- pass0_items d (items s0) st1;
                      fold_left (fun (acc : res pstate) (sg : segment) =>
                                   do a <- acc;
                                   match seg_t sg with
                                   | SCode => pass0_items d (items sg)
                                                (add_segment a {| items := []; seg_t := seg_t sg; address := address sg |})
                                   | _ => Ok (add_segment a sg)
                                   end) more (Ok st2)
                  end
              end
          | _ => Ok (push_item st cp it)
          end;
        go rest st1
    end.

(** build_pass_0 *)
Definition pass0 (depth : nat) (parsed : list segment) (st0 : pstate) : res pstate :=
  fold_left (fun (acc : res pstate) (sg : segment) =>
               do a <- acc;
               match seg_t sg with
               | SCode => pass0_items depth (items sg) (add_segment a {| items := []; seg_t := SCode; address := address sg |})
               | _ => Ok (add_segment a sg)
               end) parsed (Ok st0).
End Pass0.

(** ---------------- u32 arithmetic of the passes (debug profile: overflow panics) ---------------- *)
Definition two32 : N := 4294967296.
Definition add32 (a b : N) : res N := if a + b <? two32 then Ok (a + b) else Panic.
(** pass 1: [advance] - the counter must stay inside the 32-bit address space, else an error naming the line *)
Definition advance (line : N) (a b : N) : res N := if a + b <? two32 then Ok (a + b) else Err (Some line).
Definition as_u32 (z : Z) : N := Z.to_N (z mod 4294967296).
Definition as_i32 (n : N) : Z := let m := Z.of_N (n mod two32) in if (m <? 2147483648)%Z then m else (m - 4294967296)%Z.

Definition operand_len (o : operand) : N := match o with PE _ => 1 | PS t => N.of_nat (length t) end.
Definition actual_len (l : list operand) : N := fold_left (fun acc o => acc + operand_len o) l 0.

Definition ctx_set_label (c : ctx) (n : str) (v : segt * N) : ctx :=
  {| defines := defines c; equs := equs c; labels := insert n v (labels c); defs := defs c; sets := sets c;
     special := special c; dev := dev c |}.

(** ---------------- pass 1 ---------------- *)
Definition pass1_item (t : segt) (st : ctx * N * list ((N * N) * item)) (ci : (N * N) * item)
  : res (ctx * N * list ((N * N) * item)) :=
  let '(c, cur, out) := st in
  let '(cp, it) := ci in
  let line := fst cp in
  let keep := (out ++ [(cp, it)])%list in
  match it with
  | ILabel name =>
      match lookup name (labels c) with
      | Some _ => Err (Some line)
      | None => Ok (ctx_set_label c name (t, cur), cur, out)
      end
  | IInstr op _ =>
      match t with
      | SCode => do a <- advance line cur (fst (op_info (is_avr8l (dev c)) op)); Ok (c, a, keep)
      | _ => Err (Some line)
      end
  | ISet _ _ | IDef _ _ | IUndef _ => Ok (c, cur, keep)
  | IData Db l =>
      match t with
      | SCode =>
          let l' := if actual_len l mod 2 =? 1 then (l ++ [PE (EConst 0)])%list else l in
          do a <- advance line cur (actual_len l' / 2); Ok (c, a, (out ++ [(cp, IData Db l')])%list)
      | SEeprom => do a <- advance line cur (actual_len l); Ok (c, a, keep)
      | SData => Err (Some line)
      end
  | IData k l =>
      let size := match k with Dw => 2 | Dd => 4 | _ => 8 end in
      match t with
      | SCode => do a <- advance line cur (N.of_nat (length l) * (size / 2)); Ok (c, a, keep)
      | SEeprom => do a <- advance line cur (N.of_nat (length l) * size); Ok (c, a, keep)
      | SData => Err (Some line)
      end
  | IReserve n =>
      match t with
      | SCode => Err (Some line)
      | SData => if (n <? 0)%Z then Err (Some line) else do a <- advance line cur (Z.to_N n); Ok (c, a, out)
      | SEeprom => if (n <? 0)%Z then Err (Some line) else do a <- advance line cur (Z.to_N n); Ok (c, a, keep)
      end
  | IPragma _ => Ok (c, cur, out)
  end.

Definition pass1_segment (c : ctx) (sg : segment) (offset : N) : res (ctx * N * segment) :=
  do start <- (if address sg =? 0 then Ok offset else if address sg <? offset then Err None else Ok (address sg));
  do r <- fold_left (fun acc ci => do a <- acc; pass1_item (seg_t sg) a ci) (items sg) (Ok (c, start, []));
  let '(c', fin, out) := r in
  Ok (c', fin, {| items := out; seg_t := seg_t sg; address := start |}).

Record p1 := { p1_segs : list segment; p1_ram : N; p1_ctx : ctx }.
Definition pass1 (c : ctx) (segments : list segment) : res p1 :=
  let d := dev c in
  do r <- fold_left (fun acc sg =>
              do a <- acc;
              let '(c0, co, dofs, eo, out) := a in
              let off := match seg_t sg with SCode => co | SData => dofs | SEeprom => eo end in
              do x <- pass1_segment c0 sg off;
              let '(c1, fin, sg') := x in
              Ok (match seg_t sg with
                  | SCode => (c1, fin, dofs, eo, (out ++ [sg'])%list)
                  | SData => (c1, co, fin, eo, (out ++ [sg'])%list)
                  | SEeprom => (c1, co, dofs, fin, (out ++ [sg'])%list)
                  end))
           segments (Ok (c, 0, ram_start d, 0, []));
  let '(c', co, dofs, eo, out) := r in
  (* the layout is known: a program that cannot fit the device is refused before pass 2 *)
  if flash_size d <? co then Err None
  else if eeprom_size d <? eo then Err None
  else if ram_size d <? dofs - ram_start d then Err None
  else Ok {| p1_segs := out; p1_ram := dofs - ram_start d; p1_ctx := c' |}.

(** ---------------- pass 2 ---------------- *)
Definition ctx_set_pc (c : ctx) (a : N) : ctx :=
  {| defines := defines c; equs := equs c; labels := labels c; defs := defs c; sets := sets c;
     special := insert (lit "pc") (EConst (Z.of_N a)) (special c); dev := dev c |}.
Definition ctx_with_defs (c : ctx) (d : list (str * N)) : ctx :=
  {| defines := defines c; equs := equs c; labels := labels c; defs := d; sets := sets c; special := special c; dev := dev c |}.
Definition ctx_with_sets (c : ctx) (s : list (str * expr)) : ctx :=
  {| defines := defines c; equs := equs c; labels := labels c; defs := defs c; sets := s; special := special c; dev := dev c |}.

(** Device::check_operation / check_instruction *)
Definition check_operation (d : device) (o : Ast.operation) : bool :=
  match o with
  | OMul | OMuls | OMulsu | OFmul | OFmuls | OFmulsu => allow d NoMul
  | OJmp | OCall => allow d NoJmp
  | OLpm => allow d NoLpm
  | OElpm => allow d NoElpm
  | OSpm => allow d NoSpm
  | OEicall => allow d NoEicall
  | OEijmp => allow d NoEijmp
  | OBreak => allow d NoBreak
  | OMovw => allow d NoMovw
  | OAdiw | OSbiw => allow d Tiny1x && allow d Avr8l
  | OIjmp | OIcall | OLdd | OStd | OLds | OSts | OPush | OPop => allow d Tiny1x
  | _ => true
  end.
Definition index_reg (a : iop) : option Ast.reg16 :=
  match a with OIndex (INone r) | OIndex (IPostInc r) | OIndex (IPostIncE r _) | OIndex (IPreDec r) => Some r | _ => None end.
Definition check_instruction (d : device) (o : Ast.operation) (args : list iop) : bool :=
  check_operation d o &&
  match o with
  | OLpm => match args with [] => true | _ => allow d NoLpmX end
  | OElpm => match args with [] => true | _ => allow d NoElpmX end
  | OLd | OSt | OLdd | OStd =>
      (* ld / st written with a displacement assemble to LDD / STD *)
      (negb (existsb (fun a => match a with OIndex (IPostIncE _ _) => true | _ => false end) args) || allow d Tiny1x) &&
      forallb (fun a => match index_reg a with Some RX => allow d NoXreg | Some RY => allow d NoYreg | _ => true end) args
  | _ => true
  end.

Section Pass2.
Variable fuel : nat.

Definition with_line {A} (line : N) (r : res A) : res A := match r with Err _ => Err (Some line) | x => x end.

Definition operand_bytes (c : ctx) (k : datadef) (o : operand) : res (list N) :=
  match o with
  | PE e =>
      do v <- run fuel c e;
      match k with
      | Db => do b <- byte_of v; Ok (le_bytes 1 b)
      | Dw => do b <- word_of v; Ok (le_bytes 2 b)
      | Dd => do b <- dword_of v; Ok (le_bytes 4 b)
      | Dq => do b <- qword_of v; Ok (le_bytes 8 b)
      end
  | PS t => match k with Db => Ok (map N_of_ascii t) | _ => Err None end
  end.
Fixpoint data_bytes (c : ctx) (k : datadef) (l : list operand) : res (list N) :=
  match l with
  | [] => Ok []
  | o :: r => do a <- operand_bytes c k o; do b <- data_bytes c k r; Ok (a ++ b)%list
  end.

Definition reg_of_name (n : str) : option N :=
  match reg8 (lower n) with Some (v, []) => Some v | _ => None end.

Definition pass2_item (t : segt) (st : ctx * N * list N) (ci : (N * N) * item) : res (ctx * N * list N) :=
  let '(c0, cur, out) := st in
  let '(cp, it) := ci in
  let line := fst cp in
  let c := ctx_set_pc c0 cur in
  match it with
  | IInstr op args =>
      if check_instruction (dev c) op args then
        do bs <- with_line line (process fuel c op args cur);
        do a <- add32 cur (N.of_nat (length bs) / 2);
        Ok (c, a, (out ++ bs)%list)
      else Err (Some line)
  | IData k l =>
      do bs <- with_line line (data_bytes c k l);
      do a <- add32 cur (match t with SCode => N.of_nat (length bs) / 2 | _ => N.of_nat (length bs) end);
      Ok (c, a, (out ++ bs)%list)
  | IReserve n =>
      do a <- add32 cur (as_u32 n);
      Ok (c, a, (out ++ repeat 0 (Z.to_nat n))%list)
  | IDef alias (EIdent register) =>
      match reg_of_name register with
      | None => Err (Some line)
      | Some r => if exist c (lower alias) then Ok (c, cur, out)
                  else Ok (ctx_with_defs c (insert (lower (lower alias)) r (defs c)), cur, out)
      end
  | IUndef alias =>
      match lookup (lower alias) (defs c) with
      | None => Err (Some line)
      | Some _ => Ok (ctx_with_defs c (remove (lower alias) (defs c)), cur, out)
      end
  | ISet name e =>
      let name := lower name in
      do v <- with_line line (run fuel c e);
      if exist c name then
        match lookup name (sets c) with
        | Some _ => Ok (ctx_with_sets c (insert name (EConst v) (sets c)), cur, out)
        | None => Err (Some line)
        end
      else Ok (ctx_with_sets c (insert name (EConst v) (sets c)), cur, out)
  | _ => Ok (c, cur, out)
  end.

Definition pad_to (unit : N) (img : list N) (addr : N) : list N :=
  let n := (as_i32 addr - as_i32 (N.of_nat (length img)) / (Z.of_N unit))%Z in
  (img ++ repeat 0 (Z.to_nat n * N.to_nat unit))%list.

Record p2 := { p2_code : list N; p2_eeprom : list N; p2_ctx : ctx }.
Definition pass2 (c : ctx) (segments : list segment) : res p2 :=
  do r <- fold_left (fun acc sg =>
              do a <- acc;
              let '(c0, code, eep) := a in
              let code1 := match seg_t sg with SCode => pad_to 2 code (address sg) | _ => code end in
              let eep1 := match seg_t sg with SEeprom => pad_to 1 eep (address sg) | _ => eep end in
              do x <- fold_left (fun acc2 ci => do b <- acc2; pass2_item (seg_t sg) b ci) (items sg) (Ok (c0, address sg, []));
              let '(c1, _, frag) := x in
              Ok (match seg_t sg with
                  | SCode => (c1, (code1 ++ frag)%list, eep1)
                  | SEeprom => (c1, code1, (eep1 ++ frag)%list)
                  | SData => (c1, code1, eep1)
                  end))
           segments (Ok (c, [], []));
  let '(c', code, eep) := r in
  Ok {| p2_code := code; p2_eeprom := eep; p2_ctx := c' |}.
End Pass2.

(** ---------------- builder/mod.rs ---------------- *)
Record build_result := {
  b_code : list N; b_eeprom : list N;
  b_flash : N; b_eeprom_size : N; b_ram : N; b_ram_filling : N;
  b_messages : list str
}.

Definition build_from_parsed (fuel : nat) (include_file : str -> pstate -> res pstate) (st : pstate) : res build_result :=
  let parsed := non_empty (segs st) in
  let st0 := {| segs := []; macro_name := []; macros := []; msgs := msgs st; pcx := pcx st; fl := fl_empty |} in
  do s0 <- pass0 fuel include_file (macros st) 64 parsed st0;
  do r1 <- pass1 (pcx s0) (non_empty (segs s0));
  do r2 <- pass2 fuel (p1_ctx r1) (p1_segs r1);
  let d := dev (p2_ctx r2) in
  if flash_size d * 2 <? N.of_nat (length (p2_code r2)) then Err None
  else if eeprom_size d <? N.of_nat (length (p2_eeprom r2)) then Err None
  else if ram_size d <? p1_ram r1 then Err None
  else Ok {| b_code := p2_code r2; b_eeprom := p2_eeprom r2; b_flash := flash_size d; b_eeprom_size := eeprom_size d;
             b_ram := ram_size d; b_ram_filling := p1_ram r1; b_messages := msgs s0 |}.

Definition no_include (path : str) (st : pstate) : res pstate := Err None.

(** builder::build_str, without file inclusion (Model/Fs.v adds it) *)
Definition build_str (fuel : nat) (src : str) : res build_result :=
  let ls := number_from 0 (split_lines src) in
  (* parse_str: current_path is the working directory (only its having a parent matters without files) *)
  let st0 := with_fl (pstate_new (ctx_new default_device)) {| cur_path := [CRoot; CNorm (lit "cwd")]; ipaths := [] |} in
  do st <- parse_iter fuel no_include (S (length ls)) ls false st0;
  build_from_parsed fuel no_include st.
