(** src/document.rs, expression level: character classes, identifiers, numeric and character
    literals, and the [expr] rule as the instance of the generic climbing parser (Model/Climb.v)
    for the operator tables regenerated from the source (Gen/PrecTable.v). *)
Require Import AvraV.Model.Base AvraV.Model.Ast AvraV.Model.Climb AvraV.Gen.PrecTable.
Open Scope N_scope.

Definition code (c : ascii) : N := N_of_ascii c.
Definition between (lo hi : N) (c : ascii) : bool := (lo <=? code c) && (code c <=? hi).
Definition is_sp (c : ascii) : bool := (code c =? 32) || (code c =? 9).          (* ' ' | '\t' *)
Definition is_digit (c : ascii) : bool := between 48 57 c.
Definition is_idstart (c : ascii) : bool := between 97 122 c || between 65 90 c || (code c =? 95).
Definition is_idch (c : ascii) : bool := is_digit c || is_idstart c.

Fixpoint take_while (p : ascii -> bool) (s : str) : str * str :=
  match s with
  | c :: r => if p c then let '(a, b) := take_while p r in (c :: a, b) else ([], s)
  | [] => ([], [])
  end.

(** e_ident / ident: [a-zA-Z_][0-9a-zA-Z_]* *)
Definition id_parse (s : str) : option (str * str) :=
  match s with
  | c :: r => if is_idstart c then let '(a, b) := take_while is_idch r in Some (c :: a, b) else None
  | [] => None
  end.

(** digits of a radix; value of a digit string *)
Definition hex_val (c : ascii) : option N :=
  if between 48 57 c then Some (code c - 48)
  else if between 65 70 c then Some (code c - 55)
  else if between 97 102 c then Some (code c - 87) else None.
Definition is_hex (c : ascii) : bool := match hex_val c with Some _ => true | None => false end.
Definition is_bin (c : ascii) : bool := between 48 49 c.
Definition is_oct (c : ascii) : bool := between 48 55 c.
Fixpoint digits_val (base : N) (ds : str) (acc : N) : N :=
  match ds with
  | [] => acc
  | c :: r => digits_val base r (acc * base + match hex_val c with Some v => v | None => 0 end)
  end.
Definition i64_limit : N := 9223372036854775808.
(** one alternative of e_const: after the prefix, one or more digits of the class, converted with
    from_str_radix; the alternative fails when the value does not fit an i64 *)
Definition radix_alt (p : ascii -> bool) (base : N) (s : str) : option (N * str) :=
  match take_while p s with
  | ([], _) => None
  | (ds, r) => let v := digits_val base ds 0 in if v <? i64_limit then Some (v, r) else None
  end.
Definition or_opt {A} (a b : option A) : option A := match a with Some _ => a | None => b end.
Definition e_const (s : str) : option (N * str) :=
  or_opt (match strip (lit "$") s with Some r => radix_alt is_hex 16 r | None => None end)
 (or_opt (match strip (lit "0x") s with Some r => radix_alt is_hex 16 r | None => None end)
 (or_opt (match strip (lit "0b") s with Some r => radix_alt is_bin 2 r | None => None end)
 (or_opt (match strip (lit "0") s with Some r => radix_alt is_oct 8 r | None => None end)
         (radix_alt is_digit 10 s)))).

(** one UTF-8 encoded character: its Unicode scalar value and the rest (the input is a Rust &str,
    hence valid UTF-8; a malformed lead byte is taken as a single byte) *)
Definition cont (c : ascii) : N := code c mod 64.
Definition utf8_char (s : str) : option (N * str) :=
  match s with
  | [] => None
  | c :: r =>
      let b := code c in
      if b <? 128 then Some (b, r)
      else if (192 <=? b) && (b <? 224) then
        match r with c1 :: r1 => Some ((b mod 32) * 64 + cont c1, r1) | _ => Some (b, r) end
      else if (224 <=? b) && (b <? 240) then
        match r with c1 :: c2 :: r2 => Some (((b mod 16) * 64 + cont c1) * 64 + cont c2, r2) | _ => Some (b, r) end
      else if (240 <=? b) && (b <? 248) then
        match r with c1 :: c2 :: c3 :: r3 => Some ((((b mod 8) * 64 + cont c1) * 64 + cont c2) * 64 + cont c3, r3) | _ => Some (b, r) end
      else Some (b, r)
  end.
(** ch: "'" one character other than "'", LF, CR "'" *)
Definition ch_lit (s : str) : option (N * str) :=
  match s with
  | q :: r =>
      if code q =? 39 then
        match utf8_char r with
        | Some (v, r1) =>
            if (v =? 39) || (v =? 10) || (v =? 13) then None
            else match r1 with q2 :: r2 => if code q2 =? 39 then Some (v, r2) else None | [] => None end
        | None => None
        end
      else None
  | [] => None
  end.
Definition num_parse (s : str) : option (N * str) := or_opt (e_const s) (ch_lit s).

Definition cexpr := Climb.expr binop unop.
Definition climb_expr : nat -> nat -> str -> option (cexpr * str) :=
  Climb.climb binop unop itab ptab is_sp id_parse num_parse.

Fixpoint conv (e : cexpr) : Ast.expr :=
  match e with
  | EId n => EIdent n
  | ENum k => EConst (Z.of_N k)
  | EF n a => EFunc (EIdent n) (conv a)
  | EB o l r => EBin (conv l) o (conv r)
  | EU u x => EUn u (conv x)
  end.

(** the recursion depth and the number of loop iterations are bounded by the number of characters:
    every nested call is made after at least one character has been consumed *)
Definition expr_fuel (s : str) : nat := S (S (length s)).
(** rule expr(), not anchored: the parsed expression and the rest of the input *)
Definition expr_rule (s : str) : option (Ast.expr * str) :=
  match climb_expr (expr_fuel s) 0 s with Some (e, r) => Some (conv e, r) | None => None end.
(** document::expr(text): the whole input must be consumed *)
Definition parse_expr (s : str) : option Ast.expr :=
  match expr_rule s with Some (e, []) => Some e | _ => None end.
