(** C02: what pass 1 counts is what pass 2 emits - item by item, for every item kind. *)
From Coq Require Import List NArith ZArith Bool Lia ZifyBool ZifyN ZifyNat.
Import ListNotations.
Require Import AvraV.Model.Base AvraV.Model.Ast AvraV.Model.Device AvraV.Model.Eval AvraV.Model.Encode.
Require Import AvraV.Model.Parse AvraV.Model.Passes AvraV.Gen.OpTable AvraV.Proofs.ErrProofs AvraV.Proofs.SymProofs.
Open Scope N_scope.
Ltac Zify.zify_post_hook ::= Z.div_mod_to_equations.

(** ---- instructions: the emitted length is the length of the (regenerated) operation table ---- *)
Lemma bind_ok {A B} (m : res A) (f : A -> res B) b : bind m f = Ok b -> exists a, m = Ok a /\ f a = Ok b.
Proof. destruct m; cbn; intros H; try discriminate. eauto. Qed.

Definition two_words (avr8l : bool) (op : operation) : bool :=
  match op with OJmp | OCall => true | OLds | OSts => negb avr8l | _ => false end.

Lemma op_info_len a op : match op with OCustom _ => True | _ => fst (op_info a op) = if two_words a op then 2 else 1 end.
Proof. destruct op; try exact I; try destruct b; try destruct f; destruct a; reflexivity. Qed.

Definition has_len (r : res (list N)) (n : nat) : Prop := match r with Ok bs => length bs = n | _ => True end.
Ltac simple_scrutinee x :=
  lazymatch x with
  | context [bind _ _] => fail
  | context [match _ with _ => _ end] => fail
  | _ => idtac
  end.
Ltac len_step :=
  match goal with
  | |- context [bind ?m _] => simple_scrutinee m; destruct m; cbn [bind has_len]; try exact I
  | |- context [if ?x then _ else _] => simple_scrutinee x; destruct x; cbn [bind has_len]; try exact I
  | |- context [match ?x with _ => _ end] => simple_scrutinee x; destruct x; cbn [bind has_len]; try exact I
  end.

Lemma process_v_has_len a op vs pc : has_len (process_v a op vs pc) (if two_words a op then 4%nat else 2%nat).
Proof.
  unfold process_v.
  destruct (match operand_counts op with Some l => if existsb (Nat.eqb (length vs)) l then Ok tt else Err None | None => Ok tt end);
    cbn [bind has_len]; try exact I.
  destruct op; destruct a; cbn [two_words negb]; cbv beta iota zeta; cbn [bind has_len].
  all: repeat len_step.
  all: try reflexivity.
Qed.

Theorem process_v_len a op vs pc bs : process_v a op vs pc = Ok bs ->
  length bs = if two_words a op then 4%nat else 2%nat.
Proof. intros H. pose proof (process_v_has_len a op vs pc) as L. rewrite H in L. exact L. Qed.

Corollary process_len fuel c op args pc bs : process fuel c op args pc = Ok bs ->
  match op with OCustom _ => True | _ => N.of_nat (length bs) / 2 = fst (op_info (is_avr8l (dev c)) op) end.
Proof.
  unfold process. intros H. apply process_v_len in H. pose proof (op_info_len (is_avr8l (dev c)) op) as L.
  destruct op; try exact I; rewrite L, H; destruct (two_words _ _); reflexivity.
Qed.

(** ---- data: every operand emits exactly the bytes pass 1 counted for it ---- *)
Lemma le_bytes_len n v : length (le_bytes n v) = n.
Proof. revert v; induction n as [|n IH]; intros v; cbn [le_bytes length]; [reflexivity | now rewrite IH]. Qed.

Lemma fold_add_shift l a : fold_left (fun acc o => acc + operand_len o) l a = a + actual_len l.
Proof.
  unfold actual_len. revert a. induction l as [|o l IH]; intros a; cbn [fold_left]; [lia|].
  rewrite IH, (IH (0 + _)). lia.
Qed.
Lemma actual_len_cons o l : actual_len (o :: l) = operand_len o + actual_len l.
Proof. unfold actual_len at 1. cbn [fold_left]. rewrite fold_add_shift. lia. Qed.
Lemma actual_len_app l1 l2 : actual_len (l1 ++ l2) = actual_len l1 + actual_len l2.
Proof. induction l1 as [|o l1 IH]; [reflexivity|]. cbn [app]. rewrite !actual_len_cons, IH. lia. Qed.

Definition unit_size (k : datadef) : N := match k with Db => 1 | Dw => 2 | Dd => 4 | Dq => 8 end.

Lemma operand_bytes_len fuel c k o bs : operand_bytes fuel c k o = Ok bs ->
  N.of_nat (length bs) = match k with Db => operand_len o | _ => unit_size k end.
Proof.
  unfold operand_bytes. intros H. destruct o as [e | t].
  - apply bind_ok in H. destruct H as (v & _ & H).
    destruct k; apply bind_ok in H; destruct H as (b & _ & H); injection H as <-; reflexivity.
  - destruct k; try discriminate. injection H as <-. rewrite map_length. reflexivity.
Qed.

Lemma data_bytes_len fuel c k l bs : data_bytes fuel c k l = Ok bs ->
  N.of_nat (length bs) = match k with Db => actual_len l | _ => N.of_nat (length l) * unit_size k end.
Proof.
  revert bs. induction l as [|o l IH]; intros bs H; cbn [data_bytes] in H.
  - injection H as <-. destruct k; reflexivity.
  - apply bind_ok in H. destruct H as (a & Ha & H). apply bind_ok in H. destruct H as (b & Hb & H). injection H as <-.
    apply operand_bytes_len in Ha. specialize (IH _ Hb). rewrite app_length, Nat2N.inj_add, Ha, IH.
    destruct k; rewrite ?actual_len_cons; cbn [length]; lia.
Qed.

(** ---- one item: pass 1's advance = pass 2's advance = bytes emitted / unit ---- *)
Definition unit_of (t : segt) : N := match t with SCode => 2 | _ => 1 end.
Definition plain (ci : (N * N) * item) : Prop := match snd ci with IInstr (OCustom _) _ => False | _ => True end.

Lemma advance_ok line a b r : advance line a b = Ok r -> r = a + b /\ a + b < two32.
Proof. unfold advance. destruct (a + b <? two32) eqn:E; intros H; inversion H. apply N.ltb_lt in E. auto. Qed.
Lemma add32_ok a b r : add32 a b = Ok r -> r = a + b.
Proof. unfold add32. destruct (a + b <? two32); intros H; inversion H. reflexivity. Qed.
Lemma with_line_ok {A} line (r : res A) x : with_line line r = Ok x -> r = Ok x.
Proof. destruct r; cbn; intros H; congruence. Qed.

Lemma dev_set_pc c a : dev (ctx_set_pc c a) = dev c.  Proof. reflexivity. Qed.

(** pass 2 never changes the device, emits by appending, and - the point - for the item pass 1 kept,
    advances the counter exactly as pass 1 did and emits unit * advance bytes. *)
Theorem item_agree fuel t c1 cur out1 ci c1' cur' out1' :
  pass1_item t (c1, cur, out1) ci = Ok (c1', cur', out1') -> plain ci ->
  dev c1' = dev c1 /\
  ((out1' = out1 /\ cur' = cur \/ out1' = out1 /\ t = SData) \/
   exists ci', out1' = (out1 ++ [ci'])%list /\ fst ci' = fst ci /\
     forall c2 out2 c2' cur2 out2', dev c2 = dev c1 ->
       pass2_item fuel t (c2, cur, out2) ci' = Ok (c2', cur2, out2') ->
       dev c2' = dev c2 /\ cur2 = cur' /\
       exists bs, out2' = (out2 ++ bs)%list /\ N.of_nat (length bs) = unit_of t * (cur' - cur)).
Proof.
  intros H1 Hp. destruct ci as [cp it]. unfold pass1_item in H1. unfold plain in Hp; cbn [snd] in Hp.
  assert (Hnil : forall (l : list N), l = (l ++ [])%list) by (intros; now rewrite app_nil_r).
  destruct it as [n | k ops | a e | a | a e | ops | op args | lab].
  - (* IReserve *)
    destruct t; try discriminate.
    + destruct (n <? 0)%Z eqn:En; try discriminate. apply bind_ok in H1. destruct H1 as (a & Ha & H1). injection H1 as <- <- <-.
      split; [reflexivity|]. left. right. auto.
    + destruct (n <? 0)%Z eqn:En; try discriminate. apply bind_ok in H1. destruct H1 as (a & Ha & H1). injection H1 as <- <- <-.
      apply advance_ok in Ha. destruct Ha as [-> Hlt]. apply Z.ltb_ge in En.
      split; [reflexivity|]. right. eexists; split; [reflexivity|]. split; [reflexivity|].
      intros c2 out2 c2' cur2 out2' Hd H2. unfold pass2_item in H2.
      apply bind_ok in H2. destruct H2 as (a2 & Ha2 & H2). injection H2 as <- <- <-.
      apply add32_ok in Ha2. subst a2.
      assert (Hu : as_u32 n = Z.to_N n).
      { unfold as_u32. f_equal. apply Z.mod_small. unfold two32 in Hlt. lia. }
      rewrite Hu. split; [reflexivity|]. split; [reflexivity|]. eexists; split; [reflexivity|].
      rewrite repeat_length. cbn [unit_of]. lia.
  - (* IData *)
    assert (Hk : forall l' (cur1 : N), (forall c2 out2 c2' cur2 out2', dev c2 = dev c1 ->
               pass2_item fuel t (c2, cur, out2) (cp, IData k l') = Ok (c2', cur2, out2') ->
               exists bs, data_bytes fuel (ctx_set_pc c2 cur) k l' = Ok bs /\ dev c2' = dev c2 /\
                 cur2 = cur + (match t with SCode => N.of_nat (length bs) / 2 | _ => N.of_nat (length bs) end) /\
                 out2' = (out2 ++ bs)%list)).
    { intros l' _unused c2 out2 c2' cur2 out2' Hd H2. unfold pass2_item in H2.
      apply bind_ok in H2. destruct H2 as (bs & Hb & H2). apply with_line_ok in Hb.
      apply bind_ok in H2. destruct H2 as (a2 & Ha2 & H2). injection H2 as <- <- <-. apply add32_ok in Ha2.
      exists bs. auto. }
    destruct k.
    + destruct t; try discriminate.
      * apply bind_ok in H1. destruct H1 as (a & Ha & H1). injection H1 as <- <- <-.
        apply advance_ok in Ha. destruct Ha as [-> _]. split; [reflexivity|]. right. eexists; split; [reflexivity|]. split; [reflexivity|].
        intros c2 out2 c2' cur2 out2' Hd H2. destruct (Hk _ cur _ _ _ _ _ Hd H2) as (bs & Hb & D & -> & ->).
        apply data_bytes_len in Hb. split; [exact D|]. rewrite Hb.
        set (l' := if actual_len ops mod 2 =? 1 then (ops ++ [PE (EConst 0)])%list else ops) in *.
        assert (Hev : actual_len l' mod 2 = 0).
        { subst l'. destruct (actual_len ops mod 2 =? 1) eqn:E.
          - apply N.eqb_eq in E. rewrite actual_len_app. unfold actual_len at 2. cbn [fold_left operand_len].
            rewrite N.add_mod by lia. rewrite E. reflexivity.
          - apply N.eqb_neq in E. pose proof (N.mod_upper_bound (actual_len ops) 2 ltac:(lia)) as Hm. clear - E Hm. lia. }
        split; [reflexivity|]. eexists; split; [reflexivity|]. rewrite Hb. cbn [unit_of].
        pose proof (N.div_mod (actual_len l') 2 ltac:(lia)). lia.
      * apply bind_ok in H1. destruct H1 as (a & Ha & H1). injection H1 as <- <- <-.
        apply advance_ok in Ha. destruct Ha as [-> _]. split; [reflexivity|]. right. eexists; split; [reflexivity|]. split; [reflexivity|].
        intros c2 out2 c2' cur2 out2' Hd H2. destruct (Hk _ cur _ _ _ _ _ Hd H2) as (bs & Hb & D & -> & ->).
        apply data_bytes_len in Hb. split; [exact D|]. rewrite Hb. split; [reflexivity|]. eexists; split; [reflexivity|].
        rewrite Hb. cbn [unit_of]. lia.
    + destruct t; try discriminate; apply bind_ok in H1; destruct H1 as (a & Ha & H1); injection H1 as <- <- <-;
        apply advance_ok in Ha; destruct Ha as [-> _]; (split; [reflexivity|]); right; (eexists; split; [reflexivity|]); (split; [reflexivity|]);
        intros c2 out2 c2' cur2 out2' Hd H2; destruct (Hk _ cur _ _ _ _ _ Hd H2) as (bs & Hb & D & -> & ->);
        apply data_bytes_len in Hb; (split; [exact D|]); rewrite Hb; cbn [unit_size unit_of]; change (2 / 2) with 1; change (4 / 2) with 2; change (8 / 2) with 4.
      * split; [lia|]. eexists; split; [reflexivity|]. rewrite Hb. cbn [unit_size]. lia.
      * split; [lia|]. eexists; split; [reflexivity|]. rewrite Hb. cbn [unit_size]. lia.
    + destruct t; try discriminate; apply bind_ok in H1; destruct H1 as (a & Ha & H1); injection H1 as <- <- <-;
        apply advance_ok in Ha; destruct Ha as [-> _]; (split; [reflexivity|]); right; (eexists; split; [reflexivity|]); (split; [reflexivity|]);
        intros c2 out2 c2' cur2 out2' Hd H2; destruct (Hk _ cur _ _ _ _ _ Hd H2) as (bs & Hb & D & -> & ->);
        apply data_bytes_len in Hb; (split; [exact D|]); rewrite Hb; cbn [unit_size unit_of]; change (2 / 2) with 1; change (4 / 2) with 2; change (8 / 2) with 4.
      * split; [lia|]. eexists; split; [reflexivity|]. rewrite Hb. cbn [unit_size]. lia.
      * split; [lia|]. eexists; split; [reflexivity|]. rewrite Hb. cbn [unit_size]. lia.
    + destruct t; try discriminate; apply bind_ok in H1; destruct H1 as (a & Ha & H1); injection H1 as <- <- <-;
        apply advance_ok in Ha; destruct Ha as [-> _]; (split; [reflexivity|]); right; (eexists; split; [reflexivity|]); (split; [reflexivity|]);
        intros c2 out2 c2' cur2 out2' Hd H2; destruct (Hk _ cur _ _ _ _ _ Hd H2) as (bs & Hb & D & -> & ->);
        apply data_bytes_len in Hb; (split; [exact D|]); rewrite Hb; cbn [unit_size unit_of]; change (2 / 2) with 1; change (4 / 2) with 2; change (8 / 2) with 4.
      * split; [lia|]. eexists; split; [reflexivity|]. rewrite Hb. cbn [unit_size]. lia.
      * split; [lia|]. eexists; split; [reflexivity|]. rewrite Hb. cbn [unit_size]. lia.
  - (* IDef *) injection H1 as <- <- <-. split; [reflexivity|]. right. eexists; split; [reflexivity|]. split; [reflexivity|].
    intros c2 out2 c2' cur2 out2' Hd H2. unfold pass2_item in H2.
    assert (G : dev c2' = dev c2 /\ cur2 = cur /\ out2' = out2).
    { destruct e; try (injection H2 as <- <- <-; auto).
      match type of H2 with context [reg_of_name ?s] => destruct (reg_of_name s) end; try discriminate.
      destruct (exist _ _); injection H2 as <- <- <-; auto. }
    destruct G as (D & -> & ->). split; [exact D|]. split; [reflexivity|]. exists []. split; [apply Hnil|]. cbn [length]. lia.
  - (* IUndef *) injection H1 as <- <- <-. split; [reflexivity|]. right. eexists; split; [reflexivity|]. split; [reflexivity|].
    intros c2 out2 c2' cur2 out2' Hd H2. unfold pass2_item in H2.
    destruct (lookup _ _); try discriminate. injection H2 as <- <- <-.
    split; [reflexivity|]. split; [reflexivity|]. exists []. split; [apply Hnil|]. cbn [length]. lia.
  - (* ISet *) injection H1 as <- <- <-. split; [reflexivity|]. right. eexists; split; [reflexivity|]. split; [reflexivity|].
    intros c2 out2 c2' cur2 out2' Hd H2. unfold pass2_item in H2.
    apply bind_ok in H2. destruct H2 as (v & _ & H2).
    assert (G : dev c2' = dev c2 /\ cur2 = cur /\ out2' = out2).
    { destruct (exist _ _); [destruct (lookup _ _); try discriminate|]; injection H2 as <- <- <-; auto. }
    destruct G as (D & -> & ->). split; [exact D|]. split; [reflexivity|]. exists []. split; [apply Hnil|]. cbn [length]. lia.
  - (* IPragma *) injection H1 as <- <- <-. split; [reflexivity|]. left. left. auto.
  - (* IInstr *)
    destruct t; try discriminate. apply bind_ok in H1. destruct H1 as (a & Ha & H1). injection H1 as <- <- <-.
    apply advance_ok in Ha. destruct Ha as [-> _]. split; [reflexivity|]. right. eexists; split; [reflexivity|]. split; [reflexivity|].
    intros c2 out2 c2' cur2 out2' Hd H2. unfold pass2_item in H2.
    destruct (check_instruction _ _ _); try discriminate.
    apply bind_ok in H2. destruct H2 as (bs & Hb & H2). apply with_line_ok in Hb.
    apply bind_ok in H2. destruct H2 as (a2 & Ha2 & H2). injection H2 as <- <- <-. apply add32_ok in Ha2. subst a2.
    pose proof (process_v_len _ _ _ _ _ Hb) as L. apply process_len in Hb. rewrite dev_set_pc, Hd in *.
    assert (E : N.of_nat (length bs) / 2 = fst (op_info (is_avr8l (dev c1)) op)) by (destruct op; try exact Hb; contradiction).
    clear Hb. rewrite <- E. split; [reflexivity|]. split; [reflexivity|]. eexists; split; [reflexivity|].
    cbn [unit_of]. rewrite L. destruct (two_words _ _); lia.
  - (* ILabel *)
    destruct (lookup lab (labels c1)); try discriminate. injection H1 as <- <- <-. split; [reflexivity|]. left. left. auto.
Qed.

(** ---- a whole segment ---- *)
Definition p1fold (t : segt) := fold_left (fun acc ci => do a <- acc; pass1_item t a ci).
Definition p2fold (fuel : nat) (t : segt) := fold_left (fun acc ci => do b <- acc; pass2_item fuel t b ci).

Lemma fold_bind_ok {S X} (f : S -> X -> res S) l r v :
  fold_left (fun acc x => do a <- acc; f a x) l r = Ok v -> exists a, r = Ok a.
Proof.
  revert r. induction l as [|x l IH]; intros r H; cbn [fold_left] in H; [eauto|].
  apply IH in H. destruct H as (a & H). destruct r; cbn [bind] in H; try discriminate. eauto.
Qed.

Lemma pass1_item_le t c cur out ci c' cur' out' :
  pass1_item t (c, cur, out) ci = Ok (c', cur', out') -> cur <= cur' /\ cur' < two32 \/ cur' = cur.
Proof.
  destruct ci as [cp it]. unfold pass1_item. intros H.
  destruct it as [z | k ops | a e | a | a e | ops | op args | lab]; cbn [fst] in H.
  all: try (destruct t; try discriminate).
  all: try (destruct k).
  all: repeat match type of H with
              | bind ?m _ = Ok _ => let Ha := fresh "Ha" in apply bind_ok in H; destruct H as (? & Ha & H); apply advance_ok in Ha; destruct Ha
              | (if ?x then _ else _) = Ok _ => destruct x; try discriminate
              | (match ?x with _ => _ end) = Ok _ => destruct x; try discriminate
              end.
  all: try discriminate.
  all: injection H as <- <- <-; lia.
Qed.

Theorem items_agree fuel t : t <> SData -> forall its c1 cur out1 c1' fin out1',
  Forall plain its ->
  p1fold t its (Ok (c1, cur, out1)) = Ok (c1', fin, out1') ->
  dev c1' = dev c1 /\ cur <= fin /\
  exists kept, out1' = (out1 ++ kept)%list /\
    forall c2 out2 c2' cur2 out2', dev c2 = dev c1 ->
      p2fold fuel t kept (Ok (c2, cur, out2)) = Ok (c2', cur2, out2') ->
      dev c2' = dev c2 /\ cur2 = fin /\
      exists bs, out2' = (out2 ++ bs)%list /\ N.of_nat (length bs) = unit_of t * (fin - cur).
Proof.
  intros Ht. induction its as [|ci its IH]; intros c1 cur out1 c1' fin out1' Hp H; unfold p1fold in H; cbn [fold_left] in H.
  - injection H as <- <- <-. split; [reflexivity|]. split; [lia|]. exists []. split; [now rewrite app_nil_r|].
    intros c2 out2 c2' cur2 out2' Hd H2. cbn in H2. injection H2 as <- <- <-.
    split; [reflexivity|]. split; [reflexivity|]. exists []. split; [now rewrite app_nil_r|]. cbn [length]. lia.
  - cbn [bind] in H. pose proof (fold_bind_ok _ _ _ _ H) as ([[ca cura] outa] & Ea). rewrite Ea in H.
    inversion Hp as [|? ? Hp1 Hp2]; subst.
    pose proof (pass1_item_le _ _ _ _ _ _ _ _ Ea) as Hle.
    destruct (item_agree fuel _ _ _ _ _ _ _ _ Ea Hp1) as (Hda & Hcase).
    destruct (IH _ _ _ _ _ _ Hp2 H) as (Hd' & Hle' & kept & -> & Hk).
    split; [congruence|]. split; [lia|].
    destruct Hcase as [[(-> & ->) | (_ & Hsd)] | (ci' & -> & _ & Hci)]; [| contradiction |].
    + exists kept. split; [reflexivity|]. intros c2 out2 c2' cur2 out2' Hd H2. eapply Hk; [congruence | exact H2].
    + exists (ci' :: kept). split; [now rewrite <- app_assoc|].
      intros c2 out2 c2' cur2 out2' Hd H2. unfold p2fold in H2. cbn [fold_left bind] in H2.
      pose proof (fold_bind_ok _ _ _ _ H2) as ([[cb curb] outb] & Eb). rewrite Eb in H2.
      destruct (Hci _ _ _ _ _ Hd Eb) as (Hdb & -> & bs1 & -> & L1).
      assert (Hx : dev cb = dev ca) by congruence.
      destruct (Hk _ _ _ _ _ Hx H2) as (Hd2 & -> & bs2 & -> & L2).
      split; [congruence|]. split; [reflexivity|]. exists (bs1 ++ bs2)%list. split; [now rewrite app_assoc|].
      rewrite app_length, Nat2N.inj_add, L1, L2. clear - Hle Hle'. destruct t; cbn [unit_of]; lia.
Qed.

(** ---- devices never change in pass 1 / pass 2 (no hypothesis on the items) ---- *)
Lemma pass1_item_dev t c cur out ci c' cur' out' :
  pass1_item t (c, cur, out) ci = Ok (c', cur', out') -> dev c' = dev c.
Proof.
  destruct ci as [cp it]. unfold pass1_item. intros H.
  destruct it as [z | k ops | a e | a | a e | ops | op args | lab]; cbn [fst] in H.
  all: try (destruct t; try discriminate).
  all: try (destruct k).
  all: repeat match type of H with
              | bind ?m _ = Ok _ => apply bind_ok in H; destruct H as (? & _ & H)
              | (if ?x then _ else _) = Ok _ => destruct x; try discriminate
              | (match ?x with _ => _ end) = Ok _ => destruct x; try discriminate
              end.
  all: try discriminate.
  all: injection H as <- <- <-; reflexivity.
Qed.

Lemma p1fold_dev t its c cur out c' cur' out' :
  p1fold t its (Ok (c, cur, out)) = Ok (c', cur', out') -> dev c' = dev c /\ (cur <= cur').
Proof.
  revert c cur out. induction its as [|ci its IH]; intros c cur out H; unfold p1fold in H; cbn [fold_left] in H.
  - injection H as <- <- <-. split; [reflexivity | lia].
  - cbn [bind] in H. pose proof (fold_bind_ok _ _ _ _ H) as ([[ca cura] outa] & Ea). rewrite Ea in H.
    apply IH in H. destruct H as (D & L). pose proof (pass1_item_dev _ _ _ _ _ _ _ _ Ea). pose proof (pass1_item_le _ _ _ _ _ _ _ _ Ea).
    split; [congruence | lia].
Qed.

Lemma pass2_item_dev fuel t c cur out ci c' cur' out' :
  pass2_item fuel t (c, cur, out) ci = Ok (c', cur', out') -> dev c' = dev c.
Proof.
  destruct ci as [cp it]. unfold pass2_item. intros H.
  destruct it as [z | k ops | a e | a | a e | ops | op args | lab]; cbn [fst] in H.
  all: repeat match type of H with
              | bind ?m _ = Ok _ => apply bind_ok in H; destruct H as (? & _ & H)
              | (if ?x then _ else _) = Ok _ => destruct x; try discriminate
              | (match ?x with _ => _ end) = Ok _ => destruct x; try discriminate
              end.
  all: try discriminate.
  all: injection H as <- <- <-; reflexivity.
Qed.

Lemma p2fold_dev fuel t its c cur out c' cur' out' :
  p2fold fuel t its (Ok (c, cur, out)) = Ok (c', cur', out') -> dev c' = dev c.
Proof.
  revert c cur out. induction its as [|ci its IH]; intros c cur out H; unfold p2fold in H; cbn [fold_left] in H.
  - injection H as <- <- <-. reflexivity.
  - cbn [bind] in H. pose proof (fold_bind_ok _ _ _ _ H) as ([[ca cura] outa] & Ea). rewrite Ea in H.
    apply IH in H. pose proof (pass2_item_dev _ _ _ _ _ _ _ _ _ Ea). congruence.
Qed.

(** ---- padding: the gap before a segment is filled with zeros up to exactly its address ---- *)
Lemma as_i32_small n : n < 2147483648 -> as_i32 n = Z.of_N n.
Proof.
  intros H. unfold as_i32. rewrite N.mod_small by (unfold two32; lia).
  destruct (Z.of_N n <? 2147483648)%Z eqn:E; [reflexivity|]. apply Z.ltb_ge in E. lia.
Qed.

Theorem pad_to_spec u img off addr : u = 1 \/ u = 2 ->
  N.of_nat (length img) = u * off -> off <= addr -> u * addr < 2147483648 ->
  pad_to u img addr = (img ++ repeat 0 (N.to_nat (u * (addr - off))))%list.
Proof.
  intros Hu Hl Hle Hb. unfold pad_to. f_equal. f_equal.
  rewrite !as_i32_small by (destruct Hu; subst u; lia). rewrite Hl.
  replace (Z.of_N (u * off) / Z.of_N u)%Z with (Z.of_N off).
  2: { rewrite N2Z.inj_mul, Z.mul_comm, Z.div_mul; [reflexivity | destruct Hu; subst u; lia]. }
  destruct Hu; subst u; lia.
Qed.

(** ---- whole passes, in lock step ---- *)
Definition p1state := (ctx * N * N * N * list segment)%type.
Definition p1step (acc : res p1state) (sg : segment) : res p1state :=
  do a <- acc;
  let '(c0, co, dofs, eo, out) := a in
  let off := match seg_t sg with SCode => co | SData => dofs | SEeprom => eo end in
  do x <- pass1_segment c0 sg off;
  let '(c1, fin, sg') := x in
  Ok (match seg_t sg with
      | SCode => (c1, fin, dofs, eo, (out ++ [sg'])%list)
      | SData => (c1, co, fin, eo, (out ++ [sg'])%list)
      | SEeprom => (c1, co, dofs, fin, (out ++ [sg'])%list)
      end).
Definition p2state := (ctx * list N * list N)%type.
Definition p2step (fuel : nat) (acc : res p2state) (sg : segment) : res p2state :=
  do a <- acc;
  let '(c0, code, eep) := a in
  let code1 := match seg_t sg with SCode => pad_to 2 code (address sg) | _ => code end in
  let eep1 := match seg_t sg with SEeprom => pad_to 1 eep (address sg) | _ => eep end in
  do x <- p2fold fuel (seg_t sg) (items sg) (Ok (c0, address sg, []));
  let '(c1, _, frag) := x in
  Ok (match seg_t sg with
      | SCode => (c1, (code1 ++ frag)%list, eep1)
      | SEeprom => (c1, code1, (eep1 ++ frag)%list)
      | SData => (c1, code1, eep1)
      end).

Lemma pass1_unfold c segments : pass1 c segments =
  (do r <- fold_left p1step segments (Ok (c, 0, ram_start (dev c), 0, []));
   let '(c', co, dofs, eo, out) := r in
   if flash_size (dev c) <? co then Err None
   else if eeprom_size (dev c) <? eo then Err None
   else if ram_size (dev c) <? dofs - ram_start (dev c) then Err None
   else Ok {| p1_segs := out; p1_ram := dofs - ram_start (dev c); p1_ctx := c' |}).
Proof. reflexivity. Qed.
Lemma pass2_unfold fuel c segments : pass2 fuel c segments =
  (do r <- fold_left (p2step fuel) segments (Ok (c, [], []));
   let '(c', code, eep) := r in Ok {| p2_code := code; p2_eeprom := eep; p2_ctx := c' |}).
Proof. reflexivity. Qed.

Definition plain_seg (sg : segment) : Prop := Forall plain (items sg).

(** one segment: pass 1 fixes [start] and [fin]; pass 2 pads the image with zeros up to [start]
    (in bytes: unit * start), then appends a fragment of exactly unit * (fin - start) bytes. *)
Theorem segment_lands fuel c0 sg off c1 fin sg' :
  pass1_segment c0 sg off = Ok (c1, fin, sg') -> plain_seg sg ->
  seg_t sg' = seg_t sg /\ dev c1 = dev c0 /\ off <= address sg' /\ address sg' <= fin /\
  (address sg = 0 \/ address sg' = address sg) /\
  (seg_t sg <> SData ->
   forall c2 c2' cur2 frag, dev c2 = dev c0 ->
     p2fold fuel (seg_t sg') (items sg') (Ok (c2, address sg', [])) = Ok (c2', cur2, frag) ->
     cur2 = fin /\ N.of_nat (length frag) = unit_of (seg_t sg) * (fin - address sg')).
Proof.
  unfold pass1_segment. intros H Hp.
  apply bind_ok in H. destruct H as (start & Hs & H).
  apply bind_ok in H. destruct H as ([[c' fin'] out] & Hf & H). injection H as <- <- <-. cbn [seg_t address items].
  assert (Hst : off <= start /\ (address sg = 0 \/ start = address sg)).
  { destruct (address sg =? 0) eqn:E0; [injection Hs as <-; apply N.eqb_eq in E0; split; [lia | auto]|].
    destruct (address sg <? off) eqn:E1; [discriminate|]. injection Hs as <-. apply N.ltb_ge in E1. split; [lia | auto]. }
  destruct Hst as (Hst1 & Hst2).
  pose proof (p1fold_dev _ _ _ _ _ _ _ _ Hf) as (D & L).
  split; [reflexivity|]. split; [exact D|]. split; [exact Hst1|]. split; [exact L|]. split; [exact Hst2|].
  intros Ht c2 c2' cur2 frag Hd H2.
  destruct (items_agree fuel _ Ht _ _ _ _ _ _ _ Hp Hf) as (_ & _ & kept & Hk & Hall). cbn [app] in Hk. subst out.
  destruct (Hall _ _ _ _ _ Hd H2) as (_ & -> & bs & Hb & Lb). cbn [app] in Hb. subst bs. auto.
Qed.

Definition lim31 : N := 2147483648.

(** the step of pass 2 on the segment pass 1 produced, from an image whose length agrees with pass 1's offset *)
Lemma step_agree fuel c0 co dofs eo out sg c1 co1 dofs1 eo1 out1 :
  plain_seg sg ->
  p1step (Ok (c0, co, dofs, eo, out)) sg = Ok (c1, co1, dofs1, eo1, out1) ->
  dev c1 = dev c0 /\ co <= co1 /\ eo <= eo1 /\
  exists sg', out1 = (out ++ [sg'])%list /\ seg_t sg' = seg_t sg /\ (address sg = 0 \/ address sg' = address sg) /\
  forall c2 code eep c2' code' eep', dev c2 = dev c0 ->
    N.of_nat (length code) = 2 * co -> N.of_nat (length eep) = eo -> 2 * co1 < lim31 -> eo1 < lim31 ->
    p2step fuel (Ok (c2, code, eep)) sg' = Ok (c2', code', eep') ->
    dev c2' = dev c2 /\ N.of_nat (length code') = 2 * co1 /\ N.of_nat (length eep') = eo1 /\
    exists c2a fin frag, p2fold fuel (seg_t sg') (items sg') (Ok (c2, address sg', [])) = Ok (c2a, fin, frag) /\
      match seg_t sg with
      | SCode => co <= address sg' /\ fin = co1 /\ eep' = eep /\
                 code' = (code ++ repeat 0 (N.to_nat (2 * (address sg' - co))) ++ frag)%list /\
                 N.of_nat (length frag) = 2 * (co1 - address sg')
      | SEeprom => eo <= address sg' /\ fin = eo1 /\ code' = code /\
                 eep' = (eep ++ repeat 0 (N.to_nat (address sg' - eo)) ++ frag)%list /\
                 N.of_nat (length frag) = eo1 - address sg'
      | SData => code' = code /\ eep' = eep
      end.
Proof.
  intros Hp H. unfold p1step in H. cbn [bind] in H.
  apply bind_ok in H. destruct H as ([[c1' fin] sg'] & Hs & H).
  destruct (segment_lands fuel _ _ _ _ _ _ Hs Hp) as (Ht & D & Hoff & Hfin & Haddr & Hland).
  assert (Hcases : dev c1 = dev c0 /\ out1 = (out ++ [sg'])%list /\
            match seg_t sg with
            | SCode => co1 = fin /\ dofs1 = dofs /\ eo1 = eo
            | SData => co1 = co /\ dofs1 = fin /\ eo1 = eo
            | SEeprom => co1 = co /\ dofs1 = dofs /\ eo1 = fin
            end).
  { destruct (seg_t sg); injection H as <- <- <- <- <-; auto. }
  clear H. destruct Hcases as (D1 & -> & Hc).
  split; [congruence|].
  split; [destruct (seg_t sg); destruct Hc as (-> & -> & ->); lia|].
  split; [destruct (seg_t sg); destruct Hc as (-> & -> & ->); lia|].
  exists sg'. split; [reflexivity|]. split; [exact Ht|]. split; [exact Haddr|].
  intros c2 code eep c2' code' eep' Hd Lc Le Bc Be H2.
  unfold p2step in H2. cbn [bind] in H2.
  apply bind_ok in H2. destruct H2 as ([[c2a fin2] frag] & Hf & H2).
  pose proof (p2fold_dev _ _ _ _ _ _ _ _ _ Hf) as D2.
  rewrite Ht in *.
  destruct (seg_t sg) eqn:Et; destruct Hc as (-> & -> & ->); injection H2 as <- <- <-.
  - destruct (Hland ltac:(discriminate) _ _ _ _ Hd Hf) as (-> & Lf). cbn [unit_of] in Lf.
    rewrite (pad_to_spec 2 code co (address sg')) by (auto; unfold lim31 in *; lia).
    split; [exact D2|]. split; [rewrite !app_length, repeat_length, !Nat2N.inj_add, Lc, Lf, N2Nat.id; lia|]. split; [exact Le|].
    exists c2a, fin, frag. split; [exact Hf|]. rewrite <- app_assoc. auto 10.
  - split; [exact D2|]. split; [exact Lc|]. split; [exact Le|]. exists c2a, fin2, frag. auto.
  - destruct (Hland ltac:(discriminate) _ _ _ _ Hd Hf) as (-> & Lf). cbn [unit_of] in Lf.
    rewrite (pad_to_spec 1 eep eo (address sg')) by (auto; unfold lim31 in *; lia).
    split; [exact D2|]. split; [exact Lc|].
    split; [rewrite !app_length, repeat_length, !Nat2N.inj_add, Le, Lf, N2Nat.id; lia|].
    exists c2a, fin, frag. split; [exact Hf|]. rewrite <- app_assoc.
    replace (1 * (address sg' - eo)) with (address sg' - eo) by lia. split; [exact Hoff|]. split; [reflexivity|]. split; [reflexivity|]. split; [reflexivity|]. lia.
Qed.

Lemma p1step_ok r sg v : p1step r sg = Ok v -> exists a, r = Ok a.
Proof. destruct r; cbn; intros H; try discriminate. eauto. Qed.
Lemma p2step_ok fuel r sg v : p2step fuel r sg = Ok v -> exists a, r = Ok a.
Proof. destruct r; cbn; intros H; try discriminate. eauto. Qed.
Lemma p1steps_ok l r v : fold_left p1step l r = Ok v -> exists a, r = Ok a.
Proof.
  revert r. induction l as [|x l IH]; intros r H; cbn [fold_left] in H; [eauto|].
  apply IH in H. destruct H as (a & H). eapply p1step_ok; eauto.
Qed.
Lemma p2steps_ok fuel l r v : fold_left (p2step fuel) l r = Ok v -> exists a, r = Ok a.
Proof.
  revert r. induction l as [|x l IH]; intros r H; cbn [fold_left] in H; [eauto|].
  apply IH in H. destruct H as (a & H). eapply p2step_ok; eauto.
Qed.

(** the invariant carried through both passes: |code image| = 2 * code offset, |eeprom image| = eeprom offset;
    pass 2 only ever appends to the images *)
Theorem passes_agree fuel : forall segs c0 co dofs eo out c' co' dofs' eo' out',
  Forall plain_seg segs ->
  fold_left p1step segs (Ok (c0, co, dofs, eo, out)) = Ok (c', co', dofs', eo', out') ->
  dev c' = dev c0 /\ co <= co' /\ eo <= eo' /\
  exists new, out' = (out ++ new)%list /\ length new = length segs /\
  forall c2 code eep c2' code' eep', dev c2 = dev c0 ->
    N.of_nat (length code) = 2 * co -> N.of_nat (length eep) = eo -> 2 * co' < lim31 -> eo' < lim31 ->
    fold_left (p2step fuel) new (Ok (c2, code, eep)) = Ok (c2', code', eep') ->
    dev c2' = dev c2 /\ N.of_nat (length code') = 2 * co' /\ N.of_nat (length eep') = eo' /\
    (exists x, code' = (code ++ x)%list) /\ (exists y, eep' = (eep ++ y)%list).
Proof.
  induction segs as [|sg segs IH]; intros c0 co dofs eo out c' co' dofs' eo' out' Hp H; cbn [fold_left] in H.
  - injection H as <- <- <- <- <-. split; [reflexivity|]. split; [lia|]. split; [lia|]. exists []. split; [now rewrite app_nil_r|]. split; [reflexivity|].
    intros c2 code eep c2' code' eep' Hd Lc Le _ _ H2. cbn in H2. injection H2 as <- <- <-.
    split; [reflexivity|]. split; [exact Lc|]. split; [exact Le|]. split; exists []; now rewrite app_nil_r.
  - pose proof (p1steps_ok _ _ _ H) as ([[[[c1 co1] dofs1] eo1] out1] & E1). rewrite E1 in H.
    inversion Hp as [|? ? Hp1 Hp2]; subst.
    destruct (step_agree fuel _ _ _ _ _ _ _ _ _ _ _ Hp1 E1) as (D1 & Lco & Leo & sg' & -> & _ & _ & Hstep).
    destruct (IH _ _ _ _ _ _ _ _ _ _ Hp2 H) as (D' & Lco' & Leo' & new & -> & Hlen & Hrest).
    split; [congruence|]. split; [lia|]. split; [lia|]. exists (sg' :: new). split; [now rewrite <- app_assoc|]. split; [cbn [length]; congruence|].
    intros c2 code eep c2' code' eep' Hd Lc Le Bc Be H2. cbn [fold_left] in H2.
    pose proof (p2steps_ok _ _ _ _ H2) as ([[c2a codea] eepa] & E2). rewrite E2 in H2.
    destruct (Hstep _ _ _ _ _ _ Hd Lc Le ltac:(lia) ltac:(lia) E2) as (D2 & Lca & Lea & c2b & fin & frag & _ & Hshape).
    assert (Hx : dev c2a = dev c1) by congruence.
    destruct (Hrest _ _ _ _ _ _ Hx Lca Lea Bc Be H2) as (D3 & Lc' & Le' & (x & ->) & (y & ->)).
    split; [congruence|]. split; [exact Lc'|]. split; [exact Le'|].
    destruct (seg_t sg).
    + destruct Hshape as (_ & _ & -> & -> & _). split; [eexists; rewrite <- !app_assoc; reflexivity | eauto].
    + destruct Hshape as (-> & ->). eauto.
    + destruct Hshape as (_ & _ & -> & -> & _). split; [eauto | eexists; rewrite <- !app_assoc; reflexivity].
Qed.

(** ---- pass 2 never touches the labels (nor .equ / #define tables): every reference reads what pass 1 left ---- *)
Lemma pass2_item_labels fuel t c cur out ci c' cur' out' :
  pass2_item fuel t (c, cur, out) ci = Ok (c', cur', out') -> labels c' = labels c /\ equs c' = equs c /\ defines c' = defines c.
Proof.
  destruct ci as [cp it]. unfold pass2_item. intros H.
  destruct it as [z | k ops | a e | a | a e | ops | op args | lab]; cbn [fst] in H.
  all: repeat match type of H with
              | bind ?m _ = Ok _ => apply bind_ok in H; destruct H as (? & _ & H)
              | (if ?x then _ else _) = Ok _ => destruct x; try discriminate
              | (match ?x with _ => _ end) = Ok _ => destruct x; try discriminate
              end.
  all: try discriminate.
  all: injection H as <- <- <-; repeat split; reflexivity.
Qed.
Lemma p2fold_labels fuel t its c cur out c' cur' out' :
  p2fold fuel t its (Ok (c, cur, out)) = Ok (c', cur', out') -> labels c' = labels c /\ equs c' = equs c /\ defines c' = defines c.
Proof.
  revert c cur out. induction its as [|ci its IH]; intros c cur out H; unfold p2fold in H; cbn [fold_left] in H.
  - injection H as <- <- <-. repeat split; reflexivity.
  - cbn [bind] in H. pose proof (fold_bind_ok _ _ _ _ H) as ([[ca cura] outa] & Ea). rewrite Ea in H.
    apply IH in H. pose proof (pass2_item_labels _ _ _ _ _ _ _ _ _ Ea) as (A & B & D). destruct H as (A' & B' & D').
    repeat split; congruence.
Qed.
Definition p2ctx (s : p2state) : ctx := let '(c, _, _) := s in c.
Lemma p2steps_labels fuel l : forall s s', fold_left (p2step fuel) l (Ok s) = Ok s' ->
  labels (p2ctx s') = labels (p2ctx s) /\ equs (p2ctx s') = equs (p2ctx s) /\ defines (p2ctx s') = defines (p2ctx s).
Proof.
  induction l as [|sg l IH]; intros s s' H; cbn [fold_left] in H.
  - injection H as <-. repeat split; reflexivity.
  - pose proof (p2steps_ok _ _ _ _ H) as (s1 & E1). rewrite E1 in H. apply IH in H.
    destruct s as [[c0 code] eep]. unfold p2step in E1. cbn [bind] in E1. apply bind_ok in E1.
    destruct E1 as ([[c1 fin] frag] & Hf & E1). apply p2fold_labels in Hf.
    assert (p2ctx s1 = c1) by (destruct (seg_t sg); injection E1 as <-; reflexivity).
    cbn [p2ctx]. destruct H as (A & B & D). destruct Hf as (A' & B' & D'). repeat split; congruence.
Qed.

(** ---- the layout theorem: every code / eeprom segment of the program lands at its address ---- *)
Theorem layout fuel c segs r1 r2 :
  pass1 c segs = Ok r1 -> pass2 fuel (p1_ctx r1) (p1_segs r1) = Ok r2 -> Forall plain_seg segs ->
  2 * flash_size (dev c) < lim31 -> eeprom_size (dev c) < lim31 ->
  N.of_nat (length (p2_code r2)) <= 2 * flash_size (dev c) /\ N.of_nat (length (p2_eeprom r2)) <= eeprom_size (dev c) /\
  forall pre sg post, segs = (pre ++ sg :: post)%list -> seg_t sg <> SData ->
  exists sg' fin c2 c2' frag before after,
    nth_error (p1_segs r1) (length pre) = Some sg' /\ seg_t sg' = seg_t sg /\ (address sg = 0 \/ address sg' = address sg) /\
    p2fold fuel (seg_t sg') (items sg') (Ok (c2, address sg', [])) = Ok (c2', fin, frag) /\
    (match seg_t sg with SCode => p2_code r2 | _ => p2_eeprom r2 end) = (before ++ frag ++ after)%list /\
    N.of_nat (length before) = unit_of (seg_t sg) * address sg' /\
    N.of_nat (length frag) = unit_of (seg_t sg) * (fin - address sg') /\
    (labels c2 = labels (p1_ctx r1) /\ equs c2 = equs (p1_ctx r1) /\ defines c2 = defines (p1_ctx r1)) /\ dev c2 = dev c.
Proof.
  intros H1 H2 Hp Bf Be. rewrite pass1_unfold in H1. rewrite pass2_unfold in H2.
  apply bind_ok in H1. destruct H1 as ([[[[c' co'] dofs'] eo'] out'] & F1 & H1).
  destruct (flash_size (dev c) <? co') eqn:C1; [discriminate|]. destruct (eeprom_size (dev c) <? eo') eqn:C2; [discriminate|].
  destruct (ram_size (dev c) <? dofs' - ram_start (dev c)) eqn:C3; [discriminate|]. injection H1 as <-. cbn [p1_segs p1_ctx] in *.
  apply N.ltb_ge in C1. apply N.ltb_ge in C2.
  apply bind_ok in H2. destruct H2 as ([[c2f codef] eepf] & F2 & H2). injection H2 as <-. cbn [p2_code p2_eeprom].
  destruct (passes_agree fuel _ _ _ _ _ _ _ _ _ _ _ Hp F1) as (D & _ & _ & new & Hnew & _ & Hall). cbn [app] in Hnew. subst out'.
  assert (Dc : dev c' = dev c) by exact D.
  assert (B1 : 2 * co' < lim31) by lia. assert (B2 : eo' < lim31) by lia.
  destruct (Hall c' [] [] _ _ _ Dc eq_refl eq_refl B1 B2 F2) as (_ & Lc & Le & _ & _).
  split; [lia|]. split; [lia|].
  intros pre sg post -> Ht.
  rewrite fold_left_app in F1. cbn [fold_left] in F1.
  pose proof (p1steps_ok _ _ _ F1) as ([[[[cb cob] dofsb] eob] outb] & Eb). rewrite Eb in F1.
  pose proof (p1step_ok _ _ _ Eb) as ([[[[ca coa] dofsa] eoa] outa] & Ea). rewrite Ea in Eb.
  apply Forall_app in Hp. destruct Hp as (Hp1 & Hp2). inversion Hp2 as [|? ? Hps Hp3]; subst.
  destruct (passes_agree fuel _ _ _ _ _ _ _ _ _ _ _ Hp1 Ea) as (Da & _ & _ & npre & Hna & Lpre & Hpre). cbn [app] in Hna. subst outa.
  destruct (step_agree fuel _ _ _ _ _ _ _ _ _ _ _ Hps Eb) as (Db & Lcob & Leob & sg' & -> & Hst & Haddr & Hstep).
  destruct (passes_agree fuel _ _ _ _ _ _ _ _ _ _ _ Hp3 F1) as (Dz & Lcoz & Leoz & npost & Hnz & _ & Hpost).
  rewrite <- app_assoc in Hnz. cbn [app] in Hnz. subst new.
  rewrite fold_left_app in F2. cbn [fold_left] in F2.
  pose proof (p2steps_ok _ _ _ _ F2) as ([[c2b codeb] eepb] & E2b). rewrite E2b in F2.
  pose proof (p2step_ok _ _ _ _ E2b) as ([[c2a codea] eepa] & E2a). rewrite E2a in E2b.
  assert (B3 : 2 * coa < lim31) by lia. assert (B4 : eoa < lim31) by lia.
  assert (B5 : 2 * cob < lim31) by lia. assert (B6 : eob < lim31) by lia.
  destruct (Hpre c' [] [] _ _ _ Dc eq_refl eq_refl B3 B4 E2a) as (D2a & Lca & Lea & _ & _).
  assert (Dx : dev c2a = dev ca) by congruence.
  destruct (Hstep _ _ _ _ _ _ Dx Lca Lea B5 B6 E2b) as (D2b & Lcb & Leb & c2x & fin & frag & Hf & Hshape).
  assert (Dy : dev c2b = dev cb) by congruence.
  destruct (Hpost _ _ _ _ _ _ Dy Lcb Leb B1 B2 F2) as (_ & _ & _ & (x & Hx) & (y & Hy)).
  assert (Hctx : (labels c2a = labels c' /\ equs c2a = equs c' /\ defines c2a = defines c') /\ dev c2a = dev c).
  { split; [exact (p2steps_labels fuel _ _ _ E2a) | congruence]. }
  exists sg', fin, c2a, c2x, frag.
  assert (Hnth : nth_error (npre ++ sg' :: npost) (length pre) = Some sg').
  { rewrite nth_error_app2 by lia. rewrite Lpre, Nat.sub_diag. reflexivity. }
  destruct (seg_t sg) eqn:Et; [| contradiction |].
  - destruct Hshape as (Hle & -> & -> & -> & Lf).
    exists (codea ++ repeat 0 (N.to_nat (2 * (address sg' - coa))))%list, x.
    split; [exact Hnth|]. split; [exact Hst|]. split; [exact Haddr|]. split; [exact Hf|].
    split; [rewrite Hx, <- !app_assoc; reflexivity|].
    split; [rewrite app_length, repeat_length, Nat2N.inj_add, Lca, N2Nat.id; cbn [unit_of]; lia |]. split; [exact Lf | exact Hctx].
  - destruct Hshape as (Hle & -> & -> & -> & Lf).
    exists (eepa ++ repeat 0 (N.to_nat (address sg' - eoa)))%list, y.
    split; [exact Hnth|]. split; [exact Hst|]. split; [exact Haddr|]. split; [exact Hf|].
    split; [rewrite Hy, <- !app_assoc; reflexivity|].
    split; [rewrite app_length, repeat_length, Nat2N.inj_add, Lea, N2Nat.id; cbn [unit_of]; lia |]. split; [cbn [unit_of]; lia | exact Hctx].
Qed.

(** ---- labels: the value of a label is the position of what follows it ---- *)
Lemma p1fold_app t l1 l2 r : p1fold t (l1 ++ l2) r = p1fold t l2 (p1fold t l1 r).
Proof. unfold p1fold. apply fold_left_app. Qed.

Theorem label_position fuel t : t <> SData -> forall ipre cp name ipost c cur0 out0 c' fin out',
  Forall plain (ipre ++ (cp, ILabel name) :: ipost) ->
  p1fold t (ipre ++ (cp, ILabel name) :: ipost) (Ok (c, cur0, out0)) = Ok (c', fin, out') ->
  exists a kpre kpost, out' = (out0 ++ kpre ++ kpost)%list /\ lookup name (labels c') = Some (t, a) /\ cur0 <= a /\ a <= fin /\
    forall c2 c2' cur2 out2 out2', dev c2 = dev c ->
      p2fold fuel t kpre (Ok (c2, cur0, out2)) = Ok (c2', cur2, out2') ->
      cur2 = a /\ exists bs, out2' = (out2 ++ bs)%list /\ N.of_nat (length bs) = unit_of t * (a - cur0).
Proof.
  intros Ht ipre cp name ipost c cur0 out0 c' fin out' Hp H.
  rewrite p1fold_app in H.
  assert (Ea : exists sa, p1fold t ipre (Ok (c, cur0, out0)) = Ok sa) by (unfold p1fold in H |- *; eapply fold_bind_ok; exact H).
  destruct Ea as ([[ca a] outa] & Ea). rewrite Ea in H. unfold p1fold in H. cbn [fold_left bind] in H.
  pose proof (fold_bind_ok _ _ _ _ H) as ([[cb curb] outb] & Eb). rewrite Eb in H.
  apply Forall_app in Hp. destruct Hp as (Hp1 & Hp2). inversion Hp2 as [|? ? _ Hp3]; subst.
  destruct (items_agree fuel _ Ht _ _ _ _ _ _ _ Hp1 Ea) as (Da & La & kpre & -> & Hpre).
  destruct (label_defined _ _ _ _ _ _ _ _ _ Eb) as (Hl & ->).
  assert (outb = (out0 ++ kpre)%list).
  { unfold pass1_item in Eb. cbn [fst] in Eb. destruct (lookup name (labels ca)); [discriminate|]. injection Eb as _ <-. reflexivity. }
  subst outb.
  destruct (items_agree fuel _ Ht _ _ _ _ _ _ _ Hp3 H) as (_ & Lb & kpost & -> & _).
  exists a, kpre, kpost. split; [now rewrite app_assoc|].
  split; [eapply (labels_persist t ipost (cb, a, (out0 ++ kpre)%list) (c', fin, ((out0 ++ kpre) ++ kpost)%list)); [exact H | exact Hl]|].
  split; [exact La|]. split; [exact Lb|].
  intros c2 c2' cur2 out2 out2' Hd H2. destruct (Hpre _ _ _ _ _ Hd H2) as (_ & -> & bs & -> & L). eauto.
Qed.

(** data segment: nothing is emitted; a label is the start plus the bytes reserved before it *)
Definition reserved (its : list ((N * N) * item)) : N :=
  fold_right (fun ci acc => match snd ci with IReserve n => Z.to_N n + acc | _ => acc end) 0 its.

Theorem data_positions : forall its c cur out c' fin out',
  p1fold SData its (Ok (c, cur, out)) = Ok (c', fin, out') -> fin = cur + reserved its.
Proof.
  induction its as [|ci its IH]; intros c cur out c' fin out' H; unfold p1fold in H; cbn [fold_left] in H.
  - injection H as <- <- <-. cbn. lia.
  - cbn [bind] in H. pose proof (fold_bind_ok _ _ _ _ H) as ([[ca cura] outa] & Ea). rewrite Ea in H.
    apply IH in H. subst fin. cbn [reserved fold_right]. fold (reserved its).
    destruct ci as [cp it]. unfold pass1_item in Ea. cbn [snd].
    destruct it as [z | k ops | a e | a | a e | ops | op args | lab]; cbn [fst] in Ea; try (destruct k); try discriminate.
    + destruct (z <? 0)%Z; [discriminate|]. apply bind_ok in Ea. destruct Ea as (x & Hx & Ea). apply advance_ok in Hx. destruct Hx as (-> & _).
      injection Ea as <- <- <-. lia.
    + injection Ea as <- <- <-. lia.
    + injection Ea as <- <- <-. lia.
    + injection Ea as <- <- <-. lia.
    + injection Ea as <- <- <-. lia.
    + destruct (lookup lab (labels c)); [discriminate|]. injection Ea as <- <- <-. lia.
Qed.

Theorem data_label ipre cp name ipost c cur0 out0 c' fin out' :
  p1fold SData (ipre ++ (cp, ILabel name) :: ipost) (Ok (c, cur0, out0)) = Ok (c', fin, out') ->
  lookup name (labels c') = Some (SData, cur0 + reserved ipre) /\ fin = cur0 + reserved ipre + reserved ipost.
Proof.
  intros H.
  rewrite p1fold_app in H.
  assert (Ea : exists sa, p1fold SData ipre (Ok (c, cur0, out0)) = Ok sa) by (unfold p1fold in H |- *; eapply fold_bind_ok; exact H).
  destruct Ea as ([[ca a] outa] & Ea). rewrite Ea in H. unfold p1fold in H. cbn [fold_left bind] in H.
  pose proof (fold_bind_ok _ _ _ _ H) as ([[cb curb] outb] & Eb). rewrite Eb in H.
  pose proof (data_positions _ _ _ _ _ _ _ Ea) as ->.
  destruct (label_defined _ _ _ _ _ _ _ _ _ Eb) as (Hl & ->).
  pose proof (data_positions _ _ _ _ _ _ _ H) as ->.
  split; [|reflexivity].
  eapply (labels_persist SData ipost (cb, cur0 + reserved ipre, outb) (c', _, out')); [exact H | exact Hl].
Qed.

(** ---- labels survive the rest of pass 1 ---- *)
Definition p1ctx (s : p1state) : ctx := let '(c, _, _, _, _) := s in c.
Lemma p1step_labels s sg s' n v : p1step (Ok s) sg = Ok s' ->
  lookup n (labels (p1ctx s)) = Some v -> lookup n (labels (p1ctx s')) = Some v.
Proof.
  destruct s as [[[[c0 co] dofs] eo] out]. unfold p1step. cbn [bind p1ctx]. intros H Hl.
  apply bind_ok in H. destruct H as ([[c1 fin] sg'] & Hs & H).
  assert (p1ctx s' = c1) by (destruct (seg_t sg); injection H as <-; reflexivity). subst c1. clear H.
  unfold pass1_segment in Hs. apply bind_ok in Hs. destruct Hs as (start & _ & Hs).
  apply bind_ok in Hs. destruct Hs as ([[c' fin'] out'] & Hf & Hs). injection Hs as <- _ _.
  eapply (labels_persist (seg_t sg) (items sg) (c0, start, []) (c', fin', out')); [exact Hf | exact Hl].
Qed.
Lemma p1steps_labels l : forall s s' n v, fold_left p1step l (Ok s) = Ok s' ->
  lookup n (labels (p1ctx s)) = Some v -> lookup n (labels (p1ctx s')) = Some v.
Proof.
  induction l as [|sg l IH]; intros s s' n v H Hl; cbn [fold_left] in H.
  - injection H as <-. exact Hl.
  - pose proof (p1steps_ok _ _ _ H) as (s1 & E1). rewrite E1 in H. eapply IH; [exact H|]. eapply p1step_labels; eauto.
Qed.

Theorem label_lands fuel c segs r1 :
  pass1 c segs = Ok r1 -> Forall plain_seg segs ->
  forall pre sg post ipre cp name ipost, segs = (pre ++ sg :: post)%list -> items sg = (ipre ++ (cp, ILabel name) :: ipost)%list ->
  exists sg', nth_error (p1_segs r1) (length pre) = Some sg' /\ (address sg = 0 \/ address sg' = address sg) /\
    match seg_t sg with
    | SData => lookup name (labels (p1_ctx r1)) = Some (SData, address sg' + reserved ipre)
    | t => exists a kpre kpost, items sg' = (kpre ++ kpost)%list /\ lookup name (labels (p1_ctx r1)) = Some (t, a) /\ address sg' <= a /\
             forall c2 c2' cur2 bs, dev c2 = dev c ->
               p2fold fuel t kpre (Ok (c2, address sg', [])) = Ok (c2', cur2, bs) ->
               cur2 = a /\ N.of_nat (length bs) = unit_of t * (a - address sg')
    end.
Proof.
  intros H1 Hp pre sg post ipre cp name ipost -> Hit. rewrite pass1_unfold in H1.
  apply bind_ok in H1. destruct H1 as ([[[[c' co'] dofs'] eo'] out'] & F1 & H1).
  destruct (flash_size (dev c) <? co'); [discriminate|]. destruct (eeprom_size (dev c) <? eo'); [discriminate|].
  destruct (ram_size (dev c) <? dofs' - ram_start (dev c)); [discriminate|]. injection H1 as <-. cbn [p1_segs p1_ctx].
  rewrite fold_left_app in F1. cbn [fold_left] in F1.
  pose proof (p1steps_ok _ _ _ F1) as ([[[[cb cob] dofsb] eob] outb] & Eb). rewrite Eb in F1.
  pose proof (p1step_ok _ _ _ Eb) as ([[[[ca coa] dofsa] eoa] outa] & Ea). rewrite Ea in Eb.
  apply Forall_app in Hp. destruct Hp as (Hp1 & Hp2). inversion Hp2 as [|? ? Hps Hp3]; subst.
  destruct (passes_agree fuel _ _ _ _ _ _ _ _ _ _ _ Hp1 Ea) as (Da & _ & _ & npre & Hna & Lpre & _). cbn [app] in Hna. subst outa.
  destruct (passes_agree fuel _ _ _ _ _ _ _ _ _ _ _ Hp3 F1) as (_ & _ & _ & npost & Hnz & _ & _).
  pose proof (fun v => p1steps_labels _ _ _ name v F1) as Hpersist. cbn [p1ctx] in Hpersist.
  unfold p1step in Eb. cbn [bind] in Eb. apply bind_ok in Eb. destruct Eb as ([[c1 fin] sg'] & Hs & Eb).
  assert (Hout : outb = (npre ++ [sg'])%list /\ cb = c1) by (destruct (seg_t sg); injection Eb as <- _ _ _ <-; auto).
  destruct Hout as (-> & ->). clear Eb.
  exists sg'. split; [subst out'; rewrite <- app_assoc, nth_error_app2 by lia; rewrite Lpre, Nat.sub_diag; reflexivity|].
  unfold pass1_segment in Hs. apply bind_ok in Hs. destruct Hs as (start & Hst & Hs).
  apply bind_ok in Hs. destruct Hs as ([[cf fin'] outf] & Hf & Hs). injection Hs as <- <- <-. cbn [address items].
  split.
  { destruct (address sg =? 0) eqn:E0; [apply N.eqb_eq in E0; auto|]. destruct (address sg <? _); [discriminate|]. injection Hst as <-. auto. }
  rewrite Hit in Hf. unfold plain_seg in Hps. rewrite Hit in Hps. fold (p1fold (seg_t sg)) in Hf.
  destruct (seg_t sg) eqn:Et.
  - destruct (label_position fuel SCode ltac:(discriminate) _ _ _ _ _ _ _ _ _ _ Hps Hf) as (a & kpre & kpost & -> & Hl & La & _ & Hk).
    exists a, kpre, kpost. split; [reflexivity|]. split; [apply Hpersist; exact Hl|]. split; [exact La|].
    intros c2 c2' cur2 bs Hd H2. assert (Hd' : dev c2 = dev ca) by congruence.
    destruct (Hk _ _ _ _ _ Hd' H2) as (-> & bs' & Hb & L). cbn [app] in Hb. subst bs'. auto.
  - destruct (data_label _ _ _ _ _ _ _ _ _ _ Hf) as (Hl & _). apply Hpersist. exact Hl.
  - destruct (label_position fuel SEeprom ltac:(discriminate) _ _ _ _ _ _ _ _ _ _ Hps Hf) as (a & kpre & kpost & -> & Hl & La & _ & Hk).
    exists a, kpre, kpost. split; [reflexivity|]. split; [apply Hpersist; exact Hl|]. split; [exact La|].
    intros c2 c2' cur2 bs Hd H2. assert (Hd' : dev c2 = dev ca) by congruence.
    destruct (Hk _ _ _ _ _ Hd' H2) as (-> & bs' & Hb & L). cbn [app] in Hb. subst bs'. auto.
Qed.
