"""C04 - operands the ISA cannot encode are rejected, never mis-encoded."""
import re
from . import encgen, encrun, progcheck as P, progrun

PROP = "C04"

# register positions reached through a .def alias (and in any letter case) must be checked exactly like the register itself
ALIAS_FORMS = ["ldi {R}, 1", "subi {R}, 1", "sbci {R}, 1", "andi {R}, 1", "ori {R}, 1", "sbr {R}, 1", "cbr {R}, 1", "cpi {R}, 1", "ser {R}",
               "muls {R}, r16", "muls r16, {R}", "mulsu {R}, r16", "mulsu r16, {R}", "fmul {R}, r16", "fmul r16, {R}", "fmuls {R}, r17",
               "fmulsu r17, {R}", "movw {R}, r0", "movw r0, {R}", "adiw {R}, 1", "sbiw {R}, 1", "mov {R}, r1", "add r1, {R}", "push {R}",
               "in {R}, 1", "out 1, {R}", "ld {R}, X", "st Y+, {R}", "ldd {R}, Z+1", "lds {R}, 0x60", "sts 0x60, {R}", "sbrc {R}, 1", "lpm {R}, Z",
               ".device ATtiny20\n lds {R}, 0x60", ".device ATtiny20\n sts 0x60, {R}"]


def rebound_alias_cases():
    """def, .undef (written in another letter case), def to a register of ANOTHER class, use: the verdict is that of the register
    the alias is bound to NOW"""
    out = []
    for f in ALIAS_FORMS:
        if "\n" in f:
            continue
        for old, new in ((20, 4), (4, 20), (24, 25), (25, 24), (16, 15), (0, 31), (17, 1), (30, 29)):
            plain = " %s\n" % f.replace("{R}", "r%d" % new)
            for a1, a2, a3 in (("tmp", "Tmp", "tmp"), ("Tmp", "TMP", "tmp"), ("T", "t", "T")):
                aliased = ".def %s = r%d\n.undef %s\n.def %s = r%d\n %s\n" % (a1, old, a2, a1, new, f.replace("{R}", a3))
                out.append((plain, aliased))
    return out


def alias_cases():
    out = []
    for n in range(32):
        for f in ALIAS_FORMS:
            pre, _, line = f.rpartition("\n")
            pre = pre + "\n" if pre else ""
            plain = "%s %s\n" % (pre, line.replace("{R}", "r%d" % n))
            for alias, ref in (("tmp", "tmp"), ("Tmp", "TMP")):
                aliased = "%s.def %s = r%d\n %s\n" % (pre, alias, n, line.replace("{R}", ref))
                out.append((plain, aliased))
    return out


def run(res):
    cs = encgen.windows("F") + encgen.windows("R") + encgen.confusions("F", 2) + encgen.confusions("R", 2)
    if res.tier != "quick":
        cs += encgen.confusions("F", 3) + encgen.legal("F")
    from . import gen
    rows = encrun.standard_run(
        res, PROP, lambda vh: cs + encgen.per_device(gen.read_devices(vh), res.tier != "quick"), keep=lambda r: True, what="out-of-range/operand-confusion",
        rule=("every mnemonic x every register 0..31 in each register position x values from well below to well above each field "
              "(incl. negatives, 2^15..2^63) x every index form, on both cores (vlib/encgen.py windows()); every mnemonic x every "
              "operand list of length 0..2 (thorough: 3) over {low reg, high reg, value, X, Y+, -Z, Y+q, Z} (confusions()); under EVERY device "
              "row: every mnemonic and the operands one device figure (flash words/bytes, RAM start/end, EEPROM size) beyond each range "
              "end (per_device()); oracle: "
              "Spec/Isa.expect_at = NONE -> must be an error; = words -> must be exactly those bytes; distinct = distinct case text"),
        exhaustive_note="bounded-exhaustive over the windows and the operand-kind dictionary stated in the rule",
        assume=["register operands written through a .def alias: compared with the same statement on the register itself (alias_cases)",
                "Props/C04.v proves soundness of acceptance on a finite, kernel-swept operand window plus unbounded range lemmas for "
                "the value guards; acceptance of values beyond the window is covered by this run's wider windows only"])


    # aliases: same verdict and same bytes as the register written directly
    from . import common as C
    vh = C.build_harness("debug")
    exe = C.build_model()
    pairs = alias_cases() + rebound_alias_cases()
    obs = P.correspond(res, vh, exe, [p[0] for p in pairs] + [p[1] for p in pairs], "register-alias statements")
    for plain, aliased in pairs:
        a, b = progrun.parse_obs(obs[plain][0]), progrun.parse_obs(obs[aliased][0])
        if (a["kind"], a.get("code")) != (b["kind"], b.get("code")):
            P.fail(res, "builder::build_str", aliased, "as with the register written directly: " + obs[plain][0][:60], obs[aliased][0][:60], "alias-differs", extra=dict(plain=plain))


    # in a program: a statement the ISA cannot encode fails the build wherever it stands - first, last, between good statements,
    # followed by other segments (.dseg / .eseg / another .org), inside a macro - not only when it is the last thing assembled
    import random
    from . import c01
    rng = random.Random(res.seed + 4)
    illegal = [r[0] for r in rows if r[3] == "NONE" and r[0].startswith("F ") and r[2] == "ERR"
               and not (r[0].split(" ")[2].startswith("br") or r[0].split(" ")[2] in ("rjmp", "rcall"))]      # (those depend on the address)
    rng.shuffle(illegal)
    # (the pointer and displacement forms pass through the operand grammar first: all of them, not a sample)
    pointer = [c for c in illegal if "+q" in c or ",X" in c or ",-" in c or " X" in c.split(" ", 3)[3] or " -" in c]
    pointer = [c for c in pointer if c.split(" ")[3].count(",") <= 1][:1500 if res.tier == "quick" else 100000]
    progs = []
    c01.SPELL[0] = rng
    for cse in pointer + illegal[:600 if res.tier == "quick" else 60000] + [c for c in illegal if re.search(r"e-?\d{3,}", c)][:900 if res.tier == "quick" else 60000]:
        bad = c01.to_source(cse)
        shape = rng.randrange(6)
        tail = [[".dseg", "v: .byte 1"], [".eseg", " .db 1"], [".org 0x100", " nop"], [".dseg", ".byte 2", ".cseg", " nop", ".eseg", " .db 3"], [" nop", " ret"], []][shape]
        head = rng.choice([[], [" nop"], [".dseg", ".byte 1", ".cseg"], ["l: nop", " rjmp l"]])
        if rng.random() < 0.15:
            progs.append("\n".join([".macro bad", bad, ".endm"] + head + [" bad"] + tail) + "\n")
        else:
            progs.append("\n".join(head + [bad] + tail) + "\n")
    obs2 = P.correspond(res, vh, exe, progs, "programs with one unencodable statement among good segments")
    for t in progs:
        if not obs2[t][0].startswith("ERR"):
            P.fail(res, "builder::build_str", t, "a failed build: one statement cannot be encoded", obs2[t][0][:80], "illegal-accepted-in-program")


def match_known(f, entry):
    return entry.get("class") is not None and f.get("cls") == entry.get("class")


def replay(path):
    import json
    i = json.load(open(path)).get("input") or {}
    if "plain" in i:
        def judge(vh, exe, inp):
            (_, a, _), (_, b, _) = progrun.run_texts(vh, exe, [inp["plain"], inp["source"]])
            pa, pb = progrun.parse_obs(a), progrun.parse_obs(b)
            return None if (pa["kind"], pa.get("code")) == (pb["kind"], pb.get("code")) else (a, b)
        return P.replay_text(PROP, path, judge)
    return encrun.replay(PROP, path)
