"""Enumerations of the instruction-level interface (instruction::process) shared by C01, C03, C04, C13.
A case is the text line understood by harness/src/enc.rs and ocaml/driver.ml:
    <F|R> <pc> <mnemonic> <operands or ->
"""
import random

RR = ["add", "adc", "sub", "sbc", "and", "or", "eor", "cpse", "cp", "cpc", "mov", "mul"]
IMM = ["subi", "sbci", "andi", "ori", "sbr", "cbr", "cpi", "ldi"]
ONE = ["com", "neg", "inc", "dec", "push", "pop", "lsr", "ror", "asr", "swap", "tst", "clr", "lsl", "rol", "ser"]
NOARG = ["ijmp", "eijmp", "icall", "eicall", "ret", "reti", "spm", "break", "nop", "sleep", "wdr", "lpm", "elpm"]
BR = ["eq", "ne", "cs", "cc", "sh", "lo", "mi", "pl", "ge", "lt", "hs", "hc", "ts", "tc", "vs", "vc", "ie", "id"]
FLAGS = "cznvshti"
IDX = ["X", "X+", "-X", "Y", "Y+", "-Y", "Z", "Z+", "-Z"]
ALL = (RR + IMM + ONE + NOARG + ["adiw", "sbiw", "muls", "mulsu", "fmul", "fmuls", "fmulsu", "movw", "rjmp", "rcall", "jmp", "call",
                                 "brbs", "brbc", "lds", "sts", "ld", "st", "ldd", "std", "in", "out", "sbrc", "sbrs", "bst", "bld",
                                 "sbi", "cbi", "sbis", "sbic", "bset", "bclr"]
       + ["br" + b for b in BR] + ["se" + f for f in FLAGS] + ["cl" + f for f in FLAGS])


def legal(core="F"):
    """every operand tuple the ISA allows (the quantifier of C01), one-word forms completely"""
    out = []
    a = out.append
    for op in RR:
        for d in range(32):
            for r in range(32):
                a("%s 0 %s r%d,r%d" % (core, op, d, r))
    for op in IMM:
        for d in range(16, 32):
            for k in range(-128, 256):
                a("%s 0 %s r%d,e%d" % (core, op, d, k))
    for op in ("adiw", "sbiw"):
        for d in (24, 26, 28, 30):
            for k in range(64):
                a("%s 0 %s r%d,e%d" % (core, op, d, k))
    for op in ONE:
        for d in range(16 if op == "ser" else 0, 32):
            a("%s 0 %s r%d" % (core, op, d))
    for d in range(16, 32):
        for r in range(16, 32):
            a("%s 0 muls r%d,r%d" % (core, d, r))
    for op in ("mulsu", "fmul", "fmuls", "fmulsu"):
        for d in range(16, 24):
            for r in range(16, 24):
                a("%s 0 %s r%d,r%d" % (core, op, d, r))
    for d in range(0, 32, 2):
        for r in range(0, 32, 2):
            a("%s 0 movw r%d,r%d" % (core, d, r))
    for op in NOARG:
        a("%s 0 %s -" % (core, op))
    for f in FLAGS:
        a("%s 0 se%s -" % (core, f))
        a("%s 0 cl%s -" % (core, f))
    for op in ("lpm", "elpm"):
        for d in range(32):
            a("%s 0 %s r%d,Z" % (core, op, d))
            a("%s 0 %s r%d,Z+" % (core, op, d))
    for s in range(8):
        a("%s 0 bset e%d" % (core, s))
        a("%s 0 bclr e%d" % (core, s))
    for op in ("sbrc", "sbrs", "bst", "bld"):
        for d in range(32):
            for b in range(8):
                a("%s 0 %s r%d,e%d" % (core, op, d, b))
    for op in ("sbi", "cbi", "sbis", "sbic"):
        for p in range(32):
            for b in range(8):
                a("%s 0 %s e%d,e%d" % (core, op, p, b))
    for d in range(32):
        for p in range(64):
            a("%s 0 in r%d,e%d" % (core, d, p))
            a("%s 0 out e%d,r%d" % (core, p, d))
    for d in range(32):
        for i in IDX:
            a("%s 0 ld r%d,%s" % (core, d, i))
            a("%s 0 st %s,r%d" % (core, i, d))
        for y in "YZ":
            a("%s 0 ldd r%d,%s" % (core, d, y))
            a("%s 0 std %s,r%d" % (core, y, d))
            for q in range(64):
                a("%s 0 ldd r%d,%s+q%d" % (core, d, y, q))
                a("%s 0 std %s+q%d,r%d" % (core, y, q, d))
                if q % 9 == 0:
                    a("%s 0 ld r%d,%s+q%d" % (core, d, y, q))
                    a("%s 0 st %s+q%d,r%d" % (core, y, q, d))
    return out


def relative(core="F"):
    """C03: every condition and rjmp/rcall at every distance across both range limits, several pcs"""
    out = []
    pcs = [0, 1, 63, 64, 100, 2047, 2048, 5000, 65535, 4194303, 4294967295]
    for pc in pcs:
        for b in BR:
            for rel in list(range(-70, 71)):
                t = pc + 1 + rel
                out.append("%s %d br%s e%d" % (core, pc, b, t))
        for op in ("brbs", "brbc"):
            for s in range(8):
                for rel in list(range(-66, 67)):
                    out.append("%s %d %s e%d,e%d" % (core, pc, op, s, pc + 1 + rel))
    for pc in pcs:
        for op in ("rjmp", "rcall"):
            for rel in list(range(-2055, 2056)):
                out.append("%s %d %s e%d" % (core, pc, op, pc + 1 + rel))
    big = [2 ** 31, 2 ** 32, 2 ** 62, 2 ** 63 - 1, -2 ** 63, -2 ** 63 + 1, -2 ** 31, 65536 + 3, -65536 + 3, 128, -128, 4096, -4096]
    for pc in (0, 100, 4294967295):
        for op in ["rjmp", "rcall", "breq", "brid"]:
            for t in big:
                out.append("%s %d %s e%d" % (core, pc, op, t))
        for t in big:
            out.append("%s %d brbs e3,e%d" % (core, pc, t))
    return out


def addresses(core, rng, n_random):
    """two-word forms: jmp/call over all 64 high parts x boundary low parts, lds/sts over all registers"""
    out = []
    lows = [0, 1, 255, 256, 32767, 32768, 65534, 65535]
    for op in ("jmp", "call"):
        for hi in range(64):
            for lo in lows:
                out.append("%s 0 %s e%d" % (core, op, hi * 65536 + lo))
        for k in [rng.randrange(0, 4194304) for _ in range(n_random)]:
            out.append("%s 0 %s e%d" % (core, op, k))
    if core == "F":
        ks = sorted(set(lows + [64, 95, 96, 191, 192, 4095, 4096] + [rng.randrange(0, 65536) for _ in range(n_random // 8)]))
        for d in range(32):
            for k in ks:
                out.append("F 0 lds r%d,e%d" % (d, k))
                out.append("F 0 sts e%d,r%d" % (k, d))
    else:
        for d in range(16, 32):
            for k in range(64, 192):
                out.append("R 0 lds r%d,e%d" % (d, k))
                out.append("R 0 sts e%d,r%d" % (k, d))
    return out


def windows(core="F"):
    """C04: every register in each register position, values well beyond both ends of each field"""
    out = []
    a = out.append
    ext = [2 ** 15, 2 ** 16, 2 ** 31, 2 ** 32, 2 ** 63 - 1, -2 ** 63, -2 ** 31, -2 ** 15, -129, -200, -256, -255, 256, 257, 511, 512]
    for op in IMM:
        for d in range(32):
            for k in list(range(-140, -120)) + list(range(-3, 4)) + list(range(250, 262)) + ext:
                a("%s 0 %s r%d,e%d" % (core, op, d, k))
    for op in ("adiw", "sbiw"):
        for d in range(32):
            for k in list(range(-70, 140)) + list(range(190, 330)) + ext:
                a("%s 0 %s r%d,e%d" % (core, op, d, k))
    for d in range(32):
        a("%s 0 ser r%d" % (core, d))
        for r in range(32):
            for op in ("muls", "mulsu", "fmul", "fmuls", "fmulsu", "movw"):
                a("%s 0 %s r%d,r%d" % (core, op, d, r))
    for op in ("lpm", "elpm"):
        for d in range(32):
            for i in IDX + ["Z+q0", "Y+q1", "X+q0", "e1", "r1"]:
                a("%s 0 %s r%d,%s" % (core, op, d, i))
    for s in list(range(-12, 20)) + ext:
        a("%s 0 bset e%d" % (core, s))
        a("%s 0 bclr e%d" % (core, s))
        a("%s 0 brbs e%d,e1" % (core, s))
        a("%s 0 brbc e%d,e1" % (core, s))
        for op in ("sbrc", "sbrs", "bst", "bld"):
            for d in (0, 5, 31):
                a("%s 0 %s r%d,e%d" % (core, op, d, s))
    for op in ("sbi", "cbi", "sbis", "sbic"):
        for p in list(range(-40, 80)) + list(range(120, 140)) + list(range(220, 300)) + ext:
            for b in (-1, 0, 7, 8):
                a("%s 0 %s e%d,e%d" % (core, op, p, b))
        for b in list(range(-12, 20)) + ext:
            for p in (0, 31):
                a("%s 0 %s e%d,e%d" % (core, op, p, b))
    for p in list(range(-70, 140)) + list(range(180, 330)) + ext:
        for d in (0, 17, 31):
            a("%s 0 in r%d,e%d" % (core, d, p))
            a("%s 0 out e%d,r%d" % (core, p, d))
    for q in list(range(-70, 140)) + list(range(180, 330)) + ext:
        for d in (0, 17, 31):
            for y in "XYZ":
                a("%s 0 ldd r%d,%s+q%d" % (core, d, y, q))
                a("%s 0 std %s+q%d,r%d" % (core, y, q, d))
                a("%s 0 ld r%d,%s+q%d" % (core, d, y, q))
                a("%s 0 st %s+q%d,r%d" % (core, y, q, d))
    # relative operands: far targets, and targets a multiple of 2^16 / 2^32 away from a legal one (truncation before the range check)
    for base in (0, 1, 63, 64, -64, -65, 2047, 2048, -2048, -2049):
        for wrap in (0, 65536, -65536, 131072, 2 ** 32, -2 ** 32, 2 ** 31, 2 ** 15, -2 ** 15, 4096, -4096, 128, -128, 256):
            for pc in (0, 5):
                t = pc + 1 + base + wrap
                for op in ("breq", "brne", "brid", "rjmp", "rcall"):
                    a("%s %d %s e%d" % (core, pc, op, t))
                a("%s %d brbs e2,e%d" % (core, pc, t))
                a("%s %d brbc e7,e%d" % (core, pc, t))
    for k in list(range(-20, 20)) + list(range(4194290, 4194320)) + ext:
        a("%s 0 jmp e%d" % (core, k))
        a("%s 0 call e%d" % (core, k))
    if core == "F":
        for k in list(range(-20, 20)) + list(range(65520, 65560)) + ext:
            for d in (0, 16, 31):
                a("F 0 lds r%d,e%d" % (d, k))
                a("F 0 sts e%d,r%d" % (k, d))
    else:
        for k in list(range(-20, 300)) + ext:
            for d in range(32):
                a("R 0 lds r%d,e%d" % (d, k))
                a("R 0 sts e%d,r%d" % (k, d))
    return out


def per_device(devs, thorough=False):
    """the same interface under EVERY device row (D:<name>): the instruction encoder may depend on the selected device only
    through the reduced-core flag (C13_same_code), so each device gets every mnemonic once plus the operands at which a
    device figure (flash words, RAM start/end, EEPROM size) could be mistaken for a limit of the instruction: relative
    targets at both range ends and one flash size away, absolute addresses around the flash size, lds/sts addresses around
    the RAM window, ports and immediates at their ends.  devs = rows of gen.read_devices (first row = default device)."""
    out = []
    for name, flash, ram_start, ram_size, eeprom, opts in devs[1:]:
        c = "D:" + name
        a = out.append
        ram_end = ram_start + ram_size
        red = "Avr8l" in opts
        # one of everything
        a("%s 0 add r1,r2" % c); a("%s 0 ldi r16,e255" % c); a("%s 0 ldi r31,e-128" % c); a("%s 0 com r7" % c)
        a("%s 0 adiw r24,e63" % c); a("%s 0 adiw r24,e64" % c); a("%s 0 movw r2,r4" % c); a("%s 0 mul r1,r2" % c)
        a("%s 0 in r1,e63" % c); a("%s 0 in r1,e64" % c); a("%s 0 out e63,r1" % c); a("%s 0 out e64,r1" % c)
        a("%s 0 sbi e31,e7" % c); a("%s 0 sbi e32,e7" % c); a("%s 0 cbi e31,e8" % c); a("%s 0 bset e7" % c); a("%s 0 bset e8" % c)
        a("%s 0 sbrc r1,e7" % c); a("%s 0 bld r1,e8" % c); a("%s 0 push r1" % c); a("%s 0 pop r31" % c)
        for op in NOARG:
            a("%s 0 %s -" % (c, op))
        for i in IDX:
            a("%s 0 ld r3,%s" % (c, i)); a("%s 0 st %s,r3" % (c, i))
        for q in (0, 1, 63, 64):
            for y in "YZ":
                a("%s 0 ldd r3,%s+q%d" % (c, y, q)); a("%s 0 std %s+q%d,r3" % (c, y, q))
        a("%s 0 lpm r3,Z" % c); a("%s 0 lpm r3,Z+" % c); a("%s 0 elpm r3,Z" % c); a("%s 0 elpm r3,Z+" % c)
        # relative: both ends of the field, and one flash size (in words and in bytes) beyond - at several addresses
        wraps = sorted(set([0, flash, -flash, 2 * flash, -2 * flash, flash // 2, -(flash // 2), 4096, -4096, 8192, -8192, 128, -128]))
        pcs = sorted(set([0, 1, 2047, 2048, max(flash - 1, 0), max(flash // 2, 0), max(flash - 2049, 0)]))
        for pc in pcs:
            for op, lim in (("rjmp", 2048), ("rcall", 2048), ("breq", 64), ("brcc", 64)):
                for rel in (-lim - 1, -lim, -lim + 1, -1, 0, 1, lim - 2, lim - 1, lim, lim + 1):
                    for w in (wraps if op[0] == "r" or thorough else (0, 128, -128, flash, -flash)):
                        a("%s %d %s e%d" % (c, pc, op, pc + 1 + rel + w))
            a("%s %d brbs e3,e%d" % (c, pc, pc + 1 + 63)); a("%s %d brbs e3,e%d" % (c, pc, pc + 1 + 64))
            a("%s %d brbc e0,e%d" % (c, pc, pc + 1 - 64)); a("%s %d brbc e0,e%d" % (c, pc, pc + 1 - 65))
            # targets inside the flash that are out of reach, and targets outside the flash that are in reach
            for t in (0, flash - 1, flash, flash + 1, 2 * flash - 1, 2 * flash):
                a("%s %d rjmp e%d" % (c, pc, t)); a("%s %d rcall e%d" % (c, pc, t)); a("%s %d brne e%d" % (c, pc, t))
        # absolute: around the flash size in words and bytes, both ends of the 22-bit field
        for k in sorted(set([0, 1, flash - 1, flash, flash + 1, 2 * flash - 1, 2 * flash, 2 * flash + 1, 65535, 65536, 4194303, 4194304, -1])):
            a("%s 0 jmp e%d" % (c, k)); a("%s 0 call e%d" % (c, k))
        # data space: around the register file, the I/O window, RAM start and end, EEPROM size, the 16-bit end; reduced core 0x40..0xbf
        ks = [-1, 0, 31, 32, 63, 64, 95, 96, 191, 192, 255, 256, ram_start - 1, ram_start, ram_start + 1, ram_end - 2, ram_end - 1, ram_end,
              ram_end + 1, ram_size - 1, ram_size, ram_size + 1, eeprom - 1, eeprom, eeprom + 1, 2 * ram_end, 32767, 32768, 65534, 65535, 65536]
        for k in sorted(set(k for k in ks if -2 < k < 2 ** 17)):
            for d in ((16, 31) if red else (0, 16, 31)):
                a("%s 0 lds r%d,e%d" % (c, d, k)); a("%s 0 sts e%d,r%d" % (c, k, d))
        if red:
            for d in (0, 15):
                a("%s 0 lds r%d,e100" % (c, d)); a("%s 0 sts e100,r%d" % (c, d))
    return list(dict.fromkeys(out))


KINDS = ["r5", "r20", "e3", "X", "Y+", "-Z", "Y+q1", "Z"]


def confusions(core="F", depth=3):
    """operand-kind and operand-count confusions: every mnemonic x 0..depth operands from KINDS"""
    out = []
    tuples = [[]]
    level = [[]]
    for _ in range(depth):
        level = [t + [k] for t in level for k in KINDS]
        tuples += level
    for op in ALL:
        for t in tuples:
            out.append("%s 0 %s %s" % (core, op, ",".join(t) if t else "-"))
    return out


def tag(line):
    """coarse class of a case, for the measured distribution in the evidence"""
    f = line.split(" ")
    n = 0 if f[3] == "-" else f[3].count(",") + 1
    return "%s/%d-operand" % ("D" if f[0].startswith("D:") else f[0], n)
