"""C18 - the command-line tool writes what the library built, or fails visibly.
The binary built from the working tree is run (HOME redirected) in scratch directories: sources {valid, failing, empty,
with / without EEPROM data} x all combinations of -o / -e / -v x {writable, missing directory, path is a directory}.
Oracle: exit status 0 iff the build succeeded and every needed file could be written; exactly the expected files appear
(at <dir>/<stem>.hex / .eep.hex or the given paths), nothing else is created or altered; each file is byte-identical
to Model/Hex.write of the image the LIBRARY produces for that source and decodes (Spec/HexReader) to exactly that image."""
import itertools
import os
import shutil
import subprocess

from . import common as C, progcheck as P, progrun

PROP = "C18"

SOURCES = {
    "valid-code": "  ldi r16, 1\n  rjmp 0\n",
    "valid-code-eeprom": "  nop\n.eseg\n  .db 1, 2, 3\n.cseg\n  ret\n",
    "eeprom-only": ".eseg\n .dw 0x1234\n",
    "empty": "",
    "comment-only": "; nothing\n",
    "failing-syntax": "  nop\n  this is not assembly\n",
    "failing-range": "  ldi r16, 300\n",
    "failing-error-directive": "  nop\n.error \"stop\"\n",
    "failing-after-eeprom": ".eseg\n .db 1\n.cseg\n  undefined_macro\n",
    "messages": ".message \"hello\"\n  nop\n",
    "with-include": ".include \"part.inc\"\n  ret\n",
    "code-all-zero": "  nop\n  nop\n",
    "eeprom-all-zero": "  ret\n.eseg\n  .db 0, 0, 0\n",
    "eeprom-reserved-only": ".eseg\n  .byte 5\n",
    "both-all-zero": "  nop\n.eseg\n  .dw 0\n",
    "eeprom-all-ff": "  ret\n.eseg\n  .db 255, 255\n",
}
# files that stand next to the NAMED source, and the text the library is asked about instead (the include pasted)
BESIDE = {"with-include": {"part.inc": "  ldi r17, 2\n"}}
FLAT = {"with-include": "  ldi r17, 2\n  ret\n"}


def build_bin():
    home = os.path.join(C.BUILD, "home")
    os.makedirs(home, exist_ok=True)
    real = os.path.expanduser("~")
    env = dict(C.ENV, HOME=home, RUSTUP_HOME=os.environ.get("RUSTUP_HOME", os.path.join(real, ".rustup")),
               CARGO_HOME=os.environ.get("CARGO_HOME", os.path.join(real, ".cargo")))
    with C.Lock("cargo"):
        rc, out = C.run(["cargo", "build", "--offline", "--quiet", "--bin", "avra-rs", "--target-dir", os.path.join(C.BUILD, "target-repo")],
                        cwd=C.REPO, timeout=1500, env=env)
        if rc != 0:
            raise RuntimeError("cargo build of the binary failed\n" + out[-3000:])
    return os.path.join(C.BUILD, "target-repo", "debug", "avra-rs"), env


def snapshot(root):
    out = {}
    for d, _, files in os.walk(root):
        for f in files:
            p = os.path.join(d, f)
            out[os.path.relpath(p, root)] = open(p, "rb").read()
    return out


def run(res):
    vh, exe = P.base(res, PROP)
    binary, env = build_bin()
    lib = {k: progrun.parse_obs(r[1]) for k, r in zip(SOURCES, progrun.run_texts(vh, exe, [FLAT.get(k, v) for k, v in SOURCES.items()]))}
    work = os.path.join(C.BUILD, "work", "c18-%d" % os.getpid())
    shutil.rmtree(work, ignore_errors=True)
    cases = []
    n = 0
    for (sname, text), use_o, use_e, use_v, loc in itertools.product(SOURCES.items(), (False, True), (False, True), (False, True),
                                                                     ("writable", "missing-dir", "is-a-directory", "overwrite", "write-fails", "o-bad-e-good", "o-good-e-bad")):
        if loc in ("missing-dir", "is-a-directory", "write-fails") and not (use_o or use_e):
            continue
        if loc in ("o-bad-e-good", "o-good-e-bad") and not (use_o and use_e):
            continue
        if loc == "write-fails" and not os.path.exists("/dev/full"):
            continue
        n += 1
        d = os.path.join(work, "case%d" % n)
        os.makedirs(os.path.join(d, "src"))
        os.makedirs(os.path.join(d, "out"))
        # the default output names are derived from the source name: vary it (several dots, no extension, hidden file, blanks)
        stem, ext = [("prog.v1", ".asm"), ("prog", ".asm"), ("a.b.c", ".s"), ("noext", ""), (".hidden", ".asm"), ("with space", ".asm"),
                     ("UPPER.Case", ".ASM"), ("prog.asm", ".asm")][n % 8]
        src = os.path.join(d, "src", stem + ext)
        # how the source is named: absolute path, path relative to the working directory, or a symbolic link (the outputs and the
        # included files belong next to the NAME that was given, wherever the link points)
        how = ["absolute", "relative", "symlink", "absolute", "symlink-relative"][n % 5]
        if how.startswith("symlink"):
            os.makedirs(os.path.join(d, "real"))
            open(os.path.join(d, "real", "target_name.asm"), "w").write(text)
            os.symlink(os.path.join("..", "real", "target_name.asm") if n % 2 else os.path.join(d, "real", "target_name.asm"), src)
        else:
            open(src, "w").write(text)
        for fn, content in BESIDE.get(sname, {}).items():
            open(os.path.join(d, "src", fn), "w").write(content)
        open(os.path.join(d, "src", "bystander.hex"), "w").write("keep me\n")
        args = ["-s", src if how in ("absolute", "symlink") else os.path.relpath(src, d)]
        target = {"writable": "out/%s", "missing-dir": "nodir/%s", "is-a-directory": "out/%s", "overwrite": "out/%s", "write-fails": "out/%s", "o-bad-e-good": "out/%s", "o-good-e-bad": "out/%s"}[loc]
        paths = {"code": os.path.join(d, "src", stem + ".hex"), "eeprom": os.path.join(d, "src", stem + ".eep.hex")}
        # output names as given: absolute, or relative to the WORKING directory (not to the source); plain, with blanks, with
        # non-ASCII characters, and with bytes that are no valid UTF-8 (file names are byte strings)
        oname, ename = [("flash.hex", "ee.hex"), ("fl ash.hex", "e e.hex"), ("pr\u00fcfung.hex", "\u20ac.hex"), (b"pr\xfcf.hex", b"\xff\xfe.hex"), ("flash", "ee"),
                        ("FLASH.HEX", "flash.hex.eep")][(n // 5) % 6]
        rel_out = (n % 3 == 1)

        def given(nm):
            if loc == "write-fails":
                return "/dev/full", "/dev/full"
            full = os.path.join(os.fsencode(d), os.fsencode(target % "X").replace(b"X", nm if isinstance(nm, bytes) else os.fsencode(nm)))
            arg = os.path.relpath(full, os.fsencode(d)) if rel_out else full
            return full.decode("utf-8", "surrogateescape"), arg
        if use_o:
            paths["code"], a = given(oname)
            if loc == "o-bad-e-good":
                paths["code"] = a = os.path.join(d, "nodir", "flash.hex")
            args += ["-o", a]
        if use_e:
            paths["eeprom"], a = given(ename)
            if loc == "o-good-e-bad":
                paths["eeprom"] = a = os.path.join(d, "nodir", "ee.hex")
            args += ["-e", a]
        if loc == "is-a-directory":
            for k, u in (("code", use_o), ("eeprom", use_e)):
                if u:
                    os.makedirs(paths[k])
        if loc == "overwrite":
            # the outputs exist already and are LONGER than what will be written (an earlier, bigger build)
            for k in ("code", "eeprom"):
                open(paths[k], "w").write(":020000020000FC\r\n" + ":10000000" + "AB" * 16 + "00\r\n" * 1 + ":1000100000112233445566778899AABBCCDDEEFF00\r\n" * 40 + ":00000001FF\r\n")
        if use_v:
            args.append("-v")
        before = snapshot(d)
        p = subprocess.run([binary] + args, cwd=d, env=env, stdout=subprocess.PIPE, stderr=subprocess.STDOUT, text=True, timeout=60)
        after = snapshot(d)
        cases.append(dict(source=sname, args=[(a.decode("utf-8", "backslashreplace") if isinstance(a, bytes) else a).encode("utf-8", "backslashreplace").decode().replace(d, "<dir>") for a in args],
                          location=loc + "/" + how + ("/relative-output" if rel_out else ""), exit=p.returncode, stdout=p.stdout[-400:],
                          created={k: v for k, v in after.items() if k not in before or (loc == "overwrite" and after[k] != before[k])},
                          changed=[k for k in before if after.get(k) != before[k] and not (loc == "overwrite" and k in (os.path.relpath(paths["code"], d), os.path.relpath(paths["eeprom"], d)))],
                          paths={k: os.path.relpath(v, d) for k, v in paths.items()}, redirected=dict(code=use_o, eeprom=use_e), dir=d))
    # judge
    hexdir = os.path.join(work, "hexcmp")
    os.makedirs(hexdir)
    hexjobs = []
    for c in cases:
        l = lib[c["source"]]
        ok_build = l["kind"] == "OK"
        want = {}
        unwritable = False
        if ok_build:
            for k in ("code", "eeprom"):
                img = bytes.fromhex(l[k])
                if img:
                    l0 = c["location"].split("/")[0]
                    if (l0 in ("missing-dir", "is-a-directory", "write-fails") and c["redirected"][k]) or (l0 == "o-bad-e-good" and k == "code") or \
                            (l0 == "o-good-e-bad" and k == "eeprom"):
                        unwritable = True
                    else:
                        want[c["paths"][k]] = img
        should_fail = (not ok_build) or unwritable
        desc = "%s %s [%s]" % (c["source"], " ".join(c["args"][2:]), c["location"])
        if should_fail and c["exit"] == 0:
            P.fail(res, "avra-rs binary", desc, "a non-zero exit status (%s)" % ("build fails" if not ok_build else "output cannot be written"),
                   "exit 0; stdout: " + c["stdout"][-160:], "exit-status")
        if not should_fail and c["exit"] != 0:
            P.fail(res, "avra-rs binary", desc, "exit status 0", "exit %d; stdout: %s" % (c["exit"], c["stdout"][-160:]), "exit-status")
        if c["changed"]:
            P.fail(res, "avra-rs binary", desc, "no existing file altered", "altered: %s" % c["changed"], "altered")
        if not ok_build and c["created"]:
            P.fail(res, "avra-rs binary", desc, "no output file when the build fails", "created: %s" % sorted(c["created"]), "file-on-failure")
        if ok_build and set(c["created"]) != set(want):
            P.fail(res, "avra-rs binary", desc, "files %s" % sorted(want), "files %s" % sorted(c["created"]), "file-set")
        for rel, img in want.items():
            if rel in c["created"]:
                i = len(hexjobs)
                open(os.path.join(hexdir, "%d.bin" % i), "wb").write(img)
                open(os.path.join(hexdir, "%d.hex" % i), "wb").write(c["created"][rel])
                hexjobs.append((desc, rel))
        res.count(desc, nontrivial=True)
    if hexjobs:
        out = C.model(exe, ["hex", hexdir, str(len(hexjobs))]).splitlines()
        for (desc, rel), ln in zip(hexjobs, out):
            f = ln.split()
            if f[1] != "ok" or f[2] != "ok":
                P.fail(res, "avra-rs binary", desc, "%s = Hex.write(image the library builds), decoding to exactly that image" % rel,
                       "model-equal=%s reader-accepts=%s" % (f[1], f[2]), "file-content")
    random_programs(res, vh, exe, binary, env, work)
    shutil.rmtree(work, ignore_errors=True)
    res.oblige("every output file of the binary = Model/Hex.write of the library's image and satisfies HexReader.holds_C07 (%d files)" % len(hexjobs), True, "")
    res.extra.setdefault("distribution", {}).update(cases=len(cases), files_compared=len(hexjobs),
                                                    exits={str(k): sum(1 for c in cases if c["exit"] == k) for k in set(c["exit"] for c in cases)})
    res.extra["exhaustive"] = True
    res.rule = ("%d sources (valid with/without EEPROM data, EEPROM only, empty, comment only, four kinds of failing, with messages) x "
                "all 8 combinations of -o/-e/-v x {writable, output in a missing directory, output path is a directory, output already there and "
                "longer, output that opens but cannot be written (/dev/full)}; the source is "
                "named prog.v1.asm so that the stem rule shows; a bystander file must stay untouched" % len(SOURCES))
    res.samples = [dict(case="%s %s" % (c["source"], c["args"][2:]), exit=c["exit"], created=sorted(c["created"])) for c in cases[:3]]
    res.assume = ["OS failures enter the model through the oracle can_create; signals, disk-full, races are not modelled",
                  "the binary is built from /repo with HOME redirected to build/home (build.rs copies includes/ there)"]


def random_programs(res, vh, exe, binary, env, work):
    """the tool = the library, on general programs (devices, messages, macros, conditionals, data in all memories): exit status,
    the files (through the reader) and - with -v - the printed messages in order followed by the report of usage and capacity"""
    import random
    import re
    from . import proggen
    rng = random.Random(res.seed + 18)
    texts = []
    for _ in range(40 if res.tier == "quick" else 2000):
        texts.append(proggen.text_of(proggen.program(rng, size=rng.choice([4, 10, 20]), faults=rng.random() < 0.2)))
    texts = list(dict.fromkeys(texts))
    lib = [progrun.parse_obs(r[1]) for r in progrun.run_texts(vh, exe, texts)]
    hexdir = os.path.join(work, "hexcmp2")
    os.makedirs(hexdir)
    jobs = []
    for n, (text, l) in enumerate(zip(texts, lib)):
        d = os.path.join(work, "rnd%d" % n)
        os.makedirs(d)
        src = os.path.join(d, "p.asm")
        open(src, "w", newline="").write(text)
        p = subprocess.run([binary, "-s", src, "-v"], cwd=d, env=env, stdout=subprocess.PIPE, stderr=subprocess.STDOUT, text=True, timeout=60)
        res.count(("random", text), nontrivial=True)
        desc = "random program, -v"
        if l["kind"] not in ("OK", "ERR"):
            continue
        if (l["kind"] == "OK") != (p.returncode == 0):
            P.fail(res, "avra-rs binary", text, "exit status %s (the library: %s)" % ("0" if l["kind"] == "OK" else "non-zero", l["kind"]),
                   "exit %d; %s" % (p.returncode, p.stdout[-120:]), "random-exit")
            continue
        if l["kind"] != "OK":
            if [f for f in os.listdir(d) if f != "p.asm"]:
                P.fail(res, "avra-rs binary", text, "no output file when the build fails", str(os.listdir(d)), "random-file-on-failure")
            continue
        lines = [ln for ln in p.stdout.splitlines() if not ln.startswith("Nothing to write")]
        want = list(l["msgs"]) + ["Flash: %d(%d) words(bytes) of %d(%d)" % (len(l["code"]) // 4, len(l["code"]) // 2, l["flash"], 2 * l["flash"]),
                                  "EEPROM: %d bytes of %d" % (len(l["eeprom"]) // 2, l["eesize"]), "RAM: %d bytes of %d" % (l["fill"], l["ram"])]
        got = [re.sub(r", [0-9.a-zA-Z]+%$", "", ln) for ln in lines]
        if got != want:
            P.fail(res, "avra-rs binary -v", text, "printed: %s" % want, "printed: %s" % got, "random-report")
        for k, fn in (("code", "p.hex"), ("eeprom", "p.eep.hex")):
            img = bytes.fromhex(l[k])
            if bool(img) != os.path.exists(os.path.join(d, fn)):
                P.fail(res, "avra-rs binary", text, "%s %s" % (fn, "written" if img else "not written"), "the opposite", "random-file-set")
            elif img:
                i = len(jobs)
                open(os.path.join(hexdir, "%d.bin" % i), "wb").write(img)
                shutil.copy(os.path.join(d, fn), os.path.join(hexdir, "%d.hex" % i))
                jobs.append((text, fn))
    if jobs:
        for (text, fn), ln in zip(jobs, C.model(exe, ["hex", hexdir, str(len(jobs))]).splitlines()):
            f = ln.split()
            if f[1] != "ok" or f[2] != "ok":
                P.fail(res, "avra-rs binary", text, "%s = Hex.write(image the library builds)" % fn, "model-equal=%s reader-accepts=%s" % (f[1], f[2]), "random-file-content")
    res.extra.setdefault("distribution", {})["random_programs"] = len(texts)


match_known = P.match_known


def replay(path):
    return P.replay_by_rerun(PROP, path)
