"""C16 - no input makes the assembler panic, overflow its stack, or hang.
Every case runs in an isolated worker process of the harness (address-space limit 3 GB, watchdog); oracle: the observation
is a result or an error value - never PANIC (unwinding panic), CRASH (abort / stack overflow / out of memory) or TIMEOUT."""
import random

from . import progcheck as P, proggen, progrun

PROP = "C16"

OPERANDS = ["(1<<63) % -1", "(1<<63) / -1", "-(1<<63)", "(1<<63) * -1", "(1<<63) - 1", "0 - (1<<63)", "~(1<<63) + 1", "(1<<63) % 0", "", "r1", "r31", "r32", "r99", "R0", "X", "x+", "-y", "Z+1", "Y+", "0", "1", "-1", "255", "256", "65536", "4294967296",
            "9223372036854775807", "9223372036854775808", "99999999999999999999", "$FF", "0x", "0b2", "'a'", "''", "\"s\"", "\"", "foo",
            "pc", "1/0", "1<<64", "(", "())", "@0", "low(1)", "low(", "é", "-9223372036854775807-1", "exp2(64)", "a=1", "1 2", ";",
            "'\\400'", "'\\777'", "'\\377'", "'\\0'", "'\\n'", "'\\''", "'\\\\'", "'\\x41'", "'\\'", "'ab'", "'\\8'", "'\\1234'", "'\t'", "'\u00e9'", "'\U0001F600'", "' '"]
SMALL = ["", "r1", "r32", "X+", "1", "-1", "99999999999999999999", "\"s\"", "foo", "1/0", "(", "@0", "4294967296", "Z+q", "'"]
DIRECTIVES = ["byte", "cseg", "csegsize", "db", "def", "device", "dseg", "dw", "endm", "endmacro", "equ", "eseg", "exit", "include",
              "includepath", "list", "listmac", "macro", "nolist", "org", "set", "define", "else", "elif", "endif", "error", "if", "ifdef",
              "ifndef", "message", "dd", "dq", "undef", "warning", "overlap", "nooverlap", "pragma", "bogus"]


def single_lines(tier):
    from . import encgen
    heads = ["." + d for d in DIRECTIVES] + encgen.ALL + ["macrocall"]
    ops1 = OPERANDS
    ops2 = OPERANDS if tier != "quick" else SMALL
    out = []
    for h in heads:
        out.append(h)
        for a in ops1:
            out.append("%s %s" % (h, a))
        for a in ops2:
            for b in ops2:
                out.append("%s %s, %s" % (h, a, b))
                if h.startswith("."):
                    out.append("%s %s = %s" % (h, a, b))
        if tier != "quick":
            for a in SMALL:
                for b in SMALL:
                    for c in SMALL:
                        out.append("%s %s, %s, %s" % (h, a, b, c))
    return out


def device_lines(devs, tier):
    """every device row x every mnemonic x too few / wrongly typed operands: the device gate of pass 2 looks at the operands
    before the encoder has checked how many there are"""
    from . import encgen
    ops = ["r1", "r20", "X+", "Z+1", "1", "foo"]
    out, seen = [], set()
    for name, _, _, _, _, opts in devs[1:]:
        rep = frozenset(opts) not in seen
        seen.add(frozenset(opts))
        for m in encgen.ALL:
            out.append(".device %s\n %s" % (name, m))
            for a in ops:
                out.append(".device %s\n %s %s" % (name, m, a))
            if rep or tier != "quick":
                for a in ops:
                    for b in ops:
                        out.append(".device %s\n %s %s, %s" % (name, m, a, b))
            if rep and tier != "quick":
                for a in ops[:4]:
                    out.append(".device %s\n %s %s, %s, %s" % (name, m, a, a, a))
    return out


CYCLES = [".equ a = %s\n.equ b = %s\n%s" % (x, y, use)
          for x in ("b", "low(b)", "b + 1", "-b", "~b", "(b)", "1 + high(b * 2)", "b == 1", "!b")
          for y in ("a", "a + 1", "low(a)", "exp2(a)", "-a")
          for use in ("ldi r16, a", ".dw a", ".if a\n.endif", ".org a", ".set s = a", ".dw low(a)", "rjmp a", "lds r16, b")]
def _clashes():
    """every ordered pair of ways to bind one name (label, .equ, .set, .def, .define, macro, the special pc), then a use"""
    bind = {"label": "nm: nop", "equ": ".equ nm = 1", "set": ".set nm = 2", "def": ".def nm = r16", "define": ".define nm", "macro": ".macro nm\n nop\n.endm"}
    out = []
    for a, ta in bind.items():
        for b, tb in bind.items():
            for use in ("", " ldi r17, nm", " mov nm, r1", " .dw nm", " nm"):
                out.append("%s\n%s\n%s" % (ta, tb, use))
    for t in bind.values():
        out.append(t.replace("nm", "pc"))
        out.append(t.replace("nm", "PC") + "\n .dw pc")
        out.append(t.replace("nm", "r16") + "\n mov r16, r1")
        out.append(t.replace("nm", "low") + "\n .dw low(1)")
    out += [".dseg\nv: .byte 1\n.set v = 3\n.cseg\n .dw v", ".eseg\ne: .db 1\n.set e = 3", ".set s = 1\ns: nop", ".def d = r1\nd: nop", ".undef pc", ".undef nolabel\nnolabel: nop"]
    return out


def _long_lines():
    """lines that do not parse (or do), longer than typical buffers, with multi-byte characters straddling every offset 56..72 and 120..136"""
    out = []
    for base in ("ldi r16,, ", "  .db 1,, ", "this is not assembly ", "lab: nop ; ", ".message \"", "  .db \""):
        for off in list(range(56, 73)) + list(range(120, 137, 3)) + [255, 256, 1023]:
            pad = "a" * max(0, off - len(base.encode()))
            for ch in ("é", "€", "😀"):
                out.append(base + pad + ch * 4 + ("\"" if base.endswith("\"") else ""))
    out.append(".macro m\n ldi r16,, @0 " + "é" * 40 + "\n.endm\n m 1")
    return out


def _huge_counts():
    """sizes and addresses beyond 32 bits (and just below): reservations, origins, in every segment - refused at once, never
    truncated into something small that is then allocated or looped over"""
    out = []
    vals = [2 ** 32 - 1, 2 ** 32, 2 ** 32 + 1, 2 ** 32 + 16, 2 ** 32 + 65535, 2 ** 33, 2 ** 33 + 8, 2 ** 40, 2 ** 48 + 3, 2 ** 63 - 1, 2 ** 31, 2 ** 31 + 1, 3 * 2 ** 32 + 2]
    for v in vals:
        for seg in (".eseg", ".dseg", ".cseg"):
            out.append("%s\n.byte %d" % (seg, v))
            out.append("%s\n.byte 0x%x\n.db 1" % (seg, v))
            out.append("%s\n.org %d\n.db 1" % (seg, v))
            out.append("%s\n.org 0x%X\nl: .byte 1\n.cseg\n.dd l" % (seg, v))
            out.append("%s\n.byte 1\n.byte %d\n.byte 1" % (seg, v))
        out.append(".device ATmega8\n.eseg\n.byte %d" % v)
        out.append(".equ big = %d\n.eseg\n.org big\n.db 1" % v)
        out.append(" .db %d\n .dw %d\n .dd %d" % (v, v, v))
        out.append(" rjmp %d\n jmp %d\n lds r16, %d" % (v, v, v))
    return out


def _at_signs():
    """an '@' that is not a parameter reference, in bodies of macros called with and without operands"""
    out = []
    for line in (" nop ; @", " nop ; mail avr@atmel.com", " .db \"avr@atmel.com\", 0", " .db \"@\", \"@@\"", " ldi r16, '@'", " nop ; @x @y", " nop ; @@0", " nop ; @ 0",
                 " nop ; 100@", "@", " @", "@x", " .db @", " ldi r16, @", " nop ; @10 @99 @-1", " .db \"@0@1@\", @0", "; @\n; @@\n nop ; @@@"):
        for call in (" m", " m 1", " m r16, 2", " m 1, 2, 3, 4, 5, 6, 7, 8, 9, 10"):
            out.append(".macro m\n%s\n.endm\n%s\n nop" % (line, call))
    return out


STRUCTURAL = CYCLES + _clashes() + _long_lines() + _huge_counts() + _at_signs() + [".equ a = low(a)\n.dw a", ".equ a = a * 2\n.if a\n.endif", ".set s = 1\n.set s = low(s2)\n.equ s2 = s2\n",
    ".macro a\nb @0\n.endm\n.macro b\na @0\n.endm\na 1", ".macro a\n.if 1\na\n.endif\n.endm\na", ".macro a\n.dseg\n.cseg\na\n.endm\na",
    ".equ x = y\n.equ y = x\n.dw x", ".equ x = x\n.dw x", ".equ x = x + 1\nldi r16, x", ".set s = s\n", ".macro m\nm\n.endm\nm",
    ".macro a\nb\n.endm\n.macro b\na\n.endm\na", ".macro m\n.macro n\n.endm\nm", ".macro m\n.include \"x\"\n.endm\nm", ".macro m\n.includepath \"x\"\n.endm\nm", ".includepath \"x\"\n.includepath \"/\"\n.includepath \"\"\n",
    ".if 1\n" * 300, ".endif\n" * 50, ".else\n" * 50, ".macro m\n" * 50, ".org 0xFFFFFFFF\nnop", ".org 0xFFFFFFFF\n.db 1,2,3",
    ".org 0x7fffffff\nnop", ".eseg\n.byte 3000000000", ".dseg\n.byte 3000000000", ".dseg\n.byte -1", ".eseg\n.byte -5", ".eseg\n.org 0x7fffffff\n.db 1",
    ".dseg\n.org 0xFFFFFFFF\n.byte 2", ".org 4194303\nnop", ".org 4194304\nnop", ".db " + ", ".join(["1"] * 3000), ".db \"" + "x" * 60000 + "\"",
    "l" * 60000 + ": nop", "nop ;" + "c" * 60000, ".dw " + "+".join(["1"] * 4000), ".dw " + "-" * 3000 + "1", ".dw " + "~" * 3000 + "1",
    ".dw " + "(" * 500 + "1" + ")" * 500, ".dw " + "low(" * 500 + "1" + ")" * 500, "\n" * 50000, ("nop\n" * 20000), ".device ATtiny10\n" + "nop\n" * 600,
    "\x00", "nop\x00nop", "﻿", " ", ".db '\U0001F600'", "ldi r16, '\U0001F600'", ".message \"\U0001F600\"", ".def r1 = r1", ".def x = r1\nld r0, x",
    ".equ low = 1\n.dw low(2)", ".equ pc = 5\n.dw pc", "pc: nop\n.dw pc", "r1: nop", ".set r1 = 5\nmov r1, r2", ".undef r1",
]

DEEP = [("deep-parentheses", ".dw " + "(" * 20000 + "1" + ")" * 20000), ("deep-unary", ".dw " + "-" * 100000 + "1"),
        ("deep-function", ".dw " + "low(" * 20000 + "1" + ")" * 20000)]
# a macro that calls itself with an argument that mentions its own argument more than once: the text grows geometrically at every
# one of the 64 levels the nesting limit allows - the size of an expansion is bounded like its depth
GROWING = [".macro m\n m @0+@0\n.endm\n m 1", ".macro m\n m @0*@0+@0\n.endm\n m 2", ".macro m\n m (@0)|(@0), @1\n.endm\n m 1, 2",
           ".macro m\n m @1, @0+@1\n.endm\n m 1, 1", ".macro a\n b @0+@0\n.endm\n.macro b\n a @0-@0\n.endm\n a 7",
           ".macro m\n .dw @0\n m @0+@0\n.endm\n m 1", ".macro m\n.if 1\n m low(@0)+high(@0)\n.endif\n.endm\n m 1",
           ".macro m\n nop ; @0 @0\n m @0+@0\n.endm\n m r16"]


REPEATED = {
    "macro-call": (".macro m\n .dw @0\n.endm\n", " m %d\n"), "macro-call-noarg": (".macro m\n nop\n.endm\n", " m\n"),
    "macro-call-nested": (".macro i\n nop\n.endm\n.macro m\n i\n.endm\n", " m\n"), "set": ("", ".set v = %d\n"),
    "set-use": (".set v = 0\n", ".set v = v + 1\n .dw v\n"), "def-undef": ("", ".def t = r16\n.undef t\n"), "equ": ("", ".equ e%d = 1\n"),
    "label": ("", "l%d:\n"), "message": ("", ".message \"m\"\n"), "if": ("", ".if 1\n nop\n.endif\n"), "if0": ("", ".if 0\n nop\n.endif\n"),
    "seg-switch": ("", ".dseg\n.byte 1\n.cseg\n nop\n"), "macro-def": ("", ".macro m%d\n nop\n.endm\n"), "define": ("", ".define F%d\n"),
    "db-str": ("", " .db \"abcdefgh\"\n"), "eseg-db": (".eseg\n", " .db %d & 255\n"), "nop": ("", " nop\n"), "equ-chain-use": (".equ a = 1\n", " .dw a + %d\n"),
    "comment": ("", "; c\n"), "blank": ("", "\n"), "includepath": ("", ".includepath \"d%d\"\n"), "org": ("", None),
    # calls whose expansion is empty: nothing is nested, however many there are
    "macro-call-empty": (".macro m\n.endm\n", " m\n"), "macro-call-if0": (".macro m\n.if 0\n nop\n.endif\n.endm\n", " m\n"),
    "macro-call-equ-only": (".macro m\n.equ x@0 = 1\n.endm\n", " m %d\n"), "macro-call-comment-only": (".macro m\n ; nothing @0\n.endm\n", " m %d\n"),
    "macro-call-empty-then-real": (".macro e\n.endm\n.macro m\n e\n e\n nop\n.endm\n", " m\n"),
}
PROMPT_SECONDS = 3.0


def repeated_programs():
    """64 KiB (the bound of the property's quantifier) of one kind of line each: the time must stay proportional to the size"""
    out = []
    for k, (head, line) in REPEATED.items():
        if line is None:
            body = "".join(".org %d\n nop\n" % (2 * i + 2) for i in range(5000))
        else:
            n = (65536 - len(head)) // len(line.replace("%d", "12345"))
            body = "".join((line % i if "%d" in line else line) for i in range(n))
        out.append((k, head + body))
    return out


def run_repeated(res, vh):
    import time
    from . import common as C
    for kind, text in repeated_programs():
        best, obs = None, ""
        for _ in range(2):          # a second try separates a slow machine from a slow assembler
            t0 = time.time()
            obs = C.vh(vh, ["build-worker"], input=text.encode("utf-8").hex() + "\n").strip()
            dt = time.time() - t0
            best = dt if best is None else min(best, dt)
            if best <= PROMPT_SECONDS:
                break
        res.count(("repeated", kind), nontrivial=True)
        k = obs.split(" ")[0]
        if k != "OK":
            # every one of these programs is valid, whatever its size
            P.fail(res, "builder::build_str (isolated worker)", "%s ... (%d bytes: 64 KiB of this line)" % (text[:80], len(text)),
                   "a successful build", obs[:60], "repeated-rejected:" + kind)
        if k in ("PANIC", "CRASH", "TIMEOUT", "MISSING") or best > PROMPT_SECONDS:
            P.fail(res, "builder::build_str (isolated worker)", "%s ... (%d bytes: 64 KiB of this line)" % (text[:80], len(text)),
                   "a result or an error value within %.0f s" % PROMPT_SECONDS, "%s after %.1f s" % (k, best), "slow:" + kind)
    res.extra.setdefault("distribution", {})["repeated_line_programs"] = len(REPEATED)


def unbalanced_lines():
    """a line whose parentheses do not match - n left open, n too many closed, some closed and some not, around numbers, names
    and function calls, in every place an expression can stand: refused, and refused promptly however many there are"""
    out = []
    for n in (1, 2, 8, 16, 18, 20, 22, 24, 28, 32, 40, 48, 64, 100, 200, 1000):
        for pat in (" ldi r16, %s\n", " .dw %s\n", ".equ x = %s\n", ".if %s\n nop\n.endif\n", ".set v = %s\n", ".org %s\n", " .db 1, %s, 3\n",
                    ".macro m\n .dw %s\n.endm\n m\n", ".macro m\n .dw @0\n.endm\n m %s\n"):
            out.append(pat % ("(" * n + "1"))
            out.append(pat % ("(" * n + "1" + ")" * (n // 2)))
            out.append(pat % ("(" * n + "1" + ")" * (n - 1)))
            out.append(pat % ("low(" * n + "1"))
            out.append(pat % ("(1+" * n + "1"))
            out.append(pat % ("-(" * n + "nosuch"))
    return out


def run_unbalanced(res, vh):
    """judged on the implementation only (the time a parser needs is not a notion of the Coq model): one worker per line"""
    import time
    from . import common as C
    cases = unbalanced_lines()
    slow = []

    def one(text):
        t0 = time.time()
        obs = C.vh(vh, ["build-worker"], input=text.encode("utf-8").hex() + "\n").strip()
        return text, obs, time.time() - t0
    import concurrent.futures as cf
    # shortest lines first, in batches: a batch with a slow or abnormal line ends the search (every longer line would wait for
    # the watchdog as well)
    cases.sort(key=len)
    nfail = 0
    with cf.ThreadPoolExecutor(max_workers=max(2, C.NCPU // 2)) as ex:
        for at in range(0, len(cases), 48):
            for text, obs, dt in list(ex.map(one, cases[at:at + 48])):
                res.count(("unbalanced", text), nontrivial=True)
                k = obs.split(" ")[0]
                if k in ("PANIC", "CRASH", "TIMEOUT", "MISSING") or (dt > PROMPT_SECONDS and one(text)[2] > PROMPT_SECONDS):
                    nfail += 1
                    P.fail(res, "builder::build_str (isolated worker)", text if len(text) < 300 else text[:150] + " ... (%d bytes)" % len(text),
                           "a result or an error value within %.0f s" % PROMPT_SECONDS, "%s after %.1f s" % (k, dt), "slow:unbalanced")
                elif k == "OK":
                    P.fail(res, "builder::build_str (isolated worker)", text[:300], "a failed build (parentheses do not match)", obs[:60], "accepted:unbalanced")
            if nfail:
                break
    res.extra.setdefault("distribution", {})["unbalanced_parenthesis_lines"] = len(cases)


def run(res):
    vh, exe = P.base(res, PROP)
    run_repeated(res, vh)
    run_unbalanced(res, vh)
    rng = random.Random(res.seed)
    from . import gen
    texts = [l + "\n" for l in single_lines(res.tier)] + [l + "\n" for l in device_lines(gen.read_devices(vh), res.tier)]
    # the model's list appends are quadratic: the 60 KB / 8 MB cases are kept for the thorough tier
    structural = STRUCTURAL if res.tier != "quick" else [s.replace("x" * 60000, "x" * 3000).replace("l" * 60000, "l" * 3000).replace("c" * 60000, "c" * 3000)
                                                            .replace("nop\n" * 20000, "nop\n" * 1500).replace("\n" * 50000, "\n" * 5000)
                                                         for s in STRUCTURAL if not s.startswith(".org 4194303")]
    texts += [s + "\n" for s in structural] + [g + "\n" for g in GROWING] + [proggen.text_of(h) for h in proggen.hostile(rng)]
    for _ in range(1500 if res.tier == "quick" else 30000):
        ls = proggen.program(rng, size=rng.choice([4, 10, 25, 60]))
        for _ in range(rng.randrange(1, 4)):
            ls = proggen.mutate(rng, ls)
        texts.append(proggen.text_of(ls, rng))
    obs = P.correspond(res, vh, exe, texts, "hostile single-line, structural and mutated programs")
    dist = {}
    for t in dict.fromkeys(texts):
        a = obs[t][0]
        k = a.split(" ")[0]
        dist[k] = dist.get(k, 0) + 1
        if k in ("PANIC", "CRASH", "TIMEOUT", "MISSING"):
            first = t.split("\n")[0][:40]
            P.fail(res, "builder::build_str (isolated worker)", t if len(t) < 400 else t[:200] + " ... (%d bytes)" % len(t), "a result or an error value", k, "abnormal:" + k)
    # native stack depth is not modelled: the deep-nesting probes are judged on the implementation only
    from . import common as C
    deep_out = C.vh(vh, ["build"], input="".join((d[1] + "\n").encode("utf-8").hex() + "\n" for d in DEEP)).split("\n")
    for (cls, text), a in zip(DEEP, deep_out):
        if a.split(" ")[0] in ("PANIC", "CRASH", "TIMEOUT"):
            P.fail(res, "builder::build_str (isolated worker)", text[:60] + " ... (%d bytes)" % len(text), "a result or an error value", a, cls)
    res.extra["distribution"].update({"outcome:" + k: v for k, v in dist.items()})
    res.extra["exhaustive"] = False
    res.rule = ("bounded-exhaustive single-line programs: every directive (38) and mnemonic (114) and a macro call x 0, 1 and 2 operands "
                "(thorough: 3) from a dictionary of %d valid, boundary and hostile operand texts, in comma and '=' form; under every device row "
                "every mnemonic with 0 and 1 operands (2 operands for one device per distinct flag set) of register / index / value / "
                "name kind; %d structural "
                "programs (cyclic .equ, recursive and mutually recursive macros, unbalanced directives, address-space and allocation "
                "extremes, 60 KB tokens, NUL/BOM/non-ASCII); the hostile-line corpus; random programs with 1-3 token/line mutations; "
                "three deep-nesting probes; %d self-calling macros whose argument grows geometrically; %d lines with unbalanced parentheses (refused within 3 s).  Each case in its own worker process with a watchdog (10 s) and a 3 GB address-space limit" %
                (len(OPERANDS), len(STRUCTURAL), len(GROWING), len(unbalanced_lines())))
    res.samples = [dict(source=t[:80], outcome=obs[t][0][:40]) for t in texts[:2] + texts[-2:]]
    res.assume = ["native stack depth, wall-clock time and the allocator are outside the Coq model; they are exercised by this run only"]


match_known = P.match_known


def replay(path):
    def judge(vh, exe, i):
        import time
        from . import common as C
        t0 = time.time()
        a = C.vh(vh, ["build-worker"], input=i["source"].encode("utf-8").hex() + "\n").strip()
        dt = time.time() - t0
        if a.split(" ")[0] in ("PANIC", "CRASH", "TIMEOUT", "MISSING"):
            return ("a result or an error value", a[:60])
        if dt > PROMPT_SECONDS and "..." not in i["source"]:
            return ("an answer within %.0f s" % PROMPT_SECONDS, "%.1f s" % dt)
        return None
    return P.replay_text(PROP, path, judge)
