"""Shared skeleton of the program-level checks (builder::build_str interface)."""
import json

from . import common as C, gen, progrun


def base(res, prop):
    vh = C.build_harness("debug")
    try:
        changed = gen.gen_all(vh)
        res.oblige("tie A: Gen/*.v regenerated from /repo (opcode, mnemonic, directive, precedence, device tables)", True, "rewritten: %s" % changed)
    except gen.GenError as e:
        res.oblige("tie A: Gen/*.v regenerated from /repo", False, str(e))
    pr = C.check_props(prop)
    for n, ok, note in pr["obligations"]:
        res.oblige("theorem " + n, ok, note)
    if pr.get("broken") and not pr["obligations"]:
        res.oblige("coq build", False, pr["broken"])
    exe = C.build_model()
    return vh, exe


def agree(a, b):
    return a == b or (a in ("CRASH", "TIMEOUT") and b == "FUEL")


def correspond(res, vh, exe, texts, what):
    """model == implementation on every text; returns {text: (impl, model)}"""
    uniq = list(dict.fromkeys(texts))
    rows = progrun.run_texts(vh, exe, uniq)
    mism = [(t, a, b) for t, a, b in rows if not agree(a, b)]
    res.oblige("correspondence(extracted model): Passes.build_str = builder::build_str on %d %s" % (len(rows), what),
               not mism, "first of %d: %r impl=%s model=%s" % (len(mism), mism[0][0][:300], mism[0][1][:120], mism[0][2][:120]) if mism else "")
    incoq_slice(res, rows, what)
    out = {}
    kinds = {}
    for t, a, b in rows:
        out[t] = (a, b)
        k = a.split(" ")[0]
        kinds[k] = kinds.get(k, 0) + 1
        res.count(t, nontrivial=(a not in ("OK - - 4194304 65536 8388608 0 -",)))
    res.extra.setdefault("distribution", {}).update({"observations:" + k: v for k, v in kinds.items()})
    return out


def obs_term(o):
    """the harness observation as a term of Model/Observe.obs, or None when it is not one (CRASH, TIMEOUT)"""
    d = progrun.parse_obs(o)
    if d["kind"] == "OK":
        hexl = lambda h: C.nlist(bytes.fromhex(h))
        msgs = "[" + "; ".join(C.nlist(m.encode("utf-8")) for m in d["msgs"]) + "]"
        return "OOk %s %s %d %d %d %d %s" % (hexl(d["code"]), hexl(d["eeprom"]), d["flash"], d["eesize"], d["ram"], d["fill"], msgs)
    if d["kind"] == "ERR":
        return "OErr None" if d["line"] is None else "OErr (Some %d)" % d["line"]
    if d["kind"] == "PANIC":
        return "OPanic"
    return None


def incoq_slice(res, rows, what, limit=100):
    """tie B(i): a slice of the run is re-done inside Coq - the model evaluated by the kernel's VM on the same source bytes,
    compared with the observation of the implementation (no extraction, no OCaml driver involved)"""
    import hashlib
    import os
    small = [(t, a) for t, a, b in rows if len(t.encode("utf-8")) <= 500 and len(a) <= 3000 and obs_term(a) is not None]
    # spread over the run, deterministic
    small.sort(key=lambda x: hashlib.sha1(x[0].encode("utf-8")).hexdigest())
    pick = small[:limit]
    if not pick:
        return
    d = os.path.join(C.COQ, "Cases")
    os.makedirs(d, exist_ok=True)
    path = os.path.join(d, "%s_slice.v" % res.prop.lower())
    body = ("Require Import AvraV.Model.Base AvraV.Model.Passes AvraV.Model.Observe.\nOpen Scope N_scope.\n"
            "Definition cases : list (list N * obs) := [\n")
    body += ";\n".join("(%s, %s)" % (C.nlist(t.encode("utf-8")), obs_term(a)) for t, a in pick) + "].\n"
    body += ('Eval vm_compute in let f := N.to_nat 400000 in Report "slice" (failing (fun c => obs_eqb (observe (Passes.build_str f '
             '(map Ascii.ascii_of_N (fst c)))) (snd c)) cases) [].\n')
    open(path, "w").write(body)
    _, ok, out, secs = C.coqc_file(path, 900)
    rep = C.parse_reports(out).get("slice")
    good = ok and rep is not None and rep[0] == []
    note = ""
    if not good:
        note = out[-300:] if rep is None else "model (vm_compute) differs from the implementation on case(s) %s, first: %r" % (rep[0][:5], pick[rep[0][0]][0][:200])
    res.oblige("correspondence(in-Coq vm_compute): Passes.build_str = builder::build_str on a slice of %d %s" % (len(pick), what), good, note)


def fail(res, interface, text, expected, observed, cls, extra=None):
    if len(res.failing) < 300:
        d = dict(interface=interface, input=dict(source=text, **(extra or {})), expected=expected, observed=observed, cls=cls)
        res.failing.append(d)


def replay_text(prop, path, judge):
    """judge(vh, exe, input dict) -> None if the property holds on it, else (expected, observed)"""
    r = json.load(open(path))
    i = r.get("input")
    if not i:
        print("replay: broken obligation %r - re-run ./check %s" % (r.get("obligation"), prop))
        return 1
    vh = C.build_harness("debug")
    exe = C.build_model()
    bad = judge(vh, exe, i)
    if bad:
        print("VIOLATION property=%s replay=%s" % (prop, path))
        return 1
    print("replay: property now holds on this input")
    return 0


def replay_by_rerun(prop, path):
    """replay for checks whose verdict on an input needs the whole search around it (reference oracles, device tables, file
    trees): the check's own search is run again with the recorded seed and tier, and the recorded input (or the recorded
    obligation) is looked up among what fails now.  Writes no evidence."""
    import importlib
    r = json.load(open(path))
    mod = importlib.import_module("vlib." + prop.lower())
    res = C.Result(prop, r.get("tier") or "quick", r.get("seed") or 1)
    try:
        mod.run(res)
    except Exception as e:  # the machinery itself fails: nothing is shown to hold
        res.oblige("check machinery", False, "%s: %s" % (type(e).__name__, str(e)[:300]))
    i = r.get("input")
    if i:
        if any(f.get("input") == i for f in res.failing):
            print("VIOLATION property=%s replay=%s" % (prop, path))
            return 1
        print("replay: property now holds on this input")
        return 0
    name = (r.get("obligation") or "").split(":")[0]
    still = [b for b in res.broken if name and b.startswith(name)]
    if still or (not name and res.broken):
        print("VIOLATION property=%s replay=%s no-failing-input-found" % (prop, path))
        return 1
    print("replay: the recorded obligation checks again")
    return 0


def match_known(f, entry):
    return entry.get("class") is not None and f.get("cls") == entry.get("class")
