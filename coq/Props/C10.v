(** C10 - symbols resolve by the documented binding rules or the build fails (examples; theorems follow). *)
From Coq Require Import List ZArith NArith String.
Import ListNotations.
Require Import AvraV.Model.Base AvraV.Model.Ast AvraV.Model.Passes.
Definition code_of (src : string) : option (list N) :=
  match build_str 200 (list_ascii_of_string src) with Ok b => Some (b_code b) | _ => None end.
Definition nl := String (Ascii.ascii_of_N 10) EmptyString.
Example C10_examples :
  code_of (".set v = 1" ++ nl ++ " .dw v" ++ nl ++ ".set V = v + 1" ++ nl ++ " .dw v" ++ nl) = Some [1; 0; 2; 0]%N /\
  code_of (".def Tmp = r16" ++ nl ++ ".undef TMP" ++ nl ++ " mov tmp, r1" ++ nl) = None /\
  code_of (" .dw fwd" ++ nl ++ "nop" ++ nl ++ "Fwd: nop" ++ nl) = Some [2; 0; 0; 0; 0; 0]%N /\
  code_of (" .dw nowhere" ++ nl) = None /\ code_of ("a: nop" ++ nl ++ "A: nop" ++ nl) = None.
Proof. vm_compute. repeat split; reflexivity. Qed.
