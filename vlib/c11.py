"""C11 - including a file is the same as pasting it, and files are found where documented.
Theorems: coq/Props/C11.v.  Tie: builder::build_file on generated directory trees against Model/Files.build_file
(extracted) - structured trees plus a family of odd paths and shadowed names (set order, ".", "..", directories
named as files).  Search (oracle): the real build_file on the tree must equal the real build_str on the flattened
text (includes pasted, text after .exit of an included file dropped); a file that exists nowhere must fail the
build with an error naming it."""
import json
import os
import random
import re

from . import common as C, fsrun, progcheck as P, progrun

PROP = "C11"
HOWS = ["sibling", "subdir", "cwdrel", "caller", "incpath_rel", "incpath_abs", "abs", "dotted", "incpath_from_child"]


class Gen:
    def __init__(self, rng, root, idx):
        self.rng = rng
        self.root = root
        self.files = {}
        self.dirs = set([root])
        self.paths = []
        self.nsym = 0
        self.syms = []
        self.equs = []
        self.macros = []
        self.nfile = 0
        self.flat = []
        self.hows = []
        self.device_done = False
        self.missing = None
        self.want_missing = rng.random() < 0.12
        self.mode = rng.choice("AABC")
        self.proj = root + "/proj"
        self.dirs.add(self.proj)
        self.cwd = {"A": self.proj, "B": root, "C": root + "/elsewhere"}[self.mode]
        self.dirs.add(self.cwd)
        self.main = {"A": "main.asm", "B": "proj/main.asm", "C": self.proj + "/main.asm"}[self.mode]
        self.exited = False
        self.max_depth = rng.choice([1, 2, 2, 3, 4])
        self.seg = "c"

    def sym(self):
        self.nsym += 1
        return "s%d" % self.nsym

    def statements(self, out, flat, depth, my_dir, is_main):
        """fills out (lines of this file) and flat (the pasted program); returns False when the file ended with .exit"""
        rng = self.rng
        n = rng.randrange(2, 8)
        pending_ipath = []
        for _ in range(n):
            r = rng.random()
            # the current segment is part of what crosses a file boundary, in both directions: a file may end (or .exit) in
            # another segment than it was entered in, and what follows the .include in the includer is written for that segment
            if rng.random() < 0.10:
                self.seg = rng.choice([x for x in "cde" if x != self.seg])
                ln = {"c": ".cseg", "d": ".dseg", "e": ".eseg"}[self.seg]
                out.append(ln); flat.append(ln)
                continue
            if self.seg != "c" and not (r < 0.16 or 0.38 <= r < 0.46 or 0.74 <= r < 0.78 or r >= 0.83):
                s = self.sym()
                ln = ("%s: .byte %d" % (s, rng.randrange(1, 5))) if self.seg == "d" else ("%s: .db %d, %d" % (s, rng.randrange(256), rng.randrange(256)))
                out.append(ln); flat.append(ln)
                if self.seg == "e":
                    self.syms.append(s)
                continue
            if r < 0.16:
                s = self.sym()
                ln = ".equ %s = %d" % (s, rng.randrange(0, 200))
                out.append(ln); flat.append(ln); self.syms.append(s); self.equs.append(s)
            elif r < 0.30 and self.syms:
                ln = " ldi r%d, %s" % (rng.randrange(16, 32), rng.choice(self.syms))
                out.append(ln); flat.append(ln)
            elif r < 0.38 and self.syms:
                ln = " .dw %s, %d" % (rng.choice(self.syms), rng.randrange(0, 1000))
                out.append(ln); flat.append(ln)
            elif r < 0.46:
                m = "m%d" % (len(self.macros) + 1 + 100 * self.nfile)
                body = [".macro " + m, " subi r16, @0", " .db @0, 1", ".endm"]
                out += body; flat += body; self.macros.append(m)
            elif r < 0.56 and self.macros:
                ln = " %s %d" % (rng.choice(self.macros).upper() if rng.random() < 0.3 else rng.choice(self.macros), rng.randrange(0, 100))
                out.append(ln); flat.append(ln)
            elif r < 0.64 and self.equs:
                s = rng.choice(self.equs)
                blk = [".if %s > %d" % (s, rng.randrange(0, 200)), " inc r1", ".else", " dec r1", ".endif"]
                out += blk; flat += blk
            elif r < 0.70:
                s = self.sym()
                ln = "%s: nop" % s
                out.append(ln); flat.append(ln); self.syms.append(s)
            elif r < 0.74 and not self.device_done and not flat_has_code(flat):
                ln = ".device " + rng.choice(["ATmega8", "ATtiny2313", "ATmega328P", "ATmega16"])
                out.append(ln); flat.append(ln); self.device_done = True
            elif r < 0.78:
                ln = '.message "note %d"' % rng.randrange(100)
                out.append(ln); flat.append(ln)
            elif r < 0.83:
                blk = [".dseg", "v%d: .byte %d" % (self.nsym + 1000 * self.nfile + len(out), rng.randrange(1, 5)), ".cseg"]
                out += blk; flat += blk
            elif depth < self.max_depth:
                self.include(out, flat, depth, my_dir)
                if self.missing is not None:
                    return True
            else:
                ln = " nop" if self.seg == "c" else ".byte 1" if self.seg == "d" else ".db 7"
                out.append(ln); flat.append(ln)
        if not is_main and rng.random() < 0.25:
            out.append(".exit")
            out += [" this line is never assembled", " ldi r0, 300", ".endif"][:rng.randrange(1, 4)]
            return False
        return True

    def include(self, out, flat, depth, my_dir):
        rng = self.rng
        self.nfile += 1
        # file names are taken as written (letter case included): mixed-case names, upper-case extensions
        name = rng.choice(["c%d.inc", "c%d.inc", "Defs%d.inc", "M%dDEF.INC", "tn%dAdef.inc", "Cfg_%d.Inc"]) % self.nfile
        how = rng.choice(HOWS)
        if how == "incpath_from_child" and depth >= self.max_depth:
            how = "incpath_rel"
        self.hows.append(how)
        if how == "sibling":
            d, written = my_dir, name
        elif how == "subdir":
            sub = "sub%d" % self.nfile
            d, written = my_dir + "/" + sub, sub + "/" + name
        elif how == "cwdrel":
            d = self.root + "/any%d" % self.nfile
            written = os.path.relpath(d + "/" + name, self.cwd)
        elif how == "caller":
            d = self.root + "/lib%d" % (self.nfile % 2)
            p = d if rng.random() < 0.5 else os.path.relpath(d, self.cwd)
            if d not in [os.path.normpath(os.path.join(self.cwd, q)) for q in self.paths]:
                self.paths.append(p)
            written = name
        elif how == "incpath_rel":
            sub = "ip%d" % self.nfile
            d, written = my_dir + "/" + sub, name
            ln = '.includepath "%s"' % sub
            out.insert(0 if rng.random() < 0.5 else len(out), ln)
        elif how == "incpath_abs":
            d, written = self.root + "/ext%d" % self.nfile, name
            out.append('.includepath "%s"' % d)
        elif how == "abs":
            d = self.root + "/abs%d" % self.nfile
            written = d + "/" + name
        elif how == "dotted":
            if rng.random() < 0.5:
                d, written = my_dir, "./" + name
            else:
                sub = "dd%d" % self.nfile
                self.dirs.add(my_dir + "/" + sub)
                d, written = my_dir, sub + "/../" + name
        else:  # incpath_from_child: an earlier included file adds the directory, relative to itself
            self.nfile += 1
            helper = "h%d.inc" % self.nfile
            hd = my_dir + "/hd%d" % self.nfile
            self.dirs.add(hd)
            self.files[hd + "/" + helper] = '.includepath "far"\n'
            out.append('.include "hd%d/%s"' % (self.nfile, helper))
            d, written = hd + "/far", name
        self.dirs.add(d)
        lines, sub_flat = [], []
        if self.want_missing and self.missing is None and rng.random() < 0.5:
            # the file exists nowhere the assembler looks: not created, or created in a directory nobody mentions
            self.missing = name
            if rng.random() < 0.5:
                self.dirs.add(self.root + "/unmentioned")
                self.files[self.root + "/unmentioned/" + name] = " nop\n"
            if how in ("cwdrel", "abs", "subdir"):
                written = written  # the written path does not exist either
            out.append('.include "%s"' % written)
            return
        lab = None
        if rng.random() < 0.2:
            # a label in front of the directive is the location of its own line, i.e. of the first thing the file contributes
            lab = "il%d" % self.nfile
            flat.append(lab + ":")
            self.syms.append(lab)
        self.statements(lines, sub_flat, depth + 1, d, False)
        self.files[d + "/" + name] = "\n".join(lines) + "\n"
        out.append(('%s: ' % lab if lab else "") + '.include "%s"' % written)
        flat += sub_flat

    def build(self):
        out, flat = [], []
        self.statements(out, flat, 0, self.proj, True)
        self.files[self.proj + "/main.asm"] = "\n".join(out) + "\n"
        flat = [l for l in flat if not l.startswith(".includepath")]
        return dict(cwd=self.cwd, main=self.main, paths=self.paths, dirs=sorted(self.dirs), files=self.files,
                    missing=self.missing, flat="\n".join(flat) + "\n", hows=self.hows, mode=self.mode)


def flat_has_code(flat):
    return any(l.startswith(" ") or ":" in l for l in flat)


def strip_lines(msgs):
    return [re.sub(r"line: \d+", "line: N", m) for m in msgs]


def same_name_trees(base):
    """several files of ONE name in different directories, each included by its neighbour with the same operand text: every
    .include is resolved on its own (the includer's directory is searched, the other modules' directories are not)"""
    out = []
    k = 0

    def tree(main_lines, files, flat, missing=None):
        nonlocal k
        k += 1
        r = "%s/same%d" % (base, k)
        fs = {r + "/proj/main.asm": "\n".join(main_lines) + "\n"}
        fs.update({r + "/proj/" + p: t for p, t in files.items()})
        dirs = sorted(set([r, r + "/proj"] + [os.path.dirname(p) for p in fs]))
        out.append(dict(cwd=r + "/proj", main="main.asm", paths=[], dirs=dirs, files=fs, missing=missing, flat=flat, hows=["same-name"], mode="A"))

    for n in (2, 3, 4):
        mods = ["mod%d" % i for i in range(n)]
        files, flat, main = {}, "", []
        for i, m in enumerate(mods):
            files["%s/module.inc" % m] = '.include "defs.inc"\n .dw %d\n' % (i + 1)
            files["%s/defs.inc" % m] = " .dw 0x%d%d\n.equ k%d = %d\n" % (i + 1, i + 1, i, i)
            main.append('.include "%s/module.inc"' % m)
            flat += " .dw 0x%d%d\n.equ k%d = %d\n .dw %d\n" % (i + 1, i + 1, i, i, i + 1)
        tree(main, files, flat)
        # the same, the last module's own file missing: nothing of the others' directories is searched for it
        f2 = dict(files)
        del f2["%s/defs.inc" % mods[-1]]
        tree(main, f2, flat, missing="defs.inc")
        # two levels below each module
        f3, flat3 = {}, ""
        for i, m in enumerate(mods):
            f3["%s/module.inc" % m] = '.include "sub/common.inc"\n .dw %d\n' % (i + 1)
            f3["%s/sub/common.inc" % m] = '.include "leaf.inc"\n .dw %d\n' % (10 * (i + 1))
            f3["%s/sub/leaf.inc" % m] = " .dw %d\n" % (100 * (i + 1))
            flat3 += " .dw %d\n .dw %d\n .dw %d\n" % (100 * (i + 1), 10 * (i + 1), i + 1)
        tree(main, f3, flat3)
    # letter case: a name is found only as it is spelled
    for real, asked in (("Defs.inc", "defs.inc"), ("defs.inc", "Defs.inc"), ("defs.inc", "DEFS.INC"), ("m8DEF.inc", "m8def.inc"), ("Sub/x.inc", "sub/x.inc"), ("sub/X.inc", "sub/x.inc")):
        tree(['.include "%s"' % asked, " nop"], {real: " .dw 1\n"}, "", missing=asked.split("/")[-1])
        tree(['.include "%s"' % real, " nop"], {real: " .dw 1\n"}, " .dw 1\n nop\n")
    tree(['.include "Defs.inc"', '.include "defs.inc"'], {"Defs.inc": " .dw 1\n", "defs.inc": " .dw 2\n"}, " .dw 1\n .dw 2\n")
    # the directory of an included file is searched for ITS includes only: afterwards the includer does not find files there
    tree(['.include "drivers/uart.inc"', '.include "x.inc"'], {"drivers/uart.inc": " .dw 1\n", "drivers/x.inc": " .dw 2\n"}, "", missing="x.inc")
    tree(['.include "drivers/uart.inc"', " nop"], {"drivers/uart.inc": '.include "x.inc"\n .dw 1\n', "drivers/x.inc": " .dw 2\n"}, " .dw 2\n .dw 1\n nop\n")
    tree(['.include "a/one.inc"', '.include "b/two.inc"'], {"a/one.inc": " .dw 1\n", "a/only_in_a.inc": " .dw 9\n", "b/two.inc": '.include "only_in_a.inc"\n'}, "", missing="only_in_a.inc")
    tree(['.include "a/one.inc"', '.include "lib/x.inc"'], {"a/one.inc": " .dw 1\n", "a/x.inc": " .dw 8\n", "lib/x.inc": " .dw 3\n"}, " .dw 1\n .dw 3\n")
    # control: one file included several times is read every time (a .set variable shows it)
    tree([".set n = 0", '.include "inc/bump.inc"', '.include "inc/bump.inc"', '.include "inc/bump.inc"', " .dw n"],
         {"inc/bump.inc": ".set n = n + 1\n .dw n\n"}, ".set n = 0\n" + ".set n = n + 1\n .dw n\n" * 3 + " .dw n\n")
    return out


def odd_cases(base):
    """correspondence only: odd include strings, shadowed names and set order"""
    cases = []
    k = 0

    def tree(main_text, files, dirs, paths=(), cwd_sub="proj", main="main.asm"):
        nonlocal k
        k += 1
        r = "%s/odd%d" % (base, k)
        fs = {r + "/proj/main.asm": main_text}
        fs.update({r + "/" + p: t for p, t in files.items()})
        ds = [r, r + "/proj"] + [r + "/" + d for d in dirs]
        cases.append(dict(cwd=r + "/" + cwd_sub, main=main, paths=[p.replace("{R}", r) for p in paths], dirs=ds, files=fs, missing=None, odd=True))

    for inc in ["", ".", "..", "sub", "./c.inc", "sub/../c.inc", "nosuch/../c.inc", "sub/./c.inc", "sub//d.inc", ".//c.inc", "../proj/c.inc",
                "../../c.inc", "c.inc/..", "sub/../../proj/c.inc", "./sub/d.inc", "sub/d.inc/../d.inc"]:
        tree('.include "%s"\n nop\n' % inc, {"proj/c.inc": " inc r1\n", "proj/sub/d.inc": " dec r1\n"}, ["proj/sub"])
    # shadowing: the same name in several directories of the set; which one wins is the set's order
    names = ["a", "A", "b", "a.b", "a-b", "a/b", "ab", "_", "z", "0"]
    for i in range(len(names)):
        for j in range(len(names)):
            if i == j:
                continue
            d1, d2 = names[i], names[j]
            files = {"proj/%s/x.inc" % d1: " .dw 1\n", "proj/%s/x.inc" % d2: " .dw 2\n"}
            tree('.includepath "%s"\n.includepath "%s"\n.include "x.inc"\n' % (d1, d2), files, ["proj/" + d1, "proj/" + d2, "proj/a"])
    for p1, p2 in [("{R}/l1", "l2"), ("l2", "{R}/l1"), ("./l1", "l1"), ("l1/../l2", "l2"), ("{R}/l2", "{R}/l1")]:
        tree('.include "x.inc"\n', {"proj/l1/x.inc": " .dw 1\n", "proj/l2/x.inc": " .dw 2\n", "l1/x.inc": " .dw 3\n", "l2/x.inc": " .dw 4\n"},
             ["proj/l1", "proj/l2", "l1", "l2"], paths=(p1, p2))
        tree('.include "x.inc"\n', {"proj/l1/x.inc": " .dw 1\n", "proj/l2/x.inc": " .dw 2\n", "l1/x.inc": " .dw 3\n", "l2/x.inc": " .dw 4\n"},
             ["proj/l1", "proj/l2", "l1", "l2"], paths=(p1, p2), cwd_sub="", main="proj/main.asm")
    # own directory before / after caller directories, and the written path winning over every directory
    tree('.include "x.inc"\n', {"proj/x.inc": " .dw 1\n", "lib/x.inc": " .dw 2\n"}, ["lib"], paths=("{R}/lib",))
    tree('.include "lib/x.inc"\n', {"proj/lib/x.inc": " .dw 1\n", "lib/x.inc": " .dw 2\n"}, ["lib", "proj/lib"], cwd_sub="", main="proj/main.asm")
    # include depth: a chain of 70 files, a file including itself, two files including each other
    chain = {"proj/n%d.inc" % i: '.include "n%d.inc"\n' % (i + 1) for i in range(70)}
    chain["proj/n70.inc"] = " nop\n"
    for depth in (62, 63, 64, 65, 66):
        c = dict(chain)
        c["proj/n%d.inc" % depth] = " nop\n"
        tree('.include "n0.inc"\n', c, [])
    tree('.include "main.asm"\n', {}, [])
    tree('.include "p.inc"\n', {"proj/p.inc": '.include "q.inc"\n', "proj/q.inc": '.include "p.inc"\n'}, [])
    # .includepath inside a macro body, .include inside a macro body, .exit in main, .exit inside a conditional of an included file
    tree('.macro m\n.includepath "sub"\n.endm\n m\n nop\n', {}, ["proj/sub"])
    tree('.macro m\n.include "c.inc"\n.endm\n m\n nop\n', {"proj/c.inc": " inc r1\n"}, [])
    tree(' nop\n.exit\n garbage here\n', {}, [])
    tree('.equ k = 1\n.include "c.inc"\n inc r2\n', {"proj/c.inc": ".if k\n inc r1\n.exit\n.endif\n dec r1\n"}, [])
    tree('.equ k = 0\n.include "c.inc"\n inc r2\n', {"proj/c.inc": ".if k\n inc r1\n.exit\n.endif\n dec r1\n"}, [])
    # an open conditional / macro at the end of an included file
    tree('.equ k = 0\n.include "c.inc"\n inc r2\n.endif\n', {"proj/c.inc": ".if k\n inc r1\n"}, [])
    tree('.include "c.inc"\n inc r2\n.endm\n m\n', {"proj/c.inc": ".macro m\n inc r1\n"}, [])
    return cases


def incoq_trees(res, rows, limit=120):
    """tie B(i): a slice of the trees is re-done inside Coq (Files.build_file evaluated by the kernel's VM)"""
    def names(p):
        return [x for x in p.split("/") if x]

    def nn(p):
        return "[" + "; ".join(C.nlist(x.encode()) for x in names(p)) + "]"
    pick = []
    for c, a, b in rows:
        a = a.replace(" NAMED", "").replace(" UNNAMED", "")
        t = P.obs_term(a)
        if t is None or sum(len(x) for x in c["files"].values()) > 1500 or len(c["files"]) > 12:
            continue
        dirs = set()
        for p in [c["cwd"]] + list(c["dirs"]) + [os.path.dirname(f) for f in c["files"]]:
            n = names(p)
            for k in range(1, len(n) + 1):
                dirs.add("/" + "/".join(n[:k]))
        term = "(build_tree 400000 %s [%s] [%s] %s [%s], %s)" % (
            nn(c["cwd"]), "; ".join(nn(d) for d in sorted(dirs)),
            "; ".join("(%s, %s)" % (nn(f), C.nlist(x.encode())) for f, x in c["files"].items()),
            C.nlist(c["main"].encode()), "; ".join(C.nlist(p.encode()) for p in c["paths"]), t)
        pick.append((term, c))
        if len(pick) >= limit:
            break
    if not pick:
        return
    d = os.path.join(C.COQ, "Cases")
    os.makedirs(d, exist_ok=True)
    path = os.path.join(d, "c11_slice.v")
    body = ("Require Import AvraV.Model.Base AvraV.Model.Observe.\nOpen Scope N_scope.\n"
            "Definition cases : list (obs * obs) := [\n" + ";\n".join(t for t, _ in pick) + "].\n"
            'Eval vm_compute in Report "slice" (failing (fun c => obs_eqb (fst c) (snd c)) cases) [].\n')
    open(path, "w").write(body)
    _, ok, out, secs = C.coqc_file(path, 900)
    rep = C.parse_reports(out).get("slice")
    good = ok and rep is not None and rep[0] == []
    res.oblige("correspondence(in-Coq vm_compute): Files.build_file = builder::build_file on a slice of %d directory trees" % len(pick), good,
               "" if good else (out[-300:] if rep is None else "differs on case(s) %s" % rep[0][:5]))


def run(res):
    vh, exe = P.base(res, PROP)
    rng = random.Random(res.seed)
    base = fsrun.work_root()
    n = 500 if res.tier == "quick" else 120000
    cases = []
    for i in range(n):
        c = Gen(rng, "%s/t%d" % (base, i), i).build()
        cases.append(c)
    cases += same_name_trees(base)
    odd = odd_cases(base)
    try:
        rows = fsrun.run_cases(vh, exe, cases + odd)
    finally:
        fsrun.cleanup()
    incoq_trees(res, rows)
    mism = [(c, a, b) for c, a, b in rows if not P.agree(a.replace(" NAMED", "").replace(" UNNAMED", ""), b)]
    res.oblige("correspondence(extracted model): Files.build_file = builder::build_file on %d directory trees (%d structured, %d odd-path)"
               % (len(rows), len(cases), len(odd)), not mism,
               "first of %d: main=%r impl=%s model=%s" % (len(mism), list(mism[0][0]["files"].items())[0][1][:200], mism[0][1][:100], mism[0][2][:100]) if mism else "")
    flats = list(dict.fromkeys(c["flat"] for c in cases if c["missing"] is None))
    fobs = {t: a for t, a, b in progrun.run_texts(vh, exe, flats)}
    hist = {}
    nmiss = nexit = 0
    for c, a, b in rows[:len(cases)]:
        for h in c["hows"]:
            hist[h] = hist.get(h, 0) + 1
        res.count(json.dumps([c["main"], sorted(c["files"].items())]), nontrivial=bool(c["hows"]))
        tree = dict(cwd=c["cwd"], main=c["main"], paths=c["paths"], files=c["files"])
        if c["missing"] is not None:
            nmiss += 1
            if not a.startswith("ERR"):
                P.fail(res, "builder::build_file", c["flat"], "a failed build: %s exists in none of the searched directories" % c["missing"], a[:120], "missing-accepted", extra=dict(tree=tree))
            elif not a.endswith(" NAMED"):
                P.fail(res, "builder::build_file", c["flat"], "an error naming %s" % c["missing"], a[:120], "missing-unnamed", extra=dict(tree=tree))
            continue
        if any(".exit" in t for t in c["files"].values()):
            nexit += 1
        want = progrun.parse_obs(fobs[c["flat"]])
        got = progrun.parse_obs(a.replace(" NAMED", "").replace(" UNNAMED", ""))
        if want["kind"] != got["kind"]:
            P.fail(res, "builder::build_file", c["flat"], "same outcome as the pasted text: " + fobs[c["flat"]][:100], a[:120], "paste-differs", extra=dict(tree=tree))
        elif want["kind"] == "OK":
            w = (want["code"], want["eeprom"], want["flash"], want["eesize"], want["ram"], want["fill"], strip_lines(want["msgs"]))
            g = (got["code"], got["eeprom"], got["flash"], got["eesize"], got["ram"], got["fill"], strip_lines(got["msgs"]))
            if w != g:
                P.fail(res, "builder::build_file", c["flat"], "same images, sizes and messages as the pasted text: " + fobs[c["flat"]][:100], a[:120], "paste-differs", extra=dict(tree=tree))
    kinds = {}
    for c, a, b in rows:
        k = a.split(" ")[0]
        kinds[k] = kinds.get(k, 0) + 1
    res.extra["distribution"] = dict(placement=hist, missing_file_cases=nmiss, trees_with_exit=nexit, odd_path_cases=len(odd),
                                     **{"observations:" + k: v for k, v in kinds.items()})
    res.extra["exhaustive"] = False
    res.rule = ("a program of .equ/.macro/labels/conditionals/.device/.message/.dseg statements split into a tree of files up to 4 includes deep; each "
                "included file placed by one of: includer's directory, sub-directory path, path relative to the working directory, caller-supplied "
                "directory (absolute or relative), .includepath relative to the file containing it, absolute .includepath, absolute include, ./ and "
                "sub/../ spellings, .includepath made by an earlier included file; working directory = main's directory / its parent / unrelated with "
                "an absolute main; 25% of included files end with .exit followed by text that must not be assembled; 12% of trees name a file that exists "
                "nowhere searched; oracle = real build_str of the pasted text; plus odd-path / shadowing / depth trees for the correspondence only")
    ex = [c for c in cases if c["hows"]][:2]
    res.samples = [dict(main=c["main"], cwd=c["cwd"].replace(base, ""), files={p.replace(base, ""): t for p, t in list(c["files"].items())[:4]}, pasted=c["flat"][:300]) for c in ex]
    res.assume = ["no symbolic links, no trailing slash on a file name, UTF-8 file contents (Model/Fs.v does not model these)",
                  "which of several same-named files in different searched directories is taken is not stated by the property: compared between model and code only"]


match_known = P.match_known


def replay(path):
    r = json.load(open(path))
    i = r.get("input") or {}
    if "tree" not in i:
        print("replay: broken obligation %r - re-run ./check %s" % (r.get("obligation"), PROP))
        return 1
    vh = C.build_harness("debug")
    exe = C.build_model()
    t = i["tree"]
    old_root = os.path.commonpath(list(t["files"].keys()) + [t["cwd"]])
    new_root = fsrun.work_root() + "/replay"
    mv = lambda p: p.replace(old_root, new_root)
    case = dict(cwd=mv(t["cwd"]), main=mv(t["main"]), paths=[mv(p) for p in t["paths"]], dirs=[new_root],
                files={mv(p): x.replace(old_root, new_root) for p, x in t["files"].items()}, missing=None)
    try:
        (_, a, b), = fsrun.run_cases(vh, exe, [case])
    finally:
        fsrun.cleanup()
    (_, fa, _), = progrun.run_texts(vh, exe, [i["source"]])
    exp = r.get("expected", "")
    if exp.startswith("a failed build") or exp.startswith("an error naming"):
        bad = not a.startswith("ERR")
    else:
        w, g = progrun.parse_obs(fa), progrun.parse_obs(a)
        bad = w["kind"] != g["kind"] or (w["kind"] == "OK" and (w["code"], w["eeprom"], w["fill"]) != (g["code"], g["eeprom"], g["fill"]))
    if bad:
        print("VIOLATION property=%s replay=%s" % (PROP, path))
        return 1
    print("replay: property now holds on this input")
    return 0
