(** Kernel-checked sweep (vm_compute) of [sound_at] over the operand window, for every 12th
    mnemonic starting at 6, on both cores. *)
From Coq Require Import List.
Require Import AvraV.Proofs.RejCheck.
Lemma sweep : forallb check_name (every12 6 all_names) = true.
Proof. vm_compute. reflexivity. Qed.
