(* Extraction of the executable model and of the specification oracles for volume runs.
   ExtrOcamlBasic only: bool, option, list, prod, unit, sumbool map to the OCaml types;
   N/Z/positive/nat/ascii stay the extracted inductives.  No Extract Constant of ours. *)
Require Import AvraV.Model.Hex AvraV.Spec.HexReader.
Require Extraction.
Require Import ExtrOcamlBasic.
Extraction Language OCaml.
Extraction "avmodel.ml" Hex.write HexReader.holds_C07 HexReader.read_file.
