(** C15 - a failed build names the offending line; messages are kept in order.
    Property theorems only; proofs are in Proofs/ErrProofs.v. *)
From Coq Require Import List ZArith NArith String.
Import ListNotations.
Require Import AvraV.Model.Base AvraV.Model.Ast AvraV.Model.Eval AvraV.Model.Grammar AvraV.Model.Lines AvraV.Model.Parse AvraV.Model.Passes.
Require Import AvraV.Proofs.ErrProofs.

(** Errors are structured in the model ([Err (Some n)] = the text names line n), so attribution is a
    statement about every error site, for every item, state and program:
    - pass 2 (operand kind / range / count, undefined symbol in an instruction, a data directive or
      .set, value out of range, device gate, .undef of an unknown alias, .def of a non-register): *)
Theorem C15_pass2 : forall fuel t st cp it l,
  pass2_item fuel t st (cp, it) = Err l -> l = Some (fst cp).
Proof. exact pass2_item_err. Qed.
Print Assumptions C15_pass2.
(** - pass 1 (duplicate label, item in the wrong segment, address space): *)
Theorem C15_pass1 : forall t st cp it l,
  pass1_item t st (cp, it) = Err l -> l = Some (fst cp).
Proof. exact pass1_item_err. Qed.
Print Assumptions C15_pass1.
(** - the parse loop: a line that is not valid syntax: *)
Theorem C15_syntax : forall fuel inc g n l r skipped st,
  parse_line l = None -> parse_iter fuel inc (S g) ((n, l) :: r) skipped st = Err (Some (n + 1)%N).
Proof. exact syntax_error_line. Qed.
Print Assumptions C15_syntax.
(** - directives at parse time (unknown directive, wrong operand form, .if/.elif/.org with an
      undefined symbol, unknown or second .device, .error): the one exception, stated, is the
      "too many arguments" complaint of .byte, whose text carries no location: *)
Theorem C15_directive : forall fuel inc d ops st line l,
  (forall p s l', inc p s = Err l' -> l' = Some line) ->
  directive_parse fuel inc d ops st line = Err l ->
  l = Some line \/ (d = DByte /\ exists args, ops = OpList args /\ (1 < length args)%nat).
Proof. exact directive_err. Qed.
Print Assumptions C15_directive.

(** Messages: .message / .warning append exactly their text with their own line number and change
    nothing else (so images and sizes cannot depend on them); .error fails the build at its line. *)
Theorem C15_message : forall fuel inc d m st line,
  (d = DMessage \/ d = DWarning) ->
  directive_parse fuel inc d (OpList [PS m]) st line =
    Ok (with_msgs st (msgs st ++ [msg_text (match d with DMessage => "info" | _ => "warning" end)%string m line]), NewLine).
Proof. exact message_effect. Qed.
Theorem C15_error_directive : forall fuel inc m st line,
  directive_parse fuel inc DError (OpList [PS m]) st line = Err (Some line).
Proof. exact error_directive_fails. Qed.
Print Assumptions C15_message.

(** Line numbers: the i-th physical line of the source (every LF ends one; there is no continuation line) carries the number i,
    an unbounded natural number - the loop adds one and reports that: no width, no wrap-around, no joining of lines.  Messages
    with any text, the empty one included, are recorded ([C15_message] has no hypothesis on the text). *)
From Coq Require Import Lia.
Theorem C15_line_numbers : forall ls k i n t, nth_error (number_from k ls) i = Some (n, t) -> n = (k + N.of_nat i)%N /\ nth_error ls i = Some t.
Proof.
  induction ls as [|x r IH]; intros k i n t H; destruct i as [|i]; cbn [number_from nth_error] in H; try discriminate.
  - injection H as <- <-. split; [lia | reflexivity].
  - apply IH in H. destruct H as (-> & H). split; [lia | exact H].
Qed.
Theorem C15_lines_are_split_at_every_LF : forall a b, (forall c, In c a -> Grammar.code c <> 10%N) ->
  split_lines (a ++ Ascii.ascii_of_N 10 :: b) = (match rev a with cr :: a' => if (Grammar.code cr =? 13)%N then rev a' else a | [] => [] end) :: split_lines b.
Proof.
  intros a b Ha. unfold split_lines.
  assert (G : forall cur, split_lines_aux (a ++ Ascii.ascii_of_N 10 :: b) cur =
                          (match rev a ++ cur with cr :: c' => if (Grammar.code cr =? 13)%N then rev c' else rev (rev a ++ cur) | [] => [] end) :: split_lines_aux b []).
  { induction a as [|c a IH]; intros cur.
    - cbn [app split_lines_aux rev]. change (Grammar.code (Ascii.ascii_of_N 10) =? 10)%N with true. cbn iota. reflexivity.
    - cbn [app split_lines_aux]. destruct (Grammar.code c =? 10)%N eqn:E; [apply N.eqb_eq in E; exfalso; eapply Ha; [left; reflexivity | exact E]|].
      rewrite IH by (intros c' Hc'; apply Ha; right; exact Hc'). cbn [rev]. rewrite <- app_assoc. reflexivity. }
  rewrite G, app_nil_r. destruct (rev a) as [|cr a'] eqn:E; [reflexivity|].
  destruct (Grammar.code cr =? 13)%N; [reflexivity|]. rewrite <- E, rev_involutive. reflexivity.
Qed.
Print Assumptions C15_line_numbers.

Definition err_line (src : string) : option (option N) :=
  match build_str 200 (list_ascii_of_string src) with Err l => Some l | _ => None end.
Definition nl := String (Ascii.ascii_of_N 10) EmptyString.
Example C15_examples :
  err_line ("nop" ++ nl ++ " .db 256" ++ nl) = Some (Some 2%N) /\
  err_line ("nop" ++ nl ++ "nop" ++ nl ++ ".set a = b" ++ nl) = Some (Some 3%N) /\
  err_line (".if q" ++ nl ++ ".endif" ++ nl) = Some (Some 1%N) /\
  err_line ("l: nop" ++ nl ++ "l: nop" ++ nl) = Some (Some 2%N) /\
  err_line ("nop" ++ nl ++ " ldi r16, 300" ++ nl) = Some (Some 2%N) /\
  err_line ("nop" ++ nl ++ "nop nop" ++ nl) = Some (Some 2%N).
Proof. vm_compute. repeat split; reflexivity. Qed.
