(** C03 at program level: the instruction address the encoder computes a relative displacement
    from IS the address at which the instruction's words land in the image, and the labels the
    operand reads are the ones pass 1 placed (C02_label).  So "target = address + 1 + d" holds
    about the image, not only about one call of the encoder. *)
From Coq Require Import List NArith ZArith Bool Lia.
Import ListNotations.
Require Import AvraV.Model.Base AvraV.Model.Ast AvraV.Model.Device AvraV.Model.Eval AvraV.Model.Encode.
Require Import AvraV.Model.Parse AvraV.Model.Passes AvraV.Proofs.LayoutProofs.
Open Scope N_scope.

Lemma p2fold_app fuel t l1 l2 r : p2fold fuel t (l1 ++ l2) r = p2fold fuel t l2 (p2fold fuel t l1 r).
Proof. unfold p2fold. apply fold_left_app. Qed.

(** one instruction inside one code segment *)
Theorem instr_position fuel : forall ipre cp op args ipost c cur0 out0 c' fin out',
  Forall plain (ipre ++ (cp, IInstr op args) :: ipost) ->
  p1fold SCode (ipre ++ (cp, IInstr op args) :: ipost) (Ok (c, cur0, out0)) = Ok (c', fin, out') ->
  exists a kpre kpost, out' = (out0 ++ kpre ++ (cp, IInstr op args) :: kpost)%list /\ cur0 <= a /\
    forall c2 c2' fin2 frag, dev c2 = dev c ->
      p2fold fuel SCode (kpre ++ (cp, IInstr op args) :: kpost) (Ok (c2, cur0, [])) = Ok (c2', fin2, frag) ->
      exists ca bs_pre bs bs_post,
        frag = (bs_pre ++ bs ++ bs_post)%list /\ N.of_nat (length bs_pre) = 2 * (a - cur0) /\
        labels ca = labels c2 /\ equs ca = equs c2 /\ defines ca = defines c2 /\ dev ca = dev c2 /\
        process fuel (ctx_set_pc ca a) op args a = Ok bs.
Proof.
  intros ipre cp op args ipost c cur0 out0 c' fin out' Hp H.
  rewrite p1fold_app in H.
  assert (Ea : exists sa, p1fold SCode ipre (Ok (c, cur0, out0)) = Ok sa) by (unfold p1fold in H |- *; eapply fold_bind_ok; exact H).
  destruct Ea as ([[ca a] outa] & Ea). rewrite Ea in H. unfold p1fold in H. cbn [fold_left bind] in H.
  pose proof (fold_bind_ok _ _ _ _ H) as ([[cb curb] outb] & Eb). rewrite Eb in H.
  apply Forall_app in Hp. destruct Hp as (Hp1 & Hp2). inversion Hp2 as [|? ? Hpi Hp3]; subst.
  assert (Ht : SCode <> SData) by discriminate.
  destruct (items_agree fuel _ Ht _ _ _ _ _ _ _ Hp1 Ea) as (Da & La & kpre & -> & Hpre).
  assert (Hb : cb = ca /\ outb = ((out0 ++ kpre) ++ [(cp, IInstr op args)])%list).
  { unfold pass1_item in Eb. cbn [fst] in Eb. apply bind_ok in Eb. destruct Eb as (x & _ & Eb). injection Eb as <- _ <-. auto. }
  destruct Hb as (-> & ->).
  destruct (items_agree fuel _ Ht _ _ _ _ _ _ _ Hp3 H) as (Dz & Lz & kpost & -> & Hpost).
  exists a, kpre, kpost. split; [rewrite <- !app_assoc; reflexivity|]. split; [exact La|].
  intros c2 c2' fin2 frag Hd H2.
  rewrite p2fold_app in H2.
  assert (E1 : exists s1, p2fold fuel SCode kpre (Ok (c2, cur0, [])) = Ok s1) by (unfold p2fold in H2 |- *; eapply fold_bind_ok; exact H2).
  destruct E1 as ([[cx curx] outx] & E1). rewrite E1 in H2.
  destruct (Hpre _ _ _ _ _ Hd E1) as (Dx & -> & bs_pre & Hbs & Lpre). cbn [app] in Hbs. subst outx.
  pose proof (p2fold_labels _ _ _ _ _ _ _ _ _ E1) as (Lab & Eq & Df).
  unfold p2fold in H2. cbn [fold_left bind] in H2.
  pose proof (fold_bind_ok _ _ _ _ H2) as ([[cy cury] outy] & E2). rewrite E2 in H2.
  assert (Hi : exists bs, process fuel (ctx_set_pc cx a) op args a = Ok bs /\ cy = ctx_set_pc cx a /\ outy = (bs_pre ++ bs)%list /\
                          cury = a + N.of_nat (length bs) / 2).
  { unfold pass2_item in E2. cbn [fst] in E2. destruct (check_instruction _ _ _); [|discriminate].
    apply bind_ok in E2. destruct E2 as (bs & Hb & E2). apply with_line_ok in Hb.
    apply bind_ok in E2. destruct E2 as (a2 & Ha & E2). apply add32_ok in Ha. injection E2 as <- <- <-. eauto. }
  destruct Hi as (bs & Hproc & -> & -> & ->).
  (* the rest only appends *)
  assert (Hcur : curb = a + N.of_nat (length bs) / 2).
  { unfold pass1_item in Eb. cbn [fst] in Eb. apply bind_ok in Eb. destruct Eb as (x & Hx & Eb). apply advance_ok in Hx.
    destruct Hx as (-> & _). injection Eb as <-.
    pose proof (process_len _ _ _ _ _ _ Hproc) as Hlen. rewrite dev_set_pc in Hlen.
    replace (dev cx) with (dev ca) in Hlen by congruence.
    destruct op; try (exfalso; exact Hpi); rewrite Hlen; reflexivity. }
  assert (Dy : dev (ctx_set_pc cx a) = dev ca) by (rewrite dev_set_pc; congruence).
  subst curb.
  destruct (Hpost _ _ _ _ _ Dy H2) as (_ & _ & bs_post & -> & _).
  exists cx, bs_pre, bs, bs_post. split; [rewrite <- app_assoc; reflexivity|]. split; [exact Lpre|].
  repeat split; assumption.
Qed.

(** the same inside a whole program: wherever the segment stands in the list *)
Theorem instr_lands fuel c segs r1 r2 :
  pass1 c segs = Ok r1 -> pass2 fuel (p1_ctx r1) (p1_segs r1) = Ok r2 -> Forall plain_seg segs ->
  2 * flash_size (dev c) < lim31 -> eeprom_size (dev c) < lim31 ->
  forall pre sg post ipre cp op args ipost,
    segs = (pre ++ sg :: post)%list -> seg_t sg = SCode -> items sg = (ipre ++ (cp, IInstr op args) :: ipost)%list ->
  exists a ca before bs after,
    p2_code r2 = (before ++ bs ++ after)%list /\ N.of_nat (length before) = 2 * a /\
    labels ca = labels (p1_ctx r1) /\ equs ca = equs (p1_ctx r1) /\ defines ca = defines (p1_ctx r1) /\ dev ca = dev c /\
    process fuel (ctx_set_pc ca a) op args a = Ok bs.
Proof.
  intros H1 H2 Hp Bf Be pre sg post ipre cp op args ipost Hsegs Et Hit.
  destruct (layout fuel c segs r1 r2 H1 H2 Hp Bf Be) as (_ & _ & Hlay).
  assert (Hnd : seg_t sg <> SData) by (rewrite Et; discriminate).
  destruct (Hlay pre sg post Hsegs Hnd) as (sg2 & fin & c2 & c2' & frag & before & after & Hnth2 & Ht2 & _ & Hf & Himg & Lb & _ & (Hlab & Hequ & Hdef) & Hdev).
  rewrite Et in Himg, Lb. cbn [unit_of] in Lb. rewrite Ht2, Et in Hf.
  (* the pass-1 side, as in [label_lands] *)
  subst segs. rewrite pass1_unfold in H1.
  apply bind_ok in H1. destruct H1 as ([[[[c' co'] dofs'] eo'] out'] & F1 & H1).
  destruct (flash_size (dev c) <? co'); [discriminate|]. destruct (eeprom_size (dev c) <? eo'); [discriminate|].
  destruct (ram_size (dev c) <? dofs' - ram_start (dev c)); [discriminate|]. injection H1 as <-. cbn [p1_segs p1_ctx] in *.
  rewrite fold_left_app in F1. cbn [fold_left] in F1.
  pose proof (p1steps_ok _ _ _ F1) as ([[[[cb cob] dofsb] eob] outb] & Eb). rewrite Eb in F1.
  pose proof (p1step_ok _ _ _ Eb) as ([[[[ca coa] dofsa] eoa] outa] & Ea). rewrite Ea in Eb.
  apply Forall_app in Hp. destruct Hp as (Hp1 & Hp2). inversion Hp2 as [|? ? Hps Hp3]; subst.
  destruct (passes_agree fuel _ _ _ _ _ _ _ _ _ _ _ Hp1 Ea) as (Da & _ & _ & npre & Hna & Lpre & _). cbn [app] in Hna. subst outa.
  destruct (passes_agree fuel _ _ _ _ _ _ _ _ _ _ _ Hp3 F1) as (_ & _ & _ & npost & Hnz & _ & _).
  unfold p1step in Eb. cbn [bind] in Eb. apply bind_ok in Eb. destruct Eb as ([[c1 fin1] sg'] & Hs & Eb).
  assert (Hout : outb = (npre ++ [sg'])%list) by (destruct (seg_t sg); injection Eb as _ _ _ _ <-; reflexivity).
  subst outb. clear Eb.
  assert (Hsame : sg2 = sg').
  { subst out'. rewrite <- app_assoc, nth_error_app2 in Hnth2 by lia. rewrite Lpre, Nat.sub_diag in Hnth2. cbn in Hnth2. congruence. }
  subst sg2.
  unfold pass1_segment in Hs. apply bind_ok in Hs. destruct Hs as (start & Hst & Hs).
  apply bind_ok in Hs. destruct Hs as ([[cf fin'] outf] & Hfold & Hs). injection Hs as <- <- <-. cbn [address items] in *.
  rewrite Hit, Et in Hfold. unfold plain_seg in Hps. rewrite Hit in Hps. fold (p1fold SCode) in Hfold.
  destruct (instr_position fuel _ _ _ _ _ _ _ _ _ _ _ Hps Hfold) as (a & kpre & kpost & -> & La & Hk).
  cbn [app] in Hf. assert (Hd2 : dev c2 = dev ca) by congruence.
  destruct (Hk _ _ _ _ Hd2 Hf) as (cx & bs_pre & bs & bs_post & -> & Lpre2 & A & B & D & E & Hproc).
  exists a, cx, (before ++ bs_pre)%list, bs, (bs_post ++ after)%list.
  split; [rewrite Himg, <- !app_assoc; reflexivity|].
  split; [rewrite app_length, Nat2N.inj_add, Lb, Lpre2; lia|].
  repeat split; try congruence.
Qed.

(** ---- composition with the encoder theorem: the relative jump in the image reaches the named target ---- *)
Require Import AvraV.Spec.Isa AvraV.Proofs.EncCheck AvraV.Proofs.EncProofs AvraV.Proofs.SymProofs.

(** a name bound only as a label reads as the label's position, as an operand value *)
Lemma label_reference fuel cx L seg t :
  get_define cx L = None -> get_equ cx L = None -> get_set cx L = None -> get_special cx L = None -> get_def cx L = None ->
  lookup (lower L) (labels cx) = Some (seg, t) ->
  view_of (S fuel) cx (OE (EIdent L)) = wview (WExp (Z.of_N t)).
Proof.
  intros H1 H2 H3 H4 H5 Hl. unfold view_of, wview. cbn [get_r8 get_val get_index]. rewrite H5.
  unfold run. cbn [run_n]. unfold get_expr, get_label. rewrite H1, H2, H3, H4, Hl. reflexivity.
Qed.

Theorem branch_in_program (k : core) (s : spelling) fuel c segs r1 r2 :
  pass1 c segs = Ok r1 -> pass2 fuel (p1_ctx r1) (p1_segs r1) = Ok r2 -> Forall plain_seg segs ->
  2 * flash_size (dev c) < lim31 -> eeprom_size (dev c) < lim31 ->
  (In s spellings /\ rel_op (op_of (sp_name s)) = true) -> is_avr8l (dev c) = isred k ->
  forall pre sg post ipre cp args ipost,
    segs = (pre ++ sg :: post)%list -> seg_t sg = SCode ->
    items sg = (ipre ++ (cp, IInstr (op_of (sp_name s)) args) :: ipost)%list ->
  exists a cx before bs after,
    p2_code r2 = (before ++ bs ++ after)%list /\ N.of_nat (length before) = 2 * a /\
    labels cx = labels (p1_ctx r1) /\ equs cx = equs (p1_ctx r1) /\ defines cx = defines (p1_ctx r1) /\ dev cx = dev c /\
    get_special cx (lit "pc") = Some (EConst (Z.of_N a)) /\
    forall (pre_w : list warg) (t : Z),
      map (view_of fuel cx) args = map wview (pre_w ++ [WExp t])%list ->
      fits (sp_ops s) (pre_w ++ [WExp (t - (Z.of_N a + 1))%Z])%list = true ->
      exists words, bs = bytes_of words /\
        decode k words = canon_norm (sp_name s) (pre_w ++ [WExp (t - (Z.of_N a + 1))%Z])%list.
Proof.
  intros H1 H2 Hp Bf Be Hs Hk pre sg post ipre cp args ipost Hsegs Et Hit.
  destruct (instr_lands fuel c segs r1 r2 H1 H2 Hp Bf Be pre sg post ipre cp _ args ipost Hsegs Et Hit)
    as (a & ca & before & bs & after & Himg & Lb & A & B & D & E & Hproc).
  exists a, (ctx_set_pc ca a), before, bs, after.
  split; [exact Himg|]. split; [exact Lb|]. split; [exact A|]. split; [exact B|]. split; [exact D|]. split; [exact E|].
  split; [unfold get_special, ctx_set_pc; cbn [special]; change (lower (lit "pc")) with (lit "pc"); apply lookup_insert_same|].
  intros pre_w t Hv Hf.
  assert (Hd : is_avr8l (dev (ctx_set_pc ca a)) = isred k) by (rewrite dev_set_pc, E; exact Hk).
  destruct (branch_reachable k s fuel (ctx_set_pc ca a) args pre_w t (Z.of_N a) Hs Hd (N2Z.is_nonneg a) Hf Hv) as (words & He & Hdec).
  rewrite N2Z.id, Hproc in He. injection He as ->. eauto.
Qed.

(** ... and no image contains a relative jump whose target is out of reach *)
Theorem branch_fits_in_program fuel c segs r1 r2 :
  pass1 c segs = Ok r1 -> pass2 fuel (p1_ctx r1) (p1_segs r1) = Ok r2 -> Forall plain_seg segs ->
  2 * flash_size (dev c) < lim31 -> eeprom_size (dev c) < lim31 ->
  forall pre sg post ipre cp op args ipost,
    segs = (pre ++ sg :: post)%list -> seg_t sg = SCode -> rel_op op = true ->
    items sg = (ipre ++ (cp, IInstr op args) :: ipost)%list ->
  exists a cx before bs after,
    p2_code r2 = (before ++ bs ++ after)%list /\ N.of_nat (length before) = 2 * a /\ labels cx = labels (p1_ctx r1) /\
    forall (vs0 : list view) (t : Z),
      map (view_of fuel cx) args = (vs0 ++ [wview (WExp t)])%list ->
      (- 2 ^ (rel_bits op - 1) <= t - (Z.of_N a + 1) < 2 ^ (rel_bits op - 1))%Z.
Proof.
  intros H1 H2 Hp Bf Be pre sg post ipre cp op args ipost Hsegs Et Hrel Hit.
  destruct (instr_lands fuel c segs r1 r2 H1 H2 Hp Bf Be pre sg post ipre cp _ args ipost Hsegs Et Hit)
    as (a & ca & before & bs & after & Himg & Lb & A & B & D & E & Hproc).
  exists a, (ctx_set_pc ca a), before, bs, after.
  split; [exact Himg|]. split; [exact Lb|]. split; [exact A|].
  intros vs0 t Hv.
  destruct (Z_le_dec (- 2 ^ (rel_bits op - 1)) (t - (Z.of_N a + 1))) as [Hlo|Hlo];
    [destruct (Z_lt_dec (t - (Z.of_N a + 1)) (2 ^ (rel_bits op - 1))) as [Hhi|Hhi]; [split; assumption|]|].
  all: exfalso;
    assert (Hout : ~ (- 2 ^ (rel_bits op - 1) <= t - (Z.of_N a + 1) < 2 ^ (rel_bits op - 1))%Z) by lia;
    pose proof (rel_reject (is_avr8l (dev (ctx_set_pc ca a))) op vs0 t (Z.of_N a) Hrel (N2Z.is_nonneg a) Hout) as Hr;
    rewrite N2Z.id, <- Hv in Hr; unfold process in Hproc; rewrite Hproc in Hr; discriminate.
Qed.
