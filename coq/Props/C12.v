(** C12 - memory capacity limits of the selected device are enforced exactly.
    Property theorems only (the proofs are short unfoldings and are given here). *)
From Coq Require Import List ZArith NArith String Bool Lia.
Import ListNotations.
Require Import AvraV.Model.Fs AvraV.Model.Base AvraV.Model.Ast AvraV.Model.Device AvraV.Model.Eval AvraV.Model.Parse AvraV.Model.Passes.
Require Import AvraV.Gen.Devices AvraV.Gen.IncParts.
Open Scope N_scope.

(** what the passes produced *)
Definition passes (fuel : nat) (inc : str -> pstate -> res pstate) (st : pstate) : res (pstate * p1 * p2) :=
  do s0 <- pass0 fuel inc (macros st) 64 (non_empty (segs st))
             {| segs := []; macro_name := []; macros := []; msgs := msgs st; pcx := pcx st; fl := fl_empty |};
  do r1 <- pass1 (pcx s0) (non_empty (segs s0));
  do r2 <- pass2 fuel (p1_ctx r1) (p1_segs r1);
  Ok (s0, r1, r2).

(** The build succeeds IF AND ONLY IF the passes succeed and the three extents fit the device that
    is selected (the default one when none is): flash image <= 2 * flash words, EEPROM image <=
    EEPROM bytes, extent of the data segment <= RAM bytes; and a successful build reports exactly
    that device's sizes, the images of pass 2 and the RAM extent of pass 1.  For every program. *)
Theorem C12_limits : forall fuel inc st b,
  build_from_parsed fuel inc st = Ok b <->
  exists s0 r1 r2, passes fuel inc st = Ok (s0, r1, r2) /\
    let d := dev (p2_ctx r2) in
    N.of_nat (length (p2_code r2)) <= 2 * flash_size d /\
    N.of_nat (length (p2_eeprom r2)) <= eeprom_size d /\
    p1_ram r1 <= ram_size d /\
    b = {| b_code := p2_code r2; b_eeprom := p2_eeprom r2; b_flash := flash_size d; b_eeprom_size := eeprom_size d;
           b_ram := ram_size d; b_ram_filling := p1_ram r1; b_messages := msgs s0 |}.
Proof.
  intros fuel inc st b. unfold build_from_parsed, passes.
  destruct (pass0 _ _ _ _ _ _) as [s0| | |]; cbn [bind]; try (split; [discriminate | intros (? & ? & ? & H & _); discriminate]).
  destruct (pass1 _ _) as [r1| | |]; cbn [bind]; try (split; [discriminate | intros (? & ? & ? & H & _); discriminate]).
  destruct (pass2 _ _ _) as [r2| | |]; cbn [bind]; try (split; [discriminate | intros (? & ? & ? & H & _); discriminate]).
  split.
  - intros H.
    destruct (flash_size (dev (p2_ctx r2)) * 2 <? N.of_nat (length (p2_code r2))) eqn:E1; [discriminate|].
    destruct (eeprom_size (dev (p2_ctx r2)) <? N.of_nat (length (p2_eeprom r2))) eqn:E2; [discriminate|].
    destruct (ram_size (dev (p2_ctx r2)) <? p1_ram r1) eqn:E3; [discriminate|].
    injection H as <-. exists s0, r1, r2. split; [reflexivity|]. cbv zeta.
    apply N.ltb_ge in E1, E2, E3. repeat split; try lia.
  - intros (s0' & r1' & r2' & H & Hb). injection H as <- <- <-. cbv zeta in Hb. destruct Hb as (H1 & H2 & H3 & ->).
    replace (flash_size (dev (p2_ctx r2)) * 2 <? N.of_nat (length (p2_code r2))) with false by (symmetry; apply N.ltb_ge; lia).
    replace (eeprom_size (dev (p2_ctx r2)) <? N.of_nat (length (p2_eeprom r2))) with false by (symmetry; apply N.ltb_ge; lia).
    replace (ram_size (dev (p2_ctx r2)) <? p1_ram r1) with false by (symmetry; apply N.ltb_ge; lia).
    reflexivity.
Qed.
Print Assumptions C12_limits.

(** RAM usage is the extent of the data segment: the final data location counter minus the RAM
    start of the device, as computed by pass 1 (and pass 1 itself refuses a layout that exceeds a
    memory, before anything is emitted). *)
Theorem C12_pass1_capacity : forall c segments r,
  pass1 c segments = Ok r -> p1_ram r <= ram_size (dev c).
Proof.
  intros c segments r. unfold pass1.
  destruct (fold_left _ _ _) as [[[[[c' co] dofs] eo] out]| | |]; cbn [bind]; try discriminate.
  destruct (flash_size (dev c) <? co); [discriminate|].
  destruct (eeprom_size (dev c) <? eo); [discriminate|].
  destruct (ram_size (dev c) <? dofs - ram_start (dev c)) eqn:E; [discriminate|].
  intros [= <-]. cbn [p1_ram]. apply N.ltb_ge in E. exact E.
Qed.
Print Assumptions C12_pass1_capacity.

(** Selecting a device: unknown names and a second selection are errors naming the line. *)
Theorem C12_device_once : forall fuel inc st line name,
  (lookup name devices = None \/ device_eqb (dev (pcx st)) default_device = false) ->
  directive_parse fuel inc DDevice (OpList [PE (EIdent name)]) st line = Err (Some line).
Proof.
  intros fuel inc st line name H. unfold directive_parse. cbn [first_op hd_error].
  destruct (lookup name devices); [|reflexivity]. destruct H as [H | H]; [discriminate|]. rewrite H. reflexivity.
Qed.
Print Assumptions C12_device_once.

(** ... and nothing but .device selects or alters it: every other directive (.csegsize, .org, #pragma, .define, .equ, ... - all of
    them except .include, which hands over to another file) leaves the selected device, hence the capacities the build is held to
    and reports, exactly as it was. *)
Require Import AvraV.Proofs.SpliceProofs.
Theorem C12_only_device_selects : forall fuel inc d ops st line st' ni,
  d <> DDevice -> d <> DInclude ->
  directive_parse fuel inc d ops st line = Ok (st', ni) -> dev (pcx st') = dev (pcx st).
Proof. exact directive_keeps_device. Qed.
Print Assumptions C12_only_device_selects.

(** Every shipped part-definition file whose device is in the table declares the figures the table
    enforces (regenerated from includes/*def.inc and from the table on every run). *)
Definition agrees (o : option N) (v : N) : bool := match o with Some x => x =? v | None => true end.
Theorem C12_parts :
  forallb (fun p => let '(_, name, fl, rs, rz, ee) := p in
                    match lookup name devices with
                    | Some d => agrees fl (flash_size d) && agrees rs (ram_start d) && agrees rz (ram_size d) && agrees ee (eeprom_size d)
                    | None => true
                    end) inc_parts = true.
Proof. vm_compute. reflexivity. Qed.

Definition builds (src : string) : bool := is_ok (build_str 200 (list_ascii_of_string src)).
Definition nl := String (Ascii.ascii_of_N 10) EmptyString.
Example C12_examples :
  builds (".device ATtiny13" ++ nl ++ ".org 511" ++ nl ++ "nop" ++ nl) = true /\
  builds (".device ATtiny13" ++ nl ++ ".org 512" ++ nl ++ "nop" ++ nl) = false /\
  builds (".device ATtiny13" ++ nl ++ ".dseg" ++ nl ++ ".byte 64" ++ nl) = true /\
  builds (".device ATtiny13" ++ nl ++ ".dseg" ++ nl ++ ".byte 65" ++ nl) = false /\
  builds (".device ATtiny13" ++ nl ++ ".eseg" ++ nl ++ ".byte 64" ++ nl) = true /\
  builds (".device ATtiny13" ++ nl ++ ".eseg" ++ nl ++ ".byte 65" ++ nl) = false /\
  (0 <? N.of_nat (length (filter (fun p => match lookup (snd (fst (fst (fst (fst p))))) devices with Some _ => true | None => false end) inc_parts))) = true.
Proof. vm_compute. repeat split; reflexivity. Qed.
