(** C01/C03/C04: the executable cross-check between the encoder model and the ISA table, and the
    enumerations over which it is swept.  Definitions only; the sweeps and their lifting to
    universally quantified statements are in EncSweep*.v / EncProofs.v. *)
From Coq Require Import List NArith ZArith Bool String Lia.
Import ListNotations.
Require Import AvraV.Model.Base AvraV.Model.Ast AvraV.Model.Device AvraV.Model.Eval AvraV.Model.Encode.
Require Import AvraV.Spec.Isa.
Local Open Scope Z_scope.

(** the three accessor answers for an operand that is written as a register, a value, an index form *)
Definition idx_view (f : idxf) : vidx :=
  match f with
  | FX => VNone RX | FXp => VPostInc RX | FmX => VPreDec RX
  | FY => VNone RY | FYp => VPostInc RY | FmY => VPreDec RY
  | FZ => VNone RZ | FZp => VPostInc RZ | FmZ => VPreDec RZ
  end.
Definition wview (w : warg) : view :=
  match w with
  | WReg n => {| v_r8 := Ok (Z.to_N n); v_val := Err None; v_idx := Err None |}
  | WExp v => {| v_r8 := Err None; v_val := Ok v; v_idx := Err None |}
  | WIdx f => {| v_r8 := Err None; v_val := Err None; v_idx := Ok (idx_view f) |}
  | WIdxQ y q => {| v_r8 := Err None; v_val := Err None; v_idx := Ok (VDisp (if y then RY else RZ) (Ok q)) |}
  | WOther => {| v_r8 := Err None; v_val := Err None; v_idx := Err None |}
  end.

Definition op_of (name : string) : operation := operation_of_name (list_ascii_of_string name).
Definition isred (c : core) : bool := match c with Reduced => true | Full => false end.

(** relative operations take a target; the specification takes the displacement *)
Definition rel_op (o : operation) : bool := match o with ORjmp | ORcall | OBr _ => true | _ => false end.
Definition at_pc (pc : Z) (o : operation) (w : list warg) : list warg :=
  if rel_op o then shift_last (pc + 1) w else w.

Definition bytes_of (ws : list Z) : list N := flat_map (fun w => [Z.to_N (w mod 256); Z.to_N (w / 256)]) ws.

Definition res_bytes_eqb (r : res (list N)) (b : list N) : bool :=
  match r with Ok x => list_eqb N.eqb x b | _ => false end.

Definition warg_eqb (a b : warg) : bool :=
  match a, b with
  | WReg x, WReg y | WExp x, WExp y => x =? y
  | WIdx f, WIdx g => idxf_eqb f g
  | WIdxQ y q, WIdxQ y' q' => Bool.eqb y y' && (q =? q')
  | WOther, WOther => true
  | _, _ => false
  end.
Definition stmt_eqb (a b : option (string * list warg)) : bool :=
  match a, b with
  | Some (n, w), Some (n', w') => String.eqb n n' && list_eqb warg_eqb w w'
  | _, _ => false
  end.

(** On the reduced core the one-word lds/sts occupy part of the encoding space that ldd/std with a
    displacement use on the full core (the reduced core has no ldd/std); the assembler's device
    table does not disable them there, so the encoding is still checked, only the decoder
    round trip is not claimed for those words. *)
Definition is_ldst (o : operation) : bool := match o with OLd | OLdd | OSt | OStd => true | _ => false end.
Definition dec_exempt (c : core) (name : string) (w : list warg) : bool :=
  match c with Reduced => is_ldst (operation_of_name (list_ascii_of_string name)) | Full => false end.

(** one instance: the ISA encodes it, the model emits exactly those bytes (low byte first, the
    table's word count), and the independent decoder gives the statement back *)
Definition ok_at (c : core) (name : string) (w : list warg) : bool :=
  match expect c name w with
  | Some ws =>
      res_bytes_eqb (process_v (isred c) (op_of name) (map wview (at_pc 0 (op_of name) w)) 0) (bytes_of ws)
      && (dec_exempt c name w || stmt_eqb (decode c ws) (canon_norm name w))
  | None => false
  end.

(** ---- enumerations ---- *)
Fixpoint zrange (n : nat) (a : Z) : list Z := match n with O => [] | S m => a :: zrange m (Z.succ a) end.
Definition small_kind (k : immkind) : bool := match k with KU bits => bits <=? 8 | KAddr _ => false | _ => true end.
Definition enum_op (p : opspec) : list warg :=
  match p with
  | PReg _ c => filter (fun w => match enc_op p w with Some _ => true | None => false end) (map WReg (zrange 32 0))
  | PExp _ KImm8 => map WExp (zrange 384 (-128))
  | PExp _ (KU bits) => map WExp (zrange (Z.to_nat (2 ^ bits)) 0)
  | PExp _ (KRel bits) => map WExp (zrange (Z.to_nat (2 ^ bits)) (- 2 ^ (bits - 1)))
  | PExp _ (KAddr _) => []
  | PExp _ KRAddr => map WExp (zrange 128 64)
  | PIdx f => [WIdx f]
  | PIdxQ y => map (WIdxQ y) (zrange 64 0)
  end.
Fixpoint enum_ops (ps : list opspec) : list (list warg) :=
  match ps with
  | [] => [[]]
  | p :: r => flat_map (fun w => map (cons w) (enum_ops r)) (enum_op p)
  end.
Definition small_sp (s : spelling) : bool :=
  forallb (fun p => match p with PExp _ k => small_kind k | _ => true end) (sp_ops s).
Definition core_list (s : coresel) : list core :=
  match s with CAny => [Full; Reduced] | CFull => [Full] | CReduced => [Reduced] end.
Definition check_sp (s : spelling) : bool :=
  forallb (fun c => forallb (ok_at c (sp_name s)) (enum_ops (sp_ops s))) (core_list (sp_core s)).
