(** C09 - a macro call behaves as its body with the call's arguments substituted (examples; theorems follow). *)
From Coq Require Import List ZArith NArith String.
Import ListNotations.
Require Import AvraV.Model.Base AvraV.Model.Ast AvraV.Model.Passes.
Definition code_of (src : string) : option (list N) :=
  match build_str 200 (list_ascii_of_string src) with Ok b => Some (b_code b) | _ => None end.
Definition nl := String (Ascii.ascii_of_N 10) EmptyString.
Example C09_examples :
  code_of (".macro Tri" ++ nl ++ " .dw @0 * 3" ++ nl ++ ".endm" ++ nl ++ " TRI 1+2" ++ nl) = Some [9; 0]%N /\
  code_of (".macro negw" ++ nl ++ " .dw -@0" ++ nl ++ ".endm" ++ nl ++ " negw 1+2" ++ nl) = Some [253; 255]%N /\
  code_of (" nosuchmacro 1" ++ nl) = None /\
  code_of (".macro m" ++ nl ++ " ldi r16, @0" ++ nl ++ ".endm" ++ nl ++ " m" ++ nl) = None.
Proof. vm_compute. repeat split; reflexivity. Qed.
