(** fmt::Display of operands (src/expr.rs, src/instruction/mod.rs, register.rs): the text a macro
    argument is turned into before it is substituted for @n. *)
Require Import AvraV.Model.Base AvraV.Model.Ast AvraV.Model.Show AvraV.Model.Climb.

Definition show_reg16 (r : reg16) : str := match r with RX => lit "x" | RY => lit "y" | RZ => lit "z" end.
Fixpoint display_expr (e : Ast.expr) : str :=
  (match e with
   | EIdent n => n
   | EConst z => show_Z z
   | EFunc f a => display_expr f ++ lit "(" ++ display_expr a ++ lit ")"
   | EBin l o r => lit "(" ++ display_expr l ++ lit (binop_tok o) ++ display_expr r ++ lit ")"
   | EUn o x => lit "(" ++ lit (unop_tok o) ++ display_expr x ++ lit ")"
   end)%list.
Definition display_index (i : index) : str :=
  (match i with
   | INone r => show_reg16 r
   | IPostInc r => show_reg16 r ++ lit "+"
   | IPreDec r => lit "-" ++ show_reg16 r
   | IPostIncE r e => show_reg16 r ++ lit "+" ++ display_expr e
   end)%list.
Definition display_iop (a : iop) : str :=
  match a with
  | OR8 n => (lit "r" ++ show_N n)%list
  | OIndex i => display_index i
  | OE e => display_expr e
  end.

(** str::replace: non-overlapping occurrences, left to right *)
Fixpoint replace_all (fuel : nat) (pat rep s : str) : str :=
  match fuel with
  | O => s
  | S f =>
      match s with
      | [] => []
      | c :: r =>
          match pat with
          | [] => s
          | _ => match strip pat s with
                 | Some r' => (rep ++ replace_all f pat rep r')%list
                 | None => c :: replace_all f pat rep r
                 end
          end
      end
  end.
Definition replace (pat rep s : str) : str := replace_all (S (length s)) pat rep s.
