"""C12 - memory capacity limits of the selected device are enforced exactly.
Search oracle: for every device row (regenerated from /repo) x each memory: usage cap-1 / cap builds and reports the
row's sizes and the RAM usage, cap+1 fails; every shipped part-definition file x the figures it declares."""
import glob
import os
import re

from . import common as C, gen, progcheck as P, progrun

PROP = "C12"


def inc_parts():
    """(file, device name, flash words, ram start, ram size, eeprom bytes) from includes/*def.inc"""
    out = []
    for f in sorted(glob.glob(os.path.join(C.REPO, "includes", "*def.inc"))):
        txt = open(f, errors="replace").read()
        m = re.search(r"^\s*\.device\s+(\w+)", txt, re.M | re.I)
        if not m:
            continue

        def val(name):
            mm = re.search(r"^\s*\.equ\s+%s\s*=\s*(0x[0-9a-fA-F]+|\$[0-9a-fA-F]+|\d+)" % name, txt, re.M | re.I)
            if not mm:
                return None
            s = mm.group(1)
            return int(s[1:], 16) if s.startswith("$") else int(s, 0)
        flashend, sram_start, sram_size, ramend, e2end = val("FLASHEND"), val("SRAM_START"), val("SRAM_SIZE"), val("RAMEND"), val("E2END")
        if sram_size is None and ramend is not None and sram_start is not None:
            sram_size = ramend - sram_start + 1
        out.append((os.path.basename(f), m.group(1), None if flashend is None else flashend + 1, sram_start, sram_size,
                    None if e2end is None else (0 if e2end == 0 else e2end + 1)))
    return out


def run_cli_report(res, devs):
    """what the command-line tool PRINTS about a build (-v): usage and capacity of the three memories = the selected device's row"""
    import os
    import re
    import shutil
    import subprocess
    from . import c18, common as C
    binary, env = c18.build_bin()
    work = os.path.join(C.BUILD, "work", "c12cli-%d" % os.getpid())
    shutil.rmtree(work, ignore_errors=True)
    os.makedirs(work)
    n = 0
    for name, flash, rstart, rsize, eep, _ in devs:
        text = (".device %s\n" % name if name != "-" else "") + " nop\n nop\n"
        used_e = used_r = 0
        if eep > 0:
            text += ".eseg\n .db 1, 2, 3\n"
            used_e = 3
        if rsize > 0:
            text += ".dseg\n .byte 2\n"
            used_r = 2
        src = os.path.join(work, "d%d.asm" % n)
        n += 1
        open(src, "w").write(text)
        p = subprocess.run([binary, "-s", src, "-v"], cwd=work, env=env, stdout=subprocess.PIPE, stderr=subprocess.STDOUT, text=True, timeout=60)
        got = {}
        for ln in p.stdout.splitlines():
            m = re.match(r"Flash: (\d+)\((\d+)\) words\(bytes\) of (\d+)\((\d+)\)", ln)
            if m:
                got["flash"] = tuple(int(x) for x in m.groups())
            m = re.match(r"EEPROM: (\d+) bytes of (\d+)", ln)
            if m:
                got["eeprom"] = tuple(int(x) for x in m.groups())
            m = re.match(r"RAM: (\d+) bytes of (\d+)", ln)
            if m:
                got["ram"] = tuple(int(x) for x in m.groups())
        want = dict(flash=(2, 4, flash, 2 * flash), eeprom=(used_e, eep), ram=(used_r, rsize))
        res.count(("cli-report", name), nontrivial=True)
        if p.returncode != 0 or got != want:
            res.failing.append(dict(interface="avra-rs binary -v", input=dict(source=text, device=name), expected="exit 0 and the report %s" % want,
                                    observed="exit %d, report %s" % (p.returncode, got), cls="cli-report"))
    shutil.rmtree(work, ignore_errors=True)
    res.extra.setdefault("distribution", {})["cli_reports"] = n


def run(res):
    vh, exe = P.base(res, PROP)
    devs = gen.read_devices(vh)
    from . import devspec
    devspec.check(res, devs, ("flash words", "RAM start", "RAM bytes", "EEPROM bytes"))
    run_cli_report(res, devs)
    default, table = devs[0], devs[1:]
    cases = []   # (text, expect 'OK'/'ERR', device row, kind)
    for name, flash, rstart, rsize, eep, _ in table:
        head = ".device %s\n" % name
        for delta, exp in ((-1, "OK"), (0, "OK"), (1, "ERR")):
            w = flash + delta
            cases.append((head + ".org %d\nnop\n" % (w - 1), exp, name, "flash/org+code"))
            if w <= 5000:
                cases.append((head + ".dw 1\n" * w, exp, name, "flash/data"))
                cases.append((head + "nop\n" * (w - 2) + "jmp 0\n" if "NoJmp" not in devs[[d[0] for d in devs].index(name)][5] else head + "nop\n" * w, exp, name, "flash/code"))
            e = eep + delta
            if e >= 1:
                cases.append((head + ".eseg\n.org %d\n.db 1\n" % (e - 1), exp, name, "eeprom/org+data"))
                cases.append((head + ".eseg\n.byte %d\n" % e, exp, name, "eeprom/reserve"))
            elif e == 0 and delta == 0:
                cases.append((head + ".eseg\n", "OK", name, "eeprom/empty"))
            r = rsize + delta
            if r >= 0:
                cases.append((head + ".dseg\n.byte %d\n" % r, exp, name, "ram/reserve"))
            if r >= 1:
                cases.append((head + ".dseg\n.org %d\nv: .byte 1\n" % (rstart + r - 1), exp if rstart + r - 1 > 0 else exp, name, "ram/org"))
        # the capacities are the device's: no other directive changes them (.csegsize is accepted and ignored; .includepath, .define, .equ
        # and #pragma have nothing to do with them)
        for j, other in enumerate((".csegsize 10", ".csegsize 12", ".csegsize 14", ".csegsize 16", ".csegsize 8", ".csegsize 11", "#pragma AVRPART MEMORY PROG_FLASH 65536",
                                   ".define flash_size 99", ".equ ram_size = 1", ".pragma x", ".includepath \"inc\"")):
            if (j + len(name)) % 3:
                continue
            for pre in (head + other + "\n", other + "\n" + head):
                for delta, exp in ((0, "OK"), (1, "ERR")):
                    cases.append((pre + ".org %d\nnop\n" % (flash + delta - 1), exp, name, "flash/org+code-after-" + other.split()[0]))
                    if rsize + delta >= 0:
                        cases.append((pre + ".dseg\n.byte %d\n" % (rsize + delta), exp, name, "ram/reserve-after-" + other.split()[0]))
                    if eep + delta >= 1:
                        cases.append((pre + ".eseg\n.byte %d\n" % (eep + delta), exp, name, "eeprom/reserve-after-" + other.split()[0]))
        # a label costs nothing: behind the last unit of a memory that is exactly full it is still a label
        if rsize >= 1:
            cases.append((head + ".dseg\nbuf: .byte %d\nbuf_end:\n.cseg\n .dw buf_end\n" % rsize, "OK", name, "ram/label-at-end"))
        else:
            cases.append((head + ".dseg\nnothing:\n.cseg\n nop\n", "OK", name, "ram/label-at-end"))
        if eep >= 1:
            cases.append((head + ".eseg\n.byte %d\ne_end:\n.cseg\n nop\n" % eep, "OK", name, "eeprom/label-at-end"))
        else:
            cases.append((head + ".eseg\ne_nothing:\n.cseg\n nop\n", "OK", name, "eeprom/label-at-end"))
        cases.append((head + ".org %d\n nop\nflash_end:\n" % (flash - 1), "OK", name, "flash/label-at-end"))
        # usage is the extent: an .org back over what is already used is refused, in every memory (it cannot "free" anything)
        if rsize >= 4:
            cases.append((head + ".dseg\nbig: .byte %d\n.org %d\nsmall: .byte 1\n" % (rsize, rstart), "ERR", name, "ram/org-backwards"))
            cases.append((head + ".dseg\nbig: .byte %d\n.org %d\nsmall: .byte 1\n" % (rsize + 1, rstart), "ERR", name, "ram/org-backwards"))
            cases.append((head + ".dseg\n.byte 3\n.org %d\n.byte 1\n" % (rstart + 1), "ERR", name, "ram/org-backwards"))
        if eep >= 4:
            cases.append((head + ".eseg\n.byte %d\n.org 0x1\n.db 1\n" % (eep + 1), "ERR", name, "eeprom/org-backwards"))
            cases.append((head + ".eseg\n.db 1, 2, 3\n.org 1\n.db 9\n", "ERR", name, "eeprom/org-backwards"))
        cases.append((head + " nop\n nop\n nop\n.org 1\n nop\n", "ERR", name, "flash/org-backwards"))
        cases.append((head + ".device %s\n" % name, "ERR", name, "second-device"))
        # the device may be selected anywhere: late in the file, inside a taken conditional, through a macro call
        for how, sel in (("late", "nop\n.device %s\n" % name), ("conditional", ".if 1\n.device %s\n.endif\n" % name),
                         ("macro", ".macro pick\n.device %s\n.endm\n pick\n" % name), ("macro-late", ".macro pick\n.device %s\n.endm\nnop\n pick\n" % name)):
            for delta, exp in ((0, "OK"), (1, "ERR")):
                if rsize + delta >= 0:
                    cases.append((sel + ".dseg\n.byte %d\n" % (rsize + delta), exp, name, "ram/reserve-device-" + how))
                if eep + delta >= 1:
                    cases.append((sel + ".eseg\n.byte %d\n" % (eep + delta), exp, name, "eeprom/reserve-device-" + how))
    cases.append((".device NoSuchPart\n", "ERR", None, "unknown-device"))
    known = set(d[0] for d in table)
    for name in sorted(known):
        # near misses of every table name: a suffix or prefix more or less, another letter case, a blank inside
        for cand in (name + "A", name + "P", name + "PA", name + "V", name + "L", name + "-16", name + "_", name[:-1], name[1:], name.lower(), name.upper(),
                     name.swapcase(), "AT" + name, name.replace("AT", "At", 1), name + "0"):
            if cand not in known and cand:
                cases.append((".device %s\n nop\n" % cand, "ERR", None, "unknown-device"))
    cases.append((".device atmega8\n", "ERR", None, "unknown-device"))
    cases.append(("nop\n", "OK", "-", "default"))
    texts = [c[0] for c in cases]
    obs = P.correspond(res, vh, exe, texts, "capacity-boundary programs")
    rows = {d[0]: d for d in devs}
    for text, exp, name, kind in cases:
        a = progrun.parse_obs(obs[text][0])
        short = text if len(text) < 200 else text[:100] + " ... " + text[-60:]
        if a["kind"] != exp:
            P.fail(res, "builder::build_str", short, "%s (%s of %s)" % (exp, kind, name), obs[text][0][:80], "capacity:" + kind.split("/")[0])
            continue
        if exp == "OK" and name is not None:
            d = rows[name]
            if (a["flash"], a["eesize"], a["ram"]) != (d[1], d[4], d[3]):
                P.fail(res, "builder::build_str", short, "reported sizes %s" % ((d[1], d[4], d[3]),), "%s" % ((a["flash"], a["eesize"], a["ram"]),), "sizes")
            if kind.startswith("ram/reserve"):
                want = int(re.search(r"\.byte (\d+)", text).group(1))
                if a["fill"] != want:
                    P.fail(res, "builder::build_str", short, "ram_filling %d" % want, "ram_filling %d" % a["fill"], "ram-filling")
    # shipped part files
    nparts = 0
    for fn, dname, flash, rstart, rsize, eep in inc_parts():
        if dname not in rows:
            continue
        nparts += 1
        d = rows[dname]
        for what, have, want in (("flash words", d[1], flash), ("RAM start", d[2], rstart), ("RAM size", d[3], rsize), ("EEPROM size", d[4], eep)):
            if want is not None and have != want:
                P.fail(res, "device::DEVICES vs includes/" + fn, ".device %s" % dname, "%s = %s (declared by %s)" % (what, want, fn),
                       "%s = %s" % (what, have), "part-file")
    res.extra["distribution"].update(devices=len(table), boundary_cases=len(cases), part_files_matched=nparts)
    res.extra["exhaustive"] = True
    res.rule = ("every device row x {flash, EEPROM, RAM} x usage {cap-1, cap, cap+1} reached by .org+item, by data, by code and by "
                "reservation; second/unknown device; the default device; every includes/*def.inc whose .device is in the table x "
                "(FLASHEND+1, SRAM_START, SRAM_SIZE, E2END+1)")
    res.samples = [dict(source=c[0][:80], expected=c[1], kind=c[3], observed=obs[c[0]][0][:60]) for c in cases[:3]]
    res.assume = ["reading rule for the part files: flash words = FLASHEND+1, RAM = SRAM_START/SRAM_SIZE, EEPROM = 0 if E2END = 0 else E2END+1"]


match_known = P.match_known


def replay(path):
    return P.replay_by_rerun(PROP, path)
