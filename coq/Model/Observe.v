(** The canonical observation of a build (DESIGN.md section 8), as a Coq value: what the harness prints for
    builder::build_str / build_file, so that a slice of every correspondence run can be re-done by the kernel's VM. *)
Require Import AvraV.Model.Base AvraV.Model.Ast AvraV.Model.Passes.
Open Scope N_scope.

Inductive obs :=
| OOk (code eeprom : list N) (flash eesize ram fill : N) (msgs : list (list N))
| OErr (line : option N)
| OPanic
| OFuel.

Definition observe (r : res build_result) : obs :=
  match r with
  | Ok b => OOk (b_code b) (b_eeprom b) (b_flash b) (b_eeprom_size b) (b_ram b) (b_ram_filling b)
                (map (map N_of_ascii) (b_messages b))
  | Err l => OErr l
  | Panic => OPanic
  | OutOfFuel => OFuel
  end.

Definition optN_eqb (a b : option N) : bool :=
  match a, b with Some x, Some y => x =? y | None, None => true | _, _ => false end.
Definition obs_eqb (a b : obs) : bool :=
  match a, b with
  | OOk c e f s r k m, OOk c' e' f' s' r' k' m' =>
      list_eqb N.eqb c c' && list_eqb N.eqb e e' && (f =? f') && (s =? s') && (r =? r') && (k =? k') && list_eqb (list_eqb N.eqb) m m'
  | OErr l, OErr l' => optN_eqb l l'
  | OPanic, OPanic | OFuel, OFuel => true
  | _, _ => false
  end.

(** a source text given as byte codes *)
Definition build_codes (fuel : N) (codes : list N) : obs :=
  observe (build_str (N.to_nat fuel) (map ascii_of_N codes)).

(** the same for builder::build_file on a directory tree: names and contents as byte codes *)
Require Import AvraV.Model.Fs AvraV.Model.Files.
Definition to_str (l : list N) : str := map ascii_of_N l.
Definition build_tree (fuel : N) (cwd : list (list N)) (dirs : list (list (list N))) (files : list (list (list N) * list N))
                      (main : list N) (paths : list (list N)) : obs :=
  let fs := {| fs_cwd := map to_str cwd; fs_dirs := map (map to_str) dirs;
               fs_files := map (fun f => (map to_str (fst f), to_str (snd f))) files |} in
  observe (build_file fs (N.to_nat fuel) (to_str main) (map to_str paths)).
