(** The feature flags of the device table, read as their documentation in src/device.rs says:
    which instruction forms a flag removes.  A form is an operation together with its operands
    (only the index register of an operand matters). *)
From Coq Require Import List NArith Bool.
Import ListNotations.
Require Import AvraV.Model.Base AvraV.Model.Ast AvraV.Model.Device.

Definition all_flags : list dopt :=
  [NoMul; NoJmp; NoXreg; NoYreg; Tiny1x; NoLpm; NoLpmX; NoElpm; NoElpmX; NoSpm; NoEspm; NoMovw; NoBreak; NoEicall; NoEijmp; Avr8l].

Definition pointer_of (a : iop) : option reg16 :=
  match a with OIndex (INone r) | OIndex (IPostInc r) | OIndex (IPostIncE r _) | OIndex (IPreDec r) => Some r | _ => None end.
Definition uses_x (args : list iop) : bool := existsb (fun a => match pointer_of a with Some RX => true | _ => false end) args.
Definition uses_y (args : list iop) : bool := existsb (fun a => match pointer_of a with Some RY => true | _ => false end) args.
Definition is_load_store (o : operation) : bool := match o with OLd | OSt | OLdd | OStd => true | _ => false end.
Definition has_displacement (args : list iop) : bool := existsb (fun a => match a with OIndex (IPostIncE _ _) => true | _ => false end) args.
Definition has_operands (args : list iop) : bool := match args with [] => false | _ => true end.

(** [disabled f o args]: flag f removes the instruction form (o, args) *)
Definition disabled (f : dopt) (o : operation) (args : list iop) : bool :=
  match f with
  | NoMul => match o with OMul | OMuls | OMulsu | OFmul | OFmuls | OFmulsu => true | _ => false end
  | NoJmp => match o with OJmp | OCall => true | _ => false end
  | NoXreg => is_load_store o && uses_x args
  | NoYreg => is_load_store o && uses_y args
  | Tiny1x => match o with
              | OAdiw | OSbiw | OIjmp | OIcall | OLdd | OStd | OLds | OSts | OPush | OPop => true
              | OLd | OSt => has_displacement args        (* LDD / STD spelled ld / st *)
              | _ => false
              end
  | NoLpm => match o with OLpm => true | _ => false end
  | NoLpmX => match o with OLpm => has_operands args | _ => false end
  | NoElpm => match o with OElpm => true | _ => false end
  | NoElpmX => match o with OElpm => has_operands args | _ => false end
  | NoSpm => match o with OSpm => true | _ => false end
  | NoEspm => false                         (* the assembler has no espm mnemonic *)
  | NoMovw => match o with OMovw => true | _ => false end
  | NoBreak => match o with OBreak => true | _ => false end
  | NoEicall => match o with OEicall => true | _ => false end
  | NoEijmp => match o with OEijmp => true | _ => false end
  | Avr8l => match o with OAdiw | OSbiw => true | _ => false end
  end.

(** an instruction form is available on a device iff no flag the device carries removes it *)
Definition available (d : device) (o : operation) (args : list iop) : bool :=
  negb (existsb (fun f => has d f && disabled f o args) all_flags).
