(** The documented semantics of constant expressions (AVR assembler operator table), written on
    mathematical integers - independent of the Rust code and of Model/. *)
From Coq Require Import List ZArith Bool.
Import ListNotations.
Require Import AvraV.Model.Base AvraV.Model.Ast.
Local Open Scope string_scope.
Local Open Scope Z_scope.

(** Binding strength, loosest first.  Binary operators of one level associate to the left; the
    three unary operators bind tighter than every binary operator. *)
Definition doc_level_bin (o : binop) : nat :=
  match o with
  | BLOr => 0 | BLAnd => 1 | BOr => 2 | BXor => 3 | BAnd => 4
  | BEq | BNe => 5
  | BLt | BLe | BGt | BGe => 6
  | BShl | BShr => 7
  | BAdd | BSub => 8
  | BMul | BDiv | BRem => 9
  end%nat.
Definition doc_level_un (o : unop) : nat := 10%nat.

Definition fits64 (z : Z) : bool := (-9223372036854775808 <=? z) && (z <=? 9223372036854775807).
Definition exact (z : Z) : option Z := if fits64 z then Some z else None.
(** the signed value of the low 64 bits *)
Definition signed64 (z : Z) : Z :=
  let u := z mod 18446744073709551616 in if u <? 9223372036854775808 then u else u - 18446744073709551616.
Definition truth (b : bool) : Z := if b then 1 else 0.

Definition spec_bin (o : binop) (l r : Z) : option Z :=
  match o with
  | BAdd => exact (l + r)
  | BSub => exact (l - r)
  | BMul => exact (l * r)
  | BDiv => if r =? 0 then None else exact (Z.quot l r)                 (* truncating division *)
  | BRem => if r =? 0 then None                                         (* remainder of the truncating division; *)
            else if (l =? -9223372036854775808) && (r =? -1) then None  (* its quotient must fit, as for / *)
            else Some (Z.rem l r)
  | BAnd => Some (Z.land l r)
  | BOr => Some (Z.lor l r)
  | BXor => Some (Z.lxor l r)
  | BShl => if (0 <=? r) && (r <=? 63) then Some (signed64 (l * 2 ^ r)) else None
  | BShr => if (0 <=? r) && (r <=? 63) then Some (l / 2 ^ r) else None  (* arithmetic shift *)
  | BLt => Some (truth (l <? r))
  | BLe => Some (truth (l <=? r))
  | BGt => Some (truth (l >? r))
  | BGe => Some (truth (l >=? r))
  | BEq => Some (truth (l =? r))
  | BNe => Some (truth (negb (l =? r)))
  | BLAnd => Some (truth (negb (l =? 0) && negb (r =? 0)))
  | BLOr => Some (truth (negb (l =? 0) || negb (r =? 0)))
  end.
Definition spec_un (o : unop) (v : Z) : option Z :=
  match o with
  | UMinus => exact (- v)
  | UBitNot => Some (- v - 1)                                           (* bitwise complement *)
  | ULogNot => Some (truth (v =? 0))
  end.

(** the byte / word selectors and exp2, on the two's complement bit pattern ([Z.div]/[Z.modulo]
    round towards minus infinity, which is exactly bit selection); log2 and page are not part of
    the documented set this specification covers *)
Inductive fn := FLow | FHigh | FByte2 | FByte3 | FByte4 | FLwrd | FHwrd | FExp2 | FOther.
Definition spec_fn (f : fn) (v : Z) : option (option Z) :=
  match f with
  | FLow => Some (Some (v mod 256))
  | FHigh | FByte2 => Some (Some ((v / 256) mod 256))
  | FByte3 => Some (Some ((v / 65536) mod 256))
  | FByte4 => Some (Some ((v / 16777216) mod 256))
  | FLwrd => Some (Some (v mod 65536))
  | FHwrd => Some (Some ((v / 65536) mod 65536))
  | FExp2 => Some (if (0 <=? v) && (v <=? 63) then Some (signed64 (2 ^ v)) else None)
  | FOther => None                                                       (* unspecified here *)
  end.
Definition fn_of (name : str) : fn :=
  let is x := str_eqb (lower name) (lit x) in
  if is "low" then FLow else if is "high" then FHigh else if is "byte2" then FByte2
  else if is "byte3" then FByte3 else if is "byte4" then FByte4 else if is "lwrd" then FLwrd
  else if is "hwrd" then FHwrd else if is "exp2" then FExp2 else FOther.

(** [spec_eval env e]: Some (Some v) value, Some None = the build must fail, None = outside the
    documented set (a function this specification does not define) *)
Fixpoint spec_eval (env : str -> option Z) (e : expr) : option (option Z) :=
  match e with
  | EIdent n => Some (env n)
  | EConst z => Some (Some z)
  | EFunc (EIdent name) a =>
      match spec_eval env a with
      | Some (Some v) => spec_fn (fn_of name) v
      | Some None => match fn_of name with FOther => None | _ => Some None end
      | None => None
      end
  | EFunc _ _ => Some None
  | EBin l o r =>
      match spec_eval env l, spec_eval env r with
      | Some (Some a), Some (Some b) => Some (spec_bin o a b)
      | Some None, Some _ | Some _, Some None => Some None
      | _, _ => None
      end
  | EUn o x =>
      match spec_eval env x with
      | Some (Some v) => Some (spec_un o v)
      | Some None => Some None
      | None => None
      end
  end.
