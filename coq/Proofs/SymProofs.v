(** C10: the symbol tables - letter case, forward visibility of labels, latest .set, .def scope. *)
From Coq Require Import List NArith ZArith Bool Lia.
Import ListNotations.
Require Import AvraV.Model.Base AvraV.Model.Ast AvraV.Model.Device AvraV.Model.Eval AvraV.Model.Encode.
Require Import AvraV.Model.Parse AvraV.Model.Passes AvraV.Proofs.EvalProofs.

Lemma lower_ascii_idem c : lower_ascii (lower_ascii c) = lower_ascii c.
Proof.
  unfold lower_ascii. destruct ((65 <=? N_of_ascii c) && (N_of_ascii c <=? 90))%N eqn:E; [|rewrite E; reflexivity].
  rewrite N_ascii_embedding by lia.
  replace ((65 <=? N_of_ascii c + 32) && (N_of_ascii c + 32 <=? 90))%N with false by lia. reflexivity.
Qed.
Lemma lower_idem n : lower (lower n) = lower n.
Proof. unfold lower. rewrite map_map. apply map_ext. apply lower_ascii_idem. Qed.

(** lookups of labels, .equ, .set, .def and the special symbols depend on the name only through its
    lower-case form *)
Theorem lookups_case c n n' : lower n = lower n' ->
  get_label c n = get_label c n' /\ get_equ c n = get_equ c n' /\ get_set c n = get_set c n' /\
  get_def c n = get_def c n' /\ get_special c n = get_special c n'.
Proof. intros H. unfold get_label, get_equ, get_set, get_def, get_special. rewrite H. repeat split. Qed.

Theorem get_expr_case c n n' : lower n = lower n' -> get_define c n = None -> get_define c n' = None ->
  get_expr c n = get_expr c n'.
Proof.
  intros H H1 H2. unfold get_expr. rewrite H1, H2.
  destruct (lookups_case c n n' H) as (-> & -> & -> & _ & ->). reflexivity.
Qed.

(** a reference evaluates the same whatever its letter case *)
Theorem run_case c n n' f : lower n = lower n' -> get_define c n = None -> get_define c n' = None ->
  run f c (EIdent n) = run f c (EIdent n').
Proof. intros H H1 H2. unfold run. destruct f; [reflexivity|]. cbn [run_n]. rewrite (get_expr_case c n n' H H1 H2). reflexivity. Qed.

(** no symbol silently evaluates to a default: an unbound name is an error, whatever the fuel *)
Theorem unbound_fails c n f : get_expr c n = None -> run (S f) c (EIdent n) = Err None.
Proof. intros H. unfold run. cbn [run_n]. rewrite H. reflexivity. Qed.

(** ---- pass 1: labels ---- *)
Lemma lookup_insert_same {V} k (v : V) m : lookup k (insert k v m) = Some v.
Proof. unfold insert. cbn [lookup]. replace (str_eqb k k) with true; [reflexivity|]. symmetry.
  induction k as [|x k IH]; cbn; [reflexivity|]. rewrite Ascii.eqb_refl, IH. reflexivity. Qed.
Lemma lookup_insert_mono {V} k k' (v w : V) m : lookup k' m = Some w -> lookup k m = None -> lookup k' (insert k v m) = Some w.
Proof.
  intros H1 H2. unfold insert. cbn [lookup]. destruct (str_eqb k' k) eqn:E; [|exact H1].
  apply str_eqb_eq in E. subst. congruence.
Qed.

Theorem duplicate_label_fails t c cur out cp name : lookup name (labels c) <> None ->
  pass1_item t (c, cur, out) (cp, ILabel name) = Err (Some (fst cp)).
Proof. intros H. unfold pass1_item. cbn [fst]. destruct (lookup name (labels c)); [reflexivity | congruence]. Qed.

Theorem label_defined t c cur out cp name c' cur' out' :
  pass1_item t (c, cur, out) (cp, ILabel name) = Ok (c', cur', out') ->
  lookup name (labels c') = Some (t, cur) /\ cur' = cur.
Proof.
  unfold pass1_item. cbn [fst]. destruct (lookup name (labels c)); [discriminate|]. intros [= <- <- <-].
  split; [apply lookup_insert_same | reflexivity].
Qed.

Lemma pass1_item_mono t st ci st' n v :
  pass1_item t st ci = Ok st' -> lookup n (labels (fst (fst st))) = Some v -> lookup n (labels (fst (fst st'))) = Some v.
Proof.
  destruct st as [[c cur] out], ci as [cp it], st' as [[c' cur'] out']. cbn [fst]. intros H Hl.
  destruct it as [z | k ops | a e | a | a e | ops | op args | lab]; unfold pass1_item, advance in H; cbn [fst] in H.
  all: try (destruct t; try discriminate).
  all: try (destruct k; try (destruct (actual_len ops mod 2 =? 1)%N)).
  all: repeat match type of H with
              | context [match ?x with _ => _ end] => destruct x eqn:?; try discriminate; cbn [bind] in H
              end.
  all: try discriminate.
  all: try (injection H as <- <- <-; try exact Hl).
  all: try (cbn [labels ctx_set_label]; apply lookup_insert_mono; assumption).
Qed.

(** every label that pass 1 has entered stays visible - to references before and after it - for
    the rest of pass 1 and throughout pass 2 (pass 2 never touches the label table) *)
Theorem labels_persist t : forall its st st' n v,
  fold_left (fun acc ci => do a <- acc; pass1_item t a ci) its (Ok st) = Ok st' ->
  lookup n (labels (fst (fst st))) = Some v -> lookup n (labels (fst (fst st'))) = Some v.
Proof.
  induction its as [|ci its IH]; intros st st' n v H Hl; cbn [fold_left] in H.
  - injection H as <-. exact Hl.
  - cbn [bind] in H. destruct (pass1_item t st ci) as [st1| | |] eqn:E.
    + eapply IH; [exact H|]. eapply pass1_item_mono; eauto.
    + exfalso. clear -H. induction its as [|x its IH]; cbn in H; [discriminate | apply IH; exact H].
    + exfalso. clear -H. induction its as [|x its IH]; cbn in H; [discriminate | apply IH; exact H].
    + exfalso. clear -H. induction its as [|x its IH]; cbn in H; [discriminate | apply IH; exact H].
Qed.

(** ---- pass 2: .set, .def, .undef ---- *)
Theorem set_latest fuel t c cur out cp name e v :
  run fuel (ctx_set_pc c cur) e = Ok v -> exist (ctx_set_pc c cur) (lower name) = false ->
  exists c', pass2_item fuel t (c, cur, out) (cp, ISet name e) = Ok (c', cur, out) /\
    forall name', lower name' = lower name -> get_set c' name' = Some (EConst v).
Proof.
  intros Hr Hex. unfold pass2_item. cbn [fst]. rewrite Hr. cbn [with_line bind]. rewrite Hex.
  eexists. split; [reflexivity|]. intros name' Hn. unfold get_set. cbn [sets ctx_with_sets]. rewrite Hn.
  rewrite ?lower_idem. apply lookup_insert_same.
Qed.
Theorem set_reassign fuel t c cur out cp name e v old :
  run fuel (ctx_set_pc c cur) e = Ok v -> lookup (lower name) (sets c) = Some old ->
  exists c', pass2_item fuel t (c, cur, out) (cp, ISet name e) = Ok (c', cur, out) /\
    forall name', lower name' = lower name -> get_set c' name' = Some (EConst v).
Proof.
  intros Hr Hs. unfold pass2_item. cbn [fst]. rewrite Hr. cbn [with_line bind].
  assert (Hex : exist (ctx_set_pc c cur) (lower name) = true).
  { unfold exist, get_expr, get_define, get_equ, get_set. cbn [defines equs sets ctx_set_pc]. rewrite lower_idem, Hs.
    destruct (lookup (lower name) (defines c)); [reflexivity|]. destruct (lookup (lower name) (equs c)); reflexivity. }
  rewrite Hex. cbn [sets ctx_set_pc]. rewrite Hs.
  eexists. split; [reflexivity|]. intros name' Hn. unfold get_set. cbn [sets ctx_with_sets]. rewrite Hn, ?lower_idem.
  apply lookup_insert_same.
Qed.

Theorem def_scope fuel t c cur out cp alias reg r :
  reg_of_name reg = Some r -> exist (ctx_set_pc c cur) (lower alias) = false ->
  exists c', pass2_item fuel t (c, cur, out) (cp, IDef alias (EIdent reg)) = Ok (c', cur, out) /\
    forall a', lower a' = lower alias -> get_def c' a' = Some r.
Proof.
  intros Hr Hex. unfold pass2_item. cbn [fst]. rewrite Hr, Hex.
  eexists. split; [reflexivity|]. intros a' Ha. unfold get_def. cbn [defs ctx_with_defs]. rewrite Ha, ?lower_idem.
  apply lookup_insert_same.
Qed.

Lemma lookup_remove_same {V} k (m : list (str * V)) : lookup k (remove k m) = None.
Proof.
  induction m as [|[k' v] m IH]; [reflexivity|]. cbn [remove]. destruct (str_eqb k k') eqn:E; [exact IH|].
  cbn [lookup]. rewrite E. exact IH.
Qed.
Theorem undef_scope fuel t c cur out cp alias :
  match pass2_item fuel t (c, cur, out) (cp, IUndef alias) with
  | Ok (c', _, _) => forall a', lower a' = lower alias -> get_def c' a' = None
  | Err l => l = Some (fst cp) /\ lookup (lower alias) (defs c) = None
  | _ => False
  end.
Proof.
  unfold pass2_item. cbn [fst defs ctx_set_pc]. destruct (lookup (lower alias) (defs c)) eqn:E.
  - intros a' Ha. unfold get_def. cbn [defs ctx_with_defs]. rewrite Ha. apply lookup_remove_same.
  - split; reflexivity.
Qed.

(** ---- naming one register twice, removing one name: every OTHER alias keeps its meaning ---- *)
Lemma lookup_insert_other {V} k k' (v : V) m : str_eqb k' k = false -> lookup k' (insert k v m) = lookup k' m.
Proof. intros H. unfold insert. cbn [lookup]. rewrite H. reflexivity. Qed.
Lemma lookup_remove_other {V} k k' (m : list (str * V)) : str_eqb k' k = false -> lookup k' (remove k m) = lookup k' m.
Proof.
  intros H. induction m as [|[k0 v] m IH]; [reflexivity|]. cbn [remove lookup].
  destruct (str_eqb k k0) eqn:E.
  - apply str_eqb_eq in E. subst k0. rewrite H. exact IH.
  - cbn [lookup]. rewrite IH. reflexivity.
Qed.

Theorem def_keeps_others fuel t c cur out cp alias reg c' cur' out' other :
  pass2_item fuel t (c, cur, out) (cp, IDef alias (EIdent reg)) = Ok (c', cur', out') ->
  str_eqb (lower other) (lower alias) = false -> get_def c' other = get_def c other.
Proof.
  unfold pass2_item. cbn [fst]. intros H Hne.
  destruct (reg_of_name reg); [|discriminate].
  destruct (exist (ctx_set_pc c cur) (lower alias)); injection H as <- _ _; unfold get_def; cbn [defs ctx_with_defs ctx_set_pc]; [reflexivity|].
  rewrite lower_idem. apply lookup_insert_other. exact Hne.
Qed.
Theorem undef_keeps_others fuel t c cur out cp alias c' cur' out' other :
  pass2_item fuel t (c, cur, out) (cp, IUndef alias) = Ok (c', cur', out') ->
  str_eqb (lower other) (lower alias) = false -> get_def c' other = get_def c other.
Proof.
  unfold pass2_item. cbn [fst]. intros H Hne.
  destruct (lookup (lower alias) (defs (ctx_set_pc c cur))); [|discriminate]. injection H as <- _ _.
  unfold get_def. cbn [defs ctx_with_defs ctx_set_pc]. apply lookup_remove_other. exact Hne.
Qed.
