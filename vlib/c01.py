"""C01 - every valid instruction assembles to its exact AVR ISA machine code."""
import json
import random

from . import common as C, encgen, encrun, gen

PROP = "C01"


def cases(tier, seed):
    rng = random.Random(seed)
    cs = encgen.legal("F") + encgen.addresses("F", rng, 4000 if tier == "quick" else 200000)
    cs += encgen.addresses("R", rng, 500)
    cs += [c for c in encgen.relative("F") if True]
    if tier != "quick":
        cs += encgen.legal("R")
    return cs


def run(res):
    vh = C.build_harness("debug")
    try:
        changed = gen.gen_all(vh)
        res.oblige("tie A: Gen/OpTable.v, Gen/Devices.v regenerated from /repo", True, "rewritten: %s" % changed)
    except gen.GenError as e:
        res.oblige("tie A: Gen/*.v regenerated from /repo", False, str(e))
    exe = C.build_model()
    pr = C.check_props(PROP)
    for n, ok, note in pr["obligations"]:
        res.oblige("theorem " + n, ok, note)
    if pr.get("broken") and not pr["obligations"]:
        res.oblige("coq build", False, pr["broken"])
    cs = cases(res.tier, res.seed)
    rows = encrun.run_cases(vh, exe, cs)
    # C01 quantifies over what the ISA allows: keep the cases the specification can encode
    legal_rows = [r for r in rows if r[3] != "NONE"]
    encrun.judge(res, legal_rows, PROP, "legal-operand")
    dist = {}
    for r in legal_rows:
        t = encgen.tag(r[0])
        dist[t] = dist.get(t, 0) + 1
    res.extra["distribution"] = dist
    res.extra["exhaustive"] = True
    res.extra["exhaustive_note"] = ("complete for every one-word form (all registers, immediates, displacements, ports, bits, "
                                    "branch and rjmp/rcall offsets); jmp/call: all 64 high parts x 8 boundary low parts + random; "
                                    "lds/sts: all registers x boundary + random addresses; reduced-core lds/sts complete")
    res.rule = ("cases = (core, pc, mnemonic, operand tuple) enumerated by vlib/encgen.py legal()+addresses()+relative(), restricted to "
                "tuples Spec/Isa.expect can encode; each is run through instruction::process of /repo, the extracted Coq model and the "
                "ISA table; distinct = distinct case text, all are non-trivial (an instruction is encoded)")
    res.samples = [dict(case=r[0], implementation=r[1], model=r[2], isa_spec=r[3], decoded=r[4]) for r in legal_rows[:2] + legal_rows[-2:]]
    res.assume = ["Spec/Isa.v is a transcription of the AVR Instruction Set Manual (DESIGN.md section 10)",
                  "operands in this interface are literals and registers; symbolic operands are covered by the theorem's "
                  "hypothesis on Eval.run and by the program-level checks"]


def match_known(f, entry):
    return entry.get("class") is not None and f.get("cls") == entry.get("class")


def replay(path):
    r = json.load(open(path))
    i = r.get("input")
    if not i:
        print("replay: broken obligation %r - re-run ./check %s" % (r.get("obligation"), PROP))
        return 1
    vh = C.build_harness("debug")
    exe = C.build_model()
    rows = encrun.run_cases(vh, exe, [i["case"]])
    cse, impl, model, spec, dec = rows[0]
    bad = (impl != "ERR") if spec == "NONE" else (impl != spec)
    if bad:
        print("VIOLATION property=%s replay=%s" % (r["property"], path))
        return 1
    print("replay: property now holds on this input")
    return 0
