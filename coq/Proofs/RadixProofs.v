(** C14: the radix in which a number is written does not matter - $hex, 0xhex, 0bbinary, 0octal and decimal
    renderings of the same value (digits in either letter case) are read back as that value. *)
From Coq Require Import List Arith Lia Bool Ascii NArith ZArith ZifyBool ZifyN ZifyNat.
Ltac Zify.zify_post_hook ::= Z.div_mod_to_equations.
Import ListNotations.
Require Import AvraV.Model.Base AvraV.Model.Ast AvraV.Model.Climb AvraV.Model.Grammar AvraV.Model.Show.
Require Import AvraV.Proofs.ClimbProofs AvraV.Proofs.ExprRoundTrip.
Local Open Scope nat_scope.

(** digit d < 16 as a character; [up] chooses the letter case of a..f *)
Definition dchr (up : bool) (d : N) : ascii :=
  if (d <? 10)%N then ascii_of_N (48 + d) else ascii_of_N ((if up then 55 else 87) + d).

Lemma dchr_facts up d : (d < 16)%N ->
  hex_val (dchr up d) = Some d /\ is_hex (dchr up d) = true /\ is_idch (dchr up d) = true /\
  (d < 10 -> is_digit (dchr up d) = true)%N /\ (d < 8 -> is_oct (dchr up d) = true)%N /\ (d < 2 -> is_bin (dchr up d) = true)%N.
Proof.
  intros H.
  assert (C : (d = 0 \/ d = 1 \/ d = 2 \/ d = 3 \/ d = 4 \/ d = 5 \/ d = 6 \/ d = 7 \/ d = 8 \/ d = 9 \/ d = 10 \/ d = 11 \/ d = 12 \/
               d = 13 \/ d = 14 \/ d = 15)%N) by lia.
  destruct up; repeat (destruct C as [->|C]; [vm_compute; repeat split; intros; try reflexivity; try discriminate; lia|]); subst;
    vm_compute; repeat split; intros; try reflexivity; try discriminate; lia.
Qed.

(** most significant digit first, [f] digits at most; the case of each letter digit chosen by [up] from its position *)
Fixpoint digits (b : N) (up : nat -> bool) (f : nat) (n : N) (acc : str) : str :=
  match f with
  | O => acc
  | S f' => let d := dchr (up f') (n mod b) in if (n <? b)%N then d :: acc else digits b up f' (n / b) (d :: acc)
  end.

Lemma digits_S b up f n acc : digits b up (S f) n acc =
  let d := dchr (up f) (n mod b) in if (n <? b)%N then d :: acc else digits b up f (n / b) (d :: acc).
Proof. reflexivity. Qed.

Lemma digits_spec b up : (2 <= b <= 16)%N -> forall f n acc, (n < b ^ N.of_nat (S f))%N ->
  exists ds, digits b up (S f) n acc = (ds ++ acc)%list /\ ds <> [] /\
             (forall c, In c ds -> exists d, (d < b)%N /\ exists u, c = dchr u d) /\
             (forall v, digits_val b ds v = (v * b ^ N.of_nat (length ds) + n)%N).
Proof.
  intros Hb. induction f as [|f IH]; intros n acc Hn; rewrite digits_S; cbv zeta.
  - change (N.of_nat 1) with 1%N in Hn. rewrite N.pow_1_r in Hn.
    assert (E : (n <? b)%N = true) by (apply N.ltb_lt; exact Hn). rewrite E.
    exists [dchr (up 0) (n mod b)]. split; [reflexivity|]. split; [discriminate|]. split.
    + intros c [<-|[]]. exists (n mod b)%N. split; [apply N.mod_upper_bound; lia | eauto].
    + intros v. cbn [digits_val length]. destruct (dchr_facts (up 0) (n mod b)%N) as (Hv & _); [pose proof (N.mod_upper_bound n b); lia|].
      rewrite Hv, N.mod_small by exact Hn. change (N.of_nat 1) with 1%N. rewrite N.pow_1_r. reflexivity.
  - destruct (n <? b)%N eqn:E.
    + apply N.ltb_lt in E. exists [dchr (up (S f)) (n mod b)]. split; [reflexivity|]. split; [discriminate|]. split.
      * intros c [<-|[]]. exists (n mod b)%N. split; [apply N.mod_upper_bound; lia | eauto].
      * intros v. cbn [digits_val length]. destruct (dchr_facts (up (S f)) (n mod b)%N) as (Hv & _); [pose proof (N.mod_upper_bound n b); lia|].
        rewrite Hv, N.mod_small by exact E. change (N.of_nat 1) with 1%N. rewrite N.pow_1_r. reflexivity.
    + apply N.ltb_ge in E.
      assert (Hq : (n / b < b ^ N.of_nat (S f))%N).
      { apply N.div_lt_upper_bound; [lia|]. rewrite (Nat2N.inj_succ (S f)), N.pow_succ_r' in Hn. exact Hn. }
      destruct (IH (n / b)%N (dchr (up (S f)) (n mod b) :: acc) Hq) as (ds & Hp & Hne & Hall & Hval).
      exists (ds ++ [dchr (up (S f)) (n mod b)])%list. split; [rewrite Hp, <- app_assoc; reflexivity|]. split; [destruct ds; discriminate|]. split.
      * intros c Hc. apply in_app_or in Hc. destruct Hc as [Hc|[<-|[]]]; [apply Hall; exact Hc|].
        exists (n mod b)%N. split; [apply N.mod_upper_bound; lia | eauto].
      * intros v. assert (G : forall l v0, digits_val b (l ++ [dchr (up (S f)) (n mod b)]) v0 = (digits_val b l v0 * b + n mod b)%N).
        { destruct (dchr_facts (up (S f)) (n mod b)%N) as (Hv & _); [pose proof (N.mod_upper_bound n b); lia|].
          induction l as [|x l IHl]; intros v0; cbn [app digits_val]; [rewrite Hv; reflexivity | apply IHl]. }
        rewrite G, Hval, app_length. cbn [length]. rewrite Nat.add_1_r, Nat2N.inj_succ, N.pow_succ_r'.
        pose proof (N.div_mod n b ltac:(lia)) as Hdm.
        remember (n / b)%N as q. remember (n mod b)%N as r0. remember (b ^ N.of_nat (length ds))%N as P.
        rewrite Hdm. ring.
Qed.

(** a rendering of [k] in base [b]: at most 64 digits, letter case of every digit chosen freely *)
Definition render_base (b : N) (up : nat -> bool) (k : N) : str := digits b up 64 k [].

Lemma render_base_spec b up k : (2 <= b <= 16)%N -> (k < i64_limit)%N ->
  exists ds, render_base b up k = ds /\ ds <> [] /\ (forall c, In c ds -> exists d, (d < b)%N /\ exists u, c = dchr u d) /\ digits_val b ds 0 = k.
Proof.
  intros Hb Hk. unfold render_base.
  assert (Hn : (k < b ^ N.of_nat 64)%N).
  { unfold i64_limit in Hk. eapply N.lt_le_trans; [exact Hk|].
    transitivity (2 ^ N.of_nat 64)%N; [vm_compute; discriminate | apply N.pow_le_mono_l; lia]. }
  destruct (digits_spec b up Hb 63 k [] Hn) as (ds & Hp & Hne & Hall & Hval).
  exists ds. rewrite Hp, app_nil_r. split; [reflexivity|]. split; [exact Hne|]. split; [exact Hall|]. rewrite Hval. lia.
Qed.

Lemma all_class (p : ascii -> bool) b ds : (forall d u, (d < b)%N -> p (dchr u d) = true) ->
  (forall c, In c ds -> exists d, (d < b)%N /\ exists u, c = dchr u d) -> forallb p ds = true.
Proof.
  intros Hp H. apply forallb_forall. intros c Hc. destruct (H c Hc) as (d & Hd & u & ->). apply Hp. exact Hd.
Qed.

Lemma radix_ok p b ds rest k : forallb p ds = true -> ds <> [] -> hd_ok (fun c => negb (p c)) rest = true ->
  digits_val b ds 0 = k -> (k < i64_limit)%N -> radix_alt p b (ds ++ rest) = Some (k, rest).
Proof.
  intros Hall Hne Hr Hv Hk. unfold radix_alt. rewrite (take_while_app p ds rest Hall Hr).
  destruct ds as [|c ds']; [contradiction|]. rewrite Hv. apply N.ltb_lt in Hk. rewrite Hk. reflexivity.
Qed.

Lemma not_idch_not (p : ascii -> bool) rest : (forall c, p c = true -> is_idch c = true) ->
  hd_ok (fun c => negb (is_idch c)) rest = true -> hd_ok (fun c => negb (p c)) rest = true.
Proof. intros H. apply (hd_weaken is_idch p rest H). Qed.

Lemma hex_idch c : is_hex c = true -> is_idch c = true.
Proof. all_ascii c; intros H; try (vm_compute in H; discriminate); reflexivity. Qed.
Lemma bin_idch c : is_bin c = true -> is_idch c = true.
Proof. all_ascii c; intros H; try (vm_compute in H; discriminate); reflexivity. Qed.

(** THEOREM: the five ways of writing the number k (k < 2^63), each followed by anything that is not an identifier character *)
Theorem radix_invariance k rest up : (k < i64_limit)%N -> hd_ok (fun c => negb (is_idch c)) rest = true ->
  num_parse (lit "$" ++ render_base 16 up k ++ rest) = Some (k, rest) /\
  num_parse (lit "0x" ++ render_base 16 up k ++ rest) = Some (k, rest) /\
  num_parse (lit "0b" ++ render_base 2 up k ++ rest) = Some (k, rest) /\
  num_parse (lit "0" ++ render_base 8 up k ++ rest) = Some (k, rest) /\
  num_parse (show_N k ++ rest) = Some (k, rest).
Proof.
  intros Hk Hr.
  destruct (render_base_spec 16 up k ltac:(lia) Hk) as (h & -> & Hhne & Hhall & Hhv).
  destruct (render_base_spec 2 up k ltac:(lia) Hk) as (bb & -> & Hbne & Hball & Hbv).
  destruct (render_base_spec 8 up k ltac:(lia) Hk) as (o & -> & Hone & Hoall & Hov).
  assert (Hh : forallb is_hex h = true) by (apply (all_class is_hex 16 h); [intros d u Hd; apply (dchr_facts u d Hd) | exact Hhall]).
  assert (Hb : forallb is_bin bb = true) by (apply (all_class is_bin 2 bb); [intros d u Hd; apply (dchr_facts u d); lia | exact Hball]).
  assert (Ho : forallb is_oct o = true) by (apply (all_class is_oct 8 o); [intros d u Hd; apply (dchr_facts u d); lia | exact Hoall]).
  pose proof (radix_ok is_hex 16 h rest k Hh Hhne (not_idch_not is_hex rest hex_idch Hr) Hhv Hk) as Rh.
  pose proof (radix_ok is_bin 2 bb rest k Hb Hbne (not_idch_not is_bin rest bin_idch Hr) Hbv Hk) as Rb.
  pose proof (radix_ok is_oct 8 o rest k Ho Hone (not_idch_not is_oct rest (fun c H => Hdigit c (oct_digit c H)) Hr) Hov Hk) as Ro.
  unfold num_parse, e_const.
  split; [|split; [|split; [|split]]].
  - change (strip (lit "$") (lit "$" ++ h ++ rest)) with (Some (h ++ rest)%list). cbv beta iota. rewrite Rh. reflexivity.
  - change (strip (lit "$") (lit "0x" ++ h ++ rest)) with (@None str).
    change (strip (lit "0x") (lit "0x" ++ h ++ rest)) with (Some (h ++ rest)%list). cbv beta iota. rewrite Rh. reflexivity.
  - change (strip (lit "$") (lit "0b" ++ bb ++ rest)) with (@None str).
    change (strip (lit "0x") (lit "0b" ++ bb ++ rest)) with (@None str).
    change (strip (lit "0b") (lit "0b" ++ bb ++ rest)) with (Some (bb ++ rest)%list). cbv beta iota. rewrite Rb. reflexivity.
  - (* octal: the digit after the leading 0 is neither x nor b *)
    destruct o as [|c o']; [contradiction|].
    assert (Hc : is_oct c = true) by (cbn in Ho; apply andb_prop in Ho; tauto).
    change (strip (lit "$") (lit "0" ++ (c :: o') ++ rest)) with (@None str).
    assert (X : strip (lit "0x") (lit "0" ++ (c :: o') ++ rest) = None).
    { cbn [lit list_ascii_of_string app strip]. rewrite Ascii.eqb_refl. destruct (Ascii.eqb_spec "x"%char c) as [<-|]; [discriminate | reflexivity]. }
    assert (B : strip (lit "0b") (lit "0" ++ (c :: o') ++ rest) = None).
    { cbn [lit list_ascii_of_string app strip]. rewrite Ascii.eqb_refl. destruct (Ascii.eqb_spec "b"%char c) as [<-|]; [discriminate | reflexivity]. }
    rewrite X, B. change (strip (lit "0") (lit "0" ++ (c :: o') ++ rest)) with (Some ((c :: o') ++ rest)%list). cbv beta iota. cbn [or_opt].
    rewrite Ro. reflexivity.
  - apply H_num_ok; assumption.
Qed.
