(** src/parser.rs (parse_iter, skip, segments) and src/directive.rs (Directive::parse): the line
    loop with conditional assembly and macro recording, and the parse-time effects of directives.
    File inclusion goes through an abstract file system (Model/Fs.v supplies it). *)
Require Import AvraV.Model.Base AvraV.Model.Ast AvraV.Model.Device AvraV.Model.Eval AvraV.Model.Grammar AvraV.Model.Lines.
Require Import AvraV.Model.Show AvraV.Model.Fs AvraV.Gen.Devices.
Open Scope N_scope.

Inductive next_item := NewLine | EndIf | EndIfAll | EndMacro | EndFile.

Record pstate := {
  segs : list segment;                         (* in order of creation; the last one is current *)
  macro_name : str;
  macros : list (str * list (N * str));        (* name -> body lines (0-based line index, text) *)
  msgs : list str;
  pcx : ctx;                                   (* equs, defines, device (shared CommonContext) *)
  fl : flayer;                                 (* current_path and include_paths of the ParseContext *)
}.

Definition seg_new (t : segt) : segment := {| items := []; seg_t := t; address := 0 |}.
Definition pstate_new (c : ctx) : pstate :=
  {| segs := [seg_new SCode]; macro_name := []; macros := []; msgs := []; pcx := c; fl := fl_empty |}.

Definition upd_last (f : segment -> segment) (l : list segment) : list segment :=
  match rev l with [] => [] | x :: r => rev (f x :: r) end.
Definition last_seg (st : pstate) : segment := match rev (segs st) with x :: _ => x | [] => seg_new SCode end.
Definition with_segs (st : pstate) (l : list segment) : pstate :=
  {| segs := l; macro_name := macro_name st; macros := macros st; msgs := msgs st; pcx := pcx st; fl := fl st |}.
Definition with_ctx (st : pstate) (c : ctx) : pstate :=
  {| segs := segs st; macro_name := macro_name st; macros := macros st; msgs := msgs st; pcx := c; fl := fl st |}.
Definition with_fl (st : pstate) (f : flayer) : pstate :=
  {| segs := segs st; macro_name := macro_name st; macros := macros st; msgs := msgs st; pcx := pcx st; fl := f |}.
Definition with_msgs (st : pstate) (m : list str) : pstate :=
  {| segs := segs st; macro_name := macro_name st; macros := macros st; msgs := m; pcx := pcx st; fl := fl st |}.
Definition push_item (st : pstate) (cp : N * N) (it : item) : pstate :=
  with_segs st (upd_last (fun s => {| items := (items s ++ [(cp, it)])%list; seg_t := seg_t s; address := address s |}) (segs st)).
Definition add_segment (st : pstate) (s : segment) : pstate := with_segs st (segs st ++ [s])%list.
Definition seg_is_empty (s : segment) : bool := match items s with [] => true | _ => false end.

Definition ctx_set_equ (c : ctx) (n : str) (e : expr) : ctx :=
  {| defines := defines c; equs := insert (lower n) e (equs c); labels := labels c; defs := defs c; sets := sets c;
     special := special c; dev := dev c |}.
Definition ctx_set_define (c : ctx) (n : str) (e : expr) : ctx :=
  {| defines := insert n e (defines c); equs := equs c; labels := labels c; defs := defs c; sets := sets c;
     special := special c; dev := dev c |}.
Definition ctx_set_device (c : ctx) (d : device) : ctx :=
  {| defines := defines c; equs := equs c; labels := labels c; defs := defs c; sets := sets c; special := special c; dev := d |}.

Definition device_eqb (a b : device) : bool :=
  (flash_size a =? flash_size b) && (ram_start a =? ram_start b) && (ram_size a =? ram_size b) &&
  (eeprom_size a =? eeprom_size b) &&
  forallb (fun o => Bool.eqb (has a o) (has b o))
    [NoMul; NoJmp; NoXreg; NoYreg; Tiny1x; NoLpm; NoLpmX; NoElpm; NoElpmX; NoSpm; NoEspm; NoMovw; NoBreak; NoEicall; NoEijmp; Avr8l].

Definition msg_text (kind : string) (m : str) (line : N) : str :=
  (lit kind ++ lit ": " ++ m ++ lit " in line: " ++ show_N line)%list.

Definition first_op (d : dops) : option (option operand) :=
  match d with OpList l => Some (hd_error l) | Assign _ _ => None end.

Section Directive.
Variable fuel : nat.
(** .include, supplied by the file layer: parse the named file in the given state *)
Variable include_file : str -> pstate -> res pstate.

(** Directive::parse - returns the new state and the mode for the line loop *)
Definition directive_parse (d : directive) (ops : dops) (st : pstate) (line : N) : res (pstate * next_item) :=
  let cp := (line, 2) in
  let err {A} : res A := Err (Some line) in
  match d with
  | DDb | DDw | DDd | DDq =>
      match ops with
      | OpList args =>
          let k := match d with DDb => Db | DDw => Dw | DDd => Dd | _ => Dq end in
          Ok (push_item st cp (IData k args), NewLine)
      | _ => err
      end
  | DSet | DDef =>
      match ops with
      | Assign (EIdent name) e =>
          Ok (push_item st cp (match d with DSet => ISet name e | _ => IDef name e end), NewLine)
      | _ => err
      end
  | DUndef =>
      match first_op ops with
      | Some (Some (PE (EIdent name))) => Ok (push_item st cp (IUndef name), NewLine)
      | _ => err
      end
  | DPragma =>
      match ops with OpList args => Ok (push_item st cp (IPragma args), NewLine) | _ => err end
  | DByte =>
      match ops with
      | OpList args =>
          if (1 <? length args)%nat then Err None
          else match args with
               | PE (EConst n) :: _ => Ok (push_item st cp (IReserve n), NewLine)
               | _ => Ok (st, NewLine)
               end
      | _ => err
      end
  | DEqu =>
      match ops with
      | Assign (EIdent name) value => Ok (with_ctx st (ctx_set_equ (pcx st) name value), NewLine)
      | Assign _ _ => Ok (st, NewLine)
      | _ => err
      end
  | DOrg =>
      match first_op ops with
      | Some (Some (PE e)) =>
          match run fuel (pcx st) e with
          | Ok v =>
              if (v <? 0)%Z || (4294967295 <? v)%Z then err else
              let st1 := if seg_is_empty (last_seg st) then st else add_segment st (seg_new (seg_t (last_seg st))) in
              Ok (with_segs st1 (upd_last (fun s => {| items := items s; seg_t := seg_t s; address := Z.to_N v |}) (segs st1)), NewLine)
          | Err _ => err
          | Panic => Panic
          | OutOfFuel => OutOfFuel
          end
      | _ => err
      end
  | DCSeg | DDSeg | DESeg =>
      let t := match d with DCSeg => SCode | DDSeg => SData | _ => SEeprom end in
      if seg_is_empty (last_seg st)
      then Ok (with_segs st (upd_last (fun s => {| items := items s; seg_t := t;
                                                   address := if segt_eqb (seg_t s) t then address s else 0 |}) (segs st)), NewLine)
      else Ok (add_segment st (seg_new t), NewLine)
  | DDevice =>
      match first_op ops with
      | Some (Some (PE (EIdent name))) =>
          match lookup name devices with
          | Some dv =>
              if device_eqb (dev (pcx st)) default_device
              then Ok (with_ctx st (ctx_set_device (pcx st) dv), NewLine)
              else err
          | None => err
          end
      | Some _ => err                                     (* anything but a plain name selects no device: an error *)
      | None => err
      end
  | DInclude =>
      match first_op ops with
      | Some (Some (PS path)) => do st' <- include_file path st; Ok (st', NewLine)
      | _ => err
      end
  | DIncludePath =>
      match first_op ops with
      | Some (Some (PS t)) =>
          let p := components t in
          let q := if is_abs p then p
                   else join (match parent (cur_path (fl st)) with Some d => d | None => [] end) p in
          Ok (with_fl st {| cur_path := cur_path (fl st); ipaths := set_insert q (ipaths (fl st)) |}, NewLine)
      | _ => err
      end
  | DIf | DElIf =>
      match first_op ops with
      | Some (Some (PE e)) =>
          match run fuel (pcx st) e with
          | Ok v => Ok (st, if (v =? 0)%Z then EndIf else NewLine)
          | Err _ => err
          | Panic => Panic
          | OutOfFuel => OutOfFuel
          end
      | _ => err
      end
  | DIfDef | DIfNDef =>
      match first_op ops with
      | Some (Some (PE (EIdent name))) =>
          let defd := match lookup name (defines (pcx st)) with Some _ => true | None => false end in
          Ok (st, match d with
                  | DIfNDef => if defd then EndIf else NewLine
                  | _ => if defd then NewLine else EndIf
                  end)
      | _ => err
      end
  | DDefine =>
      match first_op ops with
      | Some (Some (PE (EIdent name))) => Ok (with_ctx st (ctx_set_define (pcx st) name (EConst 0)), NewLine)
      | _ => err
      end
  | DElse => Ok (st, EndIfAll)
  | DEndif => Ok (st, NewLine)
  | DExit => Ok (st, EndFile)
  | DMacro =>
      match first_op ops with
      | Some (Some (PE (EIdent name))) =>
          Ok ({| segs := segs st; macro_name := lower name; macros := macros st; msgs := msgs st; pcx := pcx st; fl := fl st |}, EndMacro)
      | _ => err
      end
  | DCSegSize => Ok (st, NewLine)
  | DMessage | DWarning | DError =>
      match first_op ops with
      | Some (Some (PS m)) =>
          let kind := match d with DMessage => "info" | DWarning => "warning" | _ => "error" end%string in
          let st' := with_msgs st (msgs st ++ [msg_text kind m line])%list in
          match d with DError => err | _ => Ok (st', NewLine) end
      | _ => err
      end
  | DCustom _ => err
  | _ => err
  end.

(** ---- the line loop ---- *)
Definition lines := list (N * str).     (* 0-based index, text *)

Definition dir_of (l : str) : option directive :=
  match parse_line l with Some (DirLine _ d _) => Some d | _ => None end.

(** skip(EndMacro): collect body lines up to .endmacro/.endm; the loop resumes after it *)
Fixpoint skip_macro (ls : lines) (acc : list (N * str)) : list (N * str) * lines :=
  match ls with
  | [] => (acc, [])
  | (n, l) :: r =>
      match dir_of l with
      | Some DEndMacro | Some DEndM => (acc, r)
      | _ => skip_macro r (acc ++ [(n, l)])%list
      end
  end.

(** skip(EndIf / EndIfAll): the lines the loop resumes with, and whether it stopped AT an .elif line
    (only then is that .elif evaluated) *)
Fixpoint skip_cond (all : bool) (depth : nat) (ls : lines) : lines * bool :=
  match ls with
  | [] => ([], false)
  | (n, l) :: r =>
      match dir_of l with
      | Some DIf | Some DIfDef | Some DIfNDef => skip_cond all (S depth) r
      | Some DEndif => match depth with O => (r, false) | S d => skip_cond all d r end
      | Some DElse => match depth with O => if all then skip_cond all depth r else (r, false) | S _ => skip_cond all depth r end
      | Some DElIf => match depth with O => if all then skip_cond all depth r else (ls, true) | S _ => skip_cond all depth r end
      | _ => skip_cond all depth r
      end
  end.

Definition label_item (st : pstate) (l : option str) (line : N) : pstate :=
  match l with Some name => push_item st (line, 1) (ILabel name) | None => st end.

(** parse_iter.  [skipped] tells whether the current line is the .elif at which the skipping of an
    untaken branch stopped (then it is evaluated); any other .elif follows an assembled branch. *)
Fixpoint parse_iter (g : nat) (ls : lines) (skipped : bool) (st : pstate) : res pstate :=
  match g with
  | O => OutOfFuel
  | S g' =>
      match ls with
      | [] => Ok st
      | (n, l) :: r =>
          let line := n + 1 in
          match parse_line l with
          | None => Err (Some line)
          | Some EmptyLine => parse_iter g' r false st
          | Some (LabelLine name) => parse_iter g' r false (push_item st (line, 1) (ILabel name))
          | Some (CodeLine lab o args) =>
              parse_iter g' r false (push_item (label_item st lab line) (line, 2) (IInstr o args))
          | Some (DirLine lab d ops) =>
              let st1 := label_item st lab line in
              do sn <- match d, skipped with
                       | DElIf, false => Ok (st1, EndIfAll)
                       | _, _ => directive_parse d ops st1 line
                       end;
              let '(st2, ni) := sn in
              match ni with
              | NewLine => parse_iter g' r false st2
              | EndFile => Ok st2
              | EndIf => let '(r', at_elif) := skip_cond false 0 r in parse_iter g' r' at_elif st2
              | EndIfAll => parse_iter g' (fst (skip_cond true 0 r)) false st2
              | EndMacro =>
                  let '(body, r') := skip_macro r [] in
                  parse_iter g' r' false
                    {| segs := segs st2; macro_name := macro_name st2;
                       macros := insert (macro_name st2) body (macros st2); msgs := msgs st2; pcx := pcx st2; fl := fl st2 |}
              end
          end
      end
  end.
End Directive.

(** str::lines(): split on LF, strip one trailing CR of each line; a final line without LF counts *)
Fixpoint split_lines_aux (s cur : str) : list str :=
  match s with
  | [] => match cur with [] => [] | _ => [rev cur] end
  | c :: r =>
      if code c =? 10 then
        (match cur with cr :: cur' => if code cr =? 13 then rev cur' else rev cur | [] => [] end) :: split_lines_aux r []
      else split_lines_aux r (c :: cur)
  end.
Definition split_lines (s : str) : list str := split_lines_aux s [].
Fixpoint number_from (n : N) (l : list str) : list (N * str) :=
  match l with [] => [] | x :: r => (n, x) :: number_from (N.succ n) r end.
