"""Regenerates MANIFEST.json from the table below (python3 -m vlib.manifest)."""
import json
import os

VERIF = os.path.dirname(os.path.dirname(os.path.abspath(__file__)))

BASE = ("Coq 8.16.1 kernel incl. vm_compute (no native_compute); no axioms (Print Assumptions of every theorem in Props/<id>.v is "
        "checked to be 'Closed under the global context' on each run); Spec/*.v transcriptions; the hand-written model Model/*.v, "
        "tied to /repo by correspondence runs (harness links the library built from the working tree; extracted model via "
        "ExtrOcamlBasic + ocaml/driver.ml, a slice re-evaluated by vm_compute inside Coq); rustc/std/third-party crates as exercised.")

CHECKS = {
    "C07": dict(
        text="Theorem C07_roundtrip (Props/C07.v): for every byte image up to the 32-bit HEX address space the writer model's file is "
             "accepted by an independent Intel HEX reader and decodes to exactly the image at addresses 0..n-1 (induction over 16-byte "
             "chunks, unbounded length). The model is tied to src/writer.rs + the ihex formatter by byte-for-byte comparison of the "
             "files the real writers produce (every length 0..600, +-17 around every 64 KiB multiple up to the largest flash).",
        note=BASE + " Modelled rather than verified: writer.rs, ihex::create_object_file_representation, the CRLF pass, File I/O.",
        tech="Coq proof (induction) over a hand-written model + differential correspondence with the real writer",
        ref="3 C07"),
}

NOT_APPLICABLE = {}

PENDING = ("claimed in DESIGN.md, machinery not built yet in this commit; listed here so that nothing unbuilt is claimed "
           "(technique applies - see DESIGN.md section 3)")


def main():
    ids = [json.loads(l)["id"] for l in open(os.path.join(VERIF, "properties.jsonl"))]
    checks = []
    for pid in ids:
        if pid not in CHECKS:
            continue
        c = CHECKS[pid]
        checks.append({
            "property_id": pid,
            "quick_cmd": "./check %s --tier quick" % pid,
            "thorough_cmd": "./check %s --tier thorough" % pid,
            "evidence_file": "/verif/evidence/%s.json" % pid,
            "replay_cmd_template": "./check %s --replay {path}" % pid,
            "engine": "coq-proof",
            "level_claimed": {"category": "proof", "text": c["text"], "design_ref": "DESIGN.md section " + c["ref"]},
            "level_note": c["note"],
            "technique": c["tech"],
        })
    na = [{"property_id": p, "reason": NOT_APPLICABLE.get(p, PENDING)} for p in ids if p not in CHECKS]
    m = {
        "version": 1,
        "setup_cmd": "./check --setup",
        "hooks": {"guard": "avra_rs_verif", "enable": "none needed: every interface the harness uses is pub; the guard name is reserved and unused",
                  "baseline_off_cmd": "cd /repo && cargo test --workspace --no-fail-fast --offline", "source_commits": [], "add_only": True},
        "engines": [{"name": "coq-proof", "path": "/verif/check", "serves_properties": [c["property_id"] for c in checks],
                     "kind_free_text": "Coq 8.16.1 theorems about a hand-written Gallina model (coq/), tied to /repo on every run by "
                                       "regenerated tables and model-vs-implementation correspondence (harness/, ocaml/, vlib/)"}],
        "checks": checks,
        "not_applicable": na,
        "notes": "See DESIGN.md. known_findings.json lists repaired defects (fix: commits in /repo) and open findings.",
    }
    with open(os.path.join(VERIF, "MANIFEST.json"), "w") as f:
        json.dump(m, f, indent=1)
    print("MANIFEST.json: %d checks, %d not claimed" % (len(checks), len(na)))


if __name__ == "__main__":
    main()
