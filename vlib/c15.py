"""C15 - a failed build names the offending line; messages are kept in order.
Search oracle: a valid program + exactly one injected single-line fault at a known line -> ERR naming that line;
.message/.warning lines: the result's message list = those lines in source order with their own numbers, images unchanged."""
import random

from . import progcheck as P, proggen, progrun

PROP = "C15"

FAULTS = [
    ("syntax", ["  ldi r16,, 5", "  mov r1 r2", "  )(", "  .db 1,", "  ldi r16, 1 +", "@@@", "  nop nop", "  .db \"open"]),
    ("unknown-mnemonic-or-macro", ["  frobnicate r1", "  nosuchmacro", "  brxx there"]),
    ("operand-kind", ["  ldi 5, 5", "  mov r1, 7", "  ld r1, r2", "  inc X", "  out r1, r1"]),
    ("operand-range", ["  ldi r1, 5", "  ldi r16, 300", "  adiw r24, 64", "  sbi 32, 1", "  sbrc r1, 8", "  movw r1, r2", "  adiw r25, 1", "  in r1, 64"]),
    ("operand-count", ["  mov r1", "  nop r1", "  ldi r16", "  ret 5"]),
    ("undefined-symbol-instruction", ["  ldi r16, undefined_sym", "  rjmp undefined_label", "  lds r16, nosuch + 1", "  ldi r16, 0 && undefined_sym",
                                      "  ldi r16, 1 || undefined_sym", "  ldi r16, 0 * undefined_sym", "  ldi r16, low(0 & undefined_sym)"]),
    ("undefined-symbol-data", ["  .db undefined_sym", "  .dw 1 || nosuch", "  .dw 0 && nosuch", "  .db (1 || nosuch) + 1", "  .dw 1, undefined_sym", "  .dq nosuch", "  .dw frameequ, framevar, nosuch", "  .db low(nosuch)"]),
    ("data-range", ["  .db 256", "  .dw 65536", "  .db -129", "  .dd 4294967296", "  .dw \"str\""]),
    ("undefined-symbol-set", [".set newset = undefined_sym + 1", ".set framevar = undefined_sym", ".set FrameVar = framevar + undefined_sym",
                              ".set framevar = framevar / (framevar - framevar)", ".set framevar = low(undefined_sym)"]),
    ("undefined-symbol-if", [".if undefined_sym\n.endif", ".if 0\n.elif undefined_sym\n.endif", ".if 1 || undefined_sym\n.endif", ".if 0 && undefined_sym\n.endif"]),
    ("duplicate-label", ["main_label: nop"]),
    ("error-directive", [".error \"stop\""]),
    ("unknown-directive", [".frobnicate 1", ".list"]),
    ("branch-range", ["  breq far_label", "  brne pc+65", "  rjmp pc+2049", "  breq pc-64", "  rcall pc-2048"]),
    ("undef-unknown", [".undef never_defined", ".undef framereg\n.undef framereg"]),
    ("def-not-register", [".def myreg = notareg"]),
    ("device-unknown", [".device NoSuchDevice"]),
    ("wrong-segment", [".byte 3"]),
]


def valid_program(rng):
    n = rng.choice([3, 6, 10, 16])
    ls = proggen.program(rng, size=n, conditionals=False, macros=False)
    # a stable frame: a label that exists once, a far label, a macro that needs an argument
    head = ["main_label: nop", ".macro needsarg", "  ldi r16, @0", ".endm", ".set framevar = 1", ".def framereg = r20", ".equ frameequ = 3"]
    tail = [".cseg", ".org 0x400", "far_label: nop"]
    return head + [l for l in ls if not l.startswith(".org") and "seg" not in l and not l.startswith(".message") and not l.startswith(".warning")] + tail


def run(res):
    vh, exe = P.base(res, PROP)
    rng = random.Random(res.seed)
    cases = []   # (text, kind, expected line or None for "valid")
    nprog = 120 if res.tier == "quick" else 20000
    # "an otherwise valid program": keep only generated bases that build
    cands = [valid_program(rng) for _ in range(nprog * 3)]
    pre = progrun.run_texts(vh, exe, ["\n".join(b) + "\n" for b in cands])
    bases = [b for b, r in zip(cands, pre) if r[1].startswith("OK")][:nprog]
    for base in bases:
        cases.append(("\n".join(base) + "\n", "valid", None, None))
        for kind, variants in FAULTS:
            v = rng.choice(variants)
            pos = rng.randrange(7, len(base) - 2)
            ls = base[:pos] + v.split("\n") + base[pos:]
            # the line the error must name: the (first) injected line; for duplicate labels the second definition
            want = pos + 1
            if kind == "undefined-symbol-if" and "\n.elif" in v:
                want = pos + 2
            if kind == "undef-unknown" and "\n" in v:
                want = pos + 2
            cases.append(("\n".join(ls) + "\n", kind, want, v))
    # messages: valid programs with .message/.warning sprinkled in, also inside taken/untaken conditional arms
    mcases = []
    for base in bases:
        ls, expect = [], []
        for li, l in enumerate(base):
            if li >= 7 and rng.random() < 0.25:
                k = rng.choice(["message", "warning"])
                txt = "t%d" % len(ls)
                form = rng.randrange(4)
                if form == 0:
                    ls.append('.%s "%s"' % (k, txt))
                    expect.append(("info" if k == "message" else "warning", txt, len(ls)))
                elif form == 1:
                    ls += [".if 1", '.%s "%s"' % (k, txt), ".endif"]
                    expect.append(("info" if k == "message" else "warning", txt, len(ls) - 1))
                elif form == 2:
                    ls += [".if 0", '.%s "%s"' % (k, txt), ".error \"never\"", ".endif"]
                else:
                    ls += [".if 0", ".else", '.%s "%s"' % (k, txt), ".endif"]
                    expect.append(("info" if k == "message" else "warning", txt, len(ls) - 1))
            ls.append(l)
        plain = [("" if (x.startswith(".message") or x.startswith(".warning")) else x) for x in ls]
        mcases.append(("\n".join(ls) + "\n", "\n".join(plain) + "\n", expect))
    obs = P.correspond(res, vh, exe, [c[0] for c in cases] + [m[0] for m in mcases] + [m[1] for m in mcases], "single-fault and message programs")
    dist = {}
    valid_ok = {}
    for text, kind, want, v in cases:
        a = progrun.parse_obs(obs[text][0])
        dist[kind] = dist.get(kind, 0) + 1
        if kind == "valid":
            valid_ok[text] = a["kind"] == "OK"
            continue
        if a["kind"] != "ERR":
            P.fail(res, "builder::build_str", text, "a failed build naming line %d (%s: %r)" % (want, kind, v), obs[text][0][:100], "fault-accepted:" + kind)
        elif a["line"] != want:
            P.fail(res, "builder::build_str", text, "an error naming line %d (%s: %r)" % (want, kind, v), "error naming line %s" % a["line"], "line:" + kind,
                   extra=dict(want_line=want))
    for full, plain, expect in mcases:
        a, b = progrun.parse_obs(obs[full][0]), progrun.parse_obs(obs[plain][0])
        if a["kind"] != "OK" or b["kind"] != "OK":
            continue
        want = ["%s: %s in line: %d" % e for e in expect]
        if a["msgs"] != want:
            P.fail(res, "builder::build_str", full, "messages %r" % want, "messages %r" % a["msgs"], "messages-order")
        if (a["code"], a["eeprom"], a["fill"]) != (b["code"], b["eeprom"], b["fill"]):
            P.fail(res, "builder::build_str", full, "the images of the program without its .message/.warning lines", "different images", "messages-change-image")
    res.extra["distribution"].update({"fault:" + k: v for k, v in dist.items()})
    res.extra["distribution"]["valid_bases_that_build"] = sum(1 for v in valid_ok.values() if v)
    res.extra["exhaustive"] = False
    res.rule = ("valid generated programs x one injected single-line fault of each of %d kinds at a random position (the frame supplies a "
                "label, a far label and a one-parameter macro); oracle: the build fails and the first 'line: N' of the error text is the "
                "injected line.  Message programs: .message/.warning at random lines, also inside taken / untaken / else arms; oracle: the "
                "message list equals the assembled message lines in source order with their own line numbers, and images equal those of "
                "the program with the message lines blanked" % len(FAULTS))
    res.samples = [dict(source=c[0][-200:], kind=c[1], expected_line=c[2], observed=obs[c[0]][0][:60]) for c in cases[1:4]]
    res.assume = ["messages inside macro bodies are outside the property's quantifier (DESIGN.md C15)"]


match_known = P.match_known


def replay(path):
    def judge(vh, exe, i):
        rows = progrun.run_texts(vh, exe, [i["source"]])
        a = progrun.parse_obs(rows[0][1])
        want = i.get("want_line")
        if want is None:
            return None
        return None if (a["kind"] == "ERR" and a["line"] == want) else ("line %s" % want, rows[0][1])
    return P.replay_text(PROP, path, judge)
