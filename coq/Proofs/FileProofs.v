(** C11: where files are looked for, and inclusion = pasting. *)
From Coq Require Import List NArith ZArith Bool Lia.
Import ListNotations.
Require Import AvraV.Model.Base AvraV.Model.Ast AvraV.Model.Eval AvraV.Model.Lines AvraV.Model.Fs AvraV.Model.Parse AvraV.Model.Passes AvraV.Model.Files.
Require Import AvraV.Proofs.CondProofs AvraV.Proofs.LayoutProofs.
Open Scope N_scope.

(** ---------------- the order on paths (BTreeSet<PathBuf>) ---------------- *)
Lemma N_of_ascii_inj a b : N_of_ascii a = N_of_ascii b -> a = b.
Proof. intros H. apply (f_equal ascii_of_N) in H. rewrite !ascii_N_embedding in H. exact H. Qed.

Lemma str_cmp_eq a : forall b, str_cmp a b = Eq -> a = b.
Proof.
  induction a as [|x a IH]; intros [|y b]; cbn; try discriminate; auto.
  destruct (N.compare (N_of_ascii x) (N_of_ascii y)) eqn:E; try discriminate.
  apply N.compare_eq in E. apply N_of_ascii_inj in E. intros H. f_equal; auto.
Qed.
Lemma str_cmp_refl a : str_cmp a a = Eq.
Proof. induction a as [|x a IH]; cbn; [reflexivity|]. rewrite N.compare_refl. exact IH. Qed.
Lemma str_cmp_antisym a : forall b, str_cmp b a = CompOpp (str_cmp a b).
Proof.
  induction a as [|x a IH]; intros [|y b]; cbn; try reflexivity.
  rewrite (N.compare_antisym (N_of_ascii x) (N_of_ascii y)).
  destruct (N.compare (N_of_ascii x) (N_of_ascii y)); cbn; auto.
Qed.

Lemma comp_cmp_eq a b : comp_cmp a b = Eq -> a = b.
Proof. destruct a, b; cbn; intros H; try discriminate; try reflexivity. f_equal. apply str_cmp_eq. exact H. Qed.
Lemma comp_cmp_refl a : comp_cmp a a = Eq.
Proof. destruct a; cbn; try reflexivity. apply str_cmp_refl. Qed.
Lemma comp_cmp_antisym a b : comp_cmp b a = CompOpp (comp_cmp a b).
Proof. destruct a, b; cbn; try reflexivity. apply str_cmp_antisym. Qed.

Lemma path_cmp_eq a : forall b, path_cmp a b = Eq -> a = b.
Proof.
  induction a as [|x a IH]; intros [|y b]; cbn; try discriminate; auto.
  destruct (comp_cmp x y) eqn:E; try discriminate. apply comp_cmp_eq in E. intros H. f_equal; auto.
Qed.
Lemma path_cmp_refl a : path_cmp a a = Eq.
Proof. induction a as [|x a IH]; cbn; [reflexivity|]. rewrite comp_cmp_refl. exact IH. Qed.
Lemma path_cmp_antisym a : forall b, path_cmp b a = CompOpp (path_cmp a b).
Proof.
  induction a as [|x a IH]; intros [|y b]; cbn; try reflexivity.
  rewrite (comp_cmp_antisym x y). destruct (comp_cmp x y); cbn; auto.
Qed.
Lemma path_eqb_true a b : path_eqb a b = true <-> a = b.
Proof.
  unfold path_eqb. split.
  - destruct (path_cmp a b) eqn:E; try discriminate. intros _. apply path_cmp_eq. exact E.
  - intros ->. rewrite path_cmp_refl. reflexivity.
Qed.

(** ---------------- sets of paths ---------------- *)
Fixpoint sorted (s : list path) : Prop :=
  match s with [] => True | q :: r => (forall x, In x r -> path_cmp q x = Lt) /\ sorted r end.

Lemma insert_elems p s x : In x (set_insert p s) -> x = p \/ In x s.
Proof.
  induction s as [|q r IH]; cbn [set_insert]; intros H.
  - destruct H as [<-|[]]. auto.
  - destruct (path_cmp p q); cbn [In] in *; intuition.
Qed.
Lemma insert_in p s : In p (set_insert p s).
Proof.
  induction s as [|q r IH]; cbn [set_insert]; [left; reflexivity|].
  destruct (path_cmp p q) eqn:E; cbn [In]; auto. apply path_cmp_eq in E. auto.
Qed.
Lemma insert_keeps p s x : In x s -> In x (set_insert p s).
Proof.
  induction s as [|q r IH]; cbn [set_insert]; intros H; [destruct H|].
  destruct (path_cmp p q); cbn [In] in *; intuition.
Qed.
Lemma insert_mem s : sorted s -> forall p, In p s -> set_insert p s = s.
Proof.
  induction s as [|q r IH]; intros Hs p Hin; [destruct Hin|]. destruct Hs as (Hq & Hr). cbn [set_insert].
  destruct (path_cmp p q) eqn:E; [reflexivity | | ].
  - exfalso. destruct Hin as [->|Hin]; [rewrite path_cmp_refl in E; discriminate|].
    specialize (Hq _ Hin). rewrite (path_cmp_antisym p q), E in Hq. discriminate.
  - f_equal. apply IH; [exact Hr|]. destruct Hin as [->|Hin]; [rewrite path_cmp_refl in E; discriminate | exact Hin].
Qed.

Lemma set_of_in l p : In p l -> In p (set_of l).
Proof.
  unfold set_of. intros H. assert (G : forall acc, In p acc \/ In p l -> In p (fold_left (fun s q => set_insert q s) l acc)).
  { clear H. induction l as [|q l IH]; intros acc [H|H]; cbn [fold_left]; try assumption; try destruct H.
    - apply IH. left. apply insert_keeps. exact H.
    - apply IH. left. subst. apply insert_in.
    - apply IH. right. exact H. }
  apply G. auto.
Qed.

(** handing the include set back: everything but the file's own directory *)
Definition back_of (own : option path) (from ips : list path) : list path :=
  fold_left (fun s q => match own with
                        | Some d => if path_eqb q d then s else set_insert q s
                        | None => set_insert q s
                        end) from ips.
Lemma back_same own ips : sorted ips ->
  back_of own (match own with Some d => set_insert d ips | None => ips end) ips = ips.
Proof.
  intros Hs. unfold back_of.
  assert (G : forall l, (forall x, In x l -> own = Some x \/ In x ips) ->
            fold_left (fun s q => match own with
                                  | Some d => if path_eqb q d then s else set_insert q s
                                  | None => set_insert q s
                                  end) l ips = ips).
  { induction l as [|x l IH]; intros H; cbn [fold_left]; [reflexivity|].
    assert (Hx : (match own with Some d => if path_eqb x d then ips else set_insert x ips | None => set_insert x ips end) = ips).
    { destruct (H x (or_introl eq_refl)) as [->|Hin].
      - rewrite (proj2 (path_eqb_true x x) eq_refl). reflexivity.
      - destruct own as [d|]; [destruct (path_eqb x d); [reflexivity|]|]; apply insert_mem; assumption. }
    rewrite Hx. apply IH. intros y Hy. apply H. right. exact Hy. }
  apply G. intros x Hx. destruct own as [d|]; [|auto]. apply insert_elems in Hx. destruct Hx as [->|Hx]; auto.
Qed.

(** ---------------- where a file is looked for ---------------- *)
Section Locate.
Variable fs : fsys.

Lemma read_exists p s : read_path fs p = Some s -> exists_path fs p = true.
Proof. unfold read_path, exists_path. destruct (resolve fs p); [reflexivity | discriminate]. Qed.

(** as written first *)
Theorem locate_as_written ips t : exists_path fs t = true -> locate fs ips t = t.
Proof. unfold locate. intros ->. reflexivity. Qed.

(** otherwise in a directory of the include set, when one has it *)
Theorem locate_in_set ips t q : exists_path fs t = false -> In q ips -> exists_path fs (join q t) = true ->
  exists q', In q' ips /\ locate fs ips t = join q' t /\ exists_path fs (join q' t) = true.
Proof.
  unfold locate. intros -> Hin Hex.
  destruct (find (fun q0 => exists_path fs (join q0 t)) ips) as [q'|] eqn:E.
  - apply find_some in E. destruct E as (Hq & He). eauto.
  - exfalso. pose proof (find_none _ _ E q Hin) as H. cbn in H. congruence.
Qed.

(** found nowhere: the name as written, which cannot be read *)
Theorem locate_nowhere ips t : exists_path fs t = false -> (forall q, In q ips -> exists_path fs (join q t) = false) ->
  locate fs ips t = t /\ read_path fs (locate fs ips t) = None.
Proof.
  unfold locate. intros Ht Hall. rewrite Ht.
  destruct (find (fun q0 => exists_path fs (join q0 t)) ips) as [q'|] eqn:E.
  - apply find_some in E. destruct E as (Hq & He). rewrite (Hall _ Hq) in He. discriminate.
  - split; [reflexivity|]. destruct (read_path fs t) eqn:R; [|reflexivity]. apply read_exists in R. congruence.
Qed.
End Locate.

(** ---------------- lines that do not look at the file layer ---------------- *)
Definition nofile (ln : line) : Prop :=
  match parse_line (snd ln) with
  | Some (DirLine _ DInclude _) | Some (DirLine _ DIncludePath _) => False
  | _ => True
  end.

Definition map_fl (f : flayer) (r : res (pstate * next_item)) : res (pstate * next_item) :=
  match r with Ok (s, ni) => Ok (with_fl s f, ni) | Err l => Err l | Panic => Panic | OutOfFuel => OutOfFuel end.
Definition map_fl_o (f : flayer) (o : ores) : ores :=
  match o with Some (Ok s) => Some (Ok (with_fl s f)) | other => other end.

Section Change.
Variable fuel : nat.
Variables inc1 inc2 : str -> pstate -> res pstate.

(** such a line does the same whatever the current path, the include set and the include function are,
    and leaves the file layer as it found it *)
Lemma label_item_fl st lab line f : label_item (with_fl st f) lab line = with_fl (label_item st lab line) f.
Proof. destruct lab; reflexivity. Qed.

Lemma directive_change d ops st line f : d <> DInclude -> d <> DIncludePath ->
  directive_parse fuel inc2 d ops (with_fl st f) line = map_fl f (directive_parse fuel inc1 d ops st line).
Proof.
  intros H1 H2. destruct st as [sg mn mc ms px fl0].
  destruct d; try congruence;
    unfold directive_parse, with_fl, with_ctx, with_segs, with_msgs, push_item, add_segment, last_seg;
    cbn [segs macro_name macros msgs pcx fl];
    repeat match goal with
           | |- context [match ?x with _ => _ end] =>
               lazymatch x with
               | context [match _ with _ => _ end] => fail
               | _ => destruct x
               end
           end; reflexivity.
Qed.

Lemma line_step_change ln sk st f : nofile ln ->
  line_step fuel inc2 ln sk (with_fl st f) = map_fl f (line_step fuel inc1 ln sk st).
Proof.
  unfold nofile, line_step. intros Hn.
  destruct (parse_line (snd ln)) as [[| name | lab o args | lab d ops]|]; try reflexivity.
  - rewrite label_item_fl. reflexivity.
  - rewrite label_item_fl.
    assert (Hd : d <> DInclude /\ d <> DIncludePath) by (destruct d; try contradiction; split; discriminate).
    destruct Hd as (Hd1 & Hd2).
    pose proof (directive_change d ops (label_item st lab (fst ln + 1)) (fst ln + 1) f Hd1 Hd2) as Hc.
    destruct d, sk; try exact Hc; reflexivity.
Qed.

Fixpoint nf_node (n : node) : Prop :=
  match n with
  | NLine ln => nofile ln
  | NBlock h b a => nofile h /\ nf_nodes b /\ nf_arms a
  | NMacro h _ _ => nofile h
  end
with nf_nodes (ns : nodes) : Prop :=
  match ns with Nnil => True | Ncons n r => nf_node n /\ nf_nodes r end
with nf_arms (a : arms) : Prop :=
  match a with
  | AEnd e => nofile e
  | AElse el b e => nofile el /\ nf_nodes b /\ nofile e
  | AElif hd b m => nofile hd /\ nf_nodes b /\ nf_arms m
  end.

Lemma step_plain_change ln st f : nofile ln ->
  step_plain fuel inc2 ln (with_fl st f) = map_fl_o f (step_plain fuel inc1 ln st).
Proof.
  intros H. unfold step_plain. rewrite (line_step_change ln false st f H).
  destruct (line_step fuel inc1 ln false st) as [[s ni]| | |]; cbn; try reflexivity. destruct ni; reflexivity.
Qed.
Lemma step_tail_change ln st f : nofile ln ->
  step_tail fuel inc2 ln (with_fl st f) = map_fl_o f (step_tail fuel inc1 ln st).
Proof.
  intros H. unfold step_tail. rewrite (line_step_change ln false st f H).
  destruct (line_step fuel inc1 ln false st) as [[s ni]| | |]; cbn; try reflexivity. destruct ni; reflexivity.
Qed.

Lemma obind_change f (o : ores) (k1 k2 : pstate -> ores) :
  (forall s, k2 (with_fl s f) = map_fl_o f (k1 s)) ->
  obind (map_fl_o f o) k2 = map_fl_o f (obind o k1).
Proof. intros H. destruct o as [[s| | |]|]; cbn; auto. Qed.

Lemma ex_change f :
  (forall n, nf_node n -> forall st, ex_node fuel inc2 n (with_fl st f) = map_fl_o f (ex_node fuel inc1 n st)) /\
  (forall ns, nf_nodes ns -> forall st, ex_nodes fuel inc2 ns (with_fl st f) = map_fl_o f (ex_nodes fuel inc1 ns st)) /\
  (forall a, nf_arms a ->
     (forall st, ex_arms fuel inc2 a (with_fl st f) = map_fl_o f (ex_arms fuel inc1 a st)) /\
     (forall st, after_taken fuel inc2 a (with_fl st f) = map_fl_o f (after_taken fuel inc1 a st))).
Proof.
  apply tree_mut.
  - intros ln H st. cbn [ex_node nf_node] in *. apply step_plain_change. exact H.
  - intros h b IHb a IHa (Hh & Hb & Ha) st. destruct (IHa Ha) as (IHa1 & IHa2). cbn [ex_node].
    rewrite (line_step_change h false st f Hh).
    destruct (line_step fuel inc1 h false st) as [[s ni]| | |]; cbn [map_fl]; try reflexivity.
    destruct ni; try reflexivity.
    + rewrite (IHb Hb). apply obind_change. exact IHa2.
    + apply IHa1.
  - intros h b _ e Hh st. cbn [ex_node nf_node] in *. rewrite (line_step_change h false st f Hh).
    destruct (line_step fuel inc1 h false st) as [[s ni]| | |]; cbn [map_fl]; try reflexivity.
    destruct ni; reflexivity.
  - intros _ st. reflexivity.
  - intros n IHn ns IHns (Hn & Hns) st. cbn [ex_nodes]. rewrite (IHn Hn). apply obind_change. exact (IHns Hns).
  - intros e He. cbn [nf_arms] in He. split; intros st; cbn [ex_arms after_taken]; [reflexivity | apply step_plain_change; exact He].
  - intros el b IHb e (Hel & Hb & He). split; intros st; cbn [ex_arms after_taken].
    + rewrite (IHb Hb). apply obind_change. intros s. apply step_plain_change. exact He.
    + apply step_tail_change. exact Hel.
  - intros hd b IHb m IHm (Hhd & Hb & Hm). destruct (IHm Hm) as (IHm1 & IHm2). split; intros st; cbn [ex_arms after_taken].
    + rewrite (line_step_change hd true st f Hhd).
      destruct (line_step fuel inc1 hd true st) as [[s ni]| | |]; cbn [map_fl]; try reflexivity.
      destruct ni; try reflexivity.
      * rewrite (IHb Hb). apply obind_change. exact IHm2.
      * apply IHm1.
    + apply step_tail_change. exact Hhd.
Qed.
End Change.

(** ---------------- inclusion = pasting ---------------- *)
Lemma with_fl_id s : with_fl s (fl s) = s.
Proof. destruct s. reflexivity. Qed.
Lemma with_fl_twice s f g : with_fl (with_fl s f) g = with_fl s g.
Proof. reflexivity. Qed.
Lemma flayer_eta x : {| cur_path := cur_path x; ipaths := ipaths x |} = x.
Proof. destruct x. reflexivity. Qed.

Section Paste.
Variable fs : fsys.
Variable fuel : nat.

(** the lines [tail] that may follow the balanced text of an included file: nothing, or a line that
    ends the file (.exit) followed by anything *)
Definition inert (tail : lines) : Prop := forall inc' s, Run fuel inc' tail false s (Ok s).

Lemma inert_nil : inert [].
Proof. intros inc' s. apply R_nil. Qed.
Lemma inert_exit e junk ops : parse_line (snd e) = Some (DirLine None DExit ops) -> inert (e :: junk).
Proof. intros H inc' s. eapply R_eof. unfold line_step. rewrite H. reflexivity. Qed.

Theorem include_is_paste l ln lab ops t src ns tail st o :
  let inc := file_at fs fuel (S l) in
  let st1 := label_item st lab (fst ln + 1) in
  parse_line (snd ln) = Some (DirLine lab DInclude ops) -> first_op ops = Some (Some (PS t)) ->
  read_path fs (locate fs (ipaths (fl st1)) (components t)) = Some src ->
  number_from 0 (split_lines src) = (fl_nodes ns ++ tail)%list -> inert tail ->
  wf_nodes ns -> nf_nodes ns -> sorted (ipaths (fl st1)) ->
  ex_nodes fuel inc ns st1 = Some o ->
  forall post res, Cont fuel inc o post res ->
    Run fuel inc (ln :: post) false st res /\ Run fuel inc (fl_nodes ns ++ post) false st1 res.
Proof.
  intros inc st1 Hline Hfirst Hread Hsrc Htail Hwf Hnf Hsorted Hex post res HC.
  split; [| destruct (refines fuel inc) as (_ & Hn & _); eapply Hn; eauto].
  set (ips := ipaths (fl st1)) in *.
  set (p := locate fs ips (components t)) in *.
  set (own := match parent p with Some d => if mem_path d ips then None else Some d | None => None end).
  set (ips' := match own with Some d => set_insert d ips | None => ips end).
  set (f_in := {| cur_path := p; ipaths := ips' |}).
  set (ls := number_from 0 (split_lines src)) in *.
  (* what the included file does, seen from inside *)
  assert (Hin : parse_iter fuel (file_at fs fuel l) (S (length ls)) ls false (with_fl st1 f_in)
                = match o with Ok s => Ok (with_fl s f_in) | Err e => Err e | Panic => Panic | OutOfFuel => OutOfFuel end).
  { apply (run_complete fuel (file_at fs fuel l)); [|lia]. rewrite Hsrc.
    destruct (ex_change fuel inc (file_at fs fuel l) f_in) as (_ & Hc & _). specialize (Hc ns Hnf st1). rewrite Hex in Hc.
    destruct (refines fuel (file_at fs fuel l)) as (_ & Hn & _).
    destruct o as [s| e | |]; cbn [map_fl_o] in Hc; (eapply Hn; [exact Hwf | exact Hc | cbn; try reflexivity; apply Htail]). }
  (* the file layer is left as it was found *)
  assert (Hsame : match o with Ok s => s = with_fl s (fl st1) | _ => True end).
  { destruct (ex_change fuel inc inc (fl st1)) as (_ & Hc & _). specialize (Hc ns Hnf st1). rewrite with_fl_id, Hex in Hc.
    destruct o; try exact I. cbn in Hc. congruence. }
  assert (Hstep : line_step fuel inc ln false st =
                  match o with Ok s => Ok (s, NewLine) | Err e => Err e | Panic => Panic | OutOfFuel => OutOfFuel end).
  { unfold line_step. rewrite Hline. unfold directive_parse. rewrite Hfirst. fold st1.
    unfold inc at 1. cbn [file_at]. fold ips. fold p. rewrite Hread. fold own. fold ips'. fold f_in. fold ls.
    rewrite Hin. destruct o as [s| e | |]; cbn [bind]; try reflexivity.
    do 2 f_equal. rewrite with_fl_twice.
    change (ipaths (fl (with_fl s f_in))) with ips'.
    change (fold_left _ ips' ips) with (back_of own ips' ips).
    pose proof (back_same own ips Hsorted) as Hb. fold ips' in Hb. rewrite Hb.
    unfold ips. rewrite flayer_eta. symmetry. exact Hsame. }
  destruct o as [s| e | |]; cbn [Cont] in HC.
  - eapply R_new; [exact Hstep | exact HC].
  - subst res. apply R_err. exact Hstep.
  - subst res. apply R_panic. exact Hstep.
  - subst res. apply R_fuel. exact Hstep.
Qed.
End Paste.

(** ---------------- the include set stays a strictly increasing list ---------------- *)
Lemma str_cmp_trans a : forall b c, str_cmp a b = Lt -> str_cmp b c = Lt -> str_cmp a c = Lt.
Proof.
  induction a as [|x a IH]; intros [|y b] [|z c]; cbn; try discriminate; auto.
  destruct (N.compare (N_of_ascii x) (N_of_ascii y)) eqn:E1; destruct (N.compare (N_of_ascii y) (N_of_ascii z)) eqn:E2;
    try discriminate; intros H1 H2.
  - apply N.compare_eq_iff in E1. apply N.compare_eq_iff in E2. rewrite E1, E2, N.compare_refl. eapply IH; eauto.
  - apply N.compare_eq_iff in E1. rewrite E1, E2. reflexivity.
  - apply N.compare_eq_iff in E2. rewrite <- E2, E1. reflexivity.
  - apply N.compare_lt_iff in E1. apply N.compare_lt_iff in E2.
    assert (E3 : N.compare (N_of_ascii x) (N_of_ascii z) = Lt) by (apply N.compare_lt_iff; eapply N.lt_trans; eauto). rewrite E3. reflexivity.
Qed.
Lemma comp_cmp_trans a b c : comp_cmp a b = Lt -> comp_cmp b c = Lt -> comp_cmp a c = Lt.
Proof. destruct a, b, c; cbn; try discriminate; try reflexivity. apply str_cmp_trans. Qed.
Lemma path_cmp_trans a : forall b c, path_cmp a b = Lt -> path_cmp b c = Lt -> path_cmp a c = Lt.
Proof.
  induction a as [|x a IH]; intros [|y b] [|z c]; cbn; try discriminate; auto.
  destruct (comp_cmp x y) eqn:E1; destruct (comp_cmp y z) eqn:E2; try discriminate; intros H1 H2.
  - apply comp_cmp_eq in E1. apply comp_cmp_eq in E2. subst. rewrite comp_cmp_refl. eapply IH; eauto.
  - apply comp_cmp_eq in E1. subst. rewrite E2. reflexivity.
  - apply comp_cmp_eq in E2. subst. rewrite E1. reflexivity.
  - rewrite (comp_cmp_trans _ _ _ E1 E2). reflexivity.
Qed.

Lemma insert_sorted p s : sorted s -> sorted (set_insert p s).
Proof.
  induction s as [|q r IH]; cbn [set_insert sorted]; intros Hs; [split; [intros x []|exact I]|].
  destruct Hs as (Hq & Hr). destruct (path_cmp p q) eqn:E; cbn [sorted].
  - auto.
  - split; [|auto]. intros x [<-|Hx]; [exact E|]. eapply path_cmp_trans; [exact E | apply Hq; exact Hx].
  - split; [|apply IH; exact Hr]. intros x Hx. apply insert_elems in Hx. destruct Hx as [->|Hx]; [|apply Hq; exact Hx].
    rewrite (path_cmp_antisym p q), E. reflexivity.
Qed.
Lemma set_of_sorted l : sorted (set_of l).
Proof.
  unfold set_of. assert (G : forall acc, sorted acc -> sorted (fold_left (fun s p => set_insert p s) l acc)).
  { induction l as [|p l IH]; intros acc H; cbn [fold_left]; [exact H|]. apply IH. apply insert_sorted. exact H. }
  apply G. exact I.
Qed.

Section Sorted.
Variable fs : fsys.
Variable fuel : nat.
Definition fl_sorted (st : pstate) : Prop := sorted (ipaths (fl st)).
Definition keeps_sorted (inc : str -> pstate -> res pstate) : Prop :=
  forall t s s', fl_sorted s -> inc t s = Ok s' -> fl_sorted s'.

Lemma line_step_sorted inc ln sk st st' ni : keeps_sorted inc ->
  line_step fuel inc ln sk st = Ok (st', ni) -> fl_sorted st -> fl_sorted st'.
Proof.
  intros Hinc H Hs.
  destruct (parse_line (snd ln)) as [[| name | lab o args | lab d ops]|] eqn:Ep.
  5: { unfold line_step in H. rewrite Ep in H. discriminate. }
  1-3: assert (Hn : nofile ln) by (unfold nofile; rewrite Ep; exact I);
       pose proof (line_step_change fuel inc inc ln sk st (fl st) Hn) as Hc; rewrite with_fl_id, H in Hc; cbn in Hc;
       injection Hc as Hc; unfold fl_sorted; rewrite Hc; exact Hs.
  assert (Hl : fl_sorted (label_item st lab (fst ln + 1))) by (destruct lab; exact Hs).
  destruct d; try (assert (Hn : nofile ln) by (unfold nofile; rewrite Ep; exact I);
       pose proof (line_step_change fuel inc inc ln sk st (fl st) Hn) as Hc; rewrite with_fl_id, H in Hc; cbn in Hc;
       injection Hc as Hc; unfold fl_sorted; rewrite Hc; exact Hs).
  - (* .include *)
    unfold line_step in H. rewrite Ep in H. unfold directive_parse in H.
    destruct sk; (destruct (first_op ops) as [[[e|t]|]|]; try discriminate;
      apply bind_ok in H; destruct H as (s' & Hi & H); injection H as <- _; eapply Hinc; [exact Hl | exact Hi]).
  - (* .includepath *)
    unfold line_step in H. rewrite Ep in H. unfold directive_parse in H.
    destruct sk; (destruct (first_op ops) as [[[e|t]|]|]; try discriminate; injection H as <- _;
      unfold fl_sorted; cbn [fl with_fl ipaths]; apply insert_sorted; exact Hl).
Qed.

Lemma parse_iter_sorted inc : keeps_sorted inc -> forall g ls sk st st',
  parse_iter fuel inc g ls sk st = Ok st' -> fl_sorted st -> fl_sorted st'.
Proof.
  intros Hinc. induction g as [|g IH]; intros ls sk st st' H Hs; [discriminate|].
  destruct ls as [|ln r]; [injection H as <-; exact Hs|].
  rewrite parse_iter_step in H. apply bind_ok in H. destruct H as ([st2 ni] & Hl & H).
  pose proof (line_step_sorted _ _ _ _ _ _ Hinc Hl Hs) as Hs2. unfold continue in H.
  destruct ni.
  - eapply IH; eauto.
  - destruct (skip_cond false 0 r) as [r' at_elif]. eapply IH; eauto.
  - eapply IH; eauto.
  - destruct (skip_macro r []) as [body r']. eapply IH; [exact H | exact Hs2].
  - injection H as <-. exact Hs2.
Qed.

Theorem file_at_sorted : forall l, keeps_sorted (file_at fs fuel l).
Proof.
  induction l as [|l IH]; intros t s s' Hs H; [discriminate|]. cbn [file_at] in H.
  destruct (read_path fs _) as [src|]; [|discriminate].
  apply bind_ok in H. destruct H as (st' & Hp & H). injection H as <-.
  unfold fl_sorted. cbn [fl with_fl ipaths].
  match goal with |- sorted (fold_left ?f ?l ?a) => assert (G : forall l0 acc, sorted acc -> sorted (fold_left f l0 acc)) end.
  { induction l0 as [|q l0 IHl]; intros acc Ha; cbn [fold_left]; [exact Ha|]. apply IHl.
    destruct (match parent _ with Some d => _ | None => None end) as [d|]; [destruct (path_eqb q d); [exact Ha|]|]; apply insert_sorted; exact Ha. }
  apply G. exact Hs.
Qed.
End Sorted.

(** ---------------- which directories are searched ---------------- *)
Section Searched.
Variable fs : fsys.
Variable fuel : nat.

Lemma mem_path_in d s : mem_path d s = true -> In d s.
Proof. unfold mem_path. intros H. apply existsb_exists in H. destruct H as (x & Hx & He). apply path_eqb_true in He. subst. exact Hx. Qed.

(** a file that exists neither as written nor below any directory of the set fails the build (with an error, not a default) *)
Theorem not_found_fails l t st :
  exists_path fs (components t) = false ->
  (forall q, In q (ipaths (fl st)) -> exists_path fs (join q (components t)) = false) ->
  file_at fs fuel (S l) t st = Err None.
Proof.
  intros H1 H2. cbn [file_at]. destruct (locate_nowhere fs _ _ H1 H2) as (_ & Hr). rewrite Hr. reflexivity.
Qed.

(** the state in which the lines of a found file are parsed: its own directory is searched, and
    every directory the including file searched *)
Definition file_start (st : pstate) (p : path) : pstate :=
  let ips := ipaths (fl st) in
  let own := match parent p with Some d => if mem_path d ips then None else Some d | None => None end in
  with_fl st {| cur_path := p; ipaths := match own with Some d => set_insert d ips | None => ips end |}.

Theorem own_directory_searched st p d : parent p = Some d -> In d (ipaths (fl (file_start st p))).
Proof.
  intros H. unfold file_start. cbn [fl with_fl ipaths]. rewrite H.
  destruct (mem_path d (ipaths (fl st))) eqn:E; [apply mem_path_in; exact E | apply insert_in].
Qed.
Theorem inherited_searched st p q : In q (ipaths (fl st)) -> In q (ipaths (fl (file_start st p))).
Proof.
  intros H. unfold file_start. cbn [fl with_fl ipaths].
  destruct (match parent p with Some d => _ | None => None end); [apply insert_keeps|]; exact H.
Qed.

Theorem file_at_unfold l t st src :
  read_path fs (locate fs (ipaths (fl st)) (components t)) = Some src ->
  exists back,
  file_at fs fuel (S l) t st =
    (do st' <- parse_iter fuel (file_at fs fuel l) (S (length (number_from 0 (split_lines src)))) (number_from 0 (split_lines src)) false
                 (file_start st (locate fs (ipaths (fl st)) (components t)));
     Ok (with_fl st' {| cur_path := cur_path (fl st); ipaths := back st' |})) /\
  forall st' q, In q (ipaths (fl st)) -> In q (back st').
Proof.
  intros Hr. cbn [file_at]. rewrite Hr. eexists (fun st' => fold_left _ (ipaths (fl st')) (ipaths (fl st))). split; [reflexivity|].
  intros st' q Hq. cbn beta.
  match goal with |- In q (fold_left ?f ?l ?a) => assert (G : forall l0 acc, In q acc -> In q (fold_left f l0 acc)) end.
  { induction l0 as [|x l0 IH]; intros acc Ha; cbn [fold_left]; [exact Ha|]. apply IH.
    destruct (match parent _ with Some d => _ | None => None end) as [d|]; [destruct (path_eqb x d); [exact Ha|]|]; apply insert_keeps; exact Ha. }
  apply G. exact Hq.
Qed.

(** .includepath: the directory - relative ones resolved against the directory of the file that
    contains the directive - is searched from then on *)
Theorem includepath_adds inc ln lab ops t st :
  parse_line (snd ln) = Some (DirLine lab DIncludePath ops) -> first_op ops = Some (Some (PS t)) ->
  exists st', line_step fuel inc ln false st = Ok (st', NewLine) /\
    In (if is_abs (components t) then components t
        else join (match parent (cur_path (fl st)) with Some d => d | None => [] end) (components t)) (ipaths (fl st')) /\
    (forall q, In q (ipaths (fl st)) -> In q (ipaths (fl st'))) /\ cur_path (fl st') = cur_path (fl st).
Proof.
  intros Hp Hf. unfold line_step. rewrite Hp. unfold directive_parse. rewrite Hf. eexists. split; [reflexivity|].
  cbn [fl with_fl ipaths cur_path].
  assert (E : fl (label_item st lab (fst ln + 1)) = fl st) by (destruct lab; reflexivity). rewrite E.
  split; [apply insert_in|]. split; [intros q Hq; apply insert_keeps; exact Hq | reflexivity].
Qed.

(** directories supplied by the caller are searched from the start *)
Theorem caller_directories_searched paths p : In p paths -> In (components p) (set_of (map components paths)).
Proof. intros H. apply set_of_in. apply in_map. exact H. Qed.

(** nesting is bounded: at depth 65 the build fails instead of recursing for ever *)
Theorem depth_bounded t st : file_at fs fuel 0 t st = Err None.
Proof. reflexivity. Qed.
End Searched.
