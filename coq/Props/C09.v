(** C09 - a macro call behaves as its body with the call's arguments substituted.
    Property theorems only; proofs are in Proofs/MacroProofs.v, Proofs/ExprRoundTrip.v (ClimbProofs.v). *)
From Coq Require Import List ZArith NArith String.
Import ListNotations.
Require Import AvraV.Model.Base AvraV.Model.Ast AvraV.Model.Climb AvraV.Model.Grammar AvraV.Model.Display AvraV.Model.Eval AvraV.Model.Encode.
Require Import AvraV.Model.Parse AvraV.Model.Passes.
Require Import AvraV.Proofs.ClimbProofs AvraV.Proofs.ExprRoundTrip AvraV.Proofs.MacroProofs.

(** (1) SUBSTITUTION.  A body line is a sequence of pieces: literal text without '@' and parameter
    references @0..@9.  For a call with 1 to 10 arguments whose texts contain no '@', the line the
    expansion parses is the body line with EVERY @i replaced by the text of argument i, all at once -
    the sequential replace of the code cannot re-substitute or mix up parameters - and a reference
    beyond the supplied arguments stays as written (it is then a syntax error: '@' is in no rule of
    the grammar).  A call without arguments leaves the body untouched. *)
Theorem C09_substitute : forall ops n toks, ops <> [] -> (length ops <= 10)%nat ->
  forallb no_at (map display_iop ops) = true -> forallb tok_ok toks = true ->
  substitute ops [(n, flat toks)] = [(n, flat (map (sub_all 0 (map display_iop ops)) toks))].
Proof. exact substitute_line. Qed.
Print Assumptions C09_substitute.
Theorem C09_no_arguments : forall body, substitute [] body = body.
Proof. exact substitute_none. Qed.

(** (2) THE VALUE THE CALLER WROTE, PARENTHESES INCLUDED.  The text an expression argument is turned
    into (fmt::Display: every compound operand parenthesised) contains no '@' and - wherever it is
    placed, as long as the text after it does not glue onto it - is read back by the grammar as
    exactly the expression the caller wrote, whatever operators, precedence levels and nesting it has. *)
Theorem C09_argument_text : forall e rest, wfe e -> neutral_rest rest ->
  expr_rule (display_expr (conv e) ++ rest) = Some (conv e, rest).
Proof. exact display_roundtrip_ctx. Qed.
Print Assumptions C09_argument_text.
Theorem C09_argument_alone : forall e, wfe e -> parse_expr (display_expr (conv e)) = Some (conv e).
Proof. exact display_roundtrip. Qed.
Theorem C09_argument_no_at : forall e, wfe e -> no_at (display_expr (conv e)) = true.
Proof. exact display_no_at. Qed.

(** ... and as an OPERAND of an instruction line (document::instruction_op: index forms, then registers, then
    expressions), in any non-gluing context: registers r0..r31, the index forms X / X+ / -X / X+expr (any of X, Y, Z), and
    every compound expression read back as exactly the operand the caller wrote.  (An identifier or number argument is an
    expression operand as well, provided its text is not itself a register or index name - which the parser guarantees
    for whatever it parsed as an expression: hypotheses of [C09_expression_operand].) *)
Require Import AvraV.Model.Lines.
Theorem C09_register_operand : forall n rest, (n < 32)%N -> neutral_rest rest ->
  instruction_op (display_iop (OR8 n) ++ rest) = Some (OR8 n, rest).
Proof. exact register_roundtrip. Qed.
Theorem C09_index_operands : forall r e rest, wfe e -> neutral_rest rest ->
  instruction_op (display_iop (OIndex (INone r)) ++ rest) = Some (OIndex (INone r), rest) /\
  instruction_op (display_iop (OIndex (IPreDec r)) ++ rest) = Some (OIndex (IPreDec r), rest) /\
  (expr_rule rest = None -> instruction_op (display_iop (OIndex (IPostInc r)) ++ rest) = Some (OIndex (IPostInc r), rest)) /\
  instruction_op (display_iop (OIndex (IPostIncE r (conv e))) ++ rest) = Some (OIndex (IPostIncE r (conv e)), rest).
Proof.
  intros r e rest Hw Hn. split; [apply index_none_roundtrip; exact Hn|]. split; [apply index_predec_roundtrip; exact Hn|].
  split; [apply index_postinc_roundtrip | apply index_postinc_expr_roundtrip; assumption].
Qed.
Theorem C09_expression_operand : forall e rest, wfe e -> neutral_rest rest ->
  index_ops (display_expr (conv e) ++ rest) = None -> Lines.reg8 (display_expr (conv e) ++ rest) = None ->
  instruction_op (display_iop (OE (conv e)) ++ rest) = Some (OE (conv e), rest).
Proof. exact expr_operand_roundtrip. Qed.
Theorem C09_compound_operand : forall e rest, wfe e -> neutral_rest rest ->
  match e with EB _ _ _ | EU _ _ => instruction_op (display_iop (OE (conv e)) ++ rest) = Some (OE (conv e), rest) | _ => True end.
Proof. exact compound_operand_roundtrip. Qed.
Print Assumptions C09_index_operands.

(** (3) NAMES: a call finds the macro whatever the letter case (both sides are lower-cased), and calling
    an undefined macro is an error naming the line of the call *)
Theorem C09_case : forall n n', lower n = lower n' -> operation_of_name n = operation_of_name n'.
Proof. exact call_case. Qed.
Theorem C09_undefined : forall fuel inc macroses line name ops st,
  lookup name macroses = None -> macro_expand fuel inc macroses line name ops st = Err (Some line).
Proof. exact undefined_macro. Qed.

(** (3b) THE BODY IS KEPT AS THE TEXT THAT WAS WRITTEN.  The lines between .macro and the first .endm / .endmacro are recorded
    verbatim, number and text (no case folding, no comment stripping, nothing looked at but whether a line is the end of the
    macro), and the loop goes on behind that line: what a call substitutes into and re-reads is exactly what the programmer wrote. *)
Require Import AvraV.Proofs.CondProofs.
Theorem C09_body_verbatim : forall body e rest,
  forallb (fun ln => negb (is_endm ln)) body = true -> is_endm e = true ->
  skip_macro (body ++ e :: rest) [] = (body, rest).
Proof. intros body e rest Hb He. exact (skip_macro_body body e rest Hb He []). Qed.

(** (4) THE SPLICE.  In a code segment, a call of a macro whose substituted body contains no segment
    directive, .org or .include line (labels, instructions, data, .set/.def/.equ, messages, conditionals
    and nested macro definitions are all allowed) is processed by pass 0 as: read the substituted body as
    a fresh code segment at the current address ([body_items]: the state takes over what the body did
    to macros, messages and symbols; the list of segments and the file layer stay as they were), then
    process the items it produced - nested calls one level deeper - in the place of the call, then go
    on with the rest.  The equation covers failing runs too (both sides fail alike). *)
Require Import AvraV.Proofs.SpliceProofs.
Theorem C09_call_is_paste : forall fuel inc macroses d cp name ops rest st body,
  seg_t (last_seg st) = SCode ->
  lookup name macroses = Some body ->
  Forall (fun ln => neutral_line ln = true) (substitute ops body) ->
  pass0_items fuel inc macroses (S d) ((cp, IInstr (OCustom name) ops) :: rest) st =
  bind (body_items fuel inc ops body st) (fun x =>
  bind (pass0_items fuel inc macroses d (snd x) (fst x)) (fun s =>
  pass0_items fuel inc macroses (S d) rest s)).
Proof. exact call_is_paste. Qed.
Print Assumptions C09_call_is_paste.
(** ... hence an accepted call leaves exactly the state that the body's items, written in its place, leave *)
Theorem C09_call_is_paste_ok : forall fuel inc macroses d cp name ops rest st body r st0 its,
  seg_t (last_seg st) = SCode ->
  lookup name macroses = Some body ->
  Forall (fun ln => neutral_line ln = true) (substitute ops body) ->
  body_items fuel inc ops body st = Ok (st0, its) ->
  pass0_items fuel inc macroses (S d) ((cp, IInstr (OCustom name) ops) :: rest) st = Ok r ->
  pass0_items fuel inc macroses (S d) (its ++ rest) st0 = Ok r.
Proof. exact call_is_paste_ok. Qed.
(** the expansion hands over ONE code segment at the current address (possibly without items) *)
Theorem C09_expansion_shape : forall fuel inc macroses line name ops st body,
  lookup name macroses = Some body ->
  Forall (fun ln => neutral_line ln = true) (substitute ops body) ->
  macro_expand fuel inc macroses line name ops st =
    bind (body_items fuel inc ops body st) (fun x =>
    Ok (fst x, [{| items := snd x; seg_t := SCode; address := address (last_seg st) |}])).
Proof. exact expand_neutral. Qed.
(** items are processed left to right, and what is accepted with d nesting levels left is accepted identically with more *)
Theorem C09_items_in_order : forall fuel inc macroses depth a b st,
  pass0_items fuel inc macroses depth (a ++ b) st =
  bind (pass0_items fuel inc macroses depth a st) (fun s => pass0_items fuel inc macroses depth b s).
Proof. exact pass0_items_app. Qed.
Theorem C09_depth_monotone : forall fuel inc macroses d its st r,
  pass0_items fuel inc macroses d its st = Ok r -> pass0_items fuel inc macroses (S d) its st = Ok r.
Proof. exact pass0_items_mono. Qed.
Print Assumptions C09_call_is_paste_ok.

(** Examples (whole pipeline): repeated calls, calls before the definition, nesting, letter case, errors. *)
Definition code_of (src : string) : option (list N) :=
  match build_str 200 (list_ascii_of_string src) with Ok b => Some (b_code b) | _ => None end.
Definition nl := String (Ascii.ascii_of_N 10) EmptyString.
Local Open Scope string_scope.
Example C09_examples :
  code_of (".macro Tri" ++ nl ++ " .dw @0 * 3" ++ nl ++ ".endm" ++ nl ++ " TRI 1+2" ++ nl) = Some [9; 0]%N /\
  code_of (".macro negw" ++ nl ++ " .dw -@0" ++ nl ++ ".endm" ++ nl ++ " negw 1+2" ++ nl) = Some [253; 255]%N /\
  code_of (" two 1" ++ nl ++ ".macro two" ++ nl ++ " one @0" ++ nl ++ " one @0+1" ++ nl ++ ".endm" ++ nl ++ ".macro one" ++ nl ++ " .db @0, 0" ++ nl ++ ".endm" ++ nl)
     = Some [1; 0; 2; 0]%N /\
  code_of (" nosuchmacro 1" ++ nl) = None /\
  code_of (".macro m" ++ nl ++ " ldi r16, @0" ++ nl ++ ".endm" ++ nl ++ " m" ++ nl) = None.
Proof. vm_compute. repeat split; reflexivity. Qed.
Example C09_substitute_example :
  substitute [OE (EBin (EConst 1) BAdd (EConst 2)); OR8 17] [(0%N, lit " subi @1, @0*@0 ; @2")]
  = [(0%N, lit " subi r17, (1+2)*(1+2) ; @2")].
Proof. vm_compute. reflexivity. Qed.

(** the hypotheses of the splice theorem are met by an ordinary macro (labels, a conditional, data,
    an argument used twice), and both sides of it evaluate to the same accepted state *)
Require Import AvraV.Gen.Devices AvraV.Model.Fs.
Definition ex_body : list (N * str) :=
  [(1%N, lit " ldi r16, @0"); (2%N, lit "lab: .if @0 > 1"); (3%N, lit " .dw @0*@1"); (4%N, lit ".else"); (5%N, lit " .cseg");
   (6%N, lit ".endif"); (7%N, lit " rjmp lab")].
Definition ex_ops : list iop := [OE (EBin (EConst 1) BAdd (EConst 2)); OE (EConst 5)].
Definition ex_body_ok : list (N * str) := firstn 4 ex_body ++ [(5%N, lit " nop")] ++ skipn 5 ex_body.
Definition ex_state : pstate := pstate_new (ctx_new default_device).
Definition ex_call := (((9%N, 2%N), IInstr (OCustom (lit "m")) ex_ops) : (N * N) * item).
Example C09_splice_hypotheses_met :
  seg_t (last_seg ex_state) = SCode /\
  forallb neutral_line (substitute ex_ops ex_body_ok) = true /\
  forallb neutral_line (substitute ex_ops ex_body) = false /\       (* a .cseg line, even in a skipped branch, is outside *)
  (match body_items 100 no_include ex_ops ex_body_ok ex_state with Ok (_, its) => Some (length its) | _ => None end) = Some 4%nat /\
  (match pass0_items 100 no_include [(lit "m", ex_body_ok)] 1 [ex_call] ex_state with
   | Ok r => Some (map (fun s => length (items s)) (segs r)) | _ => None end) = Some [4%nat].
Proof. vm_compute. repeat split; reflexivity. Qed.
