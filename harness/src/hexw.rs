//! C07: run the real HEX writers on generated images.
//! stdin: one case per line "<code|eeprom> <length> <seed> [<flash words> <eeprom bytes> <ram bytes>]" (the device figures
//! a BuildResult carries; 0 0 0 when absent); for case number i the image is
//! written to <dir>/<i>.bin and the file produced by the library to <dir>/<i>.hex
//! (or <dir>/<i>.outcome containing "panic" / "err").
use crate::util::{read_stdin, Rng};
use avra_lib::builder::BuildResult;
use avra_lib::writer::{write_code_hex, write_eeprom_hex};
use std::path::PathBuf;

pub fn image(len: usize, seed: u64) -> Vec<u8> {
    let mut rng = Rng::new(seed);
    let mode = seed % 8;
    let special = [0x0au8, 0x0d, 0x3a, 0x00, 0xff, 0x20];
    let hole = if len > 0 { rng.below(len as u64) as usize } else { 0 };
    let row_kind: Vec<u64> = (0..(len / 16 + 1)).map(|_| rng.below(4)).collect();
    (0..len)
        .map(|i| match mode {
            0 => rng.next() as u8,
            1 => (i % 251) as u8,
            2 => 0xff,
            3 => if rng.below(8) == 0 { 0 } else { rng.next() as u8 },
            4 => 0x00,
            // whole 16-byte rows of 0xff / 0x00 between rows of data (erased flash, blank records)
            5 => match row_kind[i / 16] { 0 => 0xff, 1 => 0x00, _ => rng.next() as u8 },
            // bytes that mean something in the text form: LF, CR, ':', blank
            6 => special[rng.below(special.len() as u64) as usize],
            // erased image with a single programmed byte
            _ => if i == hole { 0x42 } else { 0xff },
        })
        .collect()
}

pub fn main(args: &[String]) -> i32 {
    let dir = PathBuf::from(&args[0]);
    std::fs::create_dir_all(&dir).unwrap();
    for (i, line) in read_stdin().lines().enumerate() {
        let f: Vec<&str> = line.split_whitespace().collect();
        if f.len() != 3 && f.len() != 6 {
            continue;
        }
        let fig: Vec<u32> = if f.len() == 6 { f[3..6].iter().map(|x| x.parse().unwrap()).collect() } else { vec![0, 0, 0] };
        let len: usize = f[1].parse().unwrap();
        let seed: u64 = f[2].parse().unwrap();
        let img = image(len, seed);
        std::fs::write(dir.join(format!("{}.bin", i)), &img).unwrap();
        let out = dir.join(format!("{}.hex", i));
        let _ = std::fs::remove_file(&out);
        if i % 3 == 1 {
            // the file exists already and is longer than what will be written (an earlier, bigger image)
            let mut old = String::new();
            for _ in 0..(len / 8 + 40) {
                old.push_str(":10001000FFEEDDCCBBAA99887766554433221100F8\r\n");
            }
            old.push_str(":00000001FF\r\n");
            std::fs::write(&out, old).unwrap();
        }
        let code = f[0] == "code";
        let br = BuildResult {
            code: if code { img.clone() } else { vec![] },
            eeprom: if code { vec![] } else { img.clone() },
            flash_size: fig[0],
            eeprom_size: fig[1],
            ram_size: fig[2],
            ram_filling: 0,
            messages: vec![],
        };
        if i % 5 == 2 {
            // a write that cannot succeed comes first (no such directory): what it leaves behind in the writer must not show in the next file
            let bad = dir.join("no_such_dir").join(format!("{}.hex", i));
            let br_bad = BuildResult {
                code: vec![0xAA; 40],
                eeprom: vec![0xBB; 24],
                flash_size: fig[0],
                eeprom_size: fig[1],
                ram_size: fig[2],
                ram_filling: 0,
                messages: vec![],
            };
            let _ = std::panic::catch_unwind(move || {
                let _ = if code { write_code_hex(bad, &br_bad) } else { write_eeprom_hex(bad, &br_bad) };
            });
        }
        let out2 = out.clone();
        let r = std::panic::catch_unwind(move || {
            if code {
                write_code_hex(out2, &br).map_err(|e| e.to_string())
            } else {
                write_eeprom_hex(out2, &br).map_err(|e| e.to_string())
            }
        });
        match r {
            Ok(Ok(())) => {}
            Ok(Err(_)) => {
                let _ = std::fs::remove_file(&out);
                std::fs::write(dir.join(format!("{}.outcome", i)), "err").unwrap();
            }
            Err(_) => {
                let _ = std::fs::remove_file(&out);
                std::fs::write(dir.join(format!("{}.outcome", i)), "panic").unwrap();
            }
        }
    }
    0
}
