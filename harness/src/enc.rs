//! Interface `instruction::process`: stdin one case per line
//!   <F|R|D:device-name> <pc> <mnemonic> <operands separated by ',' or '-' for none>
//! (F = no device selected, R = the reduced-core device of the table, D:<name> = that row of DEVICES)
//! operands: r<n> | e<i64> | n<ident> | X X+ -X Y Y+ -Y Z Z+ -Z | X+q<i64> Y+q<i64> Z+q<i64>
//! stdout per case: lower-case hex of the bytes | ERR | PANIC
use crate::tables::ctx_for;
use crate::util::{hex, read_stdin};
use avra_lib::context::Context;
use avra_lib::document::document;
use avra_lib::expr::Expr;
use avra_lib::instruction::register::{Reg16, Reg8};
use avra_lib::instruction::{process, IndexOps, InstructionOps};
use std::str::FromStr;

pub fn parse_arg(a: &str) -> InstructionOps {
    let r16 = |c: char| match c {
        'X' => Reg16::X,
        'Y' => Reg16::Y,
        _ => Reg16::Z,
    };
    let b = a.as_bytes();
    if b[0] == b'r' {
        InstructionOps::R8(Reg8::from_str(a).unwrap())
    } else if b[0] == b'e' {
        InstructionOps::E(Expr::Const(a[1..].parse().unwrap()))
    } else if b[0] == b'n' {
        InstructionOps::E(Expr::Ident(a[1..].to_string()))
    } else if b[0] == b'-' {
        InstructionOps::Index(IndexOps::PreDecrement(r16(b[1] as char)))
    } else if a.len() == 1 {
        InstructionOps::Index(IndexOps::None(r16(b[0] as char)))
    } else if a.len() == 2 {
        InstructionOps::Index(IndexOps::PostIncrement(r16(b[0] as char)))
    } else {
        InstructionOps::Index(IndexOps::PostIncrementE(r16(b[0] as char), Expr::Const(a[3..].parse().unwrap())))
    }
}

pub fn main() -> i32 {
    let full = ctx_for(false);
    let red = ctx_for(true);
    let mut by_name: std::collections::HashMap<String, avra_lib::context::CommonContext> = std::collections::HashMap::new();
    let mut out = String::new();
    for line in read_stdin().lines() {
        let f: Vec<&str> = line.split(' ').collect();
        if f.len() != 4 {
            continue;
        }
        let ctx = if let Some(name) = f[0].strip_prefix("D:") {
            &*by_name.entry(name.to_string()).or_insert_with(|| {
                let c = avra_lib::context::CommonContext::new();
                c.device.replace(Some(avra_lib::device::DEVICES[name].clone()));
                c
            })
        } else if f[0] == "R" {
            &red
        } else {
            &full
        };
        let pc: u32 = f[1].parse().unwrap();
        let op = document::operation(f[2]).unwrap();
        let args: Vec<InstructionOps> = if f[3] == "-" { vec![] } else { f[3].split(',').map(parse_arg).collect() };
        let r = std::panic::catch_unwind(std::panic::AssertUnwindSafe(|| process(&op, &args, pc, ctx as &dyn Context)));
        match r {
            Ok(Ok(bytes)) => out.push_str(&hex(&bytes)),
            Ok(Err(_)) => out.push_str("ERR"),
            Err(_) => out.push_str("PANIC"),
        }
        out.push('\n');
    }
    print!("{}", out);
    0
}
