(** C03 at program level: the instruction address the encoder computes a relative displacement
    from IS the address at which the instruction's words land in the image, and the labels the
    operand reads are the ones pass 1 placed (C02_label).  So "target = address + 1 + d" holds
    about the image, not only about one call of the encoder. *)
From Coq Require Import List NArith ZArith Bool Lia.
Import ListNotations.
Require Import AvraV.Model.Base AvraV.Model.Ast AvraV.Model.Device AvraV.Model.Eval AvraV.Model.Encode.
Require Import AvraV.Model.Parse AvraV.Model.Passes AvraV.Proofs.LayoutProofs.
Open Scope N_scope.

Lemma p2fold_app fuel t l1 l2 r : p2fold fuel t (l1 ++ l2) r = p2fold fuel t l2 (p2fold fuel t l1 r).
Proof. unfold p2fold. apply fold_left_app. Qed.

(** one instruction inside one code segment *)
Theorem instr_position fuel : forall ipre cp op args ipost c cur0 out0 c' fin out',
  Forall plain (ipre ++ (cp, IInstr op args) :: ipost) ->
  p1fold SCode (ipre ++ (cp, IInstr op args) :: ipost) (Ok (c, cur0, out0)) = Ok (c', fin, out') ->
  exists a kpre kpost, out' = (out0 ++ kpre ++ (cp, IInstr op args) :: kpost)%list /\ cur0 <= a /\
    forall c2 c2' fin2 frag, dev c2 = dev c ->
      p2fold fuel SCode (kpre ++ (cp, IInstr op args) :: kpost) (Ok (c2, cur0, [])) = Ok (c2', fin2, frag) ->
      exists ca bs_pre bs bs_post,
        frag = (bs_pre ++ bs ++ bs_post)%list /\ N.of_nat (length bs_pre) = 2 * (a - cur0) /\
        labels ca = labels c2 /\ equs ca = equs c2 /\ defines ca = defines c2 /\ dev ca = dev c2 /\
        process fuel (ctx_set_pc ca a) op args a = Ok bs.
Proof.
  intros ipre cp op args ipost c cur0 out0 c' fin out' Hp H.
  rewrite p1fold_app in H.
  assert (Ea : exists sa, p1fold SCode ipre (Ok (c, cur0, out0)) = Ok sa) by (unfold p1fold in H |- *; eapply fold_bind_ok; exact H).
  destruct Ea as ([[ca a] outa] & Ea). rewrite Ea in H. unfold p1fold in H. cbn [fold_left bind] in H.
  pose proof (fold_bind_ok _ _ _ _ H) as ([[cb curb] outb] & Eb). rewrite Eb in H.
  apply Forall_app in Hp. destruct Hp as (Hp1 & Hp2). inversion Hp2 as [|? ? Hpi Hp3]; subst.
  assert (Ht : SCode <> SData) by discriminate.
  destruct (items_agree fuel _ Ht _ _ _ _ _ _ _ Hp1 Ea) as (Da & La & kpre & -> & Hpre).
  assert (Hb : cb = ca /\ outb = ((out0 ++ kpre) ++ [(cp, IInstr op args)])%list).
  { unfold pass1_item in Eb. cbn [fst] in Eb. apply bind_ok in Eb. destruct Eb as (x & _ & Eb). injection Eb as <- _ <-. auto. }
  destruct Hb as (-> & ->).
  destruct (items_agree fuel _ Ht _ _ _ _ _ _ _ Hp3 H) as (Dz & Lz & kpost & -> & Hpost).
  exists a, kpre, kpost. split; [rewrite <- !app_assoc; reflexivity|]. split; [exact La|].
  intros c2 c2' fin2 frag Hd H2.
  rewrite p2fold_app in H2.
  assert (E1 : exists s1, p2fold fuel SCode kpre (Ok (c2, cur0, [])) = Ok s1) by (unfold p2fold in H2 |- *; eapply fold_bind_ok; exact H2).
  destruct E1 as ([[cx curx] outx] & E1). rewrite E1 in H2.
  destruct (Hpre _ _ _ _ _ Hd E1) as (Dx & -> & bs_pre & Hbs & Lpre). cbn [app] in Hbs. subst outx.
  pose proof (p2fold_labels _ _ _ _ _ _ _ _ _ E1) as (Lab & Eq & Df).
  unfold p2fold in H2. cbn [fold_left bind] in H2.
  pose proof (fold_bind_ok _ _ _ _ H2) as ([[cy cury] outy] & E2). rewrite E2 in H2.
  assert (Hi : exists bs, process fuel (ctx_set_pc cx a) op args a = Ok bs /\ cy = ctx_set_pc cx a /\ outy = (bs_pre ++ bs)%list /\
                          cury = a + N.of_nat (length bs) / 2).
  { unfold pass2_item in E2. cbn [fst] in E2. destruct (check_instruction _ _ _); [|discriminate].
    apply bind_ok in E2. destruct E2 as (bs & Hb & E2). apply with_line_ok in Hb.
    apply bind_ok in E2. destruct E2 as (a2 & Ha & E2). apply add32_ok in Ha. injection E2 as <- <- <-. eauto. }
  destruct Hi as (bs & Hproc & -> & -> & ->).
  (* the rest only appends *)
  assert (Hcur : curb = a + N.of_nat (length bs) / 2).
  { unfold pass1_item in Eb. cbn [fst] in Eb. apply bind_ok in Eb. destruct Eb as (x & Hx & Eb). apply advance_ok in Hx.
    destruct Hx as (-> & _). injection Eb as <-.
    pose proof (process_len _ _ _ _ _ _ Hproc) as Hlen. rewrite dev_set_pc in Hlen.
    replace (dev cx) with (dev ca) in Hlen by congruence.
    destruct op; try (exfalso; exact Hpi); rewrite Hlen; reflexivity. }
  assert (Dy : dev (ctx_set_pc cx a) = dev ca) by (rewrite dev_set_pc; congruence).
  subst curb.
  destruct (Hpost _ _ _ _ _ Dy H2) as (_ & _ & bs_post & -> & _).
  exists cx, bs_pre, bs, bs_post. split; [rewrite <- app_assoc; reflexivity|]. split; [exact Lpre|].
  repeat split; assumption.
Qed.

(** the same inside a whole program: wherever the segment stands in the list *)
Theorem instr_lands fuel c segs r1 r2 :
  pass1 c segs = Ok r1 -> pass2 fuel (p1_ctx r1) (p1_segs r1) = Ok r2 -> Forall plain_seg segs ->
  2 * flash_size (dev c) < lim31 -> eeprom_size (dev c) < lim31 ->
  forall pre sg post ipre cp op args ipost,
    segs = (pre ++ sg :: post)%list -> seg_t sg = SCode -> items sg = (ipre ++ (cp, IInstr op args) :: ipost)%list ->
  exists a ca before bs after,
    p2_code r2 = (before ++ bs ++ after)%list /\ N.of_nat (length before) = 2 * a /\
    labels ca = labels (p1_ctx r1) /\ equs ca = equs (p1_ctx r1) /\ defines ca = defines (p1_ctx r1) /\ dev ca = dev c /\
    process fuel (ctx_set_pc ca a) op args a = Ok bs.
Proof.
  intros H1 H2 Hp Bf Be pre sg post ipre cp op args ipost Hsegs Et Hit.
  destruct (layout fuel c segs r1 r2 H1 H2 Hp Bf Be) as (_ & _ & Hlay).
  assert (Hnd : seg_t sg <> SData) by (rewrite Et; discriminate).
  destruct (Hlay pre sg post Hsegs Hnd) as (sg2 & fin & c2 & c2' & frag & before & after & Hnth2 & Ht2 & _ & Hf & Himg & Lb & _ & (Hlab & Hequ & Hdef) & Hdev).
  rewrite Et in Himg, Lb. cbn [unit_of] in Lb. rewrite Ht2, Et in Hf.
  (* the pass-1 side, as in [label_lands] *)
  subst segs. rewrite pass1_unfold in H1.
  apply bind_ok in H1. destruct H1 as ([[[[c' co'] dofs'] eo'] out'] & F1 & H1).
  destruct (flash_size (dev c) <? co'); [discriminate|]. destruct (eeprom_size (dev c) <? eo'); [discriminate|].
  destruct (ram_size (dev c) <? dofs' - ram_start (dev c)); [discriminate|]. injection H1 as <-. cbn [p1_segs p1_ctx] in *.
  rewrite fold_left_app in F1. cbn [fold_left] in F1.
  pose proof (p1steps_ok _ _ _ F1) as ([[[[cb cob] dofsb] eob] outb] & Eb). rewrite Eb in F1.
  pose proof (p1step_ok _ _ _ Eb) as ([[[[ca coa] dofsa] eoa] outa] & Ea). rewrite Ea in Eb.
  apply Forall_app in Hp. destruct Hp as (Hp1 & Hp2). inversion Hp2 as [|? ? Hps Hp3]; subst.
  destruct (passes_agree fuel _ _ _ _ _ _ _ _ _ _ _ Hp1 Ea) as (Da & _ & _ & npre & Hna & Lpre & _). cbn [app] in Hna. subst outa.
  destruct (passes_agree fuel _ _ _ _ _ _ _ _ _ _ _ Hp3 F1) as (_ & _ & _ & npost & Hnz & _ & _).
  unfold p1step in Eb. cbn [bind] in Eb. apply bind_ok in Eb. destruct Eb as ([[c1 fin1] sg'] & Hs & Eb).
  assert (Hout : outb = (npre ++ [sg'])%list) by (destruct (seg_t sg); injection Eb as _ _ _ _ <-; reflexivity).
  subst outb. clear Eb.
  assert (Hsame : sg2 = sg').
  { subst out'. rewrite <- app_assoc, nth_error_app2 in Hnth2 by lia. rewrite Lpre, Nat.sub_diag in Hnth2. cbn in Hnth2. congruence. }
  subst sg2.
  unfold pass1_segment in Hs. apply bind_ok in Hs. destruct Hs as (start & Hst & Hs).
  apply bind_ok in Hs. destruct Hs as ([[cf fin'] outf] & Hfold & Hs). injection Hs as <- <- <-. cbn [address items] in *.
  rewrite Hit, Et in Hfold. unfold plain_seg in Hps. rewrite Hit in Hps. fold (p1fold SCode) in Hfold.
  destruct (instr_position fuel _ _ _ _ _ _ _ _ _ _ _ Hps Hfold) as (a & kpre & kpost & -> & La & Hk).
  cbn [app] in Hf. assert (Hd2 : dev c2 = dev ca) by congruence.
  destruct (Hk _ _ _ _ Hd2 Hf) as (cx & bs_pre & bs & bs_post & -> & Lpre2 & A & B & D & E & Hproc).
  exists a, cx, (before ++ bs_pre)%list, bs, (bs_post ++ after)%list.
  split; [rewrite Himg, <- !app_assoc; reflexivity|].
  split; [rewrite app_length, Nat2N.inj_add, Lb, Lpre2; lia|].
  repeat split; try congruence.
Qed.

(** ---- composition with the encoder theorem: the relative jump in the image reaches the named target ---- *)
Require Import AvraV.Spec.Isa AvraV.Proofs.EncCheck AvraV.Proofs.EncProofs AvraV.Proofs.SymProofs.

(** a name bound only as a label reads as the label's position, as an operand value *)
Lemma label_reference fuel cx L seg t :
  get_define cx L = None -> get_equ cx L = None -> get_set cx L = None -> get_special cx L = None -> get_def cx L = None ->
  lookup (lower L) (labels cx) = Some (seg, t) ->
  view_of (S fuel) cx (OE (EIdent L)) = wview (WExp (Z.of_N t)).
Proof.
  intros H1 H2 H3 H4 H5 Hl. unfold view_of, wview. cbn [get_r8 get_val get_index]. rewrite H5.
  unfold run. cbn [run_n]. unfold get_expr, get_label. rewrite H1, H2, H3, H4, Hl. reflexivity.
Qed.

Theorem branch_in_program (k : core) (s : spelling) fuel c segs r1 r2 :
  pass1 c segs = Ok r1 -> pass2 fuel (p1_ctx r1) (p1_segs r1) = Ok r2 -> Forall plain_seg segs ->
  2 * flash_size (dev c) < lim31 -> eeprom_size (dev c) < lim31 ->
  (In s spellings /\ rel_op (op_of (sp_name s)) = true) -> is_avr8l (dev c) = isred k ->
  forall pre sg post ipre cp args ipost,
    segs = (pre ++ sg :: post)%list -> seg_t sg = SCode ->
    items sg = (ipre ++ (cp, IInstr (op_of (sp_name s)) args) :: ipost)%list ->
  exists a cx before bs after,
    p2_code r2 = (before ++ bs ++ after)%list /\ N.of_nat (length before) = 2 * a /\
    labels cx = labels (p1_ctx r1) /\ equs cx = equs (p1_ctx r1) /\ defines cx = defines (p1_ctx r1) /\ dev cx = dev c /\
    get_special cx (lit "pc") = Some (EConst (Z.of_N a)) /\
    forall (pre_w : list warg) (t : Z),
      map (view_of fuel cx) args = map wview (pre_w ++ [WExp t])%list ->
      fits (sp_ops s) (pre_w ++ [WExp (t - (Z.of_N a + 1))%Z])%list = true ->
      exists words, bs = bytes_of words /\
        decode k words = canon_norm (sp_name s) (pre_w ++ [WExp (t - (Z.of_N a + 1))%Z])%list.
Proof.
  intros H1 H2 Hp Bf Be Hs Hk pre sg post ipre cp args ipost Hsegs Et Hit.
  destruct (instr_lands fuel c segs r1 r2 H1 H2 Hp Bf Be pre sg post ipre cp _ args ipost Hsegs Et Hit)
    as (a & ca & before & bs & after & Himg & Lb & A & B & D & E & Hproc).
  exists a, (ctx_set_pc ca a), before, bs, after.
  split; [exact Himg|]. split; [exact Lb|]. split; [exact A|]. split; [exact B|]. split; [exact D|]. split; [exact E|].
  split; [unfold get_special, ctx_set_pc; cbn [special]; change (lower (lit "pc")) with (lit "pc"); apply lookup_insert_same|].
  intros pre_w t Hv Hf.
  assert (Hd : is_avr8l (dev (ctx_set_pc ca a)) = isred k) by (rewrite dev_set_pc, E; exact Hk).
  destruct (branch_reachable k s fuel (ctx_set_pc ca a) args pre_w t (Z.of_N a) Hs Hd (N2Z.is_nonneg a) Hf Hv) as (words & He & Hdec).
  rewrite N2Z.id, Hproc in He. injection He as ->. eauto.
Qed.

(** ... and no image contains a relative jump whose target is out of reach *)
Theorem branch_fits_in_program fuel c segs r1 r2 :
  pass1 c segs = Ok r1 -> pass2 fuel (p1_ctx r1) (p1_segs r1) = Ok r2 -> Forall plain_seg segs ->
  2 * flash_size (dev c) < lim31 -> eeprom_size (dev c) < lim31 ->
  forall pre sg post ipre cp op args ipost,
    segs = (pre ++ sg :: post)%list -> seg_t sg = SCode -> rel_op op = true ->
    items sg = (ipre ++ (cp, IInstr op args) :: ipost)%list ->
  exists a cx before bs after,
    p2_code r2 = (before ++ bs ++ after)%list /\ N.of_nat (length before) = 2 * a /\ labels cx = labels (p1_ctx r1) /\
    forall (vs0 : list view) (t : Z),
      map (view_of fuel cx) args = (vs0 ++ [wview (WExp t)])%list ->
      (- 2 ^ (rel_bits op - 1) <= t - (Z.of_N a + 1) < 2 ^ (rel_bits op - 1))%Z.
Proof.
  intros H1 H2 Hp Bf Be pre sg post ipre cp op args ipost Hsegs Et Hrel Hit.
  destruct (instr_lands fuel c segs r1 r2 H1 H2 Hp Bf Be pre sg post ipre cp _ args ipost Hsegs Et Hit)
    as (a & ca & before & bs & after & Himg & Lb & A & B & D & E & Hproc).
  exists a, (ctx_set_pc ca a), before, bs, after.
  split; [exact Himg|]. split; [exact Lb|]. split; [exact A|].
  intros vs0 t Hv.
  destruct (Z_le_dec (- 2 ^ (rel_bits op - 1)) (t - (Z.of_N a + 1))) as [Hlo|Hlo];
    [destruct (Z_lt_dec (t - (Z.of_N a + 1)) (2 ^ (rel_bits op - 1))) as [Hhi|Hhi]; [split; assumption|]|].
  all: exfalso;
    assert (Hout : ~ (- 2 ^ (rel_bits op - 1) <= t - (Z.of_N a + 1) < 2 ^ (rel_bits op - 1))%Z) by lia;
    pose proof (rel_reject (is_avr8l (dev (ctx_set_pc ca a))) op vs0 t (Z.of_N a) Hrel (N2Z.is_nonneg a) Hout) as Hr;
    rewrite N2Z.id, <- Hv in Hr; unfold process in Hproc; rewrite Hproc in Hr; discriminate.
Qed.

(** ---- no error is dropped: in a build that pass 2 accepts, EVERY item of EVERY segment was accepted by pass 2 ---- *)
Theorem pass2_accepts_every_item fuel c segs r2 :
  pass2 fuel c segs = Ok r2 ->
  forall pre sg post ipre ci ipost, segs = (pre ++ sg :: post)%list -> items sg = (ipre ++ ci :: ipost)%list ->
  exists st st', pass2_item fuel (seg_t sg) st ci = Ok st'.
Proof.
  intros H pre sg post ipre ci ipost -> Hit. rewrite pass2_unfold in H.
  apply bind_ok in H. destruct H as (s & F & _).
  rewrite fold_left_app in F. cbn [fold_left] in F.
  pose proof (p2steps_ok _ _ _ _ F) as (sb & Eb).
  pose proof (p2step_ok _ _ _ _ Eb) as ([[c0 code] eep] & Ea). rewrite Ea in Eb.
  unfold p2step in Eb. cbn [bind] in Eb. apply bind_ok in Eb. destruct Eb as ([[c1 fin] frag] & Hf & _).
  rewrite Hit in Hf. rewrite p2fold_app in Hf. unfold p2fold in Hf at 1. cbn [fold_left] in Hf.
  fold (p2fold fuel (seg_t sg)) in Hf.
  pose proof (fold_bind_ok _ _ _ _ Hf) as (sx & Ex).
  destruct (p2fold fuel (seg_t sg) ipre (Ok (c0, address sg, []))) as [st| | |] eqn:Ep; cbn [bind] in Ex; try discriminate.
  exists st, sx. exact Ex.
Qed.

Corollary pass2_encodes_every_instruction fuel c segs r2 :
  pass2 fuel c segs = Ok r2 ->
  forall pre sg post ipre cp op args ipost, segs = (pre ++ sg :: post)%list -> items sg = (ipre ++ (cp, IInstr op args) :: ipost)%list ->
  exists cx pc bs, process fuel cx op args pc = Ok bs /\ check_instruction (dev cx) op args = true.
Proof.
  intros H pre sg post ipre cp op args ipost Hs Hit.
  destruct (pass2_accepts_every_item fuel c segs r2 H pre sg post ipre _ ipost Hs Hit) as ([[c0 cur] out] & st' & E).
  unfold pass2_item in E. cbn [fst] in E. destruct (check_instruction _ _ _) eqn:Ec; [|discriminate].
  apply bind_ok in E. destruct E as (bs & Hb & _). apply with_line_ok in Hb. eauto.
Qed.

(** ... and the device it was gated by is THE device of the program (pass 2 never changes it) *)
Lemma p2steps_dev fuel l : forall s s', fold_left (p2step fuel) l (Ok s) = Ok s' -> dev (p2ctx s') = dev (p2ctx s).
Proof.
  induction l as [|sg l IH]; intros s s' H; cbn [fold_left] in H.
  - injection H as <-. reflexivity.
  - pose proof (p2steps_ok _ _ _ _ H) as (s1 & E1). rewrite E1 in H. apply IH in H. rewrite H.
    destruct s as [[c0 code] eep]. unfold p2step in E1. cbn [bind] in E1. apply bind_ok in E1.
    destruct E1 as ([[c1 fin] frag] & Hf & E1). apply p2fold_dev in Hf.
    assert (p2ctx s1 = c1) by (destruct (seg_t sg); injection E1 as <-; reflexivity). cbn [p2ctx]. congruence.
Qed.

Theorem pass2_gates_every_instruction fuel c segs r2 :
  pass2 fuel c segs = Ok r2 ->
  forall pre sg post ipre cp op args ipost, segs = (pre ++ sg :: post)%list -> items sg = (ipre ++ (cp, IInstr op args) :: ipost)%list ->
  check_instruction (dev c) op args = true.
Proof.
  intros H pre sg post ipre cp op args ipost -> Hit. rewrite pass2_unfold in H.
  apply bind_ok in H. destruct H as (s & F & _).
  rewrite fold_left_app in F. cbn [fold_left] in F.
  pose proof (p2steps_ok _ _ _ _ F) as (sb & Eb).
  pose proof (p2step_ok _ _ _ _ Eb) as ([[c0 code] eep] & Ea). rewrite Ea in Eb.
  pose proof (p2steps_dev _ _ _ _ Ea) as D0. cbn [p2ctx] in D0.
  unfold p2step in Eb. cbn [bind] in Eb. apply bind_ok in Eb. destruct Eb as ([[c1 fin] frag] & Hf & _).
  rewrite Hit in Hf. rewrite p2fold_app in Hf. unfold p2fold in Hf at 1. cbn [fold_left] in Hf.
  fold (p2fold fuel (seg_t sg)) in Hf.
  pose proof (fold_bind_ok _ _ _ _ Hf) as (sx & Ex).
  destruct (p2fold fuel (seg_t sg) ipre (Ok (c0, address sg, []))) as [[[cp0 cur] out]| | |] eqn:Ep; cbn [bind] in Ex; try discriminate.
  apply p2fold_dev in Ep.
  unfold pass2_item in Ex. cbn [fst] in Ex. rewrite dev_set_pc in Ex.
  destruct (check_instruction (dev cp0) op args) eqn:Ec; [|discriminate].
  rewrite <- D0, <- Ep. exact Ec.
Qed.

(** ---- the same for ANY item pass 1 keeps (data directives, reservations, .set/.def): where its bytes land ---- *)
Theorem kept_item_position fuel t : t <> SData -> forall ipre ci ipost c cur0 out0 c' fin out',
  Forall plain (ipre ++ ci :: ipost) ->
  p1fold t (ipre ++ ci :: ipost) (Ok (c, cur0, out0)) = Ok (c', fin, out') ->
  (exists kpre kpost, out' = (out0 ++ kpre ++ kpost)%list /\ match snd ci with ILabel _ | IPragma _ => True | _ => False end) \/
  exists a a' kpre ci' kpost, out' = (out0 ++ kpre ++ ci' :: kpost)%list /\ fst ci' = fst ci /\ cur0 <= a /\ a <= a' /\
    (exists c1 o1 c1', pass1_item t (c1, a, o1) ci = Ok (c1', a', (o1 ++ [ci'])%list)) /\
    forall c2 c2' fin2 frag, dev c2 = dev c ->
      p2fold fuel t (kpre ++ ci' :: kpost) (Ok (c2, cur0, [])) = Ok (c2', fin2, frag) ->
      exists ca ca' bs_pre bs bs_post,
        frag = (bs_pre ++ bs ++ bs_post)%list /\ N.of_nat (length bs_pre) = unit_of t * (a - cur0) /\
        N.of_nat (length bs) = unit_of t * (a' - a) /\ labels ca = labels c2 /\ dev ca = dev c2 /\
        pass2_item fuel t (ca, a, bs_pre) ci' = Ok (ca', a', (bs_pre ++ bs)%list).
Proof.
  intros Ht ipre ci ipost c cur0 out0 c' fin out' Hp H.
  rewrite p1fold_app in H.
  assert (Ea : exists sa, p1fold t ipre (Ok (c, cur0, out0)) = Ok sa) by (unfold p1fold in H |- *; eapply fold_bind_ok; exact H).
  destruct Ea as ([[ca a] outa] & Ea). rewrite Ea in H. unfold p1fold in H. cbn [fold_left bind] in H.
  pose proof (fold_bind_ok _ _ _ _ H) as ([[cb a'] outb] & Eb). rewrite Eb in H.
  apply Forall_app in Hp. destruct Hp as (Hp1 & Hp2). inversion Hp2 as [|? ? Hpi Hp3]; subst.
  destruct (items_agree fuel _ Ht _ _ _ _ _ _ _ Hp1 Ea) as (Da & La & kpre & -> & Hpre).
  destruct (items_agree fuel _ Ht _ _ _ _ _ _ _ Hp3 H) as (Dz & Lz & kpost & -> & Hpost).
  pose proof (pass1_item_le _ _ _ _ _ _ _ _ Eb) as Hle.
  destruct (item_agree fuel _ _ _ _ _ _ _ _ Eb Hpi) as (Db & Hcase).
  destruct Hcase as [[(-> & ->) | (_ & Hsd)] | (ci' & -> & Hfst & Hci)]; [| contradiction |].
  - (* nothing kept: a label or a pragma *)
    left. exists kpre, kpost. split; [rewrite <- app_assoc; reflexivity|].
    destruct ci as [cp it]. unfold pass1_item in Eb. cbn [fst snd] in *.
    destruct it as [z | k ops | al e | al | al e | ops | op args | lab]; try exact I; exfalso.
    all: try (destruct t; try discriminate; try contradiction).
    all: try (destruct k).
    all: repeat match type of Eb with
                | bind ?m _ = Ok _ => apply bind_ok in Eb; destruct Eb as (? & _ & Eb)
                | (if ?x then _ else _) = Ok _ => destruct x; try discriminate
                | (match ?x with _ => _ end) = Ok _ => destruct x; try discriminate
                end.
    all: try discriminate.
    all: injection Eb; intros;
         match goal with Hq : (?l ++ [_])%list = ?l |- _ => apply (f_equal (@length _)) in Hq; rewrite app_length in Hq; cbn [length] in Hq; lia end.
  - right. exists a, a', kpre, ci', kpost.
    split; [rewrite <- !app_assoc; reflexivity|]. split; [exact Hfst|]. split; [exact La|]. split; [lia|].
    split; [exists ca, (out0 ++ kpre)%list, cb; exact Eb|].
    intros c2 c2' fin2 frag Hd H2.
    rewrite p2fold_app in H2.
    assert (E1 : exists s1, p2fold fuel t kpre (Ok (c2, cur0, [])) = Ok s1) by (unfold p2fold in H2 |- *; eapply fold_bind_ok; exact H2).
    destruct E1 as ([[cx curx] outx] & E1). rewrite E1 in H2.
    destruct (Hpre _ _ _ _ _ Hd E1) as (Dx & -> & bs_pre & Hbs & Lpre). cbn [app] in Hbs. subst outx.
    pose proof (p2fold_labels _ _ _ _ _ _ _ _ _ E1) as (Lab & _ & _).
    unfold p2fold in H2. cbn [fold_left bind] in H2.
    pose proof (fold_bind_ok _ _ _ _ H2) as ([[cy cury] outy] & E2). rewrite E2 in H2.
    assert (Dxa : dev cx = dev ca) by congruence.
    destruct (Hci _ _ _ _ _ Dxa E2) as (Dy & -> & bs & -> & Lbs).
    assert (Dyb : dev cy = dev cb) by congruence.
    destruct (Hpost _ _ _ _ _ Dyb H2) as (_ & _ & bs_post & -> & _).
    exists cx, cy, bs_pre, bs, bs_post. split; [rewrite <- app_assoc; reflexivity|]. split; [exact Lpre|]. split; [exact Lbs|].
    split; [exact Lab|]. split; [exact Dx|]. exact E2.
Qed.

(** what pass 1 keeps of a data directive: the directive itself; in flash a .db list of odd length gets one zero byte more *)
Definition padded (t : segt) (k : datadef) (l : list operand) : list operand :=
  match t, k with SCode, Db => if actual_len l mod 2 =? 1 then (l ++ [PE (EConst 0)])%list else l | _, _ => l end.
Lemma pass1_keeps_data t c cur out cp k l c' cur' out' :
  pass1_item t (c, cur, out) (cp, IData k l) = Ok (c', cur', out') -> out' = (out ++ [(cp, IData k (padded t k l))])%list.
Proof.
  unfold pass1_item, padded. cbn [fst]. intros H.
  destruct k, t; try discriminate;
    repeat match type of H with
           | bind ?m _ = Ok _ => apply bind_ok in H; destruct H as (? & _ & H)
           end; injection H as _ _ <-; reflexivity.
Qed.

(** a data directive inside a whole program: its bytes, as pass 2 computes them from the operands at the directive's own
    location, stand in the image at unit * that location *)
Theorem data_lands fuel c segs r1 r2 :
  pass1 c segs = Ok r1 -> pass2 fuel (p1_ctx r1) (p1_segs r1) = Ok r2 -> Forall plain_seg segs ->
  2 * flash_size (dev c) < lim31 -> eeprom_size (dev c) < lim31 ->
  forall pre sg post ipre cp k l ipost,
    segs = (pre ++ sg :: post)%list -> seg_t sg <> SData -> items sg = (ipre ++ (cp, IData k l) :: ipost)%list ->
  exists a ca before bs after,
    (match seg_t sg with SCode => p2_code r2 | _ => p2_eeprom r2 end) = (before ++ bs ++ after)%list /\
    N.of_nat (length before) = unit_of (seg_t sg) * a /\
    labels ca = labels (p1_ctx r1) /\ dev ca = dev c /\
    data_bytes fuel (ctx_set_pc ca a) k (padded (seg_t sg) k l) = Ok bs.
Proof.
  intros H1 H2 Hp Bf Be pre sg post ipre cp k l ipost Hsegs Hnd Hit.
  destruct (layout fuel c segs r1 r2 H1 H2 Hp Bf Be) as (_ & _ & Hlay).
  destruct (Hlay pre sg post Hsegs Hnd) as (sg2 & fin & c2 & c2' & frag & before & after & Hnth2 & Ht2 & _ & Hf & Himg & Lb & _ & (Hlab & _ & _) & Hdev).
  subst segs. rewrite pass1_unfold in H1.
  apply bind_ok in H1. destruct H1 as ([[[[c' co'] dofs'] eo'] out'] & F1 & H1).
  destruct (flash_size (dev c) <? co'); [discriminate|]. destruct (eeprom_size (dev c) <? eo'); [discriminate|].
  destruct (ram_size (dev c) <? dofs' - ram_start (dev c)); [discriminate|]. injection H1 as <-. cbn [p1_segs p1_ctx] in *.
  rewrite fold_left_app in F1. cbn [fold_left] in F1.
  pose proof (p1steps_ok _ _ _ F1) as ([[[[cb cob] dofsb] eob] outb] & Eb). rewrite Eb in F1.
  pose proof (p1step_ok _ _ _ Eb) as ([[[[ca coa] dofsa] eoa] outa] & Ea). rewrite Ea in Eb.
  apply Forall_app in Hp. destruct Hp as (Hp1 & Hp2). inversion Hp2 as [|? ? Hps Hp3]; subst.
  destruct (passes_agree fuel _ _ _ _ _ _ _ _ _ _ _ Hp1 Ea) as (Da & _ & _ & npre & Hna & Lpre & _). cbn [app] in Hna. subst outa.
  destruct (passes_agree fuel _ _ _ _ _ _ _ _ _ _ _ Hp3 F1) as (_ & _ & _ & npost & Hnz & _ & _).
  unfold p1step in Eb. cbn [bind] in Eb. apply bind_ok in Eb. destruct Eb as ([[c1 fin1] sg'] & Hs & Eb).
  assert (Hout : outb = (npre ++ [sg'])%list) by (destruct (seg_t sg); injection Eb as _ _ _ _ <-; reflexivity).
  subst outb. clear Eb.
  assert (Hsame : sg2 = sg').
  { subst out'. rewrite <- app_assoc, nth_error_app2 in Hnth2 by lia. rewrite Lpre, Nat.sub_diag in Hnth2. cbn in Hnth2. congruence. }
  subst sg2.
  unfold pass1_segment in Hs. apply bind_ok in Hs. destruct Hs as (start & Hst & Hs).
  apply bind_ok in Hs. destruct Hs as ([[cf fin'] outf] & Hfold & Hs). injection Hs as <- <- <-. cbn [address items seg_t] in *.
  rewrite Hit in Hfold. unfold plain_seg in Hps. rewrite Hit in Hps. fold (p1fold (seg_t sg)) in Hfold.
  destruct (kept_item_position fuel (seg_t sg) Hnd _ _ _ _ _ _ _ _ _ Hps Hfold)
    as [(_ & _ & _ & Hfalse) | (a & a' & kpre & ci' & kpost & Hout & Hfst & La & La' & (cq & oq & cq' & Hq) & Hk)];
    [cbn [snd] in Hfalse; contradiction|].
  apply pass1_keeps_data in Hq. apply app_inv_head in Hq. injection Hq as ->.
  cbn [app] in Hout. subst outf.
  assert (Hd2 : dev c2 = dev ca) by congruence.
  destruct (Hk _ _ _ _ Hd2 Hf) as (cx & cx' & bs_pre & bs & bs_post & -> & Lpre2 & _ & A & E & Hitem).
  unfold pass2_item in Hitem. cbn [fst] in Hitem. apply bind_ok in Hitem. destruct Hitem as (bs' & Hb & Hitem).
  apply with_line_ok in Hb. apply bind_ok in Hitem. destruct Hitem as (ax & _ & Hitem). injection Hitem as _ _ Happ.
  apply app_inv_head in Happ. subst bs'.
  exists a, cx, (before ++ bs_pre)%list, bs, (bs_post ++ after)%list.
  split; [rewrite Himg, <- !app_assoc; reflexivity|].
  split; [rewrite app_length, Nat2N.inj_add, Lb, Lpre2; destruct (seg_t sg); cbn [unit_of]; lia|].
  split; [congruence|]. split; [congruence|]. exact Hb.
Qed.
