"""python3 -m vlib.seedtable : regenerate the table of DESIGN.md section 12.5 from seeded/*/{patch.diff,notes.md,meta.json}"""
import json
import os
import re

VERIF = os.path.dirname(os.path.dirname(os.path.abspath(__file__)))


def rows():
    out = []
    for sid in sorted(os.listdir(os.path.join(VERIF, "seeded"))):
        d = os.path.join(VERIF, "seeded", sid)
        try:
            meta = json.load(open(os.path.join(d, "meta.json")))
        except OSError:
            continue
        files = sorted(set(re.findall(r"^\+\+\+ b/(\S+)", open(os.path.join(d, "patch.diff")).read(), re.M)))
        what = ""
        try:
            for ln in open(os.path.join(d, "notes.md")):
                ln = ln.strip().lstrip("#").strip()
                if ln:
                    what = ln
                    break
        except OSError:
            pass
        what = re.sub(r"^\d+\.\s*", "", what).replace("|", "/")[:120]
        caught = [p for p, r in meta.get("check_results", {}).items() if r.get("exit") == 1]
        out.append("| %s | %s | %s | %s | %s |" % (sid, meta.get("breaks"), ", ".join(files), what, ", ".join(caught) or "MISSED"))
    return out


def main():
    p = os.path.join(VERIF, "DESIGN.md")
    s = open(p).read()
    head = "| seed | property | file(s) changed | what it does | caught by |\n|---|---|---|---|---|\n"
    i = s.index(head) + len(head)
    j = s.index("\n\n", i)
    s = s[:i] + "\n".join(rows()) + s[j:]
    open(p, "w").write(s)
    print(len(rows()), "rows")


if __name__ == "__main__":
    main()
