(** C02 - label values and .org positions equal where the bytes really land (examples; theorems follow). *)
From Coq Require Import List ZArith NArith String.
Import ListNotations.
Require Import AvraV.Model.Base AvraV.Model.Ast AvraV.Model.Passes.
Definition images (src : string) : option (list N * list N * N) :=
  match build_str 200 (list_ascii_of_string src) with Ok b => Some (b_code b, b_eeprom b, b_ram_filling b) | _ => None end.
Definition nl := String (Ascii.ascii_of_N 10) EmptyString.
Example C02_examples :
  images ("nop" ++ nl ++ ".org 3" ++ nl ++ "here: .db 1" ++ nl ++ " .dw here" ++ nl) = Some ([0;0;0;0;0;0;1;0;3;0], [], 0)%N /\
  images (".dseg" ++ nl ++ "v: .byte 2" ++ nl ++ "w: .byte 1" ++ nl ++ ".cseg" ++ nl ++ " .dw v, w" ++ nl) = Some ([96;0;98;0], [], 3)%N /\
  images (".org 4" ++ nl ++ "nop" ++ nl ++ ".org 2" ++ nl ++ "nop" ++ nl) = None.
Proof. vm_compute. repeat split; reflexivity. Qed.
