"""C03 - relative branches and jumps reach exactly the target that was named."""
import random
import re

from . import encgen, encrun, progcheck as P, progrun

PROP = "C03"
REL_NAMES = ("rjmp", "rcall", "brbs", "brbc", "breq", "brcc", "brne")

OPS = {"rjmp": (0xC000, 12, None), "rcall": (0xD000, 12, None), "breq": (0xF001, 7, None), "brne": (0xF401, 7, None), "brlo": (0xF000, 7, None),
       "brbs 3,": (0xF003, 7, None), "brbc 6,": (0xF406, 7, None)}
FILL = [("  nop", 1), ("  .dw 1", 1), ("  .dw 1, 2, 3", 3), ("  .db 1", 1), ("  .db 1, 2, 3", 2), ('  .db "abcd"', 2), ("  jmp 0", 2), ("  lds r16, 0x60", 2),
        ("  .dd 7", 2), ("  .dq 9", 4), ("  ldi r16, 1", 1),
        # strings occupy their UTF-8 bytes (padded to a word), not their characters
        ('  .db "\u00e4\u00f6"', 2), ('  .db "\u20ac"', 2), ('  .db "\u00e9"', 1), ('  .db "\U0001F600", 1', 3), ('  .db "\u0416\u0416\u0416"', 3)]


def word_of(op, d):
    base, bits, _ = OPS[op]
    if not -(1 << (bits - 1)) <= d < (1 << (bits - 1)):
        return None
    return base | ((d & 0xFFF) if bits == 12 else ((d & 0x7F) << 3))


def filler(rng, words):
    """lines that occupy exactly [words] words of flash, of mixed kinds"""
    out = []
    while words > 0:
        text, w = rng.choice(FILL)
        if w <= words:
            out.append(text)
            words -= w
    return out


def program_cases(rng, n):
    """(source, index of the branch word, expected word or None=must fail)"""
    cases = []
    for _ in range(n):
        op = rng.choice(list(OPS))
        bits = OPS[op][1]
        lim = 1 << (bits - 1)
        d = rng.choice([lim - 1, lim, -lim, -lim - 1, 0, -1, 1, rng.randrange(-lim - 3, lim + 3)])
        pre = filler(rng, rng.randrange(0, 6))
        npre = sum(dict(FILL)[t] for t in pre)
        form = rng.choice(["label", "pc", "pc-after-data", "number", "equ-pc", "set-alias", "in-macro", "macro-arg"])
        if form == "in-macro" and d >= 0:
            # the instruction is the expansion of a macro call that is the first thing after an .org (or a label, or data)
            gap = rng.choice([0, 3, 64])
            ctx = rng.choice(["org", "label", "data"])
            body = filler(rng, d)
            at = npre + (gap if ctx == "org" else 1 if ctx == "data" else 0)
            lines = [".macro jumpit", "  %s tgt" % op, ".endm"] + pre
            lines += {"org": [".org %d" % at], "label": ["before_it:"], "data": ["  .dw 7"]}[ctx]
            if ctx == "org" and gap == 0:
                lines.pop()
            lines += ["  jumpit"] + body + ["tgt: nop"]
            cases.append(("\n".join(lines) + "\n", at, word_of(op, d)))
            continue
        if form == "macro-arg" and d >= 0:
            # the target is an ARGUMENT of the macro that holds the instruction: an expression with operators of equal and of
            # different precedence on its right, which the expansion prints and reads again
            body = filler(rng, d)
            at = npre
            t = npre + 1 + d
            x, y, z = rng.randrange(0, 50), rng.randrange(0, 30), rng.randrange(0, 30)
            expr = rng.choice(["%d-(%d-%d)" % (t + y - z, y, z), "%d-(%d+%d)" % (t + y + z, y, z), "tgt+%d-(%d-%d)" % (y - z, y, z), "tgt-(%d-%d)" % (y, y),
                               "(%d)*1" % t, "%d/(2/2)" % t, "tgt+(%d>>(1<<0))-%d" % (2 * y, y), "pc+%d-(%d-%d)" % (d + 1 + y - z, y, z), "-(-%d)" % t,
                               "%d-%d-(%d)" % (t + x + y, x, y)])
            lines = [".macro jumpto", "  %s @0" % op, ".endm"] + pre + ["  jumpto %s" % expr] + body + ["tgt: nop"]
            cases.append(("\n".join(lines) + "\n", at, word_of(op, d)))
            continue
        if form in ("equ-pc", "set-alias"):
            # the target goes through an .equ alias whose value depends on WHERE (pc) or WHEN (a .set variable) it is read, and
            # which has been read once before, elsewhere: every use evaluates the definition afresh
            back = -d - 1
            body = filler(rng, d if d >= 0 else back)
            at = 1 + npre + (0 if d >= 0 else back)
            if form == "equ-pc":
                head = [".equ tgt = %s%+d" % (rng.choice(["pc", "PC"]), d + 1), "  .dw tgt"]
                mid = []
            else:
                head = [".set base = 7", ".equ tgt = base + 1", "  .dw tgt"]
                mid = [".set base = %d" % (at + 1 + d - 1)]
                if rng.random() < 0.5:
                    # symbol directives act in whatever segment they are written
                    mid = [rng.choice([".dseg", ".eseg"])] + mid + [".cseg"]
            lines = head + (pre + mid + ["  %s tgt" % op] + body + ["  nop"] if d >= 0 else pre + body + mid + ["  %s tgt" % op])
            cases.append(("\n".join(lines) + "\n", at, word_of(op, d)))
            continue
        if form == "pc-after-data":
            pre.append(rng.choice(["  .dw 5", "  .db 1, 2", "  .dd 1"]))
            npre += 1 if "dd" not in pre[-1] else 2
        if d >= 0:
            body = filler(rng, d)
            if form == "label":
                lines = pre + ["  %s tgt" % op] + body + ["tgt: nop"]
            elif form == "number":
                lines = pre + ["  %s %d" % (op, npre + 1 + d)] + body + ["  nop"]
            else:
                lines = pre + ["  %s %s+%d" % (op, rng.choice(["pc", "PC"]), d + 1)] + body + ["  nop"]
            at = npre
        else:
            back = -d - 1          # words between the target and the branch
            body = filler(rng, back)
            if form == "label":
                lines = pre + ["tgt:"] + body + ["  %s tgt" % op]
            elif form == "number":
                lines = pre + body + ["  %s %d" % (op, npre)]
            else:
                lines = pre + body + ["  %s pc-%d" % (op, back)]
            at = npre + back
        cases.append(("\n".join(lines) + "\n", at, word_of(op, d)))
    # letter case of the label: defined and referenced in any mixture
    out = []
    for text, at, want in cases:
        if "tgt" in text and rng.random() < 0.5:
            a, b = rng.choice([("Tgt", "tgt"), ("tgt", "TGT"), ("TGT", "Tgt"), ("Target_1", "TARGET_1"), ("LOOP", "LOOP")])
            text = re.sub(r"\btgt:", a + ":", text)
            text = re.sub(r"\btgt\b", b, text)
        out.append((text, at, want))
    return out


def run(res):
    cs0 = encgen.relative("F") + (encgen.relative("R") if res.tier != "quick" else encgen.relative("R")[::7])
    from . import gen

    def cs(vh):
        # ... and, under every device row, the relative forms at both range ends and one flash size beyond them
        return cs0 + [c for c in encgen.per_device(gen.read_devices(vh), res.tier != "quick") if c.split(" ")[2] in REL_NAMES]
    encrun.standard_run(
        res, PROP, cs, keep=lambda r: True, what="relative-jump/branch",
        rule=("all 18 br<cond>, brbs/brbc x 8 bits, rjmp, rcall at every displacement -70..70 / -66..66 / -2055..2055 around both "
              "field limits, at 11 instruction addresses from 0 to 2^32-1, plus targets at the i64 extremes; oracle: Spec/Isa.expect_at "
              "(in range -> exactly the table word whose decoded displacement d satisfies target = pc + 1 + d; out of range -> error); "
              "distinct = distinct case text"),
        exhaustive_note="complete over the displacement windows stated in the rule, for the listed instruction addresses",
        assume=["program-level placement (labels, .org gaps between instruction and target) is C02's layout theorem composed with "
                "this field-level theorem; the instruction-level interface is given pc and target directly"])


    # program level: the same instructions with the target given by a label, by a pc-relative expression (also right after
    # data) and by a number, among one- and two-word instructions and data of every width
    from . import common as C
    vh = C.build_harness("debug")
    exe = C.build_model()
    rng = random.Random(res.seed)
    cases = program_cases(rng, 1500 if res.tier == "quick" else 60000)
    obs = P.correspond(res, vh, exe, [c[0] for c in cases], "branch programs")
    for text, at, want in cases:
        a = progrun.parse_obs(obs[text][0])
        if want is None:
            if a["kind"] != "ERR":
                P.fail(res, "builder::build_str", text, "a failed build: the target is out of reach", obs[text][0][:80], "far-accepted")
        elif a["kind"] != "OK":
            P.fail(res, "builder::build_str", text, "word %04x at word %d" % (want, at), obs[text][0][:80], "reach-rejected")
        else:
            got = a["code"][4 * at:4 * at + 4]
            exp = "%02x%02x" % (want & 255, want >> 8)
            if got != exp:
                P.fail(res, "builder::build_str", text, "word %s at word %d" % (exp, at), "word %s" % got, "wrong-target")


def match_known(f, entry):
    return entry.get("class") is not None and f.get("cls") == entry.get("class")


def replay(path):
    import json
    i = json.load(open(path)).get("input") or {}
    if "source" in i:
        return P.replay_by_rerun(PROP, path)
    return encrun.replay(PROP, path)
