(** parser::parse_file_internal / parse_file and builder::build_file over the file system of
    Model/Fs.v: path resolution against the include set, the file's own directory, nested
    inclusion with shared segments / macros / messages / symbols, the include-depth limit. *)
Require Import AvraV.Model.Base AvraV.Model.Ast AvraV.Model.Device AvraV.Model.Eval AvraV.Model.Fs AvraV.Model.Parse AvraV.Model.Passes.
Require Import AvraV.Gen.Devices.
Open Scope N_scope.

Section Files.
Variable fs : fsys.
Variable fuel : nat.

(** where a file named [t] is looked for: as written (relative to the working directory), then
    below each directory of the include set in the set's order *)
Definition locate (ips : list path) (t : path) : path :=
  if exists_path fs t then t
  else match find (fun q => exists_path fs (join q t)) ips with Some q => join q t | None => t end.

Definition mem_path (p : path) (s : list path) : bool := existsb (path_eqb p) s.

(** [left] = 65 - include_depth: MAX_INCLUDE_DEPTH = 64 *)
Fixpoint file_at (left : nat) (t : str) (st : pstate) : res pstate :=
  match left with
  | O => Err None
  | S l =>
      let ips := ipaths (fl st) in
      let p := locate ips (components t) in
      match read_path fs p with
      | None => Err None
      | Some src =>
          let own := match parent p with Some d => if mem_path d ips then None else Some d | None => None end in
          let ips' := match own with Some d => set_insert d ips | None => ips end in
          let ls := number_from 0 (split_lines src) in
          do st' <- parse_iter fuel (file_at l) (S (length ls)) ls false (with_fl st {| cur_path := p; ipaths := ips' |});
          (* what .includepath added inside the file goes back to the including file; the file's own directory does not *)
          let back := fold_left (fun s q => match own with
                                            | Some d => if path_eqb q d then s else set_insert q s
                                            | None => set_insert q s
                                            end) (ipaths (fl st')) ips in
          Ok (with_fl st' {| cur_path := cur_path (fl st); ipaths := back |})
      end
  end.

(** builder::build_file(path, paths) *)
Definition build_file (main : str) (paths : list str) : res build_result :=
  let st0 := with_fl (pstate_new (ctx_new default_device)) {| cur_path := components main; ipaths := set_of (map components paths) |} in
  do st <- file_at 65 main st0;
  build_from_parsed fuel (file_at 65) st.
End Files.
