"""C05 - constant expressions evaluate with the documented operator semantics.
Interfaces: document::expr (text -> AST) and Expr::run (AST -> value)."""
import concurrent.futures as cf
import json
import random

from . import common as C, exprgen, gen

PROP = "C05"


def run_exprs(vh, exe, texts, chunk=4000):
    chunks = [texts[i:i + chunk] for i in range(0, len(texts), chunk)]

    def one(ch):
        inp = "".join(t.encode("utf-8").hex() + "\n" for t in ch)
        a = C.vh(vh, ["expr"], input=inp).split("\n")
        b = C.model(exe, ["expr"], input=inp).split("\n")
        rows = []
        for i, t in enumerate(ch):
            ia = a[i].split("\t") if i < len(a) else ["MISSING", "-"]
            ib = b[i].split("\t") if i < len(b) else ["MISSING", "-", "-"]
            rows.append((t, ia[0], ia[1] if len(ia) > 1 else "-", ib[0], ib[1] if len(ib) > 1 else "-", ib[2] if len(ib) > 2 else "-"))
        return rows
    out = []
    with cf.ThreadPoolExecutor(max_workers=C.NCPU) as ex:
        for r in ex.map(one, chunks):
            out += r
    return out


def classify(text, expected, stream, row):
    """-> (correspondence ok, failing dict or None)"""
    _, isx, ival, msx, mval, sval = row
    corr = (isx == msx) and (ival == mval or (isx in ("NOPARSE",)))
    fail = None
    if isx == "PANIC" or ival == "PANIC":
        fail = ("panic", "a value or an error", "panic")
    elif expected is not None and isx != expected:
        fail = ("parse", expected, isx)
    elif isx not in ("NOPARSE", "PANIC") and isx == msx and sval not in ("UNSPEC", "-"):
        want = "ERR" if sval == "FAIL" else sval
        if ival != want:
            fail = ("value", want, ival)
    if fail:
        kind, want, got = fail
        return corr, dict(interface="document::expr + Expr::run", input=dict(text=text, stream=stream),
                          expected=("AST " if kind == "parse" else "value ") + want, observed=got,
                          cls="%s:%s" % (kind, stream))
    return corr, None


def run(res):
    vh = C.build_harness("debug")
    try:
        changed = gen.gen_all(vh)
        res.oblige("tie A: Gen/PrecTable.v regenerated from the precedence! block of /repo/src/document.rs", True, "rewritten: %s" % changed)
    except gen.GenError as e:
        res.oblige("tie A: Gen/*.v regenerated from /repo", False, str(e))
    pr = C.check_props(PROP)
    for n, ok, note in pr["obligations"]:
        res.oblige("theorem " + n, ok, note)
    if pr.get("broken") and not pr["obligations"]:
        res.oblige("coq build", False, pr["broken"])
    exe = C.build_model()
    rng = random.Random(res.seed)
    n = 6000 if res.tier == "quick" else 400000
    cases = exprgen.grid(rng) + exprgen.padded() + exprgen.structured(rng, n) + exprgen.malformed(rng, n // 3)
    rows = run_exprs(vh, exe, [c[0] for c in cases])
    mism, dist, errs = [], {}, 0
    for (text, expected, stream), row in zip(cases, rows):
        ok, fail = classify(text, expected, stream, row)
        res.count(text, nontrivial=row[1] not in ("NOPARSE",))
        dist[stream] = dist.get(stream, 0) + 1
        if row[2] == "ERR":
            errs += 1
        if not ok:
            mism.append((text, row))
        if fail and len(res.failing) < 300:
            res.failing.append(fail)
    res.oblige("correspondence(extracted model): Grammar.parse_expr = document::expr and Eval.run = Expr::run on %d texts" % len(rows),
               not mism, "first of %d: %r" % (len(mism), mism[0]) if mism else "")
    res.extra["distribution"] = dict(dist, evaluation_errors=errs, parse_failures=sum(1 for r in rows if r[1] == "NOPARSE"))
    run_deep(res, vh, exe)
    res.extra["exhaustive"] = False
    res.rule = ("texts: (a) every binary operator x 32x32 boundary operands, every unary operator and byte/word function x 32 operands, "
                "every ordered pair of binary operators in both nestings and every unary/binary nesting, literals of every radix padded with 1..200 leading zeros; (b) random trees (depth<=5) "
                "over literals of all radixes, character literals, symbols, rendered with the parentheses the documented table requires, "
                "with blanks at every space() site, with redundant parentheses; (c) hostile literals and mutated texts. Oracle: "
                "expected AST = the generated tree, value = Spec/ExprSpec.spec_eval; non-trivial = text parses; distinct by text")
    res.samples = [dict(text=t, implementation_ast=r[1], implementation_value=r[2], model_value=r[4], spec_value=r[5])
                   for (t, _, _), r in list(zip(cases, rows))[:3] + list(zip(cases, rows))[-2:]]
    res.assume = ["Spec/ExprSpec.v is my transcription of the AVR assembler operator table (log2 and page are outside it)",
                  "the evaluation context of this interface is fixed (.equ seven/big/neg, label lab); symbol handling is C10"]


def deep_programs():
    """expressions in their real context (a program, symbols defined by computed .equ definitions): long operator chains,
    deep parentheses / unary / function nesting around such a symbol, and chains of computed definitions - the value is the
    arithmetic one whatever the size of the expression, up to the documented definition depth (64).
    -> [(source, expected 16-bit value or None = only the correspondence with the model is demanded)]"""
    out = []
    for n in (1, 10, 31, 32, 33, 62, 63, 64, 65, 66, 100, 127, 128, 129, 300):
        out.append((".equ s = 2*3\n .dw s%s\n" % (" + 1" * n), 6 + n))
        out.append((".equ s = 2*3\n .dw %ss\n" % ("1 + " * n), 6 + n))
        out.append((".equ s = 2*3\n .dw %ss%s\n" % ("(" * n, ")" * n), 6))
        out.append((".equ s = 2*3\n .dw %ss%s\n" % ("(1+" * n, ")" * n), 6 + n))
        out.append((".equ s = 2*3\n .dw %ss\n" % ("-" * (2 * (n // 2))), 6))
        out.append((".equ s = 2*3\n .dw %ss\n" % ("~" * (2 * (n // 2))), 6))
        out.append((".equ s = 2*3\n .dw %ss%s\n" % ("low(" * n, ")" * n), 6))
        out.append((".equ s = 2*3\n ldi r16, %ss%s\n" % ("low(1+" * n, ")" * n), None))
        out.append((".set s = 2*3\n .dw s%s\n" % (" * 1" * n), 6))
        out.append(("lbl: nop\n.equ s = lbl + 6\n .dw s%s\n" % (" - 0" * n), None))
    # a negated NAME that begins with the letter of an index register (x, y, z) as the operand of an instruction: the expression,
    # not the pre-decrement form of the register followed by rubbish
    for name in ("xv", "yval", "zed", "Xs", "Y2", "z_", "x1", "YY", "zx", "y"):
        if len(name) > 1:
            out.append((".equ %s = 3\n ldi r16, -%s\n" % (name, name), 0xEF0D))
            out.append((".equ %s = 3\n ldi r16, -%s+4\n" % (name, name.upper()), 0xE001))
            out.append((".equ %s = 3\n ldi r16, -%s  ; c\n" % (name, name), 0xEF0D))
            out.append((".equ %s = 3\n ldi r16, ~%s\n" % (name, name), 0xEF0C))
            out.append((".equ %s = 3\n cpi r16, -%s\n" % (name, name), 0x3F0D))
            out.append(("%s: nop\n ldi r16, -%s + 2\n" % (name, name), 0xE002))
        out.append((" ld r16, -%s\n" % name[0], {"x": 0x910E, "y": 0x910A, "z": 0x9102}[name[0].lower()]))
    for n in (1, 5, 20, 31, 32, 33, 50, 60, 62, 63, 64, 65, 70):
        defs = [".equ o0 = 1*1"] + [".equ o%d = o%d + 2" % (i, i - 1) for i in range(1, n + 1)]
        out.append(("\n".join(defs) + "\n .dw o%d\n" % n, (1 + 2 * n) if n <= 60 else None))
        out.append(("\n".join(reversed(defs)) + "\n .dw o%d\n" % n, (1 + 2 * n) if n <= 60 else None))
        out.append(("\n".join(defs) + "\n .dw o%d + o%d + 1\n" % (n, n // 2), (1 + 2 * n + 1 + 2 * (n // 2) + 1) if n <= 60 else None))
    return out


def run_deep(res, vh, exe):
    from . import progcheck as P, progrun
    cases = deep_programs()
    obs = P.correspond(res, vh, exe, [c[0] for c in cases], "programs with long / deep expressions over computed symbols")
    for text, want in cases:
        if want is None:
            continue
        a = progrun.parse_obs(obs[text][0])
        exp = "%02x%02x" % (want % 256, (want // 256) % 256)
        if a["kind"] != "OK" or not a["code"].endswith(exp):
            res.failing.append(dict(interface="builder::build_str", input=dict(source=text), expected="last word %s (= %d)" % (exp, want),
                                    observed=obs[text][0][:100], cls="value:deep"))


def match_known(f, entry):
    return entry.get("class") is not None and f.get("cls", "").split(":")[0] == entry.get("class")


def replay(path):
    r = json.load(open(path))
    i = r.get("input")
    if not i:
        print("replay: broken obligation %r - re-run ./check %s" % (r.get("obligation"), PROP))
        return 1
    vh = C.build_harness("debug")
    exe = C.build_model()
    if "source" in i:
        from . import progrun
        a = progrun.parse_obs(progrun.run_texts(vh, exe, [i["source"]])[0][1])
        exp = r["expected"].split(" ")[2]
        if a["kind"] != "OK" or not a["code"].endswith(exp):
            print("VIOLATION property=%s replay=%s" % (PROP, path))
            return 1
        print("replay: property now holds on this input")
        return 0
    row = run_exprs(vh, exe, [i["text"]])[0]
    exp = r["expected"][4:] if r["expected"].startswith("AST ") else None
    _, fail = classify(i["text"], exp, i.get("stream", "replay"), row)
    if fail:
        print("VIOLATION property=%s replay=%s" % (PROP, path))
        return 1
    print("replay: property now holds on this input")
    return 0
