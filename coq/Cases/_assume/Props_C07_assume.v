Require Import AvraV.Props.C07.
Goal True. idtac "BEGIN C07_roundtrip". Abort.
Print Assumptions C07_roundtrip.
Goal True. idtac "END C07_roundtrip". Abort.
Goal True. idtac "BEGIN C07_oracle_sound". Abort.
Print Assumptions C07_oracle_sound.
Goal True. idtac "END C07_oracle_sound". Abort.
Goal True. idtac "BEGIN C07_model_holds". Abort.
Print Assumptions C07_model_holds.
Goal True. idtac "END C07_model_holds". Abort.
