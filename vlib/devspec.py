"""The parts as the assembler is specified to know them: spec/devices.tsv (name, flash words, RAM start, RAM bytes, EEPROM
bytes, feature flags) - my transcription, taken from the device table of the tree as given and cross-checked against the shipped
part-definition files where one exists (C12_parts).  The table the CODE carries is regenerated on every run (tie A) and is what
the Coq model is instantiated with; this file is what the capacities, the RAM start and the feature flags are DEMANDED to be, so a
change of the table's data is seen as what it is: a part whose programs are laid out, limited or gated differently."""
import os

VERIF = os.path.dirname(os.path.dirname(os.path.abspath(__file__)))


def pinned():
    rows = []
    for ln in open(os.path.join(VERIF, "spec", "devices.tsv")):
        if ln.startswith("#") or not ln.strip():
            continue
        f = ln.rstrip("\n").split("\t")
        rows.append((f[0], int(f[1]), int(f[2]), int(f[3]), int(f[4]), [] if f[5] == "-" else f[5].split(",")))
    return rows


def differences(devs):
    """devs = gen.read_devices(vh) -> [(name, field, specified, found, program that shows it, what the program must do)]"""
    spec = {r[0]: r for r in pinned()}
    code = {r[0]: r for r in devs}
    out = []
    for name, s in spec.items():
        head = "" if name == "-" else ".device %s\n" % name
        c = code.get(name)
        if c is None:
            out.append((name, "row", "present", "missing", head + " nop\n", "assemble: the part is known"))
            continue
        if c[1] != s[1]:
            out.append((name, "flash words", s[1], c[1], head + ".org %d\n nop\n" % (s[1] - 1), "assemble: %d words of flash" % s[1]))
        if c[2] != s[2]:
            out.append((name, "RAM start", s[2], c[2], head + ".dseg\nv: .byte 1\n.cseg\n .dw v\n", "the first data label is %d" % s[2]))
        if c[3] != s[3]:
            out.append((name, "RAM bytes", s[3], c[3], head + ".dseg\n.byte %d\n" % max(s[3], c[3]), "assemble iff %d bytes of RAM" % s[3]))
        if c[4] != s[4]:
            out.append((name, "EEPROM bytes", s[4], c[4], head + ".eseg\n.byte %d\n" % max(s[4], c[4], 1), "assemble iff %d bytes of EEPROM" % s[4]))
        if set(c[5]) != set(s[5]):
            out.append((name, "feature flags", sorted(s[5]), sorted(c[5]), head + " nop\n", "gate instructions by the flags %s" % sorted(s[5])))
    for name in code:
        if name not in spec:
            out.append((name, "row", "absent", "present", ".device %s\n nop\n" % name, "be refused: no such part is specified"))
    return out


def check(res, devs, fields=None):
    """every difference (restricted to the given fields) is a failing input of the calling property"""
    n = 0
    for name, field, want, got, prog, must in differences(devs):
        if fields is not None and field not in fields and field != "row":
            continue
        n += 1
        res.failing.append(dict(interface="device::DEVICES", input=dict(source=prog, device=name, field=field),
                                expected="%s of %s = %s (spec/devices.tsv); the program must %s" % (field, name, want, must),
                                observed="the table of the code says %s" % (got,), cls="device-table:" + field.split()[0]))
    res.oblige("device table of the code = spec/devices.tsv (%d parts%s)" % (len(pinned()) - 1, "" if fields is None else ", fields " + ", ".join(fields)),
               n == 0, "%d differences" % n)
    return n
