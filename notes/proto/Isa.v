From Coq Require Import List NArith ZArith Lia Bool Ascii String.
Import ListNotations.
Open Scope N_scope.

(* ---------- generic bit-pattern packer/unpacker (spec side) ---------- *)
Definition pat := list ascii.
Definition mkpat (s:string) : pat :=            (* MSB-first text, blanks ignored; returned LSB first *)
  rev (filter (fun c => negb (Ascii.eqb c " "%char)) (list_ascii_of_string s)).

Definition env := list (ascii * N).
Fixpoint take_bit (c:ascii) (e:env) : N * env :=
  match e with
  | [] => (0, [])
  | (k, v) :: r => if Ascii.eqb k c then (v mod 2, (k, v / 2) :: r)
                   else let '(b, r') := take_bit c r in (b, (k, v) :: r')
  end.
Fixpoint pack (p:pat) (e:env) : N :=             (* p is LSB first *)
  match p with
  | [] => 0
  | c :: r => if Ascii.eqb c "0"%char then 2 * pack r e
              else if Ascii.eqb c "1"%char then 1 + 2 * pack r e
              else let '(b, e') := take_bit c e in b + 2 * pack r e'
  end.

(* unpack: letter -> (value, weight of next bit) *)
Definition uenv := list (ascii * (N * N)).
Fixpoint put_bit (c:ascii) (b:N) (e:uenv) : uenv :=
  match e with
  | [] => [(c, (b, 2))]
  | (k, (v, w)) :: r => if Ascii.eqb k c then (k, (v + b * w, 2 * w)) :: r else (k, (v, w)) :: put_bit c b r
  end.
Fixpoint unpack (p:pat) (w:N) (e:uenv) : option uenv :=
  match p with
  | [] => if w =? 0 then Some e else None
  | c :: r => let b := w mod 2 in
              if Ascii.eqb c "0"%char then (if b =? 0 then unpack r (w / 2) e else None)
              else if Ascii.eqb c "1"%char then (if b =? 1 then unpack r (w / 2) e else None)
              else unpack r (w / 2) (put_bit c b e)
  end.
Definition field (c:ascii) (e:uenv) : N :=
  match find (fun kv => Ascii.eqb (fst kv) c) e with Some (_, (v, _)) => v | None => 0 end.

(* ---------- a slice of the instruction table ---------- *)
Inductive rr_op := ADD | ADC | SUB | SBC | AND | OR | EOR | CPSE | CP | CPC | MOV | MUL.
Inductive imm_op := SUBI | SBCI | ANDI | ORI | CPI | LDI.
Inductive insn :=
| Irr (o:rr_op) (d r:N)
| Iimm (o:imm_op) (d k:N)
| Ildd (st:bool) (y:bool) (r q:N)
| Ibrb (set:bool) (s:N) (k:Z)          (* k in -64..63 *)
| Ijmp (call:bool) (k:N).

Definition rr_pat (o:rr_op) : string :=
  match o with
  | ADD => "0000 11rd dddd rrrr" | ADC => "0001 11rd dddd rrrr" | SUB => "0001 10rd dddd rrrr"
  | SBC => "0000 10rd dddd rrrr" | AND => "0010 00rd dddd rrrr" | OR  => "0010 10rd dddd rrrr"
  | EOR => "0010 01rd dddd rrrr" | CPSE => "0001 00rd dddd rrrr" | CP => "0001 01rd dddd rrrr"
  | CPC => "0000 01rd dddd rrrr" | MOV => "0010 11rd dddd rrrr" | MUL => "1001 11rd dddd rrrr" end.
Definition imm_pat (o:imm_op) : string :=
  match o with
  | SUBI => "0101 KKKK dddd KKKK" | SBCI => "0100 KKKK dddd KKKK" | ANDI => "0111 KKKK dddd KKKK"
  | ORI => "0110 KKKK dddd KKKK" | CPI => "0011 KKKK dddd KKKK" | LDI => "1110 KKKK dddd KKKK" end.

Definition legal (i:insn) : bool :=
  match i with
  | Irr _ d r => (d <? 32) && (r <? 32)
  | Iimm _ d k => (16 <=? d) && (d <? 32) && (k <? 256)
  | Ildd _ _ r q => (r <? 32) && (q <? 64)
  | Ibrb _ s k => (s <? 8) && (-64 <=? k)%Z && (k <=? 63)%Z
  | Ijmp _ k => k <? 4194304
  end.

Time Definition words (i:insn) : list N :=
  match i with
  | Irr o d r => [pack (mkpat (rr_pat o)) [("d"%char, d); ("r"%char, r)]]
  | Iimm o d k => [pack (mkpat (imm_pat o)) [("d"%char, d - 16); ("K"%char, k)]]
  | Ildd st y r q => [pack (mkpat "10q0 qqsd dddd yqqq") [("d"%char, r); ("q"%char, q);
                         ("s"%char, if st then 1 else 0); ("y"%char, if y then 1 else 0)]]
  | Ibrb set s k => [pack (mkpat "1111 0ckk kkkk ksss") [("s"%char, s); ("k"%char, Z.to_N (k mod 128));
                         ("c"%char, if set then 0 else 1)]]
  | Ijmp call k => [pack (mkpat "1001 010k kkkk 11ck") [("k"%char, k / 65536); ("c"%char, if call then 1 else 0)];
                    k mod 65536]
  end.

(* independent decoder for the same slice *)
Definition all_rr := [ADD;ADC;SUB;SBC;AND;OR;EOR;CPSE;CP;CPC;MOV;MUL].
Definition all_imm := [SUBI;SBCI;ANDI;ORI;CPI;LDI].
Definition sext7 (n:N) : Z := if n <? 64 then Z.of_N n else Z.of_N n - 128.

Time Definition decode1 (w:N) : option insn :=
  let try_rr := fix go (l:list rr_op) := match l with [] => None | o :: tl =>
      match unpack (mkpat (rr_pat o)) w [] with Some e => Some (Irr o (field "d" e) (field "r" e)) | None => go tl end end in
  let try_imm := fix go (l:list imm_op) := match l with [] => None | o :: tl =>
      match unpack (mkpat (imm_pat o)) w [] with Some e => Some (Iimm o (16 + field "d" e) (field "K" e)) | None => go tl end end in
  match try_rr all_rr with Some i => Some i | None =>
  match try_imm all_imm with Some i => Some i | None =>
  match unpack (mkpat "10q0 qqsd dddd yqqq") w [] with
  | Some e => Some (Ildd (field "s" e =? 1) (field "y" e =? 1) (field "d" e) (field "q" e))
  | None =>
  match unpack (mkpat "1111 0ckk kkkk ksss") w [] with
  | Some e => Some (Ibrb (field "c" e =? 0) (field "s" e) (sext7 (field "k" e)))
  | None => None end end end end.
Definition decode (ws:list N) : option insn :=
  match ws with
  | [w] => decode1 w
  | [w; lo] => match unpack (mkpat "1001 010k kkkk 11ck") w [] with
               | Some e => Some (Ijmp (field "c" e =? 1) (field "k" e * 65536 + lo)) | None => None end
  | _ => None end.

Eval vm_compute in (words (Irr ADD 17 3), words (Iimm LDI 16 255), words (Ildd false true 1 63), words (Ibrb true 1 (-64)), words (Ijmp false 4194303)).
Eval vm_compute in (decode (words (Ildd true false 31 42)), decode (words (Ibrb false 7 (-1))), decode (words (Ijmp true 70000))).

(* ---------- finite sweeps ---------- *)
Fixpoint nr (n:nat) (a:N) : list N := match n with O => [] | S m => a :: nr m (N.succ a) end.
Definition rr_code (o:rr_op) : N := match o with ADD=>0|ADC=>1|SUB=>2|SBC=>3|AND=>4|OR=>5|EOR=>6|CPSE=>7|CP=>8|CPC=>9|MOV=>10|MUL=>11 end.
Definition imm_code (o:imm_op) : N := match o with SUBI=>0|SBCI=>1|ANDI=>2|ORI=>3|CPI=>4|LDI=>5 end.
Time Definition insn_eqb (a b:insn) : bool :=
  match a, b with
  | Irr o d r, Irr o' d' r' => (rr_code o =? rr_code o') && (d =? d') && (r =? r')
  | Iimm o d k, Iimm o' d' k' => (imm_code o =? imm_code o') && (d =? d') && (k =? k')
  | Ildd s y r q, Ildd s' y' r' q' => Bool.eqb s s' && Bool.eqb y y' && (r =? r') && (q =? q')
  | Ibrb c s k, Ibrb c' s' k' => Bool.eqb c c' && (s =? s') && (k =? k')%Z
  | Ijmp c k, Ijmp c' k' => Bool.eqb c c' && (k =? k')
  | _, _ => false end.
Definition rt (i:insn) : bool := match decode (words i) with Some j => insn_eqb i j | None => false end.

Definition dom_rr := flat_map (fun o => flat_map (fun d => map (fun r => Irr o d r) (nr 32 0)) (nr 32 0)) all_rr.
Definition dom_imm := flat_map (fun o => flat_map (fun d => map (fun k => Iimm o d k) (nr 256 0)) (nr 16 16)) all_imm.
Definition dom_ldd := flat_map (fun st => flat_map (fun y => flat_map (fun r => map (fun q => Ildd st y r q) (nr 64 0)) (nr 32 0)) [true;false]) [true;false].
Definition dom_brb := flat_map (fun c => flat_map (fun s => map (fun k => Ibrb c s (Z.of_N k - 64)) (nr 128 0)) (nr 8 0)) [true;false].
Definition dom_jmp_hi := flat_map (fun c => flat_map (fun hi => map (fun lo => Ijmp c (hi * 65536 + lo)) [0;1;65535;32768]) (nr 64 0)) [true;false].

Time Lemma sweep : forallb rt (dom_rr ++ dom_imm ++ dom_ldd ++ dom_brb ++ dom_jmp_hi)%list = true.
Proof. Time vm_compute. reflexivity. Time Qed.
(* Eval vm_compute in List.length (dom_rr ++ dom_imm ++ dom_ldd ++ dom_brb ++ dom_jmp_hi)%list. *)
