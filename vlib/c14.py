"""C14 - surface syntax that carries no meaning never changes the output.
Search oracle (metamorphic, on the implementation): images and sizes of a program == images and sizes of the same
program respelled: comments of the three kinds, comment-only and blank lines, blanks/tabs at every space() site, CRLF,
letter case of mnemonics / registers / function names / symbol references, radix of numbers."""
import random

from . import exprgen, progcheck as P, progrun

PROP = "C14"
SYMS = {"alpha": 5, "Beta": 300, "gamma_1": 0}


def etree(rng, depth):
    r = rng.random()
    if depth == 0 or r < 0.35:
        if rng.random() < 0.35:
            return ("id", rng.choice(list(SYMS)))
        return ("c", rng.choice([0, 1, 2, 5, 7, 15, 16, 31, 63, 64, 100, 255]), 0)
    if r < 0.75:
        return ("b", rng.choice(["+", "-", "*", "&", "|", "^", "<<", ">>"]), etree(rng, depth - 1), etree(rng, depth - 1))
    if r < 0.85:
        return ("u", rng.choice(["-", "~", "!"]), etree(rng, depth - 1))
    return ("f", rng.choice(["low", "high", "byte2", "lwrd"]), etree(rng, depth - 1))


def render_expr(t, ctx, st):
    """st: style object deciding radix, case, blanks"""
    k = t[0]
    if k == "id":
        body, need = st.sym(t[1]), False
    elif k == "c":
        body, need = st.num(t[1]), False
    elif k == "f":
        body, need = st.case(t[1]) + st.sp() + "(" + st.sp() + render_expr(t[2], 0, st) + st.sp() + ")", False
    elif k == "b":
        lv = exprgen.LEVEL[t[1]]
        body = render_expr(t[2], lv, st) + st.sp() + t[1] + st.sp() + render_expr(t[3], lv + 1, st)
        need = lv < ctx
    else:
        body, need = t[1] + render_expr(t[2], 11, st), 10 < ctx
    if need or st.extra_paren():
        return "(" + st.sp() + body + st.sp() + ")"
    return body


class Plain:
    def sym(self, s): return s
    def num(self, v): return str(v)
    def case(self, s): return s
    def sp(self): return ""
    def extra_paren(self): return False
    def delim(self): return ", "
    def lead(self): return "  "
    def tail(self): return ""
    def mid(self): return " "
    def glue(self): return False
    def between(self): return []
    eol = "\n"


class Fancy(Plain):
    def __init__(self, rng):
        self.r = rng
        self.eol = rng.choice(["\n", "\r\n"])

    def sym(self, s): return self.case(s)

    def num(self, v):
        return exprgen.lit(v, self.r.randrange(6))

    def case(self, s):
        k = self.r.randrange(3)
        return s.upper() if k == 0 else s.lower() if k == 1 else s.capitalize()

    def sp(self): return self.r.choice(["", "", " ", "\t", "  "])
    def extra_paren(self): return False
    def delim(self): return self.sp() + "," + self.sp()
    def lead(self): return self.r.choice(["  ", "\t", " ", "    "])
    def tail(self): return self.r.choice(["", "", " ; note", "\t;", " // c", "  /* c */", ";x", " ;;", " /**/", " /* 2*3 */", " /** doc */", " /* x **/",
                                          " /***/", " /* a / b */", " /* ; // */", " ; /* open", " // */ x", " /* \" */", " ; ends with a backslash \\", " // C:\\dir\\", " ;\\", " ; \\\\ "])
    def mid(self): return self.r.choice([" ", "\t", "  "])
    def glue(self): return self.r.random() < 0.25
    def between(self): return self.r.choice([[], [], [""], ["; full line"], ["  // another"], ["\t"], ["/* block */"], ["", ";"], ["/* 1*2*3 */"], ["/****/"],
                                             ["  /* * */"], ["; .endif .else .if 0"], ["// .macro x"], ["; continued? \\"], ["// \\"]])


REGS = ["r0", "r5", "r16", "r17", "r30"]


def gen_lines(rng, n, depth=2):
    """structured lines: (label or None, kind, mnemonic/directive, operands)"""
    out = []
    labels = []
    for i in range(n):
        lab = None
        if rng.random() < 0.2:
            lab = "lbl%d" % i
            labels.append(lab)
        k = rng.randrange(9)
        if k == 0:
            out.append((lab, "ins", rng.choice(["add", "mov", "eor", "cp"]), [("r", rng.choice(REGS)), ("r", rng.choice(REGS))]))
        elif k == 1:
            out.append((lab, "ins", rng.choice(["ldi", "subi", "ori", "cpi"]), [("r", rng.choice(["r16", "r17", "r30"])), ("e", ("f", "low", etree(rng, 2)))]))
        elif k == 2:
            out.append((lab, "ins", rng.choice(["nop", "ret", "sei", "clc", "wdr"]), []))
        elif k == 3:
            out.append((lab, "ins", rng.choice(["ld", "ldd"]), [("r", rng.choice(REGS)), ("x", rng.choice(["X", "Y+", "-Z", "Z", "Y"]))]))
        elif k == 4:
            out.append((lab, "ins", "ldd", [("r", rng.choice(REGS)), ("xq", rng.choice("YZ"), ("c", rng.randrange(0, 64), 0))]))
        elif k == 5:
            out.append((lab, "dir", rng.choice(["dw", "dd", "dq"]), [("e", etree(rng, 3)) for _ in range(rng.randrange(1, 4))]))
        elif k == 6:
            out.append((lab, "dir", "db", [("e", ("f", "low", etree(rng, 2))) if rng.random() < 0.7 else ("s", rng.choice(["ab", "A;b", "x//y", "/*z*/"])) for _ in range(rng.randrange(1, 4))]))
        elif k == 7 and labels and rng.random() < 0.6:
            out.append((lab, "ins", rng.choice(["rjmp", "rcall", "brne", "breq"]), [("e", ("id", rng.choice(labels)))]))
        elif k == 7:
            # the location counter is a symbol like any other: its spelling may vary too
            if rng.random() < 0.5:
                out.append((lab, "ins", rng.choice(["rjmp", "rcall", "brne", "breq"]), [("e", ("b", rng.choice("+-"), ("id", "pc"), ("c", rng.randrange(0, 20), 0)))]))
            else:
                out.append((lab, "dir", "dw", [("e", ("id", "pc")), ("e", ("b", "+", ("id", "pc"), ("c", 1, 0)))]))
        else:
            out.append((lab, "ins", rng.choice(["inc", "push", "com"]), [("r", rng.choice(REGS))]))
        # conditional blocks: the directive lines of assembled AND of skipped branches are respelled like any other line
        # (blanks, tabs, trailing comments of the three kinds, CRLF, radix and blanks inside the condition)
        if depth > 0 and rng.random() < 0.12:
            truth = rng.random() < 0.5
            cond = ("c", rng.choice([1, 2, 255]) if truth else 0, 0)
            if rng.random() < 0.3:
                cond = ("b", "-", ("c", 9, 0), ("c", 8 if truth else 9, 0))
            out.append((None, "dir", "if", [("e", cond)]))
            out += [(None,) + x[1:] for x in gen_lines(rng, rng.randrange(0, 4), depth - 1) if x[2] not in ("rjmp", "rcall", "brne", "breq")]
            if rng.random() < 0.4:
                out.append((None, "dir", "elif", [("e", ("c", rng.choice([0, 1]), 0))]))
                out += [(None,) + x[1:] for x in gen_lines(rng, rng.randrange(0, 3), depth - 1) if x[2] not in ("rjmp", "rcall", "brne", "breq")]
            if rng.random() < 0.6:
                out.append((None, "dir", "else", []))
                out += [(None,) + x[1:] for x in gen_lines(rng, rng.randrange(0, 4), depth - 1) if x[2] not in ("rjmp", "rcall", "brne", "breq")]
            out.append((None, "dir", "endif", []))
    return out


def render(lines, st):
    out = [".equ alpha = 5", ".equ Beta = 300", ".equ gamma_1 = 0"]
    for lab, kind, name, ops in lines:
        out += st.between()
        parts = []
        for o in ops:
            if o[0] == "r":
                parts.append(st.case(o[1]))
            elif o[0] == "x":
                parts.append(st.case(o[1]))
            elif o[0] == "xq":
                parts.append(st.case(o[1]) + "+" + render_expr(o[2], 0, st))
            elif o[0] == "s":
                parts.append('"%s"' % o[1])
            else:
                parts.append(render_expr(o[1], 0, st))
        body = ("." + name if kind == "dir" else st.case(name))
        if parts:
            glue = kind == "dir" and st.glue() and parts[0][:1] in "0123456789$(\"'-~!"
            body += ("" if glue else st.mid()) + st.delim().join(parts)
        line = (lab + ":" + st.mid() if lab else st.lead()) + body + st.tail()
        out.append(line)
    out += st.between()
    return st.eol.join(out) + st.eol


COND_WORDS = ("if", "ifdef", "ifndef", "elif", "else", "endif", "define")
LINE_TAILS = [";x", " ; note", "\t;", "//c", " // c", "/*c*/", " /* c */", " ;; .endif", " // .else", " /* .endif */", " ", "\t"]


def respell_lines(rng, text):
    """line-local rewrites of ANY program text that the property says cannot matter: a trailing comment of one of the three
    kinds (glued or spaced) on lines that hold no quote or comment yet, extra blanks in front of lines that start with a blank,
    '#' for '.' on the conditional directives (and back), upper case for a leading mnemonic, CRLF line ends.  Lines are kept
    one-to-one, so error positions and message texts must not change either."""
    from . import encgen
    out = []
    for ln in text.split("\n"):
        bare = ln.rstrip("\r")
        if not bare.strip() or any(ch in bare for ch in "\"';/\\"):
            out.append(bare)
            continue
        body = bare
        st = body.lstrip(" \t")
        lead = body[:len(body) - len(st)]
        word = st.split(None, 1)[0] if st else ""
        if rng.random() < 0.3 and word[:1] in ".#" and word[1:].split("(")[0] in COND_WORDS:
            st = ("#" if word[0] == "." else ".") + st[1:]
        elif rng.random() < 0.3 and lead and word.lower() in encgen.ALL:
            st = (word.upper() if rng.random() < 0.5 else word.capitalize()) + st[len(word):]
        if lead and rng.random() < 0.3:
            lead = rng.choice([" ", "\t", "   "]) + lead
        body = lead + st
        if rng.random() < 0.5:
            body += rng.choice(LINE_TAILS)
        out.append(body)
    return ("\r\n" if rng.random() < 0.2 else "\n").join(out)


def corpora(rng, n):
    """program texts of the other properties' generators (conditional trees, symbol programs, data programs, general programs
    with macros / conditionals / devices / faults): the spelling rules hold for all of them"""
    from . import proggen, c08, c10, c06
    out = []
    for _ in range(n):
        k = rng.randrange(5)
        if k == 0:
            t = c08.Tree(rng)
            out.append(c08.texts_of(t.block(rng.choice([0, 1, 2]), [rng.random() < 0.4 for _ in range(rng.randrange(1, 4))], rng.random() < 0.5, True))[0])
        elif k == 1:
            out.append("\n".join(c10.gen_case(rng)[0]) + "\n")
        elif k == 2:
            out.append("\n".join(c06.gen_case(rng)[0]) + "\n")
        else:
            out.append("\n".join(proggen.program(rng, size=rng.choice([5, 12, 25]), faults=(k == 4))) + "\n")
    return out


def run(res):
    vh, exe = P.base(res, PROP)
    rng = random.Random(res.seed)
    pairs = []
    for _ in range(500 if res.tier == "quick" else 200000):
        ls = gen_lines(rng, rng.choice([2, 5, 9, 15]))
        orig = render(ls, Plain())
        for _ in range(3):
            pairs.append((orig, render(ls, Fancy(rng))))
    cpairs = []
    for t in corpora(rng, 400 if res.tier == "quick" else 100000):
        for _ in range(2):
            cpairs.append((t, respell_lines(rng, t)))
    obs = P.correspond(res, vh, exe, [p[0] for p in pairs + cpairs] + [p[1] for p in pairs + cpairs], "programs and their respellings")
    for orig, resp in cpairs:
        if obs[orig][0] != obs[resp][0]:
            P.fail(res, "builder::build_str", resp, "the observation of the original spelling (same result, same error line, same messages): " + obs[orig][0][:120],
                   obs[resp][0][:120], "respelling-lines", extra=dict(original=orig))
    nok = 0
    for orig, resp in pairs:
        a, b = progrun.parse_obs(obs[orig][0]), progrun.parse_obs(obs[resp][0])
        if a["kind"] == "OK":
            nok += 1
        ka = (a["kind"], a.get("code"), a.get("eeprom"), a.get("flash"), a.get("eesize"), a.get("ram"), a.get("fill"))
        kb = (b["kind"], b.get("code"), b.get("eeprom"), b.get("flash"), b.get("eesize"), b.get("ram"), b.get("fill"))
        if a["kind"] == "OK" and ka != kb:
            P.fail(res, "builder::build_str", resp, "the images and sizes of the plain spelling: " + obs[orig][0][:120], obs[resp][0][:120], "respelling",
                   extra=dict(original=orig))
    res.extra["distribution"].update(pairs=len(pairs), originals_that_build=nok)
    res.extra["exhaustive"] = False
    res.rule = ("structured programs (register, immediate, index, relative and data statements over expression trees) rendered once "
                "plainly and three times with independent random choices at every token: trailing ';' '//' '/* */' comments, "
                "comment-only / blank lines between statements, blanks and tabs around operands, commas, operators and parentheses, "
                "CRLF, letter case of mnemonics / registers / index registers / function names / symbol references, radix of every "
                "number; conditional blocks (nested, with .elif/.else) whose directive lines - in assembled and in skipped branches - are "
                "respelled the same way; oracle: equal images and sizes.  Plus the program corpora of the C06 / C08 / C10 generators and "
                "of the general program generator (macros, conditionals, devices, single faults), rewritten line by line (trailing comments, "
                "leading blanks, '#' for '.', mnemonic case, CRLF); oracle: identical observation (result, error line, messages)")
    res.samples = [dict(original=pairs[0][0], respelled=pairs[0][1], observation=obs[pairs[0][1]][0][:80])]
    res.assume = ["directive-name case, 0X/0B prefixes and label indentation are not among the listed rewrites"]


match_known = P.match_known


def replay(path):
    def judge(vh, exe, i):
        rows = progrun.run_texts(vh, exe, [i["source"], i["original"]])
        a, b = rows[0][1].split(" ")[:3], rows[1][1].split(" ")[:3]
        return None if a == b else (str(b), str(a))
    return P.replay_text(PROP, path, judge)
