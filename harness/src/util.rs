//! Small helpers shared by the harness commands.
use std::io::Read;

/// xorshift64* - every random choice of the harness derives from one seed
pub struct Rng(pub u64);
impl Rng {
    pub fn new(seed: u64) -> Self {
        Rng(seed.wrapping_mul(0x9E3779B97F4A7C15) ^ 0xD1B54A32D192ED03 | 1)
    }
    pub fn next(&mut self) -> u64 {
        let mut x = self.0;
        x ^= x >> 12;
        x ^= x << 25;
        x ^= x >> 27;
        self.0 = x;
        x.wrapping_mul(0x2545F4914F6CDD1D)
    }
    pub fn below(&mut self, n: u64) -> u64 {
        self.next() % n
    }
}

pub fn read_stdin() -> String {
    let mut s = String::new();
    std::io::stdin().read_to_string(&mut s).unwrap();
    s
}

/// JSON string literal
pub fn jstr(s: &str) -> String {
    let mut o = String::with_capacity(s.len() + 2);
    o.push('"');
    for c in s.chars() {
        match c {
            '"' => o.push_str("\\\""),
            '\\' => o.push_str("\\\\"),
            '\n' => o.push_str("\\n"),
            '\r' => o.push_str("\\r"),
            '\t' => o.push_str("\\t"),
            c if (c as u32) < 0x20 => o.push_str(&format!("\\u{:04x}", c as u32)),
            c => o.push(c),
        }
    }
    o.push('"');
    o
}

pub fn hex(bytes: &[u8]) -> String {
    let mut o = String::with_capacity(bytes.len() * 2);
    for b in bytes {
        o.push_str(&format!("{:02x}", b));
    }
    o
}

pub fn unhex(s: &str) -> Vec<u8> {
    let b = s.as_bytes();
    (0..b.len() / 2)
        .map(|i| u8::from_str_radix(std::str::from_utf8(&b[2 * i..2 * i + 2]).unwrap(), 16).unwrap())
        .collect()
}

/// first "line: N" in an error text (the canonical observation of an error's location)
pub fn first_line_number(msg: &str) -> Option<u64> {
    let key = "line: ";
    let pos = msg.find(key)?;
    let rest = &msg[pos + key.len()..];
    let digits: String = rest.chars().take_while(|c| c.is_ascii_digit()).collect();
    digits.parse().ok()
}
