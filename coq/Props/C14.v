(** C14 - surface syntax that carries no meaning never changes the output.
    PARTIAL: the proved parts are below; spacing around operands, commas and operators, trailing
    comments after a statement and the radix of numbers rest on the metamorphic search and the
    correspondence of ./check C14 (DESIGN.md section 3, C14).  Proofs: Proofs/SurfaceProofs.v. *)
From Coq Require Import List ZArith NArith String Ascii.
Import ListNotations.
Require Import AvraV.Model.Base AvraV.Model.Ast AvraV.Model.Eval AvraV.Model.Encode AvraV.Model.Grammar.
Require Import AvraV.Model.Lines AvraV.Model.Parse AvraV.Model.Passes AvraV.Proofs.SurfaceProofs AvraV.Proofs.SymProofs.

(** letter case of mnemonics, function names, index registers, the r of a register *)
Theorem C14_mnemonic_case : forall n n', lower n = lower n' -> operation_of_name n = operation_of_name n'.
Proof. exact mnemonic_case. Qed.
Theorem C14_function_case : forall name name' v, lower name = lower name' -> eval_func name v = eval_func name' v.
Proof. exact function_case. Qed.
Theorem C14_register_case : forall d r c,
  reg8 ("r"%char :: d) = reg8 ("R"%char :: d) /\ reg16 (c :: r) = reg16 (lower_ascii c :: r).
Proof. intros. split; [apply (reg8_case d r) | apply reg16_case]. Qed.
(** symbol references: see C10_case *)
Print Assumptions C14_register_case.

(** comment-only lines (blanks, then ';' or '//' and ANY text) and blank lines parse to the empty
    line, and the line loop passes over an empty line without touching the assembly state - in
    every mode it can be in when it reads a line (also inside conditionals; while a macro body is
    recorded or a branch is skipped, lines are not interpreted at all) *)
Theorem C14_comment_lines : forall b t, Forall blank b ->
  parse_line (b ++ ";"%char :: t) = Some EmptyLine /\ parse_line (b ++ "/"%char :: "/"%char :: t) = Some EmptyLine.
Proof. exact comment_line_empty. Qed.
Theorem C14_blank_lines : forall b, Forall blank b -> parse_line b = Some EmptyLine.
Proof. exact blank_line_empty. Qed.
Theorem C14_empty_line_noop : forall fuel inc g n l r skipped st,
  parse_line l = Some EmptyLine -> parse_iter fuel inc (S g) ((n, l) :: r) skipped st = parse_iter fuel inc g r false st.
Proof. exact empty_line_noop. Qed.
Print Assumptions C14_comment_lines.

(** LF versus CR LF: a text without stray carriage returns splits into the same lines either way *)
Theorem C14_crlf : forall s, no_cr s -> split_lines (crlf s) = split_lines s.
Proof. exact crlf_same_lines. Qed.
Print Assumptions C14_crlf.

Definition code_of (src : string) : option (list N) :=
  match build_str 200 (list_ascii_of_string src) with Ok b => Some (b_code b) | _ => None end.
Definition nl := String (Ascii.ascii_of_N 10) EmptyString.
Definition crnl := String (Ascii.ascii_of_N 13) nl.
Example C14_examples :
  code_of ("ldi r16, low(0x1F)" ++ nl) = code_of (" LDI  R16 ,LOW ( $1f ) ; c" ++ crnl ++ "// x" ++ crnl) /\
  code_of ("ldi r16, 31" ++ nl) = code_of ("ldi r16, 0b11111 /* c */" ++ nl ++ nl) /\
  code_of ("ldi r16, 31" ++ nl) = code_of ("ldi r16, 037" ++ nl) /\
  code_of ("ldi r16, 31" ++ nl) = Some [15; 225]%N.
Proof. vm_compute. repeat split; reflexivity. Qed.
