(* Extraction of the executable model and of the specification oracles for volume runs.
   ExtrOcamlBasic only: bool, option, list, prod, unit, sumbool map to the OCaml types;
   N/Z/positive/nat/ascii/string stay the extracted inductives.  No Extract Constant of ours. *)
Require Import AvraV.Model.Base AvraV.Model.Ast AvraV.Model.Device AvraV.Model.Eval AvraV.Model.Encode.
Require Import AvraV.Model.Grammar AvraV.Model.Show AvraV.Spec.ExprSpec AvraV.Model.Lines AvraV.Model.Fs AvraV.Model.Parse AvraV.Model.Passes AvraV.Model.Files.
Require Import AvraV.Model.Hex AvraV.Spec.HexReader AvraV.Spec.Isa AvraV.Gen.OpTable AvraV.Gen.Devices.
Require Extraction.
Require Import ExtrOcamlBasic.
Extraction Language OCaml.
Extraction "avmodel.ml" Hex.write HexReader.holds_C07 HexReader.read_file
  Ast.lit Eval.ctx_new Eval.run Encode.process Encode.operation_of_name Isa.expect Isa.expect_at Isa.decode
  Devices.default_device Devices.devices
  Lines.parse_line Passes.build_str Files.build_file Fs.components
  Grammar.parse_expr Show.show_expr Show.show_Z ExprSpec.spec_eval.
