(** src/document.rs, line level: labels, operations, registers, index forms, operand lists,
    directives and their operands (including the 'pragma hack'), strings, the three comment
    forms, and the five alternatives of [line] - ordered choice and commitment as in the PEG.
    Every parser here is 'unanchored': it returns the value and the rest of the input; only
    [parse_line] (document::line) demands that the whole input is consumed. *)
Require Import AvraV.Model.Base AvraV.Model.Ast AvraV.Model.Climb AvraV.Model.Grammar AvraV.Model.Encode.
Require Import AvraV.Gen.OpTable AvraV.Gen.DirNames.
Open Scope N_scope.

Definition P (A : Type) := str -> option (A * str).

Definition skip_space (s : str) : str := Climb.skip_sp is_sp s.                       (* space() *)
Definition ne_space (s : str) : option str :=                                         (* ne_space() *)
  match s with c :: r => if is_sp c then Some (skip_space r) else None | [] => None end.
Fixpoint new_line (s : str) : str :=                                                 (* ['\n' | '\r']* *)
  match s with c :: r => if (code c =? 10) || (code c =? 13) then new_line r else s | [] => [] end.

Definition lit_tok (t : string) (s : str) : option str := strip (lit t) s.

(** label: ident ':' - lower-cased *)
Definition label (s : str) : option (str * str) :=
  match id_parse s with
  | Some (n, c :: r) => if code c =? 58 then Some (lower n, r) else None
  | _ => None
  end.

(** string: ''' (anything but ''', LF, CR)* ''' *)
Fixpoint string_body (s : str) : option (str * str) :=
  match s with
  | [] => None
  | c :: r =>
      if code c =? 34 then Some ([], r)
      else if (code c =? 10) || (code c =? 13) then None
      else match string_body r with Some (a, b) => Some (c :: a, b) | None => None end
  end.
Definition string_lit (s : str) : option (str * str) :=
  match s with c :: r => if code c =? 34 then string_body r else None | [] => None end.

(** comments.  ';' and '//' swallow everything that follows (the rule is [_]* ); '/* ... */' must
    not contain a line end and is followed by line ends only *)
Fixpoint c_comment_body (s : str) : option str :=
  match s with
  | [] => None
  | c :: r =>
      match lit_tok "*/" s with
      | Some r' => Some r'
      | None => if (code c =? 10) || (code c =? 13) then None else c_comment_body r
      end
  end.
Definition comment (s : str) : option str :=
  match s with
  | c :: r =>
      if code c =? 59 then Some []
      else match lit_tok "/*" s with
           | Some r1 => match c_comment_body r1 with Some r2 => Some (new_line r2) | None => None end
           | None => match lit_tok "//" s with Some _ => Some [] | None => None end
           end
  | [] => None
  end.
Definition opt_comment (s : str) : str := match comment s with Some r => r | None => s end.

(** operation: $(ident()) lower-cased and matched in full against the mnemonic table *)
Definition operation (s : str) : option (operation * str) :=
  match id_parse s with Some (n, r) => Some (operation_of_name n, r) | None => None end.

(** reg8: [rR][0-9]{1,2}, greedy, then Reg8::from_str - the rule fails when that is no register *)
Definition reg8 (s : str) : option (N * str) :=
  match s with
  | c :: d1 :: r =>
      if ((code c =? 114) || (code c =? 82)) && is_digit d1 then
        let '(ds, rest) := match r with
                           | d2 :: r2 => if is_digit d2 then ([d1; d2], r2) else ([d1], r)
                           | [] => ([d1], r)
                           end in
        let v := digits_val 10 ds 0 in
        (* the names are r0 .. r31 without leading zeros *)
        if (v <? 32) && negb ((length ds =? 2)%nat && (code d1 =? 48)) then Some (v, rest) else None
      else None
  | _ => None
  end.
Definition reg16 (s : str) : option (reg16 * str) :=
  match s with
  | c :: r =>
      let n := code (lower_ascii c) in
      if n =? 120 then Some (RX, r) else if n =? 121 then Some (RY, r) else if n =? 122 then Some (RZ, r) else None
  | [] => None
  end.

(** index_ops: '-' reg16 !char_ident / reg16 '+' expr / reg16 '+' / reg16 !char_ident
    (a name that merely begins with x, y or z behind a minus sign is an expression: -yval) *)
Definition index_ops (s : str) : option (index * str) :=
  or_opt (match lit_tok "-" s with
          | Some r => match reg16 r with
                      | Some (x, r') => match r' with
                                        | c :: _ => if is_idch c then None else Some (IPreDec x, r')
                                        | [] => Some (IPreDec x, r')
                                        end
                      | None => None end
          | None => None end)
  (match reg16 s with
   | Some (x, r) =>
       match lit_tok "+" r with
       | Some r1 => match expr_rule r1 with
                    | Some (e, r2) => Some (IPostIncE x e, r2)
                    | None => Some (IPostInc x, r1)
                    end
       | None => match r with
                 | c :: _ => if is_idch c then None else Some (INone x, r)
                 | [] => Some (INone x, r)
                 end
       end
   | None => None
   end).

Definition instruction_op (s : str) : option (iop * str) :=
  match index_ops s with
  | Some (i, r) => Some (OIndex i, r)
  | None => match reg8 s with
            | Some (n, r) => Some (OR8 n, r)
            | None => match expr_rule s with Some (e, r) => Some (OE e, r) | None => None end
            end
  end.

(** delimiter: space ',' space *)
Definition delimiter (s : str) : option str :=
  match lit_tok "," (skip_space s) with Some r => Some (skip_space r) | None => None end.

(** e ** delimiter: zero or more; a delimiter that is not followed by an element is given back *)
Section SepBy.
  Context {A : Type} (elem : P A).
  Fixpoint sep_more (fuel : nat) (s : str) : list A * str :=
    match fuel with
    | O => ([], s)
    | S f => match delimiter s with
             | Some r => match elem r with
                         | Some (x, r') => let '(l, r'') := sep_more f r' in (x :: l, r'')
                         | None => ([], s)
                         end
             | None => ([], s)
             end
    end.
  Definition sep_by (s : str) : list A * str :=
    match elem s with
    | Some (x, r) => let '(l, r') := sep_more (length s) r in (x :: l, r')
    | None => ([], s)
    end.
End SepBy.
Definition op_list (s : str) : list iop * str := sep_by instruction_op s.

(** directive: ('.' / '#') [a-z]+ looked up in the table regenerated from the code *)
Definition is_lower (c : ascii) : bool := between 97 122 c.
Fixpoint find_dir (n : str) (t : list (str * directive)) : option directive :=
  match t with [] => None | (k, d) :: r => if str_eqb n k then Some d else find_dir n r end.
Definition directive_name (s : str) : option (directive * str) :=
  match s with
  | c :: r =>
      if (code c =? 46) || (code c =? 35) then
        match take_while is_lower r with
        | ([], _) => None
        | (n, r') => Some (match find_dir n dirnames with Some d => d | None => DCustom n end, r')
        end
      else None
  | [] => None
  end.

(** directive_op: expr / string *)
Definition directive_op (s : str) : option (operand * str) :=
  match expr_rule s with
  | Some (e, r) => Some (PE e, r)
  | None => match string_lit s with Some (t, r) => Some (PS t, r) | None => None end
  end.

(** n directive operands separated by blanks only (the 'pragma hack') *)
Fixpoint blank_sep (n : nat) (s : str) : option (list operand * str) :=
  match n with
  | O => None
  | S O => match directive_op s with Some (x, r) => Some ([x], r) | None => None end
  | S m => match directive_op s with
           | Some (x, r) => match ne_space r with
                            | Some r1 => match blank_sep m r1 with Some (l, r2) => Some (x :: l, r2) | None => None end
                            | None => None
                            end
           | None => None
           end
  end.

Definition directive_ops (s : str) : dops * str :=
  let assign :=
    match id_parse s with
    | Some (a, r) => match lit_tok "=" (skip_space r) with
                     | Some r1 => match expr_rule (skip_space r1) with
                                  | Some (e, r2) => Some (Assign (EIdent a) e, r2)
                                  | None => None end
                     | None => None end
    | None => None
    end in
  let hack n := match blank_sep n s with Some (l, r) => Some (OpList l, r) | None => None end in
  match or_opt assign (or_opt (hack 6%nat) (or_opt (hack 5%nat) (or_opt (hack 4%nat) (or_opt (hack 3%nat) (hack 2%nat))))) with
  | Some x => x
  | None => let '(l, r) := sep_by directive_op s in (OpList l, r)
  end.

Definition opt_label (s : str) : option str * str :=
  match label s with Some (l, r) => (Some l, r) | None => (None, s) end.

Definition directive_line (s : str) : option (doc * str) :=
  let '(l, r0) := opt_label s in
  match directive_name (skip_space r0) with
  | Some (d, r1) =>
      let '(ops, r2) := directive_ops (skip_space r1) in
      Some (DirLine l d ops, opt_comment (skip_space r2))
  | None => None
  end.
Definition instruction_line (s : str) : option (doc * str) :=
  let '(l, r0) := opt_label s in
  match operation (skip_space r0) with
  | Some (o, r1) =>
      let '(ops, r2) := op_list (skip_space r1) in
      Some (CodeLine l o ops, opt_comment (skip_space r2))
  | None => None
  end.

(** line: the first alternative that matches locally is taken; document::line then requires that
    nothing is left over *)
Definition line_rule (s : str) : option (doc * str) :=
  match directive_line s with
  | Some x => Some x
  | None =>
    match instruction_line s with
    | Some x => Some x
    | None =>
      match label s with
      | Some (l, r) => Some (LabelLine l, opt_comment (skip_space r))
      | None =>
        match comment (skip_space s) with
        | Some r => Some (EmptyLine, r)
        | None => Some (EmptyLine, new_line (skip_space s))
        end
      end
    end
  end.
Definition parse_line (s : str) : option doc :=
  match line_rule s with Some (d, []) => Some d | _ => None end.
