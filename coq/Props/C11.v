(** C11 - including a file is the same as pasting it, and files are found where documented.
    Property theorems only; proofs are in Proofs/FileProofs.v (and Proofs/CondProofs.v).
    The objects: Model/Fs.v (paths as std::path sees them; a file system of directories and regular
    files without symbolic links) and Model/Files.v ([file_at] = parser::parse_file_internal,
    [build_file] = builder::build_file). *)
From Coq Require Import List ZArith NArith String.
Import ListNotations.
Require Import AvraV.Model.Base AvraV.Model.Ast AvraV.Model.Eval AvraV.Model.Lines AvraV.Model.Fs AvraV.Model.Parse AvraV.Model.Passes AvraV.Model.Files.
Require Import AvraV.Proofs.CondProofs AvraV.Proofs.FileProofs AvraV.Gen.Devices.

(** (1) FOUND WHERE DOCUMENTED.  [locate] is where a name is looked for. *)
(** the path as written (relative to the working directory) comes first *)
Theorem C11_as_written : forall fs ips t, exists_path fs t = true -> locate fs ips t = t.
Proof. exact locate_as_written. Qed.
(** otherwise a directory of the include set that has it *)
Theorem C11_in_set : forall fs ips t q, exists_path fs t = false -> In q ips -> exists_path fs (join q t) = true ->
  exists q', In q' ips /\ locate fs ips t = join q' t /\ exists_path fs (join q' t) = true.
Proof. exact locate_in_set. Qed.
(** the set a file's lines are parsed with contains the file's own directory and all that the including file searched *)
Theorem C11_own_directory : forall st p d, parent p = Some d -> In d (ipaths (fl (file_start st p))).
Proof. exact own_directory_searched. Qed.
Theorem C11_inherited : forall st p q, In q (ipaths (fl st)) -> In q (ipaths (fl (file_start st p))).
Proof. exact inherited_searched. Qed.
(** directories supplied by the caller are in the set from the start *)
Theorem C11_caller : forall paths p, In p paths -> In (components p) (set_of (map components paths)).
Proof. exact caller_directories_searched. Qed.
(** .includepath adds its directory - a relative one resolved against the directory of the file
    containing the directive - and removes nothing *)
Theorem C11_includepath : forall fuel inc ln lab ops t st,
  parse_line (snd ln) = Some (DirLine lab DIncludePath ops) -> first_op ops = Some (Some (PS t)) ->
  exists st', line_step fuel inc ln false st = Ok (st', NewLine) /\
    In (if is_abs (components t) then components t
        else join (match parent (cur_path (fl st)) with Some d => d | None => [] end) (components t)) (ipaths (fl st')) /\
    (forall q, In q (ipaths (fl st)) -> In q (ipaths (fl st'))) /\ cur_path (fl st') = cur_path (fl st).
Proof. exact includepath_adds. Qed.
(** an included file is parsed from [file_start]; when it ends, the including file goes on with its own
    current path and with every directory it searched before (plus what .includepath added inside) *)
Theorem C11_file : forall fs fuel l t st src,
  read_path fs (locate fs (ipaths (fl st)) (components t)) = Some src ->
  exists back,
  file_at fs fuel (S l) t st =
    (do st' <- parse_iter fuel (file_at fs fuel l) (S (length (number_from 0 (split_lines src)))) (number_from 0 (split_lines src)) false
                 (file_start st (locate fs (ipaths (fl st)) (components t)));
     Ok (with_fl st' {| cur_path := cur_path (fl st); ipaths := back st' |})) /\
  forall st' q, In q (ipaths (fl st)) -> In q (back st').
Proof. exact file_at_unfold. Qed.
(** a file found nowhere fails the build *)
Theorem C11_not_found : forall fs fuel l t st,
  exists_path fs (components t) = false ->
  (forall q, In q (ipaths (fl st)) -> exists_path fs (join q (components t)) = false) ->
  file_at fs fuel (S l) t st = Err None.
Proof. exact not_found_fails. Qed.
Print Assumptions C11_not_found.

(** (2) INCLUDING = PASTING.  Let an .include line (with or without a label) name a file that is
    found, whose text is a well-formed block tree [ns] (plain lines, conditional blocks, macro
    definitions - nested to any depth) none of whose lines is itself .include / .includepath,
    optionally followed by an .exit line and arbitrary text ([inert tail]).  Then for every state,
    every continuation [post] of the including file and every outcome [res] the tree semantics
    allows: the line loop on  <include line> :: post  and the line loop on  <lines of the file> ++
    post  (after the include line's own label) both end in [res] - same segments, macros, messages,
    symbols, device, errors.  Definitions made in the file are visible afterwards (the state flows
    on), the text after .exit is never looked at, and .exit ends only the included file ([post]
    still runs).  Nested includes follow by applying the theorem from the innermost file outwards. *)
Theorem C11_include_is_paste : forall fs fuel l ln lab ops t src ns tail st o,
  let inc := file_at fs fuel (S l) in
  let st1 := label_item st lab (fst ln + 1) in
  parse_line (snd ln) = Some (DirLine lab DInclude ops) -> first_op ops = Some (Some (PS t)) ->
  read_path fs (locate fs (ipaths (fl st1)) (components t)) = Some src ->
  number_from 0 (split_lines src) = (fl_nodes ns ++ tail)%list -> inert fuel tail ->
  wf_nodes ns -> nf_nodes ns -> sorted (ipaths (fl st1)) ->
  ex_nodes fuel inc ns st1 = Some o ->
  forall post res, Cont fuel inc o post res ->
    Run fuel inc (ln :: post) false st res /\ Run fuel inc (fl_nodes ns ++ post) false st1 res.
Proof. exact include_is_paste. Qed.
Print Assumptions C11_include_is_paste.
(** [Run] is what the model's loop computes (fuel permitting) *)
Theorem C11_run_is_loop : forall fuel inc ls sk st res,
  Run fuel inc ls sk st res -> forall g, (length ls < g)%nat -> parse_iter fuel inc g ls sk st = res.
Proof. exact run_complete. Qed.
(** the tails allowed after the balanced text *)
Theorem C11_tail_nothing : forall fuel, inert fuel [].
Proof. exact inert_nil. Qed.
Theorem C11_tail_exit : forall fuel e junk ops, parse_line (snd e) = Some (DirLine None DExit ops) -> inert fuel (e :: junk).
Proof. exact inert_exit. Qed.
(** the hypothesis [sorted] is an invariant: the caller's set is sorted and every step keeps it so *)
Theorem C11_sorted_start : forall l, sorted (set_of l).
Proof. exact set_of_sorted. Qed.
Theorem C11_sorted_kept : forall fs fuel l, keeps_sorted (file_at fs fuel l).
Proof. exact file_at_sorted. Qed.
Theorem C11_sorted_loop : forall fuel inc, keeps_sorted inc -> forall g ls sk st st',
  parse_iter fuel inc g ls sk st = Ok st' -> fl_sorted st -> fl_sorted st'.
Proof. exact parse_iter_sorted. Qed.
Print Assumptions C11_sorted_kept.

(** (3) nesting is bounded (MAX_INCLUDE_DEPTH = 64): a file that includes itself ends in an error *)
Theorem C11_depth : forall fs fuel t st, file_at fs fuel 0 t st = Err None.
Proof. exact depth_bounded. Qed.

(** Non-vacuity: paths, and a tree on which an include from a sub-directory, an .includepath made
    inside the included file, and an .exit all take effect. *)
Example C11_components :
  components (lit "./a//b/./c") = [CCur; CNorm (lit "a"); CNorm (lit "b"); CNorm (lit "c")] /\
  components (lit "//x/../y/") = [CRoot; CNorm (lit "x"); CParent; CNorm (lit "y")] /\
  parent (components (lit "main.asm")) = Some [] /\ parent (components (lit "/")) = None.
Proof. vm_compute. repeat split; reflexivity. Qed.
Definition nl := String (Ascii.ascii_of_N 10) EmptyString.
Local Open Scope string_scope.
Definition sample_fs : fsys :=
  {| fs_cwd := [lit "p"];
     fs_dirs := [[lit "p"]; [lit "p"; lit "sub"]; [lit "p"; lit "sub"; lit "deep"]];
     fs_files := [([lit "p"; lit "main.asm"], lit (".include ""sub/f.inc""" ++ nl ++ ".include ""x.inc""" ++ nl ++ " ldi r16, k" ++ nl));
                  ([lit "p"; lit "sub"; lit "f.inc"], lit (".includepath ""deep""" ++ nl ++ ".equ k = 5" ++ nl ++ ".exit" ++ nl ++ "never seen" ++ nl));
                  ([lit "p"; lit "sub"; lit "deep"; lit "x.inc"], lit (" nop" ++ nl))] |}.
Example C11_example :
  match build_file sample_fs 100 (lit "main.asm") [] with Ok b => Some (b_code b) | _ => None end = Some [0; 0; 5; 224]%N.
Proof. vm_compute. reflexivity. Qed.

(** the hypotheses of (2) are satisfiable: a header with a definition and a macro, ended by .exit *)
Definition L (n : N) (s : string) : N * str := (n, list_ascii_of_string s).
Definition header : nodes :=
  Ncons (NLine (L 0 ".equ k = 5")) (Ncons (NMacro (L 1 ".macro m") (Ncons (NLine (L 2 " subi r16, @0")) Nnil) (L 3 ".endm")) Nnil).
Example C11_hypotheses_met :
  wf_nodes header /\ nf_nodes header /\
  (exists s, ex_nodes 50 (file_at sample_fs 50 3) header (pstate_new (Eval.ctx_new default_device)) = Some (Ok s) /\
             length (macros s) = 1%nat) /\
  number_from 0 (split_lines (lit (".equ k = 5" ++ nl ++ ".macro m" ++ nl ++ " subi r16, @0" ++ nl ++ ".endm" ++ nl ++ ".exit" ++ nl ++ "junk" ++ nl)))
    = (fl_nodes header ++ [L 4 ".exit"; L 5 "junk"])%list.
Proof. vm_compute. repeat split; try reflexivity; try exact I. eexists. split; reflexivity. Qed.
