(** C09: the textual substitution of macro arguments is the simultaneous replacement of every @n by
    the text of the n-th argument; macro names are matched without regard to letter case; calling an
    undefined macro is an error. *)
From Coq Require Import List Arith Lia Bool Ascii NArith ZifyBool ZifyN ZifyNat.
Import ListNotations.
Require Import AvraV.Model.Base AvraV.Model.Ast AvraV.Model.Climb AvraV.Model.Show AvraV.Model.Display AvraV.Model.Eval AvraV.Model.Encode.
Require Import AvraV.Model.Fs AvraV.Model.Parse AvraV.Model.Passes.
Local Open Scope nat_scope.

Definition at_sign : ascii := "@"%char.
Definition no_at (s : str) : bool := forallb (fun c => negb (Ascii.eqb c at_sign)) s.
Definition dig (i : nat) : ascii := ascii_of_N (48 + N.of_nat i).

(** a body line as pieces: literal text without '@', and parameter references @0 .. @9 *)
Inductive tok := TLit (s : str) | TArg (i : nat).
Definition tok_ok (t : tok) : bool := match t with TLit s => no_at s | TArg i => i <? 10 end.
Definition flat1 (t : tok) : str := match t with TLit s => s | TArg i => [at_sign; dig i] end.
Definition flat (l : list tok) : str := concat (map flat1 l).

Lemma dig_inj i j : i < 10 -> j < 10 -> dig i = dig j -> i = j.
Proof.
  intros Hi Hj H. unfold dig in H. apply (f_equal N_of_ascii) in H. rewrite !N_ascii_embedding in H by lia. lia.
Qed.
Lemma dig_not_at i : i < 10 -> Ascii.eqb (dig i) at_sign = false.
Proof.
  intros Hi. destruct (Ascii.eqb_spec (dig i) at_sign) as [E|]; [|reflexivity]. unfold dig in E.
  apply (f_equal N_of_ascii) in E. rewrite N_ascii_embedding in E by lia. change (N_of_ascii at_sign) with 64%N in E. lia.
Qed.
Lemma show_N_dig i : i < 10 -> show_N (N.of_nat i) = [dig i].
Proof. intros H. do 10 (destruct i as [|i]; [reflexivity|]). lia. Qed.

(** replacing @k in literal text changes nothing; at a parameter reference it replaces exactly @k *)
Lemma rep_lit k rep s : no_at s = true -> forall f rest, length s + f >= length s ->
  replace_all (length s + f) [at_sign; dig k] rep (s ++ rest) = (s ++ replace_all f [at_sign; dig k] rep rest)%list.
Proof.
  induction s as [|c s IH]; intros Hs f rest _; [reflexivity|].
  cbn [no_at forallb] in Hs. apply andb_prop in Hs. destruct Hs as (Hc & Hs). apply negb_true_iff in Hc.
  cbn [length plus app replace_all strip]. rewrite Ascii.eqb_sym, Hc. f_equal. apply IH; [exact Hs | lia].
Qed.

Definition sub1 (k : nat) (rep : str) (t : tok) : tok := match t with TArg i => if i =? k then TLit rep else t | _ => t end.

Lemma rep_flat k rep : k < 10 -> forall toks, forallb tok_ok toks = true -> forall f, length (flat toks) < f ->
  replace_all f [at_sign; dig k] rep (flat toks) = flat (map (sub1 k rep) toks).
Proof.
  intros Hk. induction toks as [|t toks IH]; intros Hok f Hf.
  - destruct f; reflexivity.
  - cbn [forallb] in Hok. apply andb_prop in Hok. destruct Hok as (Ht & Hok).
    unfold flat in *. cbn [map concat] in *. rewrite app_length in Hf. destruct t as [s|i]; cbn [flat1 sub1 tok_ok] in *.
    + replace f with (length s + (f - length s)) by lia. rewrite rep_lit by (first [exact Ht | lia]). f_equal. apply IH; [exact Hok | lia].
    + apply Nat.ltb_lt in Ht. destruct f as [|f]; [cbn in Hf; lia|]. cbn [length] in Hf.
      cbn [app replace_all strip]. rewrite Ascii.eqb_refl.
      destruct (Nat.eqb_spec i k) as [->|Hne].
      * rewrite Ascii.eqb_refl. cbn [flat1]. f_equal. apply IH; [exact Hok | lia].
      * destruct (Ascii.eqb_spec (dig k) (dig i)) as [E|_]; [apply dig_inj in E; [congruence | exact Hk | exact Ht]|].
        cbn [flat1 app]. f_equal. destruct f as [|f]; [lia|]. cbn [replace_all strip].
        rewrite Ascii.eqb_sym, (dig_not_at i Ht). f_equal. apply IH; [exact Hok | lia].
Qed.

Lemma sub1_ok k rep toks : no_at rep = true -> forallb tok_ok toks = true -> forallb tok_ok (map (sub1 k rep) toks) = true.
Proof.
  intros Hr. induction toks as [|t toks IH]; intros H; [reflexivity|]. cbn [forallb map] in *. apply andb_prop in H. destruct H as (Ht & H).
  rewrite (IH H), andb_true_r. destruct t as [s|i]; cbn [sub1]; [exact Ht|]. destruct (i =? k); [exact Hr | exact Ht].
Qed.

(** all arguments: @i stands for the text of argument i; a reference beyond the arguments stays *)
Definition sub_all (base : nat) (reps : list str) (t : tok) : tok :=
  match t with
  | TArg i => if (base <=? i) && (i <? base + length reps) then TLit (nth (i - base) reps []) else t
  | _ => t
  end.

Definition step (acc : N * str) (rep : str) : N * str :=
  (N.succ (fst acc), replace ((lit "@") ++ show_N (fst acc)) rep (snd acc)).

Lemma fold_steps : forall reps base toks, base + length reps <= 10 ->
  forallb no_at reps = true -> forallb tok_ok toks = true ->
  snd (fold_left step reps (N.of_nat base, flat toks)) = flat (map (sub_all base reps) toks).
Proof.
  induction reps as [|rep reps IH]; intros base toks Hb Hr Hok.
  - cbn [fold_left snd]. f_equal. rewrite <- (map_id toks) at 1. apply map_ext. intros [s|i]; cbn [sub_all length]; [reflexivity|].
    rewrite Nat.add_0_r. destruct (base <=? i) eqn:E1; destruct (i <? base) eqn:E2; try reflexivity.
    apply Nat.leb_le in E1. apply Nat.ltb_lt in E2. lia.
  - cbn [forallb] in Hr. apply andb_prop in Hr. destruct Hr as (Hrep & Hr). cbn [length] in Hb.
    cbn [fold_left]. unfold step at 2. cbn [fst snd].
    rewrite show_N_dig by lia. change (lit "@" ++ [dig base])%list with [at_sign; dig base].
    unfold replace. rewrite rep_flat by (first [lia | exact Hok]).
    rewrite <- Nat2N.inj_succ. rewrite IH by (first [cbn [length]; lia | exact Hr | apply sub1_ok; assumption]).
    f_equal. rewrite map_map. apply map_ext. intros [s|i]; cbn [sub1 sub_all length]; [reflexivity|].
    destruct (Nat.eqb_spec i base) as [->|Hne].
    + cbn [sub_all]. rewrite Nat.leb_refl. replace (base <? base + S (length reps)) with true by (symmetry; apply Nat.ltb_lt; lia).
      rewrite Nat.sub_diag. reflexivity.
    + cbn [sub_all]. destruct (S base <=? i) eqn:E1; destruct (i <? S base + length reps) eqn:E2; cbn [andb];
        destruct (base <=? i) eqn:E3; destruct (i <? base + S (length reps)) eqn:E4; cbn [andb]; try reflexivity;
        repeat match goal with
               | H : (_ <=? _) = true |- _ => apply Nat.leb_le in H
               | H : (_ <=? _) = false |- _ => apply Nat.leb_gt in H
               | H : (_ <? _) = true |- _ => apply Nat.ltb_lt in H
               | H : (_ <? _) = false |- _ => apply Nat.ltb_ge in H
               end; try lia.
      f_equal. replace (i - base) with (S (i - S base)) by lia. reflexivity.
Qed.

(** the statement for one body line of a macro called with up to ten arguments *)
Theorem substitute_line ops n toks : ops <> [] -> length ops <= 10 ->
  forallb no_at (map display_iop ops) = true -> forallb tok_ok toks = true ->
  substitute ops [(n, flat toks)] = [(n, flat (map (sub_all 0 (map display_iop ops)) toks))].
Proof.
  intros Hne Hlen Hr Hok. unfold substitute. destruct ops as [|a ops']; [contradiction|]. cbn [map fst snd]. f_equal. f_equal.
  set (ops := a :: ops') in *.
  assert (G : forall l acc, snd (fold_left (fun (acc : N * str) (x : iop) =>
                 (N.succ (fst acc), replace (lit "@" ++ show_N (fst acc))%list (display_iop x) (snd acc))) l acc)
              = snd (fold_left step (map display_iop l) acc)).
  { induction l as [|x l IHl]; intros acc; [reflexivity|]. cbn [map fold_left]. apply IHl. }
  rewrite G. assert (H1 : 0 + length (map display_iop ops) <= 10) by (rewrite map_length; exact Hlen).
  exact (fold_steps (map display_iop ops) 0 toks H1 Hr Hok).
Qed.

(** a call without arguments leaves the body as it is (a remaining @n is then a syntax error) *)
Theorem substitute_none body : substitute [] body = body.
Proof. reflexivity. Qed.

(** macro names: the call and the definition are both lower-cased *)
Theorem call_case n n' : lower n = lower n' -> operation_of_name n = operation_of_name n'.
Proof. intros H. unfold operation_of_name. rewrite H. reflexivity. Qed.

(** calling an undefined macro is an error naming the line of the call *)
Theorem undefined_macro fuel inc macroses line name ops st :
  lookup name macroses = None -> macro_expand fuel inc macroses line name ops st = Err (Some line).
Proof. intros H. unfold macro_expand. rewrite H. reflexivity. Qed.

(** the text of a well-formed expression argument contains no '@' (so substituted text is never substituted again) *)
Require Import AvraV.Model.Grammar AvraV.Proofs.ClimbProofs AvraV.Proofs.ExprRoundTrip.
Lemma no_at_app a b : no_at (a ++ b) = no_at a && no_at b.
Proof. apply forallb_app. Qed.
Lemma idch_no_at s : forallb is_idch s = true -> no_at s = true.
Proof.
  induction s as [|c s IH]; intros H; [reflexivity|]. cbn [forallb no_at] in *. apply andb_prop in H. destruct H as (Hc & Hs).
  fold (no_at s). rewrite (IH Hs), andb_true_r. destruct (Ascii.eqb_spec c at_sign) as [->|]; [discriminate | reflexivity].
Qed.
Lemma display_no_at e : wfe e -> no_at (display_expr (conv e)) = true.
Proof.
  induction e as [n|k|n a IHa|o l IHl r IHr|u x IHx]; intros H; cbn [wfe wf conv display_expr] in *.
  - destruct H as (c & a & -> & Hc & Ha). apply idch_no_at. cbn [forallb]. rewrite Ha, andb_true_r. apply Hidstart in Hc. tauto.
  - rewrite show_Z_N. destruct (show_N_spec k H) as (ds & -> & _ & Hall & _). apply idch_no_at.
    clear - Hall. induction ds as [|c ds IH]; [reflexivity|]. cbn [forallb] in *. apply andb_prop in Hall. destruct Hall as (Hc & Hd).
    rewrite (Hdigit c Hc), (IH Hd). reflexivity.
  - destruct H as (Hn & Ha). rewrite !no_at_app, (IHa Ha). destruct Hn as (c & a' & -> & Hc & Ha').
    replace (no_at (c :: a')) with true; [reflexivity|]. symmetry. apply idch_no_at. cbn [forallb]. rewrite Ha', andb_true_r. apply Hidstart in Hc. tauto.
  - destruct H as (Hl & Hr). rewrite !no_at_app, (IHl Hl), (IHr Hr). destruct o; reflexivity.
  - rewrite !no_at_app, (IHx H). destruct u; reflexivity.
Qed.

(** ---------------- operands: what an argument is turned into reads back as the argument ---------------- *)
Require Import AvraV.Model.Lines.
Local Open Scope nat_scope.

Lemma neutral_hd rest : neutral_rest rest -> hd_ok (fun c => negb (is_idch c)) rest = true.
Proof. intros (H & _). exact H. Qed.
Lemma neutral_not_plus rest : neutral_rest rest -> lit_tok "+" rest = None.
Proof.
  intros (_ & H). destruct rest as [|c r]; [reflexivity|]. unfold lit_tok. cbn [lit list_ascii_of_string strip].
  destruct (Ascii.eqb_spec "+"%char c) as [<-|]; [|reflexivity]. exfalso. cbn in H. destruct H as (_ & H). discriminate.
Qed.

Definition reg16_char (r : Ast.reg16) : ascii := match r with RX => "x"%char | RY => "y"%char | RZ => "z"%char end.
Lemma show_reg16_char r : show_reg16 r = [reg16_char r].
Proof. destruct r; reflexivity. Qed.
Lemma reg16_char_parse r rest : Lines.reg16 (reg16_char r :: rest) = Some (r, rest).
Proof. destruct r; reflexivity. Qed.

(** index forms *)
Theorem index_none_roundtrip r rest : neutral_rest rest -> instruction_op (display_iop (OIndex (INone r)) ++ rest) = Some (OIndex (INone r), rest).
Proof.
  intros Hn. cbn [display_iop display_index]. rewrite show_reg16_char. cbn [app]. unfold instruction_op, index_ops.
  assert (H1 : lit_tok "-" (reg16_char r :: rest) = None) by (destruct r; reflexivity). rewrite H1. cbn [or_opt].
  rewrite reg16_char_parse, (neutral_not_plus rest Hn). pose proof (neutral_hd rest Hn) as Hh.
  destruct rest as [|c r']; [reflexivity|]. cbn in Hh. apply negb_true_iff in Hh. rewrite Hh. reflexivity.
Qed.
Theorem index_predec_roundtrip r rest : neutral_rest rest -> instruction_op (display_iop (OIndex (IPreDec r)) ++ rest) = Some (OIndex (IPreDec r), rest).
Proof.
  intros Hn. cbn [display_iop display_index]. rewrite show_reg16_char. unfold instruction_op, index_ops.
  change (lit_tok "-" ((lit "-" ++ [reg16_char r]) ++ rest)) with (Some (reg16_char r :: rest)).
  cbv beta iota. rewrite reg16_char_parse. pose proof (neutral_hd rest Hn) as Hh.
  destruct rest as [|c r']; [reflexivity|]. cbn in Hh. apply negb_true_iff in Hh. rewrite Hh. reflexivity.
Qed.
(** a minus sign in front of a NAME that merely begins with x, y or z is no pre-decrement: the operand is an expression *)
Lemma negated_name_not_index x c rest : is_idch c = true -> index_ops ("-"%char :: x :: c :: rest) = None.
Proof.
  intros H. unfold index_ops.
  change (lit_tok "-" ("-"%char :: x :: c :: rest)) with (Some (x :: c :: rest)). cbv beta iota.
  change (Lines.reg16 ("-"%char :: x :: c :: rest)) with (@None (Ast.reg16 * str)).
  destruct (Lines.reg16 (x :: c :: rest)) as [[r r']|] eqn:E; [|reflexivity].
  assert (Hr : r' = c :: rest).
  { unfold Lines.reg16 in E. repeat match type of E with context [if ?b then _ else _] => destruct b end; inversion E; reflexivity. }
  subst r'. rewrite H. reflexivity.
Qed.
Theorem negated_name_operand x c rest e rest' : is_idch c = true ->
  expr_rule ("-"%char :: x :: c :: rest) = Some (e, rest') ->
  instruction_op ("-"%char :: x :: c :: rest) = Some (OE e, rest').
Proof.
  intros H He. unfold instruction_op. rewrite (negated_name_not_index x c rest H).
  change (Lines.reg8 ("-"%char :: x :: c :: rest)) with (@None (N * str)). rewrite He. reflexivity.
Qed.
Theorem index_postinc_roundtrip r rest : expr_rule rest = None -> instruction_op (display_iop (OIndex (IPostInc r)) ++ rest) = Some (OIndex (IPostInc r), rest).
Proof.
  intros He. cbn [display_iop display_index]. rewrite show_reg16_char. unfold lit. cbn [list_ascii_of_string app].
  unfold instruction_op, index_ops.
  assert (H1 : lit_tok "-" (reg16_char r :: "+"%char :: rest) = None) by (destruct r; reflexivity). rewrite H1. cbn [or_opt].
  rewrite reg16_char_parse.
  change (lit_tok "+" ("+"%char :: rest)) with (Some rest). cbv beta iota. rewrite He. reflexivity.
Qed.
Theorem index_postinc_expr_roundtrip r e rest : wfe e -> neutral_rest rest ->
  instruction_op (display_iop (OIndex (IPostIncE r (conv e))) ++ rest) = Some (OIndex (IPostIncE r (conv e)), rest).
Proof.
  intros Hw Hn. cbn [display_iop display_index]. rewrite show_reg16_char. unfold lit. cbn [list_ascii_of_string app].
  unfold instruction_op, index_ops.
  assert (H1 : lit_tok "-" (reg16_char r :: "+"%char :: display_expr (conv e) ++ rest) = None) by (destruct r; reflexivity). rewrite H1. cbn [or_opt].
  rewrite reg16_char_parse. change (lit_tok "+" ("+"%char :: display_expr (conv e) ++ rest)) with (Some (display_expr (conv e) ++ rest)%list).
  cbv beta iota. rewrite (display_roundtrip_ctx e rest Hw Hn). reflexivity.
Qed.

(** expressions that do not look like a register or an index form (compound ones and numbers never do) *)
Theorem expr_operand_roundtrip e rest : wfe e -> neutral_rest rest ->
  index_ops (display_expr (conv e) ++ rest) = None -> Lines.reg8 (display_expr (conv e) ++ rest) = None ->
  instruction_op (display_iop (OE (conv e)) ++ rest) = Some (OE (conv e), rest).
Proof.
  intros Hw Hn Hi Hr. cbn [display_iop]. unfold instruction_op. rewrite Hi, Hr, (display_roundtrip_ctx e rest Hw Hn). reflexivity.
Qed.
Lemma paren_not_register s : index_ops ("("%char :: s) = None /\ Lines.reg8 ("("%char :: s) = None.
Proof. split; [reflexivity|]. destruct s; reflexivity. Qed.
Theorem compound_operand_roundtrip e rest : wfe e -> neutral_rest rest ->
  match e with EB _ _ _ | EU _ _ => instruction_op (display_iop (OE (conv e)) ++ rest) = Some (OE (conv e), rest) | _ => True end.
Proof.
  intros Hw Hn. destruct e as [n|k|n a|o l r|u x]; try exact I; apply expr_operand_roundtrip; try assumption;
    cbn [conv display_expr app lit list_ascii_of_string]; apply paren_not_register.
Qed.


(** registers r0 .. r31 *)
Lemma index_r x : index_ops ("r"%char :: x) = None.
Proof. reflexivity. Qed.
Lemma reg8_one d1 rest : is_digit d1 = true -> match rest with c :: _ => is_digit c = false | [] => True end ->
  Lines.reg8 ("r"%char :: d1 :: rest) =
  (let v := digits_val 10 [d1] 0 in if (v <? 32)%N && negb ((1 =? 2)%nat && (code d1 =? 48)%N) then Some (v, rest) else None).
Proof.
  intros H Hr. unfold Lines.reg8. change (code "r" =? 114)%N with true. cbn [orb andb]. rewrite H.
  destruct rest as [|c r]; [reflexivity|]. rewrite Hr. reflexivity.
Qed.
Theorem register_roundtrip n rest : (n < 32)%N -> neutral_rest rest -> instruction_op (display_iop (OR8 n) ++ rest) = Some (OR8 n, rest).
Proof.
  intros Hlt Hn. pose proof (neutral_hd rest Hn) as Hh.
  assert (Hd : match rest with c :: _ => is_digit c = false | [] => True end).
  { destruct rest as [|c r]; [exact I|]. cbn in Hh. apply negb_true_iff in Hh. destruct (is_digit c) eqn:E; [apply Hdigit in E; congruence | reflexivity]. }
  assert (C : exists m, m < 32 /\ n = N.of_nat m) by (exists (N.to_nat n); split; lia).
  destruct C as (m & Hm & ->). cbn [display_iop]. unfold instruction_op.
  change ((lit "r" ++ show_N (N.of_nat m)) ++ rest)%list with ("r"%char :: (show_N (N.of_nat m) ++ rest))%list. rewrite index_r.
  do 10 (destruct m as [|m]; [rewrite show_N_dig by lia; cbn [app]; rewrite reg8_one by (first [reflexivity | exact Hd]); reflexivity|]).
  do 22 (destruct m as [|m]; [reflexivity|]).
  lia.
Qed.
