(** Abstract syntax of the assembler as defined by src/expr.rs, src/instruction/*.rs,
    src/directive.rs and src/parser.rs.  Text is [str] = list of bytes (UTF-8 of the Rust &str). *)
Require Import AvraV.Model.Base.

Definition str := list ascii.
Definition lit (x : string) : str := list_ascii_of_string x.

Fixpoint str_eqb (a b : str) : bool :=
  match a, b with
  | [], [] => true
  | x :: a', y :: b' => Ascii.eqb x y && str_eqb a' b'
  | _, _ => false
  end.

(** ASCII lower-casing ([str::to_lowercase] restricted to ASCII; non-ASCII bytes are left alone -
    identifiers, mnemonics and register names are ASCII by the grammar). *)
Definition lower_ascii (c : ascii) : ascii :=
  let n := N_of_ascii c in
  if (65 <=? n)%N && (n <=? 90)%N then ascii_of_N (n + 32) else c.
Definition lower (x : str) : str := map lower_ascii x.

(** expr.rs *)
Inductive binop := BAdd | BSub | BMul | BDiv | BRem | BAnd | BXor | BOr | BShl | BShr
                 | BLt | BLe | BGt | BGe | BEq | BNe | BLAnd | BLOr.
Inductive unop := UMinus | UBitNot | ULogNot.
Inductive expr :=
| EIdent (n : str)
| EConst (z : Z)
| EFunc (f : expr) (a : expr)
| EBin (l : expr) (o : binop) (r : expr)
| EUn (o : unop) (e : expr).

(** instruction/register.rs, instruction/mod.rs *)
Inductive reg16 := RX | RY | RZ.
Inductive index :=
| INone (r : reg16) | IPostInc (r : reg16) | IPostIncE (r : reg16) (e : expr) | IPreDec (r : reg16).
Inductive iop := OR8 (n : N) | OIndex (i : index) | OE (e : expr).

(** instruction/operation.rs *)
Inductive brt := BrEq | BrNe | BrCs | BrCc | BrSh | BrLo | BrMi | BrPl | BrGe | BrLt | BrHs | BrHc
               | BrTs | BrTc | BrVs | BrVc | BrIe | BrId | BrBs | BrBc.
Inductive sflag := FlC | FlZ | FlN | FlV | FlS | FlH | FlT | FlI.
Inductive operation :=
| OAdd | OAdc | OAdiw | OSub | OSubi | OSbc | OSbci | OSbiw | OAnd | OAndi | OOr | OOri | OEor
| OCom | ONeg | OSbr | OCbr | OInc | ODec | OTst | OClr | OSer | OMul | OMuls | OMulsu | OFmul
| OFmuls | OFmulsu | ORjmp | OIjmp | OEijmp | OJmp | ORcall | OIcall | OEicall | OCall | ORet
| OReti | OCpse | OCp | OCpc | OCpi | OBr (b : brt) | OSbic | OSbis | OSbrc | OSbrs | OMov | OMovw
| OLdi | OLds | OLd | OLdd | OSts | OSt | OStd | OLpm | OElpm | OSpm | OIn | OOut | OCbi | OSbi
| OPush | OPop | OLsl | OLsr | ORol | ORor | OAsr | OSwap | OBset | OBclr | OBst | OBld
| OSe (f : sflag) | OCl (f : sflag) | OBreak | ONop | OSleep | OWdr
| OCustom (name : str).

(** directive.rs *)
Inductive directive :=
| DByte | DCSeg | DCSegSize | DDb | DDef | DDevice | DDSeg | DDw | DEndM | DEndMacro | DEqu | DESeg
| DExit | DInclude | DIncludePath | DList | DListMac | DMacro | DNoList | DOrg | DSet | DDefine
| DElse | DElIf | DEndif | DError | DIf | DIfDef | DIfNDef | DMessage | DDd | DDq | DUndef
| DWarning | DOverlap | DNoOverlap | DPragma
| DCustom (name : str).
Inductive operand := PE (e : expr) | PS (t : str).
Inductive dops := OpList (l : list operand) | Assign (a : expr) (e : expr).

(** document.rs: result of parsing one line *)
Inductive doc :=
| EmptyLine
| LabelLine (l : str)
| CodeLine (l : option str) (o : operation) (args : list iop)
| DirLine (l : option str) (d : directive) (a : dops).

(** parser.rs *)
Inductive segt := SCode | SData | SEeprom.
Inductive datadef := Db | Dw | Dd | Dq.
Inductive item :=
| IReserve (n : Z)
| IData (k : datadef) (l : list operand)
| IDef (a : str) (e : expr)
| IUndef (a : str)
| ISet (a : str) (e : expr)
| IPragma (l : list operand)
| IInstr (o : operation) (args : list iop)
| ILabel (l : str).
(** [CodePoint]: 1-based line number and the position tag 1 (label) / 2 (statement) / 3 (macro body) *)
Record segment := { items : list ((N * N) * item); seg_t : segt; address : N }.

Definition segt_eqb (a b : segt) : bool :=
  match a, b with SCode, SCode | SData, SData | SEeprom, SEeprom => true | _, _ => false end.
