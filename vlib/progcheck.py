"""Shared skeleton of the program-level checks (builder::build_str interface)."""
import json

from . import common as C, gen, progrun


def base(res, prop):
    vh = C.build_harness("debug")
    try:
        changed = gen.gen_all(vh)
        res.oblige("tie A: Gen/*.v regenerated from /repo (opcode, mnemonic, directive, precedence, device tables)", True, "rewritten: %s" % changed)
    except gen.GenError as e:
        res.oblige("tie A: Gen/*.v regenerated from /repo", False, str(e))
    pr = C.check_props(prop)
    for n, ok, note in pr["obligations"]:
        res.oblige("theorem " + n, ok, note)
    if pr.get("broken") and not pr["obligations"]:
        res.oblige("coq build", False, pr["broken"])
    exe = C.build_model()
    return vh, exe


def agree(a, b):
    return a == b or (a in ("CRASH", "TIMEOUT") and b == "FUEL")


def correspond(res, vh, exe, texts, what):
    """model == implementation on every text; returns {text: (impl, model)}"""
    uniq = list(dict.fromkeys(texts))
    rows = progrun.run_texts(vh, exe, uniq)
    mism = [(t, a, b) for t, a, b in rows if not agree(a, b)]
    res.oblige("correspondence(extracted model): Passes.build_str = builder::build_str on %d %s" % (len(rows), what),
               not mism, "first of %d: %r impl=%s model=%s" % (len(mism), mism[0][0][:300], mism[0][1][:120], mism[0][2][:120]) if mism else "")
    out = {}
    kinds = {}
    for t, a, b in rows:
        out[t] = (a, b)
        k = a.split(" ")[0]
        kinds[k] = kinds.get(k, 0) + 1
        res.count(t, nontrivial=(a not in ("OK - - 4194304 65536 8388608 0 -",)))
    res.extra.setdefault("distribution", {}).update({"observations:" + k: v for k, v in kinds.items()})
    return out


def fail(res, interface, text, expected, observed, cls, extra=None):
    if len(res.failing) < 300:
        d = dict(interface=interface, input=dict(source=text, **(extra or {})), expected=expected, observed=observed, cls=cls)
        res.failing.append(d)


def replay_text(prop, path, judge):
    """judge(vh, exe, input dict) -> None if the property holds on it, else (expected, observed)"""
    r = json.load(open(path))
    i = r.get("input")
    if not i:
        print("replay: broken obligation %r - re-run ./check %s" % (r.get("obligation"), prop))
        return 1
    vh = C.build_harness("debug")
    exe = C.build_model()
    bad = judge(vh, exe, i)
    if bad:
        print("VIOLATION property=%s replay=%s" % (prop, path))
        return 1
    print("replay: property now holds on this input")
    return 0


def match_known(f, entry):
    return entry.get("class") is not None and f.get("cls") == entry.get("class")
