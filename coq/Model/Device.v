(** src/device.rs: the device record and the operation gate.  The table itself is regenerated
    from the code (Gen/Devices.v). *)
Require Import AvraV.Model.Base AvraV.Model.Ast.
Open Scope N_scope.

Inductive dopt := NoMul | NoJmp | NoXreg | NoYreg | Tiny1x | NoLpm | NoLpmX | NoElpm | NoElpmX | NoSpm
                | NoEspm | NoMovw | NoBreak | NoEicall | NoEijmp | Avr8l.
Definition dopt_code (o : dopt) : N :=
  match o with NoMul => 0 | NoJmp => 1 | NoXreg => 2 | NoYreg => 3 | Tiny1x => 4 | NoLpm => 5 | NoLpmX => 6
             | NoElpm => 7 | NoElpmX => 8 | NoSpm => 9 | NoEspm => 10 | NoMovw => 11 | NoBreak => 12
             | NoEicall => 13 | NoEijmp => 14 | Avr8l => 15 end.
Record device := { flash_size : N; ram_start : N; ram_size : N; eeprom_size : N; opts : list dopt }.

Definition has (d : device) (o : dopt) : bool := existsb (fun x => dopt_code x =? dopt_code o) (opts d).
Definition allow (d : device) (o : dopt) : bool := negb (has d o).
Definition is_avr8l (d : device) : bool := has d Avr8l.
