(** C02 - label values and .org positions equal where the bytes really land.
    Property theorems only; proofs are in Proofs/LayoutProofs.v and Proofs/Pass0Proofs.v.
    The objects: [pass1] (sizes, label values, segment start addresses; src/builder/pass1.rs) and
    [pass2] (evaluation, encoding, zero padding, appending; src/builder/pass2.rs) of Model/Passes.v,
    run on the same segment list - for every list of segments, every device, every item mix. *)
From Coq Require Import List ZArith NArith String.
Import ListNotations.
Require Import AvraV.Model.Base AvraV.Model.Ast AvraV.Model.Device AvraV.Model.Eval AvraV.Model.Encode.
Require Import AvraV.Model.Parse AvraV.Model.Passes AvraV.Gen.OpTable AvraV.Gen.Devices.
Require Import AvraV.Proofs.LayoutProofs AvraV.Proofs.Pass0Proofs.
Open Scope N_scope.

(** (1) Instruction length: the bytes the encoder emits are 2 * the length in the operation table
    (regenerated from src/instruction/operation.rs on every run) - two words exactly for jmp, call
    and, except on the reduced core, lds/sts. *)
Theorem C02_instruction_length : forall fuel c op args pc bs,
  process fuel c op args pc = Ok bs ->
  match op with OCustom _ => True | _ => N.of_nat (length bs) / 2 = fst (op_info (is_avr8l (dev c)) op) end.
Proof. exact process_len. Qed.
Print Assumptions C02_instruction_length.

(** (2) Item by item: whatever item pass 1 keeps, pass 2 - run at the same position, on the same
    device - advances its counter exactly as pass 1 did and appends exactly unit * advance bytes
    (unit = 2 in flash, 1 in EEPROM); an item pass 1 drops moves nothing (or is a data-segment
    reservation).  Covers instructions of both lengths, .db with odd and even byte counts (padded
    to a word in flash, not in EEPROM), .dw/.dd/.dq, .byte in EEPROM, .set/.def/.undef, labels. *)
Theorem C02_item : forall fuel t c1 cur out1 ci c1' cur' out1',
  pass1_item t (c1, cur, out1) ci = Ok (c1', cur', out1') -> plain ci ->
  dev c1' = dev c1 /\
  ((out1' = out1 /\ cur' = cur \/ out1' = out1 /\ t = SData) \/
   exists ci', out1' = (out1 ++ [ci'])%list /\ fst ci' = fst ci /\
     forall c2 out2 c2' cur2 out2', dev c2 = dev c1 ->
       pass2_item fuel t (c2, cur, out2) ci' = Ok (c2', cur2, out2') ->
       dev c2' = dev c2 /\ cur2 = cur' /\
       exists bs, out2' = (out2 ++ bs)%list /\ N.of_nat (length bs) = unit_of t * (cur' - cur)).
Proof. exact item_agree. Qed.
Print Assumptions C02_item.

(** (3) .org and gaps: from an image that ends at offset [off] (in units), padding to [addr >= off]
    appends zeros only and makes the next byte land at exactly unit * addr.  (A start address below
    the running offset is refused by pass 1: see [C02_layout], conjunct off <= address.) *)
Theorem C02_org_gap : forall u img off addr, u = 1 \/ u = 2 ->
  N.of_nat (length img) = u * off -> off <= addr -> u * addr < 2147483648 ->
  pad_to u img addr = (img ++ repeat 0 (N.to_nat (u * (addr - off))))%list.
Proof. exact pad_to_spec. Qed.
Print Assumptions C02_org_gap.

(** (4) Whole programs.  For every segment list on which both passes succeed, on a device whose
    memories are below 2^31 bytes: the images stay within the device, and every flash / EEPROM
    segment of the program - wherever it stands in the arbitrarily interleaved list - is found in
    the final image as  before ++ frag ++ after  with |before| = unit * its start address (the
    address written with .org, or the running offset when none was given) and frag exactly the
    bytes pass 2 emits for the items of that segment, of the length pass 1 computed.  Nothing is
    overwritten, shifted or dropped: later segments only append. *)
Theorem C02_layout : forall fuel c segs r1 r2,
  pass1 c segs = Ok r1 -> pass2 fuel (p1_ctx r1) (p1_segs r1) = Ok r2 -> Forall plain_seg segs ->
  2 * flash_size (dev c) < lim31 -> eeprom_size (dev c) < lim31 ->
  N.of_nat (length (p2_code r2)) <= 2 * flash_size (dev c) /\ N.of_nat (length (p2_eeprom r2)) <= eeprom_size (dev c) /\
  forall pre sg post, segs = (pre ++ sg :: post)%list -> seg_t sg <> SData ->
  exists sg' fin c2 c2' frag before after,
    nth_error (p1_segs r1) (length pre) = Some sg' /\ seg_t sg' = seg_t sg /\ (address sg = 0 \/ address sg' = address sg) /\
    p2fold fuel (seg_t sg') (items sg') (Ok (c2, address sg', [])) = Ok (c2', fin, frag) /\
    (match seg_t sg with SCode => p2_code r2 | _ => p2_eeprom r2 end) = (before ++ frag ++ after)%list /\
    N.of_nat (length before) = unit_of (seg_t sg) * address sg' /\
    N.of_nat (length frag) = unit_of (seg_t sg) * (fin - address sg') /\
    (labels c2 = labels (p1_ctx r1) /\ equs c2 = equs (p1_ctx r1) /\ defines c2 = defines (p1_ctx r1)) /\ dev c2 = dev c.
Proof. exact layout. Qed.
Print Assumptions C02_layout.

(** (5) Labels.  The value pass 1 gives a label - and which every reference in pass 2 reads - is:
    in flash and EEPROM the address a at which pass 2, having emitted the items before the label,
    stands (it has then appended unit * (a - start) bytes of the segment's fragment, which (4)
    places at unit * start: the item after the label lands at unit * a); in the data segment the
    segment start (RAM start of the device, or the .org address) plus the bytes reserved before it. *)
Theorem C02_label : forall fuel c segs r1,
  pass1 c segs = Ok r1 -> Forall plain_seg segs ->
  forall pre sg post ipre cp name ipost, segs = (pre ++ sg :: post)%list -> items sg = (ipre ++ (cp, ILabel name) :: ipost)%list ->
  exists sg', nth_error (p1_segs r1) (length pre) = Some sg' /\ (address sg = 0 \/ address sg' = address sg) /\
    match seg_t sg with
    | SData => lookup name (labels (p1_ctx r1)) = Some (SData, address sg' + reserved ipre)
    | t => exists a kpre kpost, items sg' = (kpre ++ kpost)%list /\ lookup name (labels (p1_ctx r1)) = Some (t, a) /\ address sg' <= a /\
             forall c2 c2' cur2 bs, dev c2 = dev c ->
               p2fold fuel t kpre (Ok (c2, address sg', [])) = Ok (c2', cur2, bs) ->
               cur2 = a /\ N.of_nat (length bs) = unit_of t * (a - address sg')
    end.
Proof. exact label_lands. Qed.
Print Assumptions C02_label.

(** (6) The hypothesis [plain_seg] (no macro call left in the list) is met by whatever pass 0
    produces and pass 1 accepts; and every device of the table (regenerated from src/device.rs)
    and the default device satisfy the size bounds of (4). *)
Theorem C02_hypotheses_met : forall fuel inc macroses depth parsed st0 s0 c r1,
  segs st0 = [] -> pass0 fuel inc macroses depth parsed st0 = Ok s0 ->
  pass1 c (non_empty (segs s0)) = Ok r1 -> Forall plain_seg (non_empty (segs s0)).
Proof.
  intros fuel inc macroses depth parsed st0 s0 c r1 H0 Hp0 Hp1.
  eapply pass1_plain; [|exact Hp1]. unfold non_empty, code_plain. apply Forall_forall. intros sg Hin.
  apply filter_In in Hin. destruct Hin as (Hin & _).
  pose proof (pass0_plain fuel inc macroses depth parsed st0 s0) as H. rewrite H0 in H. specialize (H (Forall_nil _) Hp0).
  exact (proj1 (Forall_forall _ _) H sg Hin).
Qed.
Print Assumptions C02_hypotheses_met.
Theorem C02_devices_bounded :
  forallb (fun d => (2 * flash_size d <? lim31) && (eeprom_size d <? lim31)) (default_device :: map snd devices) = true.
Proof. vm_compute. reflexivity. Qed.
Print Assumptions C02_devices_bounded.

(** Non-vacuity and examples: programs on which every pass succeeds, with labels made visible through .dw tables. *)
Definition images (src : string) : option (list N * list N * N) :=
  match build_str 200 (list_ascii_of_string src) with Ok b => Some (b_code b, b_eeprom b, b_ram_filling b) | _ => None end.
Definition nl := String (Ascii.ascii_of_N 10) EmptyString.
Local Open Scope string_scope.
Example C02_examples :
  images ("nop" ++ nl ++ ".org 3" ++ nl ++ "here: .db 1" ++ nl ++ " .dw here" ++ nl) = Some ([0;0;0;0;0;0;1;0;3;0], [], 0)%N /\
  images (".dseg" ++ nl ++ "v: .byte 2" ++ nl ++ "w: .byte 1" ++ nl ++ ".cseg" ++ nl ++ " .dw v, w" ++ nl) = Some ([96;0;98;0], [], 3)%N /\
  images (".eseg" ++ nl ++ " .db 1" ++ nl ++ "e: .db 2" ++ nl ++ ".cseg" ++ nl ++ " jmp l" ++ nl ++ "l: .dw e, l" ++ nl)
     = Some ([12;148;2;0;1;0;2;0], [1;2], 0)%N /\
  images (".org 4" ++ nl ++ "nop" ++ nl ++ ".org 2" ++ nl ++ "nop" ++ nl) = None.
Proof. vm_compute. repeat split; reflexivity. Qed.
