(** The two-word address forms (jmp, call, lds, sts on the full core): the 16 low address bits are
    the second instruction word verbatim, so they stay symbolic; the remaining finite part
    (64 high address parts, 32 registers) is case-split. *)
From Coq Require Import List NArith ZArith Bool String Lia ZifyBool.
Import ListNotations.
Require Import AvraV.Model.Base AvraV.Model.Ast AvraV.Model.Device AvraV.Model.Eval AvraV.Model.Encode.
Require Import AvraV.Spec.Isa AvraV.Proofs.EncCheck AvraV.Proofs.EncLift.
Local Open Scope string_scope.
Local Open Scope Z_scope.
Ltac Zify.zify_post_hook ::= Z.div_mod_to_equations.

Lemma list_eqb_N_refl l : list_eqb N.eqb l l = true.
Proof. induction l as [|x l IH]; cbn; [reflexivity | rewrite N.eqb_refl, IH; reflexivity]. Qed.
Lemma warg_eqb_refl w : warg_eqb w w = true.
Proof. destruct w as [n|v|f|y q|]; cbn; rewrite ?Z.eqb_refl, ?eqb_reflx; try reflexivity. destruct f; reflexivity. Qed.
Lemma list_eqb_warg_refl l : list_eqb warg_eqb l l = true.
Proof. induction l as [|x l IH]; cbn; [reflexivity | rewrite warg_eqb_refl, IH; reflexivity]. Qed.

Lemma expect_single c name w r :
  rows_for c name = [r] -> canon name w = Some (name, w) -> expect c name w = row_words r w.
Proof. intros Hr Hc. unfold expect. rewrite Hc, Hr. cbn [first_fit]. destruct (row_words r w); reflexivity. Qed.

(** bytes of a second word that is a symbolic 16-bit value *)
Lemma second_bytes lo : 0 <= lo ->
  [(Z.to_N lo mod 256)%N; (Z.to_N lo / 256)%N] = [Z.to_N (lo mod 256); Z.to_N (lo / 256)].
Proof. intros H. rewrite Z2N.inj_mod, Z2N.inj_div by lia. reflexivity. Qed.

(** assembling the three facts into the checker's verdict *)
Lemma ok_from c name w w1 lo st :
  expect c name w = Some [w1; lo] ->
  rel_op (op_of name) = false ->
  process_v (isred c) (op_of name) (map wview w) 0 = Ok (bytes_of [w1; lo]) ->
  decode c [w1; lo] = Some st -> canon_norm name w = Some st ->
  ok_at c name w = true.
Proof.
  intros He Hr Hm Hd Hc. unfold ok_at, at_pc. rewrite He, Hr, Hm, Hd, Hc.
  unfold res_bytes_eqb. rewrite list_eqb_N_refl. cbn [andb]. apply orb_true_intro. right.
  destruct st as [n l]. unfold stmt_eqb. rewrite String.eqb_refl, list_eqb_warg_refl. reflexivity.
Qed.

Ltac vmrw t := let v := eval vm_compute in t in replace t with v by (vm_compute; reflexivity).

Definition the_row (c : core) (name : string) : crow := hd (compile (r0 "" "")) (rows_for c name).
Lemma rows_single c name : (name = "jmp" \/ name = "call" \/ (c = Full /\ (name = "lds" \/ name = "sts"))) ->
  rows_for c name = [the_row c name].
Proof. intros [->|[->|[-> [->| ->]]]]; try destruct c; vm_compute; reflexivity. Qed.
Lemma opof_jmp : op_of "jmp" = OJmp. Proof. vm_compute. reflexivity. Qed.
Lemma opof_call : op_of "call" = OCall. Proof. vm_compute. reflexivity. Qed.
Lemma opof_lds : op_of "lds" = OLds. Proof. vm_compute. reflexivity. Qed.
Lemma opof_sts : op_of "sts" = OSts. Proof. vm_compute. reflexivity. Qed.

(** one case: concrete core, name, high part h (or register d); k and lo symbolic *)
Ltac big_case c name opl w h lo k rng1 rng2 :=
  eapply (ok_from c name w _ lo (name, w));
  [ rewrite (expect_single c name w (the_row c name)); [| apply rows_single; tauto | reflexivity];
    unfold row_words; vmrw (the_row c name);
    cbn [enc_ops enc_op c_row r_ops or_else app reg_field];
    replace rng1 with true by lia;
    replace (k / 65536) with h by lia; replace (k mod 65536) with lo by lia;
    vm_compute; reflexivity
  | rewrite opl; reflexivity
  | rewrite opl;
    unfold process_v; cbn [operand_counts map length existsb Nat.eqb orb bind arg nth_error wview v_val v_r8 isred];
    replace rng2 with false by lia;
    try (replace (k / 65536) with h by lia); try (replace (k mod 65536) with lo by lia);
    cbn [bind]; unfold bytes_of; cbn [flat_map app]; rewrite <- (second_bytes lo) by lia;
    generalize (Z.to_N lo mod 256)%N, (Z.to_N lo / 256)%N; intros ? ?;
    vm_compute; reflexivity
  | unfold decode, decode_in;
    match goal with |- context [find_row ?cc ?t ?b ?ww] => vmrw (find_row cc t b ww) end;
    cbv beta iota; cbn [c_row r_name r_ops map dec_op];
    repeat match goal with |- context [field ?a ?b] => vmrw (field a b) end;
    repeat f_equal; lia
  | reflexivity ].

Ltac jmp_case c name opl :=
  let lo := fresh "lo" in let k := fresh "k" in let Hlo := fresh "Hlo" in let Hk := fresh "Hk" in
  intros lo k Hlo Hk;
  match type of Hk with k = ?h * 65536 + lo =>
    big_case c name opl [WExp k] h lo k ((0 <=? k) && (k <? 65536 * 2 ^ 6)) ((k <? 0) || (4194303 <? k))
  end.

Definition jmp_stmt (c : core) (name : string) (hi : Z) : Prop :=
  forall lo k, 0 <= lo < 65536 -> k = hi * 65536 + lo -> ok_at c name [WExp k] = true.
Lemma jmp_F : Forall (jmp_stmt Full "jmp") (zrange 64 0).
Proof. cbn [zrange Z.succ Pos.succ]; repeat constructor; unfold jmp_stmt; jmp_case Full "jmp" opof_jmp. Qed.
Lemma jmp_R : Forall (jmp_stmt Reduced "jmp") (zrange 64 0).
Proof. cbn [zrange Z.succ Pos.succ]; repeat constructor; unfold jmp_stmt; jmp_case Reduced "jmp" opof_jmp. Qed.
Lemma call_F : Forall (jmp_stmt Full "call") (zrange 64 0).
Proof. cbn [zrange Z.succ Pos.succ]; repeat constructor; unfold jmp_stmt; jmp_case Full "call" opof_call. Qed.
Lemma call_R : Forall (jmp_stmt Reduced "call") (zrange 64 0).
Proof. cbn [zrange Z.succ Pos.succ]; repeat constructor; unfold jmp_stmt; jmp_case Reduced "call" opof_call. Qed.

Definition lds_stmt (d : Z) : Prop := forall k, 0 <= k < 65536 -> ok_at Full "lds" [WReg d; WExp k] = true.
Definition sts_stmt (d : Z) : Prop := forall k, 0 <= k < 65536 -> ok_at Full "sts" [WExp k; WReg d] = true.
Lemma lds_F : Forall lds_stmt (zrange 32 0).
Proof.
  cbn [zrange Z.succ Pos.succ]; repeat constructor; unfold lds_stmt; intros k Hk;
  match goal with |- ok_at _ _ [WReg ?d; _] = _ =>
    big_case Full "lds" opof_lds [WReg d; WExp k] 0 k k ((0 <=? k) && (k <? 65536 * 2 ^ 0)) ((k <? 0) || (65535 <? k)) end.
Qed.
Lemma sts_F : Forall sts_stmt (zrange 32 0).
Proof.
  cbn [zrange Z.succ Pos.succ]; repeat constructor; unfold sts_stmt; intros k Hk;
  match goal with |- ok_at _ _ [_; WReg ?d] = _ =>
    big_case Full "sts" opof_sts [WExp k; WReg d] 0 k k ((0 <=? k) && (k <? 65536 * 2 ^ 0)) ((k <? 0) || (65535 <? k)) end.
Qed.
