"""Runs instruction-level cases through the implementation (vh enc), the extracted model and the
ISA specification (avmodel enc) and classifies every case."""
import concurrent.futures as cf

from . import common as C


def run_cases(vh, exe, cases, chunk=20000):
    """-> list of (case, impl, model, spec, decoded)"""
    chunks = [cases[i:i + chunk] for i in range(0, len(cases), chunk)]

    def one(ch):
        inp = "\n".join(ch) + "\n"
        a = C.vh(vh, ["enc"], input=inp).split("\n")
        b = C.model(exe, ["enc"], input=inp).split("\n")
        if len(a) < len(ch) or len(b) < len(ch):
            raise RuntimeError("enc: short output (%d/%d of %d)" % (len(a), len(b), len(ch)))
        rows = []
        for i, cse in enumerate(ch):
            m = b[i].split(" ")
            rows.append((cse, a[i], m[0], m[1], m[2] if len(m) > 2 else "-"))
        return rows
    out = []
    with cf.ThreadPoolExecutor(max_workers=C.NCPU) as ex:
        for r in ex.map(one, chunks):
            out += r
    return out


def judge(res, rows, prop, what):
    """correspondence (model == implementation) and the specification oracle on every row.
    Oracle: spec gives words -> implementation must emit exactly those bytes;
            spec gives NONE  -> implementation must return an error (ERR)."""
    mism = []
    nfail = 0
    for cse, impl, model, spec, dec in rows:
        f = cse.split(" ")
        res.count(cse, nontrivial=True)
        if impl != model:
            mism.append((cse, impl, model))
        bad = (impl != "ERR") if spec == "NONE" else (impl != spec)
        if bad:
            nfail += 1
            if len(res.failing) < 400:
                res.failing.append(dict(
                    interface="instruction::process",
                    input=dict(case=cse, core=f[0], pc=int(f[1]), mnemonic=f[2], operands=f[3]),
                    expected=("an error: the ISA cannot encode this statement" if spec == "NONE"
                              else "bytes %s (%s)" % (spec, dec)),
                    observed=impl,
                    cls="%s:%s" % (f[2], "accepted-illegal" if spec == "NONE" and impl != "PANIC" else
                                   "panic" if impl == "PANIC" else "rejected-legal" if impl == "ERR" else "wrong-bytes")))
    res.oblige("correspondence(extracted model): Encode.process = instruction::process on %d %s cases" % (len(rows), what),
               not mism, "first of %d mismatches: %s impl=%s model=%s" % ((len(mism),) + mism[0]) if mism else "")
    return nfail
