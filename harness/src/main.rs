//! Verification harness for avra-rs: executes the real library on inputs chosen by /verif/check
//! and prints canonical observations.  Never linked into the repository itself.
mod build;
mod buildfs;
mod enc;
mod exprs;
mod sexp;
mod hexw;
mod hist;
mod tables;
mod util;

fn main() {
    let args: Vec<String> = std::env::args().collect();
    if args.len() < 2 {
        eprintln!("usage: vh <command> ...");
        std::process::exit(2);
    }
    // panics of the library are observations, not failures of the harness: keep them quiet
    std::panic::set_hook(Box::new(|_| {}));
    let rc = match args[1].as_str() {
        "hex" => hexw::main(&args[2..]),
        "devices" => tables::devices(),
        "ops" => tables::ops(),
        "dirs" => tables::dirs(),
        "enc" => enc::main(),
        "hist" => hist::main(&args[2..]),
        "histfs" => hist::main_fs(&args[2..]),
        "build" => build::main(),
        "build-worker" => build::worker(),
        "buildfs" => build::parent("buildfs-worker"),
        "buildfs-worker" => buildfs::worker(),
        "expr" => exprs::main(),
        other => {
            eprintln!("unknown command {}", other);
            2
        }
    };
    std::process::exit(rc);
}
