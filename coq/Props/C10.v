(** C10 - symbols resolve by the documented binding rules or the build fails.
    Property theorems only; proofs are in Proofs/SymProofs.v (and Proofs/EncProofs.v for aliases). *)
From Coq Require Import List ZArith NArith String.
Import ListNotations.
Require Import AvraV.Model.Base AvraV.Model.Ast AvraV.Model.Device AvraV.Model.Eval AvraV.Model.Encode.
Require Import AvraV.Model.Parse AvraV.Model.Passes AvraV.Spec.Isa AvraV.Proofs.EncCheck AvraV.Proofs.EncProofs AvraV.Proofs.SymProofs.

(** Letter case: labels, .equ, .set, .def and the special symbols are looked up through the
    lower-case form of the name only; hence a reference evaluates the same in any letter case.
    (Preprocessor flags made with .define are matched as written; the hypothesis excludes them.) *)
Theorem C10_case : forall c n n' f,
  lower n = lower n' -> get_define c n = None -> get_define c n' = None ->
  run f c (EIdent n) = run f c (EIdent n') /\ get_def c n = get_def c n'.
Proof. intros. split; [apply run_case; assumption | apply (lookups_case c n n'); assumption]. Qed.
Print Assumptions C10_case.

(** No silent default: a name bound nowhere is an error of the evaluation, never a value. *)
Theorem C10_undefined_fails : forall c n f, get_expr c n = None -> run (S f) c (EIdent n) = Err None.
Proof. exact unbound_fails. Qed.

(** Labels: defining a label twice (in any letter case - the grammar lower-cases label names) fails
    at the second definition; a label entered by pass 1 has the position of the item that follows
    and stays visible for all of pass 1 - pass 2, which evaluates every reference, only starts
    afterwards, so references may precede the definition. *)
Theorem C10_duplicate_label : forall t c cur out cp name,
  lookup name (labels c) <> None -> pass1_item t (c, cur, out) (cp, ILabel name) = Err (Some (fst cp)).
Proof. exact duplicate_label_fails. Qed.
Theorem C10_label_value : forall t c cur out cp name c' cur' out',
  pass1_item t (c, cur, out) (cp, ILabel name) = Ok (c', cur', out') ->
  lookup name (labels c') = Some (t, cur) /\ cur' = cur.
Proof. exact label_defined. Qed.
Theorem C10_labels_persist : forall t its st st' n v,
  fold_left (fun acc ci => do a <- acc; pass1_item t a ci) its (Ok st) = Ok st' ->
  lookup n (labels (fst (fst st))) = Some v -> lookup n (labels (fst (fst st'))) = Some v.
Proof. exact labels_persist. Qed.
Print Assumptions C10_labels_persist.

(** .set: after an assignment every reference (in any case) sees exactly that value until the next
    assignment - first definition and re-assignment. *)
Theorem C10_set_first : forall fuel t c cur out cp name e v,
  run fuel (ctx_set_pc c cur) e = Ok v -> exist (ctx_set_pc c cur) (lower name) = false ->
  exists c', pass2_item fuel t (c, cur, out) (cp, ISet name e) = Ok (c', cur, out) /\
    forall name', lower name' = lower name -> get_set c' name' = Some (EConst v).
Proof. exact set_latest. Qed.
Theorem C10_set_again : forall fuel t c cur out cp name e v old,
  run fuel (ctx_set_pc c cur) e = Ok v -> lookup (lower name) (sets c) = Some old ->
  exists c', pass2_item fuel t (c, cur, out) (cp, ISet name e) = Ok (c', cur, out) /\
    forall name', lower name' = lower name -> get_set c' name' = Some (EConst v).
Proof. exact set_reassign. Qed.
Print Assumptions C10_set_again.

(** .def / .undef: the alias (any case) resolves to its register from the .def on, and to nothing
    after .undef; .undef of an unknown alias is an error naming the line; and an instruction that
    uses the alias is the instruction that uses the register (the encoder sees the same operand). *)
Theorem C10_def : forall fuel t c cur out cp alias reg r,
  reg_of_name reg = Some r -> exist (ctx_set_pc c cur) (lower alias) = false ->
  exists c', pass2_item fuel t (c, cur, out) (cp, IDef alias (EIdent reg)) = Ok (c', cur, out) /\
    forall a', lower a' = lower alias -> get_def c' a' = Some r.
Proof. exact def_scope. Qed.
Theorem C10_undef : forall fuel t c cur out cp alias,
  match pass2_item fuel t (c, cur, out) (cp, IUndef alias) with
  | Ok (c', _, _) => forall a', lower a' = lower alias -> get_def c' a' = None
  | Err l => l = Some (fst cp) /\ lookup (lower alias) (defs c) = None
  | _ => False
  end.
Proof. exact undef_scope. Qed.
(** ... and the aliases are independent of each other: giving a register a second name, or removing one name, changes the
    meaning of no OTHER name (two names for one register both stay valid; .undef of one leaves the other). *)
Theorem C10_def_keeps_others : forall fuel t c cur out cp alias reg c' cur' out' other,
  pass2_item fuel t (c, cur, out) (cp, IDef alias (EIdent reg)) = Ok (c', cur', out') ->
  str_eqb (lower other) (lower alias) = false -> get_def c' other = get_def c other.
Proof. exact def_keeps_others. Qed.
Theorem C10_undef_keeps_others : forall fuel t c cur out cp alias c' cur' out' other,
  pass2_item fuel t (c, cur, out) (cp, IUndef alias) = Ok (c', cur', out') ->
  str_eqb (lower other) (lower alias) = false -> get_def c' other = get_def c other.
Proof. exact undef_keeps_others. Qed.
(** .set / .def / .undef act the same in whatever segment they are written: pass 2 walks the items of every segment - data
    segments included - and the three directives do not look at the segment type. *)
Theorem C10_symbol_directives_in_every_segment : forall fuel t t' st cp it,
  match it with ISet _ _ | IDef _ _ | IUndef _ => True | _ => False end ->
  pass2_item fuel t st (cp, it) = pass2_item fuel t' st (cp, it).
Proof. intros fuel t t' [[c cur] out] cp it H. destruct it; try contradiction; reflexivity. Qed.
Theorem C10_alias_is_register : forall fuel cx name n,
  get_def cx name = Some n -> run fuel cx (EIdent name) = Err None ->
  view_of fuel cx (OE (EIdent name)) = view_of fuel cx (OR8 n).
Proof. intros. rewrite (view_alias fuel cx name n) by assumption. rewrite view_reg. reflexivity. Qed.
Print Assumptions C10_alias_is_register.

(** (7) AN .equ IS ITS DEFINITION.  The directive stores the expression as written ([C10_equ_stored]); every reference evaluates
    that expression afresh in the context of the reference - the location counter and the .set variables it mentions are read
    there and then, nothing is cached ([C10_equ_evaluated_at_use]). *)
Theorem C10_equ_stored : forall c name e, get_equ (ctx_set_equ c name e) name = Some e.
Proof. intros. unfold get_equ, ctx_set_equ. cbn [equs]. apply lookup_insert_same. Qed.
Theorem C10_equ_evaluated_at_use : forall fuel c n e,
  get_expr c n = Some e -> (forall z, e <> EConst z) ->
  run (S fuel) c (EIdent n) = run_n fuel 1 c e.
Proof.
  intros fuel c n e H Hn. unfold run. cbn [run_n]. rewrite H.
  destruct e; try reflexivity. exfalso. eapply Hn. reflexivity.
Qed.

(** (8) A LABEL IN FRONT OF A DIRECTIVE is entered before the directive acts: whatever the directive does to the location
    (.org, a segment switch, an .include that contributes code), the label is the location of its own line (its value: C02_label). *)
Require Import AvraV.Model.Lines AvraV.Proofs.CondProofs.
Theorem C10_label_before_directive : forall fuel inc ln lab d ops st sk,
  parse_line (snd ln) = Some (DirLine (Some lab) d ops) -> (d <> DElIf \/ sk = true) ->
  line_step fuel inc ln sk st =
  directive_parse fuel inc d ops (push_item st ((fst ln + 1)%N, 1%N) (ILabel lab)) (fst ln + 1)%N.
Proof.
  intros fuel inc ln lab d ops st sk H Hd. unfold line_step. rewrite H. cbn [label_item].
  destruct d; try reflexivity. destruct sk; [reflexivity|]. destruct Hd as [Hd|Hd]; congruence.
Qed.
Print Assumptions C10_label_before_directive.

Definition code_of (src : string) : option (list N) :=
  match build_str 200 (list_ascii_of_string src) with Ok b => Some (b_code b) | _ => None end.
Definition nl := String (Ascii.ascii_of_N 10) EmptyString.
Example C10_examples :
  code_of (".set v = 1" ++ nl ++ " .dw v" ++ nl ++ ".set V = v + 1" ++ nl ++ " .dw v" ++ nl) = Some [1; 0; 2; 0]%N /\
  code_of (".def Tmp = r16" ++ nl ++ ".undef TMP" ++ nl ++ " mov tmp, r1" ++ nl) = None /\
  code_of (" .dw fwd" ++ nl ++ "nop" ++ nl ++ "Fwd: nop" ++ nl) = Some [2; 0; 0; 0; 0; 0]%N /\
  code_of (" .dw nowhere" ++ nl) = None /\ code_of ("a: nop" ++ nl ++ "A: nop" ++ nl) = None /\
  code_of (".def Tmp = r16" ++ nl ++ " mov TMP, r1" ++ nl) = code_of (" mov r16, r1" ++ nl).
Proof. vm_compute. repeat split; reflexivity. Qed.
