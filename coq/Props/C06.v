(** C06 - data directives emit exactly the bytes written (examples; theorems added with Proofs/DataProofs.v). *)
From Coq Require Import List ZArith NArith String.
Import ListNotations.
Require Import AvraV.Model.Base AvraV.Model.Ast AvraV.Model.Passes.
Definition images (src : string) : option (list N * list N) :=
  match build_str 200 (list_ascii_of_string src) with Ok b => Some (b_code b, b_eeprom b) | _ => None end.
Definition nl := String (Ascii.ascii_of_N 10) EmptyString.
Example C06_examples :
  images (".db 1, ""ab""" ++ nl ++ ".dw -2" ++ nl) = Some ([1; 97; 98; 0; 254; 255], [])%N /\
  images (".eseg" ++ nl ++ ".db 1" ++ nl ++ ".byte 2" ++ nl ++ ".dd 0x01020304" ++ nl) = Some ([], [1; 0; 0; 4; 3; 2; 1])%N /\
  images (".db 256" ++ nl) = None /\ images (".dw ""ab""" ++ nl) = None /\ images (".dseg" ++ nl ++ ".db 1" ++ nl) = None.
Proof. vm_compute. repeat split; reflexivity. Qed.
