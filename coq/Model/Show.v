(** S-expression rendering of the abstract syntax, for comparing parse results with the
    implementation's (harness/src/sexp.rs prints the same format from the real enums). *)
Require Import AvraV.Model.Base AvraV.Model.Ast.
Open Scope N_scope.

Fixpoint pos_digits (fuel : nat) (n : N) (acc : str) : str :=
  match fuel with
  | O => acc
  | S f => let d := ascii_of_N (48 + n mod 10) in
           if n <? 10 then d :: acc else pos_digits f (n / 10) (d :: acc)
  end.
Definition show_N (n : N) : str := pos_digits 80 n [].
Definition show_Z (z : Z) : str :=
  match z with Z0 => lit "0" | Zpos p => show_N (Npos p) | Zneg p => lit "-" ++ show_N (Npos p) end%list.

Definition binop_tok (o : binop) : string :=
  match o with
  | BAdd => "+" | BSub => "-" | BMul => "*" | BDiv => "/" | BRem => "%" | BAnd => "&" | BXor => "^" | BOr => "|"
  | BShl => "<<" | BShr => ">>" | BLt => "<" | BLe => "<=" | BGt => ">" | BGe => ">=" | BEq => "==" | BNe => "!="
  | BLAnd => "&&" | BLOr => "||" end.
Definition unop_tok (o : unop) : string := match o with UMinus => "-" | UBitNot => "~" | ULogNot => "!" end.

Fixpoint show_expr (e : expr) : str :=
  (match e with
   | EIdent n => lit "(id " ++ n ++ lit ")"
   | EConst z => lit "(c " ++ show_Z z ++ lit ")"
   | EFunc f a => lit "(f " ++ show_expr f ++ lit " " ++ show_expr a ++ lit ")"
   | EBin l o r => lit "(b " ++ lit (binop_tok o) ++ lit " " ++ show_expr l ++ lit " " ++ show_expr r ++ lit ")"
   | EUn o x => lit "(u " ++ lit (unop_tok o) ++ lit " " ++ show_expr x ++ lit ")"
   end)%list.
