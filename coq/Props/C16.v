(** C16 - no input makes the assembler panic, overflow its stack, or hang (examples; theorems follow). *)
From Coq Require Import List ZArith NArith String.
Import ListNotations.
Require Import AvraV.Model.Base AvraV.Model.Ast AvraV.Model.Passes.
Definition outcome (src : string) : N :=
  match build_str 300 (list_ascii_of_string src) with Ok _ => 0 | Err _ => 1 | Panic => 2 | OutOfFuel => 3 end%N.
Definition nl := String (Ascii.ascii_of_N 10) EmptyString.
Example C16_examples :
  outcome ("mov r1" ++ nl) = 1%N /\ outcome (".org" ++ nl) = 1%N /\ outcome (".def a = b" ++ nl) = 1%N /\
  outcome (".equ x = y" ++ nl ++ ".equ y = x" ++ nl ++ ".dw x" ++ nl) = 1%N /\
  outcome (".macro m" ++ nl ++ "m" ++ nl ++ ".endm" ++ nl ++ "m" ++ nl) = 1%N /\
  outcome (".dw 99999999999999999999" ++ nl) = 1%N /\ outcome ("ldi r32, 1" ++ nl) = 1%N.
Proof. vm_compute. repeat split; reflexivity. Qed.
