(** C18 - the command-line tool writes what the library built, or fails visibly.
    PARTIAL: operating-system behaviour enters through the oracle [can_create]; signals, a full disk,
    races with other processes are outside the model.  The binary itself is exercised by ./check C18. *)
From Coq Require Import List ZArith NArith String Bool.
Import ListNotations.
Require Import AvraV.Model.Base AvraV.Model.Ast AvraV.Model.Passes AvraV.Model.Hex AvraV.Model.Cli.
Require Import AvraV.Spec.HexReader AvraV.Proofs.HexProofs.
Open Scope N_scope.

(** the build failed (error value, or the library panicked): no file is created or altered and the
    exit status is non-zero *)
Theorem C18_build_fails : forall o built can_create,
  is_ok built = false -> cli_main o built can_create = {| files := []; failed := true |}.
Proof. intros o built cc H. destruct built; try reflexivity. discriminate. Qed.
Print Assumptions C18_build_fails.

(** the build succeeded and the output locations can be created: exactly the non-empty images are
    written, flash to the -o path or <dir>/<stem>.hex, EEPROM to the -e path or <dir>/<stem>.eep.hex,
    each file decodes (independent reader, C07) to exactly that image, exit status 0 *)
Theorem C18_success : forall o b can_create,
  (forall p, can_create p = true) ->
  Forall (fun x => x < 256) (b_code b) -> Forall (fun x => x < 256) (b_eeprom b) ->
  N.of_nat (length (b_code b)) + 16 <= 4294967296 -> N.of_nat (length (b_eeprom b)) + 16 <= 4294967296 ->
  let r := cli_main o (Ok b) can_create in
  failed r = false /\
  files r = (match b_code b with [] => [] | img => [(code_path o, write img)] end ++
             match b_eeprom b with [] => [] | img => [(eeprom_path o, write img)] end)%list /\
  (forall p content, In (p, content) (files r) ->
     (p = code_path o /\ read_file content = Some (addrs 0 (b_code b))) \/
     (p = eeprom_path o /\ read_file content = Some (addrs 0 (b_eeprom b)))).
Proof.
  intros o b cc Hcc Hc He Lc Le r. subst r. unfold cli_main. rewrite !Hcc.
  split; [destruct (b_code b), (b_eeprom b); reflexivity|].
  split; [destruct (b_code b), (b_eeprom b); reflexivity|].
  intros p content Hin. cbn [files] in Hin. apply in_app_or in Hin. destruct Hin as [Hin | Hin].
  - left. destruct (b_code b) as [|x l] eqn:E; [destruct Hin|]. cbn [fst In] in Hin. destruct Hin as [Hin | []].
    injection Hin as <- <-. split; [reflexivity|]. apply roundtrip; assumption.
  - right. destruct (b_eeprom b) as [|x l] eqn:E; [destruct Hin|]. cbn [fst In] in Hin. destruct Hin as [Hin | []].
    injection Hin as <- <-. split; [reflexivity|]. apply roundtrip; assumption.
Qed.
Print Assumptions C18_success.

(** an output file that is needed cannot be created: the exit status is non-zero *)
Theorem C18_unwritable : forall o b can_create,
  (b_code b <> [] /\ can_create (code_path o) = false) \/ (b_eeprom b <> [] /\ can_create (eeprom_path o) = false) ->
  failed (cli_main o (Ok b) can_create) = true.
Proof.
  intros o b cc [[H1 H2] | [H1 H2]]; unfold cli_main; cbn [failed].
  - destruct (b_code b); [congruence|]. rewrite H2. reflexivity.
  - destruct (b_eeprom b); [congruence|]. rewrite H2. apply orb_true_r.
Qed.
Print Assumptions C18_unwritable.

Example C18_paths :
  default_out (lit "dir/sub/prog.asm") ".hex" = lit "dir/sub/prog.hex" /\
  default_out (lit "prog.asm") ".eep.hex" = lit "prog.eep.hex" /\
  default_out (lit "/abs/a.b.asm") ".hex" = lit "/abs/a.b.hex" /\
  default_out (lit "noext") ".hex" = lit "noext.hex" /\
  default_out (lit "/top.asm") ".hex" = lit "/top.hex".
Proof. vm_compute. repeat split; reflexivity. Qed.
