//! Tables read out of the real library (tie A of DESIGN.md 2.4): nothing here is re-typed by
//! hand, every figure comes from executing the code of the working tree.
use avra_lib::device::{Device, DEVICES};

fn device_line(name: &str, d: &Device) -> String {
    let opts: Vec<String> = d.disable_opts.iter().map(|o| format!("{:?}", o)).collect();
    format!(
        "{} {} {} {} {} {}",
        name,
        d.flash_size,
        d.ram_start,
        d.ram_size,
        d.eeprom_size,
        if opts.is_empty() { "-".to_string() } else { opts.join(",") }
    )
}

/// one line per device, sorted by name: name flash_words ram_start ram_size eeprom opts
/// first line: the default device (Device::new(0)) under the name "-"
pub fn devices() -> i32 {
    println!("{}", device_line("-", &Device::new(0)));
    let mut names: Vec<&&str> = DEVICES.keys().collect();
    names.sort();
    for n in names {
        println!("{}", device_line(n, &DEVICES[*n]));
    }
    0
}

use avra_lib::context::{CommonContext, Context};
use avra_lib::document::document;
use avra_lib::instruction::operation::Operation;

pub fn ctx_for(avr8l: bool) -> CommonContext {
    let c = CommonContext::new();
    if avr8l {
        let d = DEVICES
            .values()
            .find(|d| d.is_avr8l())
            .expect("no reduced-core device in the table")
            .clone();
        c.device.replace(Some(d));
    }
    c
}

/// stdin: one mnemonic spelling per line.
/// stdout: spelling <TAB> Debug of the parsed Operation <TAB> len opcode (default core) <TAB> len opcode
/// (reduced core) <TAB> number() of the branch type / flag, or -
pub fn ops() -> i32 {
    let full = ctx_for(false);
    let red = ctx_for(true);
    for name in crate::util::read_stdin().lines() {
        let r = std::panic::catch_unwind(|| document::operation(name));
        match r {
            Ok(Ok(op)) => {
                let a = op.info(&full as &dyn Context);
                let b = op.info(&red as &dyn Context);
                let sub = match &op {
                    Operation::Br(t) => format!("{}", t.number()),
                    Operation::Se(f) | Operation::Cl(f) => format!("{}", f.number()),
                    _ => "-".to_string(),
                };
                println!("{}\t{:?}\t{} {}\t{} {}\t{}", name, op, a.len, a.op_code, b.len, b.op_code, sub);
            }
            Ok(Err(_)) => println!("{}\tNOPARSE", name),
            Err(_) => println!("{}\tPANIC", name),
        }
    }
    0
}

/// stdin: one directive spelling per line (with its leading '.' or '#').
/// stdout: spelling <TAB> Debug of the parsed Directive | NOPARSE | PANIC
pub fn dirs() -> i32 {
    for name in crate::util::read_stdin().lines() {
        let r = std::panic::catch_unwind(|| document::directive(name));
        match r {
            Ok(Ok(d)) => println!("{}\t{:?}", name, d),
            Ok(Err(_)) => println!("{}\tNOPARSE", name),
            Err(_) => println!("{}\tPANIC", name),
        }
    }
    0
}
